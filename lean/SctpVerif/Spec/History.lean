/-!
History relations used both by the executable predicates (on implementation logs) and by the
statements of the end-to-end theorems: a read history against a write history.
-/
namespace History

/-- what the API shows of a message: payload protocol identifier, length, payload hash -/
structure Msg where
  ppi : Nat
  len : Nat
  hash : Nat
  deriving Repr, BEq, DecidableEq, Inhabited

/-- `rs` is a prefix of `ws` : nothing lost before something delivered, nothing duplicated,
reordered, merged or altered (C01 safety). -/
def isPrefixOf {α} [BEq α] : List α → List α → Bool
  | [], _ => true
  | _ :: _, [] => false
  | r :: rs, w :: ws => r == w && isPrefixOf rs ws

/-- `rs` is a subsequence of `ws` (order kept, each written message used at most once). -/
def isSubsequenceOf {α} [BEq α] : List α → List α → Bool
  | [], _ => true
  | _ :: _, [] => false
  | r :: rs, w :: ws => if r == w then isSubsequenceOf rs ws else isSubsequenceOf (r :: rs) ws

/-- every element of `rs` matches a distinct element of `ws` (at most once, any order). -/
def isSubMultiset {α} [BEq α] : List α → List α → Bool
  | [], _ => true
  | r :: rs, ws => if ws.contains r then isSubMultiset rs (ws.erase r) else false

def describeDiff (rs ws : List Msg) : String :=
  let rec go (i : Nat) : List Msg → List Msg → String
    | [], _ => s!"reads={rs.length} writes={ws.length}"
    | r :: _, [] => s!"read #{i} (len {r.len}, hash {r.hash}) has no corresponding write"
    | r :: rs', w :: ws' =>
      if r == w then go (i+1) rs' ws'
      else s!"read #{i} is (ppi {r.ppi}, len {r.len}, hash {r.hash}) but write #{i} was (ppi {w.ppi}, len {w.len}, hash {w.hash})"
  go 0 rs ws

end History
