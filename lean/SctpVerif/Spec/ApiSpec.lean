import SctpVerif.Spec.PolicySpec
/-!
Executable predicates P_C18 / P_C06 (API half) evaluated on the IMPLEMENTATION's own outputs of the direct-drive
stream-API harness (`sa …` lines, go/harness/sapi_test.go). Independent of the L0 model `Sapi`.

[C18]
* W-NOEFFECT  a write that is rejected or fails at once (`0 <error>`), an empty write (`0 nil`), a call that was not
  issued (`busy`, `nostream`) leaves the state line — per-stream SSN / ordered MID / unordered MID / buffered amount /
  state, the pending queue, `writePending`, the window figures — exactly as it was;
* W-ONEID     an accepted write of n > 0 bytes appends ⌈n/maxPayload⌉ chunks of ONE message to the pending queue (same
  stream and SSN/MID, FSN 0,1,…, first has B, last has E, none in between, lengths 1..maxPayload adding up to n), advances
  exactly one of the three counters by one (which one: interleaving / U flag) and the buffered amount by n;
* W-ROLLBACK  a parked write that returns an error has its stream's three counters back at what they were before the call;
* W-GATE      blocking mode: when a write returns `n nil` the pending queue holds no DATA of an earlier write
  (immediately: nothing but end-of-stream markers was queued before it; from the parked state: every DATA chunk queued
  afterwards is its own), and `writePending` is up;
* R-SHORT     a read that reports a short buffer leaves the read-side state of its stream (read error, readability,
  reassembly queue) as it was, and the next read of
  that stream with a buffer of at least the reported size (nothing pushed in between) returns exactly that many bytes;
* R-DEADLINE  a read that returns the deadline error leaves the reassembly state of its stream as it was.

[C06]
* the retransmission-policy predicate `PolicySpec.onData` on every DATA / I-DATA chunk of every gather (limit N: at most
  N+1 transmissions; lifetime: at most one transmission after expiry; the D14 class keeps its own signature, and a
  failure on a chunk that the previous state line already listed as abandoned is class D21); DCEP chunks
  are exempt by their own PPI; without FORWARD-TSN support (`useFwd = 0`) every stream is reliable; chunks first sent before a `setrel` of their stream are exempt afterwards;
* DCEP-ORDERED   no chunk with PPI 50 carries the U flag (in the pending queue or on the wire);
* DCEP-RELIABLE  no chunk with PPI 50 is ever reported abandoned.
-/
namespace ApiSpec

def nat! (s : String) : Nat := s.toNat?.getD 0

/-- per-stream figures of a state line -/
structure SObs where
  sid : Nat
  ssn : Nat
  omid : Nat
  umid : Nat
  buf : Nat
  state : Nat
  deriving Inhabited, BEq

/-- one pending-queue entry of a state line -/
structure PObs where
  sid : Nat
  key : Nat
  fsn : Nat
  flags : String
  len : Nat
  ppi : Nat
  deriving Inhabited, BEq

structure Obs where
  toks : List String := []
  wp : Bool := false
  streams : List SObs := []
  pend : List PObs := []
  ab : List Nat := []
  deriving Inhabited

def field (toks : List String) (k : String) : String :=
  match toks.find? (·.startsWith (k ++ "=")) with
  | some t => (t.drop (k.length + 1)).toString
  | none => ""

def parseObs (toks : List String) : Obs :=
  let mid := ((toks.dropWhile (· != "|")).drop 1).takeWhile (· != "|")
  let streams := mid.filterMap fun t => match t.splitOn ":" with
    | [a, b, c, d, e, f] => some { sid := nat! a, ssn := nat! b, omid := nat! c, umid := nat! d, buf := nat! e, state := nat! f : SObs }
    | _ => none
  let p := field toks "pend"
  let pend := if p == "-" || p == "" then [] else (p.splitOn ",").filterMap fun t => match t.splitOn "/" with
    | [a, b, c, d, e, f] => some { sid := nat! a, key := nat! b, fsn := nat! c, flags := d, len := nat! e, ppi := nat! f : PObs }
    | _ => none
  let a := field toks "ab"
  { toks := toks, wp := field toks "wp" == "1", streams := streams, pend := pend,
    ab := if a == "-" || a == "" then [] else (a.splitOn ",").map nat! }

structure Parked where
  wid : Nat
  sid : Nat
  before : SObs          -- the stream's figures before the call
  len : Nat
  ppi : Nat
  deriving Inhabited

structure St where
  il : Bool := false
  blocking : Bool := false
  pr : Bool := true                                       -- FORWARD-TSN was negotiated: partial reliability is in force
  mp : Nat := 0
  obs : Obs := {}
  haveObs : Bool := false
  pending : Option (List String × List String) := none    -- op waiting for its state line (op tokens, impl tokens)
  rets : List (Nat × List String) := []                   -- `wret` results waiting for that state line
  parked : List Parked := []
  nextWid : Nat := 0
  -- C06
  p : PolicySpec.St := {}
  policy : List (Nat × Nat × Nat) := []                   -- sid ↦ (relType, relVal)
  exempt : List Nat := []                                  -- TSNs first sent under an earlier policy of their stream
  sent : List (Nat × Nat × Nat) := []                      -- tsn ↦ (sid, ppi) of chunks seen on the wire
  nowUs : Nat := 0
  lastGather : List String := []
  -- read side
  robs : List (Nat × String) := []                         -- sid ↦ its token of the last `rst` line
  rpending : Option (List String × List String) := none
  rrets : List (List String) := []
  shortExp : List (Nat × Nat) := []                        -- sid ↦ size a short read reported
  deriving Inhabited

def streamOf (o : Obs) (sid : Nat) : Option SObs := o.streams.find? (·.sid == sid)

def ceilDiv (n d : Nat) : Nat := if d == 0 then 0 else (n + d - 1) / d

/-- the new entries must be the fragments of ONE message of `n` bytes on stream `sid` -/
def checkFragments (st : St) (sid n : Nat) (news : List PObs) : Option String :=
  match news with
  | [] => some "an accepted write queued nothing"
  | f :: _ =>
    let k := news.length
    if k != ceilDiv n st.mp then some s!"an accepted write of {n} bytes queued {k} chunks, expected {ceilDiv n st.mp} (maxPayload {st.mp})"
    else if news.any (fun e => e.sid != sid || e.key != f.key || e.ppi != f.ppi) then some "the chunks of one write differ in stream / SSN-MID / PPI"
    else if (news.zipIdx.any fun (e, i) => e.fsn != i) then some "fragment sequence numbers are not 0,1,2,…"
    else if (news.zipIdx.any fun (e, i) => (e.flags.contains 'B') != (i == 0) || (e.flags.contains 'E') != (i + 1 == k)) then
      some "B/E flags: the first fragment must carry B, the last E, none in between"
    else if news.any (fun e => e.len == 0 || e.len > st.mp) then some "a fragment is empty or larger than maxPayload"
    else if (news.map (·.len)).sum != n then some s!"fragment lengths add up to {(news.map (·.len)).sum}, not {n}"
    else if news.any (fun e => e.flags.contains 'U' != f.flags.contains 'U') then some "U flag differs between fragments"
    else none

/-- exactly one counter of the stream advanced by one -/
def checkCounters (st : St) (b a : SObs) (unordered : Bool) : Option String :=
  let exp : SObs :=
    if st.il then (if unordered then { b with umid := (b.umid + 1) % 2^32 } else { b with omid := (b.omid + 1) % 2^32 })
    else if unordered then b else { b with ssn := (b.ssn + 1) % 2^16 }
  if (a.ssn, a.omid, a.umid) != (exp.ssn, exp.omid, exp.umid) then
    some s!"counters (ssn, ordered MID, unordered MID) went from ({b.ssn},{b.omid},{b.umid}) to ({a.ssn},{a.omid},{a.umid}), expected ({exp.ssn},{exp.omid},{exp.umid})"
  else none

def dataEntries (l : List PObs) : List PObs := l.filter (·.len != 0)

/-- a write op and the state lines around it -/
def checkWrite (st : St) (op impl : List String) (pre post : Obs) : St × List String :=
  match op with
  | "write" :: sid :: len :: ppi :: _ =>
    let sid := nat! sid; let n := nat! len; let ppi := nat! ppi
    match impl with
    | ["blocked", wid] =>
      match streamOf pre sid with
      | some b => ({ st with parked := st.parked ++ [{ wid := nat! wid, sid := sid, before := b, len := n, ppi := ppi }] }, [])
      | none => (st, ["[C18] a write parked on a stream the state line does not know"])
    | [r, e] =>
      if r == "0" || e != "nil" then
        -- rejected / failed / empty
        if pre.toks != post.toks then
          (st, [s!"[C18] W-NOEFFECT: write of {n} bytes on stream {sid} returned ({r}, {e}) but changed the state: before `{" ".intercalate pre.toks}` after `{" ".intercalate post.toks}`"])
        else (st, [])
      else
        let news := post.pend.drop pre.pend.length
        let v1 := if nat! r != n then [s!"[C18] W-ONEID: write of {n} bytes returned n={r}"] else []
        let v2 := if post.pend.take pre.pend.length != pre.pend then ["[C18] W-ONEID: an accepted write disturbed chunks already queued"] else []
        let v3 := (checkFragments st sid n news).toList.map ("[C18] W-ONEID: " ++ ·)
        let u := news.any (·.flags.contains 'U')
        let v4 := match streamOf pre sid, streamOf post sid with
          | some b, some a => ((checkCounters st b a u).toList.map ("[C18] W-ONEID: " ++ ·)) ++
              (if a.buf != b.buf + n then [s!"[C18] W-ONEID: buffered amount went from {b.buf} to {a.buf} for a write of {n} bytes"] else []) ++
              (if a.state != b.state then ["[C18] W-ONEID: a write changed the stream state"] else [])
          | _, _ => ["[C18] W-ONEID: stream missing from the state line"]
        let others := pre.streams.filter (·.sid != sid) != post.streams.filter (·.sid != sid)
        let v5 := if others then ["[C18] W-ONEID: a write changed another stream's figures"] else []
        let v6 := if st.blocking then
            (if (dataEntries pre.pend).length != 0 then [s!"[C18] W-GATE: blocking write returned while {(dataEntries pre.pend).length} DATA chunk(s) of earlier writes were still pending"] else []) ++
            (if !post.wp then ["[C18] W-GATE: writePending is down right after an accepted blocking write"] else [])
          else []
        let v7 := if ppi == 50 && u then ["[C06] DCEP-ORDERED: a DCEP message was queued with the U flag"] else []
        (st, v1 ++ v2 ++ v3 ++ v4 ++ v5 ++ v6 ++ v7)
    | _ =>
      -- busy / nostream: the call was not issued
      if pre.toks != post.toks then (st, ["[C18] W-NOEFFECT: a call that was not issued changed the state"]) else (st, [])
  | _ => (st, [])

/-- a parked write returned (`wret`): checked on the state line after the op that released it -/
def checkRet (st : St) (wid : Nat) (impl : List String) (post : Obs) : St × List String :=
  match st.parked.find? (·.wid == wid) with
  | none => (st, [s!"[C18] a write that was never parked returned (id {wid})"])
  | some pk =>
    let st' := { st with parked := st.parked.filter (·.wid != wid) }
    match impl, streamOf post pk.sid with
    | [r, e], some a =>
      if r == "0" || e != "nil" then
        if (a.ssn, a.omid, a.umid) != (pk.before.ssn, pk.before.omid, pk.before.umid) then
          (st', [s!"[C18] W-ROLLBACK: parked write on stream {pk.sid} failed ({e}) but the counters are ({a.ssn},{a.omid},{a.umid}), before the call ({pk.before.ssn},{pk.before.omid},{pk.before.umid})"])
        else (st', [])
      else
        let data := dataEntries post.pend
        let k := ceilDiv pk.len st.mp
        let own := data.drop (data.length - k)
        let v1 := if data.length != k then
            [s!"[C18] W-GATE: a parked blocking write returned success while {data.length - k} DATA chunk(s) of other writes were pending"] else []
        let v2 := (checkFragments st pk.sid pk.len own).toList.map ("[C18] W-ONEID (released write): " ++ ·)
        let u := own.any (·.flags.contains 'U')
        let v3 := (checkCounters st pk.before a u).toList.map ("[C18] W-ONEID (released write): " ++ ·)
        let v4 := if !post.wp then ["[C18] W-GATE: writePending is down right after a released blocking write"] else []
        let v5 := if pk.ppi == 50 && u then ["[C06] DCEP-ORDERED: a DCEP message was queued with the U flag"] else []
        (st', v1 ++ v2 ++ v3 ++ v4 ++ v5)
    | _, _ => (st', ["[C18] unparsable wret / stream missing"])

/-- DATA chunks of a gather line: (tsn, sid, flags) -/
def dataChunks (impl : List String) : List (Nat × Nat × String) :=
  impl.filterMap fun tok => match tok.splitOn ":" with
    | ["DATA", tsn, si, _, _, fl] => some (nat! tsn, nat! si, fl)
    | ["IDATA", tsn, si, _, _, _, fl] => some (nat! tsn, nat! si, fl)
    | _ => none

/-- the `tx` line of a gather, with that gather's chunk summaries -/
def checkTx (st : St) (tx : List String) : St × List String := Id.run do
  let mut st := st
  let mut out : List String := []
  let chunks := dataChunks st.lastGather
  for tok in tx do
    if let [tsn, _nSent, ppi, ab] := tok.splitOn ":" then
      let tsn := nat! tsn; let ppi := nat! ppi
      match chunks.find? (·.1 == tsn) with
      | none => out := out ++ [s!"[C06] tx line names tsn {tsn} that is not in the gather"]
      | some (_, si, fl) =>
        if !(st.sent.any (·.1 == tsn)) then st := { st with sent := (tsn, si, ppi) :: st.sent }
        if ppi == 50 && fl.contains 'U' then out := out ++ [s!"[C06] DCEP-ORDERED: DCEP chunk tsn={tsn} on the wire with the U flag"]
        if ppi == 50 && ab == "1" then out := out ++ [s!"[C06] DCEP-RELIABLE: DCEP chunk tsn={tsn} is abandoned"]
        let first := !(st.p.tx.contains (0, tsn))
        if first || !(st.exempt.contains tsn) then
          let pol := if ppi == 50 || !st.pr then (0, 0) else match st.policy.find? (·.1 == si) with
            | some (_, rt, rv) => (rt, rv)
            | none => (0, 0)
          let (p, e) := PolicySpec.onData st.p 0 st.nowUs tsn si fl pol
          st := { st with p := p }
          -- class D21 (fixed by 6ddfdda: must not come back): the chunk was ALREADY abandoned (previous state line) when this gather put it on the wire again
          let e := e.map fun m => if !(m.splitOn "[D14:").tail.isEmpty || !st.obs.ab.contains tsn then m
            else m ++ " [D21: already abandoned when it was retransmitted]"
          out := out ++ e.toList
  return (st, out)

def setKey (l : List (Nat × String)) (k : Nat) (v : String) : List (Nat × String) := (k, v) :: l.filter (·.1 != k)

def parseRst (impl : List String) : List (Nat × String) :=
  impl.filterMap fun t => match t.splitOn ":" with
    | sid :: _ => some (nat! sid, t)
    | _ => none

/-- reassembly part (last field) of a stream's `rst` token -/
def rqOf (t : String) : String := (t.splitOn ":").getLast?.getD ""

/-- a stream's `rst` token without the "read-deadline goroutine armed" flag (the deferred function of `ReadSCTP` cancels a
goroutine that can no longer matter once `readErr` is set: not a message-level effect) -/
def noTimer (t : String) : String :=
  match t.splitOn ":" with
  | [sid, e, _armed, readable, rq] => ":".intercalate [sid, e, readable, rq]
  | _ => t

/-- one read result (`read` or `rret`) against the read-side state before / after -/
def checkRead (st : St) (sid buflen : Nat) (res : List String) (pre post : List (Nat × String)) : St × List String :=
  match res with
  | [n, _ppi, e, _h] =>
    let n := nat! n
    let before := (pre.find? (·.1 == sid)).map (·.2)
    let after := (post.find? (·.1 == sid)).map (·.2)
    let exp := st.shortExp.find? (·.1 == sid)
    let st' := { st with shortExp := st.shortExp.filter (·.1 != sid) }
    if e == "short" then
      let v := if before.map noTimer != after.map noTimer then [s!"[C18] R-SHORT: a short-buffer read changed the read side of stream {sid}: `{before.getD "?"}` → `{after.getD "?"}`"] else []
      ({ st' with shortExp := (sid, n) :: st'.shortExp }, v)
    else if e == "deadline" then
      let v := if before.map rqOf != after.map rqOf then [s!"[C18] R-DEADLINE: a read that hit its deadline changed the reassembly state of stream {sid}"] else []
      ({ st' with shortExp := st.shortExp }, v)
    else if e == "nil" then
      match exp with
      | some (_, k) =>
        if buflen ≥ k && n != k then (st', [s!"[C18] R-SHORT: a short read reported a message of {k} bytes on stream {sid}; the next read with a {buflen}-byte buffer returned {n} bytes"])
        else (st', [])
      | none => (st', [])
    else ({ st' with shortExp := st.shortExp }, [])
  | _ => (st, [])

def step (st : St) (op impl : List String) : St × List String :=
  match op with
  | "new" :: il :: blocking :: _mms :: _mtu :: useFwd :: _ =>
    match impl with
    | [_, mp, _] => ({ il := il == "1", blocking := blocking == "1", pr := useFwd == "1", mp := nat! mp }, [])
    | _ => ({}, ["[C18] unparsable `sa new` result"])
  | ["open", sid, _o, rt, rv] => ({ st with policy := (nat! sid, nat! rt, nat! rv) :: st.policy.filter (·.1 != nat! sid), pending := some (op, impl) }, [])
  | ["setrel", sid, _o, rt, rv] =>
    let sid := nat! sid
    ({ st with policy := (sid, nat! rt, nat! rv) :: st.policy.filter (·.1 != sid),
               exempt := (st.sent.filter (·.2.1 == sid)).map (·.1) ++ st.exempt, pending := some (op, impl) }, [])
  | ["bytes", sid] =>
    (st, if impl.head? == some "ok" then [] else
      [s!"[C01,C06,C18] stream {sid}: the chunks queued by an accepted write do not carry, in order, the bytes of the written buffer ({" ".intercalate impl})"])
  | "ora" :: _ => (st, [])
  | ["wret", wid] => ({ st with rets := st.rets ++ [(nat! wid, impl)] }, [])
  | ["rret", _] => ({ st with rrets := st.rrets ++ [impl] }, [])
  | ["tx"] => checkTx st impl
  | ["st"] =>
    let post := parseObs impl
    let pre := if st.haveObs then st.obs else post
    let (st1, v1) := match st.pending with
      | some (o, i) => checkWrite st o i pre post
      | none => (st, [])
    let (st2, v2) := st.rets.foldl (fun (acc : St × List String) (w : Nat × List String) =>
        let (s', v) := checkRet acc.1 w.1 w.2 post; (s', acc.2 ++ v)) (st1, [])
    let v3 := post.ab.filterMap fun tsn => match st2.sent.find? (·.1 == tsn) with
      | some (_, _, 50) => some s!"[C06] DCEP-RELIABLE: DCEP chunk tsn={tsn} is abandoned"
      | _ => none
    let v4 := post.pend.filterMap fun e => if e.ppi == 50 && e.flags.contains 'U' then some s!"[C06] DCEP-ORDERED: a DCEP chunk of stream {e.sid} is queued with the U flag" else none
    ({ st2 with obs := post, haveObs := true, pending := none, rets := [] }, v1 ++ v2 ++ v3 ++ v4)
  | ["rst"] =>
    let post := parseRst impl
    let pre := st.robs
    -- results that arrived since the last `rst`: the op's own (a `read`) and released readers
    let (st1, v1) := match st.rpending with
      | some (["read", sid, n], i) => checkRead st (nat! sid) (nat! n) i pre post
      | _ => (st, [])
    let (st2, v2) := st.rrets.foldl (fun (acc : St × List String) (i : List String) =>
        -- a released reader: its stream is the one whose state changed or that had a parked reader; the deadline /
        -- short clauses need the stream id, which the harness does not repeat: check every stream's reassembly part
        match i with
        | [_, _, "deadline", _] =>
          if pre.map (fun x => (x.1, rqOf x.2)) != post.map (fun x => (x.1, rqOf x.2)) then
            (acc.1, acc.2 ++ ["[C18] R-DEADLINE: a parked read returned the deadline error and the reassembly state changed"])
          else acc
        | _ => acc) (st1, [])
    ({ st2 with robs := post, rpending := none, rrets := [] }, v1 ++ v2)
  | "gather" :: _ => ({ st with lastGather := impl, pending := some (op, impl) }, [])
  | ["tick", d] => ({ st with nowUs := st.nowUs + nat! d * 1000, pending := some (op, impl), rpending := some (op, impl) }, [])
  | "rpush" :: sid :: _ => ({ st with shortExp := st.shortExp.filter (·.1 != nat! sid), pending := some (op, impl), rpending := some (op, impl) }, [])
  | "read" :: _ => ({ st with pending := some (op, impl), rpending := some (op, impl) }, [])
  | _ => ({ st with pending := some (op, impl), rpending := some (op, impl) }, [])

end ApiSpec
