/-!
P_C16 at association level (sender half): the direct-drive harness runs every operation sequence
twice with the same choices — once from a TSN base in the middle of the number space, once from a
base just below 2^32. After normalising every TSN to its offset from the base the two logs must be
identical line by line: behaviour must not depend on absolute sequence numbers.
-/
namespace ShiftSpec

structure St where
  base : Nat := 0
  pair : Nat := 0
  ref : Array String := #[]
  idx : Nat := 0
  reported : Bool := false
  deriving Inhabited

def rel (base : Nat) (s : String) : String := toString ((s.toNat?.getD 0 + 2^32 - base) % 2^32)

def normTok (base : Nat) (t : String) : String :=
  if t.startsWith "cum=" then "cum=" ++ rel base (t.drop 4).toString
  else if t.startsWith "next=" then "next=" ++ rel base (t.drop 5).toString
  else if t.startsWith "rtx=" then
    let v := (t.drop 4).toString
    if v == "-" then t else "rtx=" ++ ",".intercalate ((v.splitOn ",").map (rel base))   -- oracle: TSNs marked for retransmission
  else if t.startsWith "other:" then (t.splitOn "TSN:").headD t   -- error texts quote absolute TSNs
  else match t.splitOn ":" with
    | "DATA" :: tsn :: rest => ":".intercalate ("DATA" :: rel base tsn :: rest)
    | "IDATA" :: tsn :: rest => ":".intercalate ("IDATA" :: rel base tsn :: rest)
    | "FWD" :: tsn :: rest => ":".intercalate ("FWD" :: rel base tsn :: rest)
    | "IFWD" :: tsn :: rest => ":".intercalate ("IFWD" :: rel base tsn :: rest)
    | _ => t

def normLine (base : Nat) (op impl : List String) : String :=
  let op' := match op with
    | "sack" :: cum :: rest => "sack" :: rel base cum :: rest
    | "new" :: a :: b :: c :: d :: _tsn :: rest => "new" :: a :: b :: c :: d :: rest.dropLast
    | _ => op
  " ".intercalate (op'.map (normTok base)) ++ " -> " ++ " ".intercalate (impl.map (normTok base))

/-- feed one `as` line; returns a violation when the shifted run differs from the reference run -/
def step (st : St) (op impl : List String) : St × Option String :=
  let st : St := match op with
    | "new" :: _ :: _ :: _ :: _ :: tsn :: rest =>
      let pair := (rest.getLast?.getD "0").toNat?.getD 0
      ({ base := tsn.toNat?.getD 0, pair := pair, ref := if pair == 0 then #[] else st.ref, idx := 0, reported := false } : St)
    | _ => st
  let line := normLine st.base op impl
  if st.pair == 0 then ({ st with ref := st.ref.push line }, none)
  else
    let want := st.ref[st.idx]?
    let st' := { st with idx := st.idx + 1 }
    if st.reported || want == some line then (st', none)
    else ({ st' with reported := true },
      some s!"[C16] the same operations started from a TSN base next to 2^32 behave differently (step {st.idx}): reference `{want.getD "<end>"}` shifted `{line}`")

end ShiftSpec

/-! ### receiver harness (`ar …`): the same normalisation for its tokens -/
namespace ShiftSpec

def arChunkTok (base : Nat) (c : String) : String :=
  match c.splitOn ":" with
  | ["SACK", cum, arw, gaps, dups] =>
    let d := if dups == "-" then dups else ",".intercalate ((dups.splitOn ",").map (rel base))
    ":".intercalate ["SACK", rel base cum, arw, gaps, d]
  | ["SHUTDOWN", cum] => "SHUTDOWN:" ++ rel base cum
  | "DATA" :: tsn :: rest => ":".intercalate ("DATA" :: rel base tsn :: rest)
  | "IDATA" :: tsn :: rest => ":".intercalate ("IDATA" :: rel base tsn :: rest)
  | "FWD" :: tsn :: rest => ":".intercalate ("FWD" :: rel base tsn :: rest)
  | "IFWD" :: tsn :: rest => ":".intercalate ("IFWD" :: rel base tsn :: rest)
  | _ => c

def arImplTok (base : Nat) (t : String) : String :=
  if t.startsWith "cum=" then "cum=" ++ rel base (t.drop 4).toString
  else "&".intercalate ((t.splitOn "&").map (arChunkTok base))

/-- TSN-carrying positions of the chunk specs inside `data …`, `fwd …`, `ifwd …`, `reset …`, `pkt … | …` -/
def arOpToks (base : Nat) : List String → List String
  | "data" :: tsn :: rest => "data" :: rel base tsn :: arOpToks base rest
  | "fwd" :: c :: rest => "fwd" :: rel base c :: arOpToks base rest
  | "ifwd" :: c :: rest => "ifwd" :: rel base c :: arOpToks base rest
  | "reset" :: rsn :: last :: rest => "reset" :: rsn :: rel base last :: arOpToks base rest
  | t :: rest => t :: arOpToks base rest
  | [] => []

def arNormLine (base : Nat) (op impl : List String) : String :=
  -- responses to several deferred resets completing at once leave in Go map order: packets compared as a multiset
  let impl := match op, impl with
    | ["gather"], ok :: pks => ok :: (pks.toArray.qsort (· < ·)).toList
    | _, _ => impl
  let op' := match op with
    | "new" :: rcv :: il :: _tsn :: rest => "new" :: rcv :: il :: rest.dropLast
    | _ => arOpToks base op
  " ".intercalate op' ++ " -> " ++ " ".intercalate (impl.map (arImplTok base))

/-- feed one `ar` line. Raw packets carry absolute TSNs inside their bytes (and bit flips of them are not
shifts): the comparison of a pair stops at the first `raw` op. -/
def arStep (st : St) (op impl : List String) : St × Option String :=
  let st : St := match op with
    | "new" :: _ :: _ :: tsn :: rest =>
      let pair := (rest.getLast?.getD "0").toNat?.getD 0
      ({ base := tsn.toNat?.getD 0, pair := pair, ref := if pair == 0 then #[] else st.ref, idx := 0, reported := false } : St)
    | _ => st
  let isRaw := op.head? == some "raw"
  -- a HEARTBEAT-ACK with a literal (absolute) timestamp measures against the clock of the run, and the smoothed
  -- estimate remembers it: round-trip values are not compared across the pair (P_C19 judges them)
  let isHb := op.head? == some "hback"
  let line := if isRaw then "raw" else if isHb then " ".intercalate op else arNormLine st.base op impl
  if st.pair == 0 then ({ st with ref := st.ref.push line }, none)
  else
    let want := st.ref[st.idx]?
    let st' := { st with idx := st.idx + 1, reported := st.reported || isRaw }
    if st.reported || isRaw || want == some line then (st', none)
    else ({ st' with reported := true },
      some s!"[C16] the same packets delivered from a peer TSN base next to 2^32 are handled differently (step {st.idx}): reference `{want.getD "<end>"}` shifted `{line}`")

end ShiftSpec
