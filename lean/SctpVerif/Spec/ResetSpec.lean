/-!
Executable predicate P_C14 for the direct-drive stream-reset log (`rs …` lines). It looks ONLY at what the
implementation reported (results of open / write / close / read / accept, the packets it put on the wire, the
object table of its state dumps) — never at the L0 model.

Incarnations. An identifier starts a new incarnation when an application opens it (`open … new=1`) in a state the
implementation itself reported as fully reset (`q=1`: the identifier is in neither stream table, no object with it
is open for writing, no end-of-stream marker queued, every reset request naming it performed). Every stream object
(created by OpenStream or by inbound DATA) belongs to the incarnation current at its creation; the object of the same
incarnation at the other endpoint is its partner. An `open … new=1 q=0` is a dishonest application (it re-opens
before both directions were reset): the identifier is no longer judged.

Clauses (tag [C14]):
* MIX   a reader object returns a message that its partner did not write (data of another incarnation);
* DUP   a reader object returns the same message twice;
* ORDER ordered messages are returned in another order than written;
* EOF   a reader object is given EOF although a message its partner wrote before closing was not returned to it,
        or although no partner was ever closed by its application;
* REMEMBER (white-box `rs remember` lines, the bookkeeping of performed request numbers): a number remembered and
        at most 1024 behind the serial-number maximum of everything remembered is reported as forgotten, a number never
        remembered is reported as present, or `newest` is not that maximum;
* SHIFT (tag [C16,C14]) the same calls with every number shifted by a constant give another size / answer, or a
        `newest` that is not the shifted one;
* SEQ   a first transmission carries a sequence number other than the position of the message among the messages
        of its writer object (so every incarnation starts at 0 on the wire and never rewinds).
-/
namespace ResetSpec

def pNat (s : String) : Nat := s.toNat?.getD 0

structure ObjI where
  sid : Nat
  gen : Nat
  wrote : List (Nat × Bool) := []   -- accepted writes (id, unordered)
  closed : Bool := false
  reads : List Nat := []
  eof : Bool := false
  deriving Inhabited

structure St where
  il : Bool := false
  objs : List (List ObjI) := [[], []]     -- per endpoint, by handle
  gen : List (Nat × Nat) := []           -- sid ↦ current incarnation number
  bad : List Nat := []                   -- identifiers re-opened dishonestly
  next : List Nat := [0, 0]              -- per endpoint: next TSN never sent yet
  shift : Nat := 0                       -- constant of the shift pair (`rs shift d`)
  rem : List (List Nat) := [[], []]      -- per endpoint: numbers handed to rememberPerformedReset
  mx : List Nat := [0, 0]                -- per endpoint: their serial-number maximum
  last0 : List String := []              -- result of the last `remember 0` (reference run of the shift pair)
  deriving Inhabited

def two32 : Nat := 4294967296
/-- forward distance from a to b in the 32-bit serial number space -/
def dist32 (a b : Nat) : Nat := (b + two32 - a % two32) % two32

def genOf (st : St) (sid : Nat) : Nat := ((st.gen.find? (·.1 == sid)).map (·.2)).getD 0

def getObjs (st : St) (x : Nat) : List ObjI := st.objs.getD x []

def setObjs (st : St) (x : Nat) (l : List ObjI) : St := { st with objs := st.objs.set x l }

def kv (toks : List String) (k : String) : String :=
  ((toks.filterMap fun t => match t.splitOn "=" with
    | [a, v] => if a == k then some v else none
    | _ => none).head?).getD ""

/-- the two state dumps of a result line: tokens after the first and second `|` -/
def dumps (impl : List String) : List (List String) :=
  let rec go (cur : List String) (acc : List (List String)) : List String → List (List String)
    | [] => (cur.reverse :: acc).reverse
    | "|" :: rest => go [] (cur.reverse :: acc) rest
    | t :: rest => go (t :: cur) acc rest
  (go [] [] impl).drop 1

/-- learn objects that appeared in the implementation's object table (created by inbound DATA) -/
def syncObjs (st : St) (impl : List String) : St := Id.run do
  let mut st := st
  let ds := dumps impl
  for x in [0, 1] do
    let d := ds.getD x []
    let o := kv d "objs"
    if o == "-" || o.isEmpty then continue
    let entries := o.splitOn ","
    let mut l := getObjs st x
    for ent in entries do
      match ent.splitOn ":" with
      | h :: sid :: _ =>
        if pNat h == l.length then
          l := l ++ [{ sid := pNat sid, gen := genOf st (pNat sid) }]
      | _ => pure ()
    st := setObjs st x l
  return st

def partner (st : St) (x : Nat) (o : ObjI) : Option ObjI := (getObjs st (1 - x)).find? (fun w => w.sid == o.sid && w.gen == o.gen)

/-- owner (endpoint, handle, object) of a message id -/
def owner (st : St) (m : Nat) : Option (Nat × Nat × ObjI) := Id.run do
  for x in [0, 1] do
    let l := getObjs st x
    for h in List.range l.length do
      let o := l.getD h default
      if o.wrote.any (·.1 == m) then return some (x, h, o)
  return none

/-- the sequence number the writer must have put on the first transmission of message `m` -/
def expectedSeq (il : Bool) (o : ObjI) (m : Nat) : Option Nat :=
  let rec go (ord unord : Nat) : List (Nat × Bool) → Option Nat
    | [] => none
    | (id, u) :: rest =>
      if id == m then some (if il then (if u then unord else ord) else ord)
      else if u then go ord (unord + 1) rest else go (ord + 1) unord rest
  go 0 0 o.wrote

def isSub (a b : List Nat) : Bool :=   -- a is a subsequence of b
  match a, b with
  | [], _ => true
  | _, [] => false
  | x :: xs, y :: ys => if x == y then isSub xs ys else isSub (x :: xs) ys

def step (st : St) (op impl : List String) : St × List String :=
  match op with
  | "new" :: il :: ta :: tb :: _ => ({ il := il == "1", next := [pNat ta, pNat tb] }, [])
  | ["open", _x, sid] =>
    let sid := pNat sid
    let isNew := kv impl "new" == "1"
    let q := kv impl "q" == "1"
    let st := if isNew then
        (if q then { st with gen := (sid, genOf st sid + 1) :: st.gen.filter (·.1 != sid) }
         else { st with bad := sid :: st.bad })
      else st
    (syncObjs st impl, [])
  | ["write", x, h, _len, u, m] =>
    let st := syncObjs st impl
    let x := pNat x
    let h := pNat h
    if impl.getD 1 "" == "nil" && impl.getD 0 "0" != "0" then
      let l := getObjs st x
      match l[h]? with
      | some o => (setObjs st x (l.set h { o with wrote := o.wrote ++ [(pNat m, u == "1")] }), [])
      | none => (st, [])
    else (st, [])
  | ["close", x, h] =>
    let st := syncObjs st impl
    let x := pNat x
    let l := getObjs st x
    match l[pNat h]? with
    | some o => if impl.head? == some "nil" then (setObjs st x (l.set (pNat h) { o with closed := true }), []) else (st, [])
    | none => (st, [])
  | ["read", x, h] =>
    let st := syncObjs st impl
    let x := pNat x
    let h := pNat h
    let l := getObjs st x
    match l[h]?, impl.head? with
    | some o, some r =>
      let toks := r.splitOn ","
      let ids := (toks.filter (fun t => t.toNat?.isSome)).map pNat
      let eof := toks.contains "EOF"
      let o' := { o with reads := o.reads ++ ids, eof := o.eof || eof }
      let st' := setObjs st x (l.set h o')
      if st.bad.contains o.sid then (st', []) else
      let p := partner st x o
      let wrote := match p with | some w => w.wrote | none => []
      let v1 := (ids.filter (fun m => !wrote.any (·.1 == m))).map fun m =>
        s!"[C14] MIX: reader {x}/{h} of stream {o.sid} (incarnation {o.gen}) was given message {m}, which its partner did not write"
      let v2 := if o'.reads.eraseDups.length != o'.reads.length then
        [s!"[C14] DUP: reader {x}/{h} of stream {o.sid} (incarnation {o.gen}) was given a message twice: {o'.reads}"] else []
      let ordW := (wrote.filter (fun p => !p.2)).map (·.1)
      let ordR := o'.reads.filter (fun m => ordW.contains m)
      let v3 := if !isSub ordR ordW then
        [s!"[C14] ORDER: reader {x}/{h} of stream {o.sid} (incarnation {o.gen}) got ordered messages {ordR}, written as {ordW}"] else []
      let v4 := if eof && !o.eof then
        (match p with
         | none => [s!"[C14] EOF: reader {x}/{h} of stream {o.sid} (incarnation {o.gen}) was given EOF but the peer has no stream object of that incarnation"]
         | some w =>
           (if !w.closed then [s!"[C14] EOF: reader {x}/{h} of stream {o.sid} (incarnation {o.gen}) was given EOF but its partner was never closed"] else []) ++
           ((w.wrote.filter (fun p => !o'.reads.contains p.1)).map fun p =>
             s!"[C14] EOF: reader {x}/{h} of stream {o.sid} (incarnation {o.gen}) was given EOF before message {p.1} written before the close"))
        else []
      (st', v1 ++ v2 ++ v3 ++ v4)
    | _, _ => (st, [])
  | ["gather", x] =>
    let st := syncObjs st impl
    let x := pNat x
    let pk := (impl.head?.getD "").splitOn ";"
    Id.run do
      let mut nxt := st.next.getD x 0
      let mut out : List String := []
      for p in pk do
        for c in p.splitOn "," do
          match c.splitOn ":" with
          | ["D", tsn, sid, _u, seq, m, _len] =>
            if pNat tsn ≥ nxt then   -- first transmission
              nxt := pNat tsn + 1
              if !st.bad.contains (pNat sid) then
                match owner st (pNat m) with
                | some (_, h, o) =>
                  if expectedSeq st.il o (pNat m) != some (pNat seq) then
                    out := out ++ [s!"[C14] SEQ: message {m} of stream {sid} (object {x}/{h}, incarnation {o.gen}) left with sequence number {seq}, expected {(expectedSeq st.il o (pNat m)).getD 0}"]
                | none => pure ()
          | _ => pure ()
      return ({ st with next := st.next.set x nxt }, out)
  | ["shift", d] => ({ st with shift := pNat d }, [])
  | ["remember", x, rsn, q] =>
    let x := pNat x
    let rsn := pNat rsn
    let q := pNat q
    let old := st.rem.getD x []
    let mx0 := st.mx.getD x 0
    let mx := if old.isEmpty || (0 < dist32 mx0 rsn && dist32 mx0 rsn < 2147483648) then rsn else mx0
    let rem := if old.contains rsn then old else rsn :: old
    let st := { st with rem := st.rem.set x rem, mx := st.mx.set x mx }
    let newest := pNat (kv impl "newest")
    let has := kv impl "has" == "1"
    let v1 := if newest != mx then [s!"[C14] REMEMBER: endpoint {x}: newest={newest} after remembering {rsn}, the serial-number maximum of what was remembered is {mx}"] else []
    let v2 := if rem.contains q && dist32 q mx ≤ 1024 && !has then
        [s!"[C14] REMEMBER: endpoint {x}: request number {q} was performed and is only {dist32 q mx} behind the newest ({mx}) but is no longer remembered: its duplicate would be performed again"] else []
    let v3 := if !rem.contains q && has then [s!"[C14] REMEMBER: endpoint {x}: request number {q} is reported as performed but never was"] else []
    let (st, v4) := if x == 0 then ({ st with last0 := impl }, []) else
      let n0 := pNat (kv st.last0 "newest")
      let ok := kv st.last0 "size" == kv impl "size" && kv st.last0 "has" == kv impl "has" && (n0 + st.shift) % two32 == newest
      (st, if ok || st.last0.isEmpty then [] else
        [s!"[C16,C14] SHIFT: the same rememberPerformedReset calls shifted by {st.shift} give {" ".intercalate impl} instead of the shifted {" ".intercalate st.last0}"])
    (st, v1 ++ v2 ++ v3 ++ v4)
  | "ora" :: _ => (st, [])
  | "st" :: _ => (st, [])
  | _ => (syncObjs st impl, [])

end ResetSpec
