/-!
Executable property predicates for the reassembly queue, evaluated on the IMPLEMENTATION's
recorded outputs only (independent of the L0 model `Model/Reasm.lean`).

* `P_C11a` (every sequence, after every op): `getNumBytes()` equals the number of user bytes found
  by walking the real containers (white-box sum logged by the harness); the two maps are in sync.
* `P_C11 limit` (every sequence with `maxEntries > 0`): the four entry counts the code limits
  (ordered DATA chunks, unordered DATA chunks, ordered MIDs, unordered MIDs) never exceed it.
* `P_C01/C06` (honest sequences): every successful read returns exactly one of the messages the
  generator wrote (`reasm msg …` ground-truth lines: PPI, length, payload hash), each at most once;
  ordered messages in write order, and as a gap-free prefix as long as no ordered forward
  (`fwdO`/`fwdOM`) was issued after the first message. A fragment, a splice of two messages, a
  truncated or altered payload, a wrong PPI, a duplicate or a reordered delivery all fail it.
  At a `drained` marker (all fragments of all non-abandoned messages pushed, application read
  until `tryAgain`) every non-abandoned message must have been returned ("exactly the sequence").
  A sequence whose pushes refer to a message without a ground-truth line (a shrunk replay) is
  not judged by this predicate.
-/
namespace ReasmSpec

structure Msg where
  id      : Nat
  ordered : Bool
  key     : Nat
  ppi     : Nat
  len     : Nat
  hash    : String
  ordPos  : Nat          -- position among the ordered messages (write order)
  wasRead : Bool := false
  abandoned : Bool := false
  deriving Inhabited

structure Ghost where
  honest     : Bool := false
  maxEntries : Nat := 0
  msgs       : Array Msg := #[]
  nOrdered   : Nat := 0
  nextOrdPos : Nat := 0      -- every later ordered read must have `ordPos ≥ nextOrdPos`
  fwdSeen    : Bool := false -- an ordered forward was issued after the first message
  untracked  : Bool := false
  deriving Inhabited

def Ghost.init (honest : Bool) (maxEntries : Nat) : Ghost := { honest := honest, maxEntries := maxEntries }

def Ghost.addMsg (g : Ghost) (id : Nat) (ordered : Bool) (key ppi len : Nat) (hash : String) : Ghost :=
  let m : Msg := { id := id, ordered := ordered, key := key, ppi := ppi, len := len, hash := hash, ordPos := g.nOrdered }
  { g with msgs := g.msgs.push m, nOrdered := if ordered then g.nOrdered + 1 else g.nOrdered }

/-- a push in an honest sequence names the message it belongs to (`m<id>`). -/
def Ghost.notePush (g : Ghost) (tag : Option Nat) : Ghost :=
  if !g.honest then g else
  match tag with
  | some id =>
    if (g.msgs[id]?.map (·.id)) == some id then g      -- ids are array positions in generated runs
    else if g.msgs.any (fun m => m.id == id) then g else { g with untracked := true }
  | none => { g with untracked := true }

def Ghost.noteAbandon (g : Ghost) (id : Nat) : Ghost :=
  { g with msgs := g.msgs.map fun m => if m.id == id then { m with abandoned := true } else m }

/-- the generator says: every fragment of every non-abandoned message has been pushed and the
application has read until `tryAgain`. Then every such message must have been returned. -/
def Ghost.observeDrained (g : Ghost) : Option String :=
  if !g.honest || g.untracked then none else
  match g.msgs.find? (fun m => !m.abandoned && !m.wasRead) with
  | some m => some s!"C01/C02: message {m.id} (key {m.key}) was handed to the queue completely and never abandoned, but no read returned it"
  | none => none

def Ghost.noteOrderedForward (g : Ghost) : Ghost :=
  if g.msgs.size > 0 then { g with fwdSeen := true } else g

/-- `<getNumBytes> <white-box sum> <ordered entries> <unordered entries> <ordered MIDs> <unordered MIDs> <sync>` -/
def Ghost.observeState (g : Ghost) (st : List String) : Option String :=
  match st.map String.toInt? with
  | [some nb, some wb, some oe, some ue, some om, some um, some sync] =>
    if nb != wb then some s!"C11a: getNumBytes() = {nb} but the containers hold {wb} user bytes"
    else if sync != 1 then some "C11a: orderedMIDMap/orderedMID (or a map key) out of sync"
    else if g.maxEntries > 0 ∧ (oe > g.maxEntries ∨ ue > g.maxEntries ∨ om > g.maxEntries ∨ um > g.maxEntries) then
      some s!"C11 limit: entries ordered={oe} unordered={ue} orderedMID={om} unorderedMID={um} exceed maxEntries={g.maxEntries}"
    else none
  | _ => some "unparsable state tokens"

/-- a read returned `(n, ppi, err, hash)`. -/
def Ghost.observeRead (g : Ghost) (n ppi : Nat) (err hash : String) : Ghost × Option String :=
  if !g.honest || g.untracked || err != "ok" then (g, none) else
  match g.msgs.findIdx? (fun m => m.ppi == ppi) with
  | none => (g, some s!"C01/C06: read returned {n} bytes with PPI {ppi}: no written message has that PPI")
  | some i =>
    let m := g.msgs[i]!
    if m.len != n || m.hash != hash then
      (g, some s!"C01/C06: read returned {n} bytes (hash {hash}) for message {m.id} which was written with {m.len} bytes (hash {m.hash}): fragment, splice or corruption")
    else if m.wasRead then (g, some s!"C06: message {m.id} delivered twice")
    else
      let g' := { g with msgs := g.msgs.set! i { m with wasRead := true } }
      if !m.ordered then (g', none)
      else if m.ordPos < g.nextOrdPos then
        (g', some s!"C01: ordered message {m.id} delivered after a later ordered message (position {m.ordPos}, expected ≥ {g.nextOrdPos})")
      else if !g.fwdSeen && m.ordPos != g.nextOrdPos then
        (g', some s!"C01: ordered message {m.id} (position {m.ordPos}) delivered while position {g.nextOrdPos} was neither delivered nor forwarded over")
      else ({ g' with nextOrdPos := m.ordPos + 1 }, none)

end ReasmSpec
