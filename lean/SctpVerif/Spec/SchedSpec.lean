import Std.Data.HashMap
/-!
Executable property predicate `P_C17` (scheduler half), evaluated on the IMPLEMENTATION's recorded
results only (which chunk each `pop` handed out, the error enum, the two counters, the result of
`setInterleaving`). It does not look at the L0 model. Core-only.

Ghost state: what was pushed (from the op lines), what the implementation popped (from its results).

  ACC   `getNumBytes()` / `size()` equal the bytes / number of chunks pushed and not yet popped
  MODE  `setInterleaving` changes the policy only when nothing is queued (and does when nothing is)
  FIFO  (a) a popped chunk is the oldest queued chunk of its stream (interleaved policies) /
            of its stream and ordering class (message policy); every chunk at most once
  CONT  (b) message policy: after a non-final fragment the next chunk popped is the chunk that was
            pushed right after it (checked where the push list keeps the message's fragments together)
  RR    (c) between two consecutive pops of a stream that stayed backlogged, every other stream that
            stayed backlogged throughout was popped exactly once
  WFQ   (d) for two streams backlogged throughout an interval
              |S_i/w_i − S_j/w_j| ≤ L_i/w_i + L_j/w_j + δ
            δ = 0 as long as no push happened between a `peek` and the `pop` of the chunk it selected
            (then this is the bound of the property statement); otherwise δ is the largest len/w of a
            chunk that was popped from such a stale selection — the bound the code really achieves,
            see `Props/C17.lean` (`C17_wfq_fair`, `C17_wfq_stated_bound_fails_with_stale_peek`).
            With `strict` set (op `pend strict`) δ is forced to 0: the statement's bound.
  STARV (e) round robin: a chunk pushed at depth d of its stream is popped within (d+1)·N pops, N the
            number of streams seen; WFQ: within Q + Σ_{s≠i} ⌊B·w_s/w_i⌋ pops of non-empty chunks
            (Q non-empty chunks queued at its push, B bytes queued on its stream up to and including it)
After a misuse op (`rawpop`, `popnil`), a pop error or malformed fragment flags only ACC is checked.
-/
namespace SchedSpec

structure GChunk where
  id : Nat
  sid : Nat
  u : Bool
  b : Bool
  e : Bool
  len : Nat
  pushIdx : Nat := 0     -- index in the push list of this sequence
  popsAtPush : Nat := 0  -- ok pops (of non-empty chunks in WFQ mode: see `nzPops`) before its push
  nzPopsAtPush : Nat := 0
  depth : Nat := 0       -- chunks of its stream queued ahead of it at push time
  bytesAhead : Nat := 0  -- bytes of its stream queued at push time, itself included
  nzQueuedAtPush : Nat := 0
deriving Repr, Inhabited

inductive Mode where
  | msg | rr | wfq
deriving DecidableEq, Repr, Inhabited

/-- per ordered pair (i, j), i < j: running normalised service difference while both are backlogged -/
structure PairTrack where
  i : Nat
  j : Nat
  d : Rat := 0
  lo : Rat := 0
  hi : Rat := 0
deriving Repr, Inhabited

/-- per stream `s`: pops of other streams since the last pop of `s` -/
structure RREpoch where
  s : Nat
  valid : Bool := false            -- `s` was popped before and stayed backlogged since
  cnt : List (Nat × Nat) := []     -- pops of t since
  cont : List Nat := []            -- streams backlogged at every moment since
deriving Repr, Inhabited

structure Ghost where
  mode : Mode := .msg
  kind : Mode := .wfq                       -- what `setInterleaving(true)` will install (msg = nothing)
  weights : List (Nat × Nat) := []
  strict : Bool := false
  tainted : Bool := false
  queues : List (Nat × List GChunk) := []   -- queued chunks per stream, push order
  nBytes : Nat := 0
  nChunks : Nat := 0
  pushed : Array GChunk := #[]
  idxOf : Std.HashMap Nat Nat := {}          -- chunk id → index in `pushed`
  nzQueued : Nat := 0                        -- queued chunks with len ≠ 0
  everPopped : Std.HashMap Nat Unit := {}
  lastPop : Option GChunk := none
  okPops : Nat := 0
  nzPops : Nat := 0
  sids : List Nat := []
  lmax : List (Nat × Nat) := []             -- per stream: largest chunk pushed so far
  inexact : Bool := false                   -- some weight is not a power of two
  cached : Option Nat := none               -- id selected by a `peek` that has not been popped yet
  pushedSinceCached : Bool := false
  delta : Rat := 0
  pairs : List PairTrack := []
  epochs : List RREpoch := []
deriving Inhabited

def lookup {β : Type} (m : List (Nat × β)) (k : Nat) : Option β := (m.find? (·.1 == k)).map (·.2)
def insert {β : Type} (m : List (Nat × β)) (k : Nat) (v : β) : List (Nat × β) :=
  if m.any (·.1 == k) then m.map (fun kv => if kv.1 == k then (k, v) else kv) else m ++ [(k, v)]

def isPow2 (n : Nat) : Bool := n != 0 && (n &&& (n - 1)) == 0

def Ghost.weight (g : Ghost) (s : Nat) : Nat :=
  match lookup g.weights s with
  | some w => if w == 0 then 1 else w
  | none => 1

def Ghost.queue (g : Ghost) (s : Nat) : List GChunk := (lookup g.queues s).getD []
def Ghost.backlogged (g : Ghost) (s : Nat) : Bool := !(g.queue s).isEmpty
def Ghost.lmaxOf (g : Ghost) (s : Nat) : Nat := (lookup g.lmax s).getD 0

/-- configuration tokens of `pend new`, read with the documented meaning of the options:
applied in order, the list is rejected as a whole on the first error; the last scheduler choice wins;
setting a weight chooses WFQ. No (accepted) option at all: WFQ without weights. -/
def Ghost.configure (toks : List String) : Ghost := Id.run do
  let mut kind : Option Mode := none
  let mut ws : List (Nat × Nat) := []
  let mut failed := false
  let mut zeros : List Nat := []
  let defaults := toks.contains "defaults"
  -- an option list was given (and, below, accepted): the settings object exists
  let mut accepted := toks.any fun t => t != "defaults" && !t.startsWith "z:"
  for t in toks do
    if t == "rr" then kind := some .rr
    else if t == "wfq" then kind := some .wfq
    else if t == "fnil" then failed := true
    else if t == "fnilsched" then kind := some .msg
    else if t.startsWith "w:" then
      match t.splitOn ":" with
      | [_, s, w] =>
        let w := w.toNat?.getD 0
        if w == 0 then failed := true
        else
          ws := insert ws (s.toNat?.getD 0) w
          kind := some .wfq
      | _ => pure ()
    else if t.startsWith "z:" then zeros := zeros ++ [((t.drop 2).toString.toNat?.getD 0)]
  if failed then
    kind := none
    ws := []
    accepted := false
  -- white-box zero entries: the stream falls back to weight 1, WFQ is (re)selected
  for z in zeros do
    ws := insert ws z 0
    kind := some .wfq
  -- no scheduler chosen: WFQ by default — except when settings exist and `applyDefaults` was skipped
  -- (white-box path of the harness): then there is no scheduler and interleaving cannot be enabled
  let k := kind.getD (if accepted && !defaults then .msg else .wfq)
  return { kind := k, weights := ws, inexact := ws.any (fun kv => kv.2 != 0 && !isPow2 kv.2) }

def tol (g : Ghost) : Rat := if g.inexact then (1 : Rat) / 1048576 else 0

def ratOf (n d : Nat) : Rat := (n : Rat) / (d : Rat)

/-- ghost update for `push` -/
def Ghost.push (g : Ghost) (c : GChunk) : Ghost :=
  let q := g.queue c.sid
  let c := { c with pushIdx := g.pushed.size, popsAtPush := g.okPops, nzPopsAtPush := g.nzPops,
                    depth := q.length, bytesAhead := (q.foldl (fun a x => a + x.len) 0) + c.len,
                    nzQueuedAtPush := g.nzQueued }
  let wasBacklogged := !q.isEmpty
  let g := { g with
    queues := insert g.queues c.sid (q ++ [c]), nBytes := g.nBytes + c.len, nChunks := g.nChunks + 1,
    pushed := g.pushed.push c, idxOf := g.idxOf.insert c.id g.pushed.size,
    nzQueued := g.nzQueued + (if c.len != 0 then 1 else 0),
    sids := if g.sids.contains c.sid then g.sids else g.sids ++ [c.sid],
    lmax := insert g.lmax c.sid (max (g.lmaxOf c.sid) c.len),
    pushedSinceCached := g.cached.isSome || g.pushedSinceCached }
  -- a stream that becomes backlogged starts new pair intervals
  if wasBacklogged || g.mode != .wfq then g else
    let others := (g.queues.filter (fun kv => kv.1 != c.sid && !kv.2.isEmpty)).map (·.1)
    { g with pairs := g.pairs ++ others.map fun t => { i := min t c.sid, j := max t c.sid } }

/-- malformed fragment flags make CONT meaningless; we only look at what the message policy needs:
a non-final fragment is followed, in the push list, by a chunk of the same ordering class. -/
def keepsTogether (g : Ghost) (x : GChunk) : Bool :=
  match g.pushed[x.pushIdx + 1]? with
  | some n => n.u == x.u
  | none => false

def starvBound (g : Ghost) (c : GChunk) : Nat :=
  match g.mode with
  | .rr => (c.depth + 1) * g.sids.length
  | .wfq =>
    let wi := g.weight c.sid
    c.nzQueuedAtPush + (g.sids.foldl (fun a s => if s == c.sid then a else a + (c.bytesAhead * g.weight s) / wi) 0)
      + (if g.inexact then g.sids.length else 0)
  | .msg => 0

def popsSince (g : Ghost) (c : GChunk) : Nat :=
  match g.mode with
  | .wfq => g.nzPops - c.nzPopsAtPush
  | _ => g.okPops - c.popsAtPush

/-- the implementation popped chunk `id` successfully. Returns the first violated clause. -/
def Ghost.pop (g : Ghost) (id : Nat) : Ghost × Option String := Id.run do
  let some c := (g.idxOf.get? id).bind (g.pushed[·]?)
    | return ({ g with tainted := true }, some s!"FIFO: popped chunk {id} was never pushed")
  if g.everPopped.contains id then
    return ({ g with tainted := true }, some s!"FIFO: chunk {id} popped twice")
  let q := g.queue c.sid
  let mut err : Option String := none
  -- (a) FIFO
  let sameKey := fun (x : GChunk) => g.mode != .msg || x.u == c.u
  match q.find? sameKey with
  | some h =>
    if h.id != id && !g.tainted then
      let cls := if g.mode == .msg then " and class" else ""
      err := some s!"FIFO: popped chunk {id} of stream {c.sid} while older chunk {h.id} of the same stream{cls} is still queued"
  | none => if !g.tainted then err := some s!"FIFO: popped chunk {id} is not queued"
  -- (b) contiguity under the message policy
  if err.isNone && !g.tainted && g.mode == .msg then
    if let some x := g.lastPop then
      if !x.e && keepsTogether g x && c.pushIdx != x.pushIdx + 1 then
        err := some s!"CONT: after non-final fragment {x.id} the next chunk sent is {id}, not the next fragment {(g.pushed[x.pushIdx + 1]?.map (·.id)).getD 0}"
  -- (e) no starvation: the popped chunk itself
  let mut g := g
  let served := { g with okPops := g.okPops + 1, nzPops := g.nzPops + (if c.len != 0 then 1 else 0) }
  if err.isNone && !g.tainted && g.mode != .msg then
    let waited := popsSince g c
    if waited > starvBound g c then
      err := some s!"STARV: chunk {id} (depth {c.depth} of stream {c.sid}) waited {waited} pops, bound {starvBound g c}"
  -- (c) round robin
  if g.mode == .rr && !g.tainted then
    let q' := q.filter (·.id != id)
    -- check the epoch of c.sid
    match g.epochs.find? (·.s == c.sid) with
    | some ep =>
      if ep.valid && err.isNone then
        for t in ep.cont do
          let n := (lookup ep.cnt t).getD 0
          if n != 1 then
            err := some s!"RR: between two consecutive pops of backlogged stream {c.sid}, backlogged stream {t} was served {n} times"
    | none => pure ()
    -- update the other epochs
    let emptied := q'.isEmpty
    let eps := g.epochs.map fun ep =>
      if ep.s == c.sid then ep else
      { ep with cnt := insert ep.cnt c.sid ((lookup ep.cnt c.sid).getD 0 + 1),
                cont := if emptied then ep.cont.filter (· != c.sid) else ep.cont }
    let others := (g.queues.filter (fun kv => kv.1 != c.sid && !kv.2.isEmpty)).map (·.1)
    let mine : RREpoch := { s := c.sid, valid := (!emptied), cnt := [], cont := others }
    g := { g with epochs := (eps.filter (·.s != c.sid)) ++ [mine] }
  -- (d) WFQ
  if g.mode == .wfq && !g.tainted then
    -- stale selection?
    if g.cached == some id && g.pushedSinceCached then
      g := { g with delta := max g.delta (ratOf c.len (g.weight c.sid)) }
    let delta := if g.strict then 0 else g.delta
    let q' := q.filter (·.id != id)
    let mut ps : List PairTrack := []
    for p in g.pairs do
      if p.i != c.sid && p.j != c.sid then ps := ps ++ [p]
      else if q'.isEmpty then pure ()   -- this pop ends the common backlog: the interval closed before it
      else
        let inc := ratOf c.len (g.weight c.sid)
        let d := if p.i == c.sid then p.d + inc else p.d - inc
        let p := { p with d := d, lo := min p.lo d, hi := max p.hi d }
        let bound := ratOf (g.lmaxOf p.i) (g.weight p.i) + ratOf (g.lmaxOf p.j) (g.weight p.j) + delta + tol g
        if p.hi - p.lo > bound && err.isNone then
          let tag := if g.strict then "WFQ-stated-bound" else "WFQ"
          let dl := if g.strict then "" else " + delta"
          err := some s!"{tag}: streams {p.i} (weight {g.weight p.i}) and {p.j} (weight {g.weight p.j}), both backlogged throughout: normalised service differs by {p.hi - p.lo} > L_i/w_i + L_j/w_j{dl} = {bound}"
        ps := ps ++ [p]
    g := { g with pairs := ps }
  -- commit
  g := { g with
    queues := insert g.queues c.sid (q.filter (·.id != id)),
    nBytes := g.nBytes - c.len, nChunks := g.nChunks - 1, nzQueued := g.nzQueued - (if c.len != 0 then 1 else 0),
    everPopped := g.everPopped.insert id (), lastPop := some c,
    okPops := served.okPops, nzPops := served.nzPops,
    cached := none, pushedSinceCached := false }
  -- (e) no starvation: the heads still waiting
  if err.isNone && !g.tainted && g.mode != .msg then
    for kv in g.queues do
      if let some h := kv.2.head? then
        if popsSince g h > starvBound g h then
          if err.isNone then
            err := some s!"STARV: chunk {h.id} (depth {h.depth} of stream {h.sid}) still queued after {popsSince g h} pops, bound {starvBound g h}"
  return (g, err)

/-- counters reported by the implementation -/
def Ghost.checkCounters (g : Ghost) (nb nc : String) : Option String :=
  if nb.toInt? != some (g.nBytes : Int) then
    some s!"ACC: getNumBytes() = {nb} but {g.nBytes} bytes are pushed and not popped"
  else if nc.toInt? != some (g.nChunks : Int) then
    some s!"ACC: size() = {nc} but {g.nChunks} chunks are pushed and not popped"
  else none

/-- `setInterleaving(b)` returned `res` -/
def Ghost.setil (g : Ghost) (b : Bool) (res : String) : Ghost × Option String :=
  let target : Mode := if b then g.kind else .msg
  if res == "ok" then
    if target != g.mode && g.nChunks != 0 then
      ({ g with mode := target, tainted := true },
        some s!"MODE: setInterleaving({b}) changed the policy while {g.nChunks} chunks are queued")
    -- the policy changes only with an empty queue: whatever was popped last has no queued continuation to be kept together with
    else ({ g with mode := target, pairs := [], epochs := [], cached := none, pushedSinceCached := false, lastPop := none }, none)
  else if res == "eNonEmpty" then
    if g.nChunks == 0 then (g, some s!"MODE: setInterleaving({b}) refused although nothing is queued") else (g, none)
  else (g, none)

end SchedSpec
