import SctpVerif.Gen.Consts
/-!
# P_C19 — executable predicates on the IMPLEMENTATION's recorded outputs (timer laws)

Nothing here looks at the L0 models (`Model/Rto.lean`, `Model/Timer.lean`); the predicates are
written from the property's wording:

* R1  every RTO the manager reports lies in `[RTO.Min, configured max]` (when min ≤ max, for
      round-trip samples a clock can produce: finite and ≥ 0; the `setRTO` test hook exempts);
* R2  the back-off value for expiry `n` is `min(rto·2^n, max)` (doubling, capped);
* T1  no observer callback while the timer is not running (after `stop`/`close` returned, after a
      failure was reported, after the ack fired) — stale expiries are suppressed;
* T2  expiry `j` is reported as (id, j); with `maxRetrans = k > 0` the (k+1)-th expiry is the
      failure report and nothing follows; with `maxRetrans = 0` failure is never reported;
* T3  the `j`-th expiry comes `min(rto·2^(j-1), rtoMax)` (whole ms) after the previous one —
      never earlier; exactly then when no callback goroutine was held back (`held=0` throughout);
* A1  the ack timer fires once, 200 ms after the start that armed it; a `start` on the armed
      timer reports `false` and does not move that instant.

Times are virtual nanoseconds; the harness holds callbacks back only on explicit request and
reports the number held (`held=`), which is an environment fact, not implementation state.
-/
namespace TimerSpec

/-! ## rtoManager -/

structure RtoG where
  rtoMax : Float := 60000.0
  ok : Bool := false          -- R1 applicable: min ≤ max and only admissible samples so far
  deriving Inhabited

def finiteNonneg (x : Float) : Bool := x.isFinite && x >= 0

def inRange (g : RtoG) (rto : Float) : Option String :=
  if !g.ok then none
  else if rto >= Gen.rtoMin_F && rto <= g.rtoMax then none
  else some s!"RTO {rto} ms outside [RTO.Min {Gen.rtoMin_F}, configured max {g.rtoMax}]"

/-- `2^n · x` by repeated doubling (exact in binary floating point up to overflow) -/
def dbl : Nat → Float → Float
  | 0, x => x
  | n+1, x => dbl n (x * 2.0)

/-- expected back-off value (R2); `none` when the law does not apply to these arguments -/
def backoff (rto : Float) (n : Nat) (mx : Float) : Option Float :=
  if rto >= Gen.rtoMin_F && rto <= mx && mx <= 2.0e12 then
    let v := dbl (if n > 1100 then 1100 else n) rto
    some (if v <= mx then v else mx)
  else none

/-- `op` = tokens after the component name, `vals` = the implementation's floats (parsed by the driver) -/
def rtoCheck (g : RtoG) (op : List String) (args vals : List Float) : RtoG × Option String :=
  match op.head?, args, vals with
  | some "new", _, [rto, mx] =>
    let g := { rtoMax := mx, ok := Gen.rtoMin_F <= mx }
    (g, inRange g rto)
  | some "rtt", [x], [_, rto] =>
    let g := if finiteNonneg x then g else { g with ok := false }
    (g, inRange g rto)
  | some "get", _, [rto] => (g, inRange g rto)
  | some "reset", _, [rto] => (g, inRange g rto)
  | some "setrto", _, _ => ({ g with ok := false }, none)
  | some "next", [rto, mx], [v] =>
    match op with
    | [_, _, n, _] =>
      match backoff rto (n.toNat?.getD 0) mx with
      | some want => (g, if v == want then none else some s!"back-off for expiry {n} of rto {rto} (max {mx}) is {v}, doubling gives {want}")
      | none => (g, none)
    | _ => (g, none)
  | _, _, _ => (g, none)

/-! ## rtxTimer / ackTimer -/

inductive Ev | timeout (id n : Nat) | failure (id : Nat) | ack
  deriving DecidableEq, Repr

structure Run where
  t0 : Nat
  rto : Float := 0
  nEv : Nat := 0
  last : Nat            -- time of the previous expiry (or of the start)
  exact : Bool          -- no callback held back since the start
  over : Bool := false  -- failure reported / ack delivered: the timer stopped itself

structure G where
  isAck : Bool := false
  id : Nat := 0
  k : Nat := 0                 -- maxRetrans
  rtoMax : Float := 60000.0
  run : Option Run := none
  maxHeld : Nat := 0           -- most callbacks ever held back at once in this sequence (environment fact)
  deriving Inhabited

/-- whole milliseconds of interval `n`, as nanoseconds; `none` when the timing law is not
checked (sub-millisecond or non-finite arguments) -/
def ivlNs (g : G) (r : Run) (n : Nat) : Option Nat :=
  if g.isAck then some Gen.ackInterval
  else if r.rto >= 1.0 && g.rtoMax >= 1.0 && r.rto <= 1.0e12 && g.rtoMax <= 1.0e12 then
    let v := if n < 31 then dbl n r.rto else g.rtoMax
    let v := if v <= g.rtoMax then v else g.rtoMax
    some (v.floor.toUInt64.toNat * 1000000)
  else none

def evStr : Ev → String
  | .timeout id n => s!"timeout(id={id}, n={n})"
  | .failure id => s!"failure(id={id})"
  | .ack => "ack-timeout"

/-- one observer event at virtual time `at` -/
def onEvent (g : G) (at_ : Nat) (e : Ev) : G × Option String :=
  match g.run with
  | none => (g, some s!"{evStr e} at {at_} ns reached the observer while the timer was not running (after stop/close/self-stop)")
  | some r =>
    if r.over then (g, some s!"{evStr e} at {at_} ns after the timer had reported failure / fired") else
    let j := r.nEv + 1
    -- T2 / A1: which callback
    let want : Ev := if g.isAck then .ack else if g.k = 0 ∨ j ≤ g.k then .timeout g.id j else .failure g.id
    let labelErr : Option String :=
      if e == want then none
      else some s!"expiry {j} after start (maxRetrans={g.k}) reported as {evStr e}, expected {evStr want}"
    -- T3 / A1: when
    let timeErr : Option String :=
      match ivlNs g r (j - 1) with
      | none => none
      | some d =>
        if at_ < r.last + d then some s!"{evStr e} at {at_} ns is earlier than previous expiry/start {r.last} + interval {d} ns"
        else if r.exact && at_ ≠ r.last + d then some s!"{evStr e} at {at_} ns, expected exactly at {r.last + d} ns (interval {d} ns, nothing held back)"
        else none
    let over := g.isAck || want != .timeout g.id j
    ({ g with run := some { r with nEv := j, last := at_, over := over } }, labelErr <|> timeErr)

/-- after the op's own events: the op itself. `ret` = "1"/"0"/"-", `held` = callbacks held back -/
def onOp (g : G) (op : List String) (rtoArg : Float) (now : Nat) (ret : String) (held : Nat) : G × Option String :=
  -- a held-back callback makes later timing inexact for the current run
  let g := match g.run with
    | some r => if held > 0 then { g with run := some { r with exact := false } } else g
    | none => g
  match op.head? with
  | some "start" =>
    if ret == "1" then
      ({ g with run := some { t0 := now, rto := rtoArg, last := now, exact := held == 0 } }, none)
    else (g, none)
  | some "stop" => ({ g with run := none }, none)
  | some "close" => ({ g with run := none }, none)
  | some "sleep" =>
    -- completeness: an expiry whose instant has passed must have been delivered (nothing held back)
    match g.run with
    | some r =>
      if r.exact && !r.over then
        match ivlNs g r r.nEv with
        | some d => if r.last + d ≤ now then (g, some s!"expiry {r.nEv + 1} due at {r.last + d} ns was not delivered by {now} ns") else (g, none)
        | none => (g, none)
      else (g, none)
    | none => (g, none)
  | _ => (g, none)

/-- a whole result line. `start/stop/close` take effect before the events logged on their line
(those events happened after the call returned); for `sleep/run/hold` the events come first. -/
def timerCheck (g : G) (op : List String) (rtoArg : Float) (now : Nat) (ret : String) (held : Nat)
    (evs : List (Nat × Ev)) : G × Option String :=
  let g := { g with maxHeld := max g.maxHeld held }
  -- `pending` is a uint8: flag verdicts of sequences that kept ≥ 255 callbacks waiting at once
  let tag (e : Option String) : Option String :=
    e.map fun m => if g.maxHeld ≥ 255 then m ++ " [>=255 callbacks were outstanding at once]" else m
  let events (g : G) : G × Option String :=
    let (g, err) := evs.foldl (fun (acc : G × Option String) (te : Nat × Ev) =>
        let (g', e') := onEvent acc.1 te.1 te.2
        (g', acc.2 <|> e')) (g, none)
    -- a self-stopped timer (failure / ack delivered) is not running any more
    let g := match g.run with
      | some r => if r.over then { g with run := none } else g
      | none => g
    (g, err)
  let opFirst := match op.head? with
    | some "start" | some "stop" | some "close" => true
    | _ => false
  if opFirst then
    let (g, e1) := onOp g op rtoArg now ret held
    let (g, e2) := events g
    (g, tag (e1 <|> e2))
  else
    let (g, e1) := events g
    let (g, e2) := onOp g op rtoArg now ret held
    (g, tag (e1 <|> e2))

end TimerSpec
