import SctpVerif.Model.Teardown
import SctpVerif.Gen.Facts
/-!
Reads the teardown choreography (`Conc.Choreo`) off the translator's facts (`Gen.readLoopDefer`, `Gen.closeBody`,
`Gen.abortBody`, the select-arm lists, `Gen.unregisterStreamBody`, …). A statement the parser does not know makes the
program `none`, so that nothing can be added to or dropped from these functions unnoticed.
-/
namespace Conc

abbrev Tok := String × String

/-- statements of the three straight-line programs, recognised token by token -/
def parseOps : List Tok → Option (List Op)
  | [] => some []
  | ("once{", "Association.closeWriteLoopOnce") :: ("close", "Association.closeWriteLoopCh") :: ("}", "") :: r => (parseOps r).map (Op.closeCw :: ·)
  | ("Lock", "Association.lock") :: ("set", "Association.willSendAbort") :: ("Unlock", "Association.lock") :: r => (parseOps r).map (Op.setAbort :: ·)
  | ("Lock", "Association.lock") :: r => (parseOps r).map (Op.lockA :: ·)
  | ("Unlock", "Association.lock") :: r => (parseOps r).map (Op.unlockA :: ·)
  | ("call", "Association.setState(closed)") :: r => (parseOps r).map (Op.setClosed :: ·)
  | ("loop{", "for") :: ("call", "Association.unregisterStream") :: ("}", "") :: r => (parseOps r).map (Op.unregAll :: ·)
  | ("call", "Association.unblockPendingWrites") :: r => (parseOps r).map (Op.unblockWrites :: ·)
  | ("close", "Association.acceptCh") :: r => (parseOps r).map (Op.closeAc :: ·)
  | ("close", "Association.readLoopCloseCh") :: r => (parseOps r).map (Op.closeRc :: ·)
  | ("call", "Association.closeNetConn") :: r => (parseOps r).map (Op.closeConn :: ·)
  | ("call", "Association.closeAllTimers") :: r => (parseOps r).map (Op.closeTimers :: ·)
  | ("ext", "net.Conn.SetWriteDeadline") :: r => (parseOps r).map (Op.wrDeadline :: ·)
  | ("call", "Association.awakeWriteLoop") :: r => (parseOps r).map (Op.awake :: ·)
  | ("select{", "") :: ("arm{", "recv Association.abortSentCh") :: ("}", "") :: ("arm{", "recv time.After(flushTimeout)") :: ("}", "") :: ("}", "") :: r =>
    (parseOps r).map (Op.waitAbortSent :: ·)
  | ("ext", "net.Conn.SetReadDeadline") :: r => (parseOps r).map (Op.readDeadline :: ·)
  | ("recv", "Association.readLoopCloseCh") :: r => (parseOps r).map (Op.waitRc :: ·)
  | _ => none

def progOf (ts : List Tok) : List Op := (parseOps ts).getD []

def hasArm (arms : List (String × List Tok)) (label : String) : Bool := arms.any (·.1 == label)
def armBody (arms : List (String × List Tok)) (label : String) : List Tok := ((arms.find? (·.1 == label)).map (·.2)).getD [("missing", "")]

def armsOf (fn : String) : List (String × List Tok) := (Gen.clientServerSelectArms.lookup fn).getD []

def wakeOf (body : List Tok) : Wake := if body.contains ("broadcast", "Stream.readNotifier") then .all else .one

/-- `close()` is what `Close()`, the context arm of the client constructor, `handleAbort`, `handleShutdownComplete`
and the terminal branch of `writeLoop` call; `Close()` is `close()` followed by the wait for `readLoopCloseCh`. -/
def closeApiOf : List Op :=
  match Gen.closeExportedBody with
  | [("call", "Association.close"), ("recv", "Association.readLoopCloseCh")] => progOf Gen.closeBody ++ [.waitRc]
  | _ => []

def hasInfix (xs pat : List Tok) : Bool :=
  match xs with
  | [] => pat.isEmpty
  | _ :: r => pat.isPrefixOf xs || hasInfix r pat

def choreoOfFacts : Choreo where
  deferProg := progOf Gen.readLoopDefer
  closeProg := progOf Gen.closeBody
  closeApi := closeApiOf
  abortProg := progOf Gen.abortBody
  chSend := armBody Gen.completeHandshakeArms "send Association.handshakeCompletedCh" == [("return", "")]
  chCw := armBody Gen.completeHandshakeArms "recv Association.closeWriteLoopCh" == []
  chRc := armBody Gen.completeHandshakeArms "recv Association.readLoopCloseCh" == []
  wlAwake := armBody Gen.writeLoopSelectArms "recv Association.awakeWriteLoopCh" == []
  wlCw := hasArm Gen.writeLoopSelectArms "recv Association.closeWriteLoopCh"
  wlCwChecksAbort := armBody Gen.writeLoopSelectArms "recv Association.closeWriteLoopCh" ==
    [("Lock", "Association.lock"), ("Unlock", "Association.lock"), ("if{", "abortPending"), ("continue", ""), ("}", ""), ("break", "loop")]
  wlErrCloses := (Gen.writeLoopBody.dropWhile (· != ("if{", "err != nil"))).take 3 ==
    [("if{", "err != nil"), ("call", "Association.closeNetConn"), ("break", "loop")]
  tlCw := ((armBody Gen.timerLoopSelectArms "recv Association.closeWriteLoopCh").getLast?) == some ("return", "")
  shCw := hasArm Gen.shutdownSelectArms "recv Association.closeWriteLoopCh"
  shCwChecks := armBody Gen.shutdownSelectArms "recv Association.closeWriteLoopCh" ==
    [("RLock", "Association.lock"), ("RUnlock", "Association.lock"), ("if{", "!completed"), ("return", ""), ("}", ""), ("return", "")]
  shCtx := armBody Gen.shutdownSelectArms "recv ctx.Done()" == [("return", "")]
  cnHs := hasArm (armsOf "createClientWithOptionsWithContext") "recv Association.handshakeCompletedCh"
  cnRc := armBody (armsOf "createClientWithOptionsWithContext") "recv Association.readLoopCloseCh" == [("return", "")]
  cnCtx := armBody (armsOf "createClientWithOptionsWithContext") "recv ctx.Done()" == [("call", "Association.Close"), ("return", "")]
  svHs := hasArm (armsOf "ServerWithOptions") "recv Association.handshakeCompletedCh"
  svRc := armBody (armsOf "ServerWithOptions") "recv Association.readLoopCloseCh" == [("return", "")]
  wrNotify := Gen.sendPayloadDataBody.contains ("arm{", "recv writeNotify")
  wrCtx := Gen.sendPayloadDataBody.contains ("arm{", "recv ctx.Done()")
  accEof := Gen.acceptStreamBody == [("recv", "Association.acceptCh"), ("if{", "!ok"), ("return", ""), ("}", "")]
  unregWake := wakeOf Gen.unregisterStreamBody
  resetWake := wakeOf Gen.onInboundStreamResetBody
  unregSetsErr := Gen.unregisterStreamBody ==
    [("Lock", "Stream.lock"), ("defer Unlock", "Stream.lock"), ("delete", "Association.streams"), ("set", "Stream.readErr"), ("broadcast", "Stream.readNotifier")]
    || Gen.unregisterStreamBody ==
    [("Lock", "Stream.lock"), ("defer Unlock", "Stream.lock"), ("delete", "Association.streams"), ("set", "Stream.readErr"), ("signal", "Stream.readNotifier")]
  unregDeletes := Gen.unregisterStreamBody.contains ("delete", "Association.streams")
  dlKeepsTerminal := hasInfix ((Gen.lockEvents.lookup "Stream.SetReadDeadline").getD [])
    [("Lock", "Stream.lock"), ("if{", "s.readErr == nil"), ("set", "Stream.readErr"), ("}", ""), ("Unlock", "Stream.lock")]
  unblockCloses := Gen.unblockPendingWritesBody ==
    [("if{", "!a.blockWrite"), ("return", ""), ("}", ""), ("set", "Association.writePending"), ("close", "Association.writeNotify"), ("set", "Association.writeNotify")]

end Conc
