import SctpVerif.Model.Sender
import SctpVerif.Model.Receiver
/-!
# NetSys — the two halves of an association and an adversarial network between them (DESIGN §2.1)

COMPOSES the existing L0 models; nothing of them is re-modelled here:

* the sending endpoint is a `Sender.St` (association.go send / ack paths, stream.go write half),
* the receiving endpoint is a `Receiver.St` (association.go receive half, stream.go read half),
* the network is the HISTORY `wire` of every DATA / I-DATA chunk any `gather` of the sender ever put on the
  wire. `deliver is` hands the receiver ONE packet made of the history chunks with the indices `is` — any
  indices, any number of times, in any order (duplication, reordering, arbitrary bundling); an index that is
  never chosen is a lost chunk; an index beyond the history names nothing (skipped).

The SACKs the sender processes are NOT taken from the receiver: `Op.snd (.sack cum arwnd gaps marks)` carries
arbitrary values (so do the oracle inputs of `gather` / `tick`). Whatever is proved of all NetSys runs holds in
particular when the SACKs are the truthful ones; safety does not depend on them being truthful.

**Payload bytes.** The Sender model carries lengths and message identities only. NetSys adds the ghost
`pay : Nat → List UInt8` (message identity = value of the write counter `nextMsg` ↦ the bytes the application
hands to that `WriteSCTP` call). The only thing the sender model sees of it is the length: `Op.write si ppi`
performs `Sender.write si ppi (pay nextMsg).length`. `toWire` is what the receiver's decoder makes of a sender
chunk (chunk_payload_data.go `marshal` ∘ `unmarshal`): the header fields, and as user data the slice of
`pay c.msg` the fragment covers — fragment `i` of a message cut with payload limit `mp` starts at byte `i·mp`
(`packetize` cuts `min(mp, remaining)` bytes per round) and has the chunk's length. That `packetize` really
copies that slice is NOT proved here (it is the byte-copy observed by the e2e content hashes).

Core-only, executable.
-/
namespace NetSys

structure Params where
  cfg : Sender.Cfg
  tsn : BitVec 32 := 0             -- the sender's initial TSN = the receiver's `peerInitialTSN`
  peerRwnd : BitVec 32 := 65536    -- a_rwnd of the receiver's INIT
  pay : Nat → List UInt8           -- ghost: the bytes of the write with message identity `m`
  maxBuf : BitVec 32 := 65536      -- receiver: maxReceiveBufferSize
  maxEntries : BitVec 32 := 0      -- receiver: reassembly entry limit
  useFwd : Bool := true
  useIFwd : Bool := false
  ackMode : Int := 0

structure St where
  snd : Sender.St
  rcv : Receiver.St
  wire : List Sender.Chunk := []   -- history of every DATA chunk put on the wire, in order

/-- both endpoints after the handshake: same initial TSN on both sides, the negotiated chunk kind on both sides -/
def init (P : Params) : St :=
  { snd := Sender.init P.cfg P.tsn P.peerRwnd,
    rcv := Receiver.init P.maxBuf P.maxEntries P.cfg.useInterleaving P.useFwd P.useIFwd P.ackMode P.tsn }

/-- what the receiver's decoder makes of a DATA (`il = false`) / I-DATA (`il = true`) chunk of the sender:
DATA has no MID / FSN fields; I-DATA has no SSN field (`unmarshal` sets it to the low 16 bits of the MID), carries
the PPI in the first fragment only and the FSN in the others -/
def toWire (P : Params) (c : Sender.Chunk) : Reasm.Chunk :=
  let il := P.cfg.useInterleaving
  { tsn := c.tsn, si := c.si,
    ssn := if il then BitVec.setWidth 16 c.mid else c.ssn,
    mid := if il then c.mid else 0,
    fsn := if il && !c.bfrag then c.fsn else 0,
    unordered := c.unordered, bf := c.bfrag, ef := c.efrag, iData := il,
    ppi := if il && !c.bfrag then 0 else c.ppi,
    userData := ((P.pay c.msg).drop (c.fsn.toNat * P.cfg.maxPayload.toNat)).take c.len }

/-- the pieces `packetize` cuts a payload into: `min(mp, remaining)` bytes per round (mirrors `Sender.fragAux`) -/
def cutAux (mp : Nat) : Nat → List UInt8 → List (List UInt8)
  | 0, _ => []
  | fuel+1, bs => if bs.length = 0 ∨ mp = 0 then [] else bs.take mp :: cutAux mp fuel (bs.drop mp)

def cut (mp : Nat) (bs : List UInt8) : List (List UInt8) := cutAux mp bs.length bs

inductive Op where
  /-- the application writes the bytes `pay nextMsg` with this PPI on stream `si` -/
  | write (si : BitVec 16) (ppi : BitVec 32)
  /-- every other operation of the sender model, with arbitrary arguments: `openS`, `unreg`, `setEstablished`,
  `gather` (any budget oracle, any selection), `sack` (ANY cumulative TSN, window, gap blocks, loss marks), `t3`,
  `tick`. (A `.write` here would bypass the payload ghost: it is not an operation of NetSys and does nothing.) -/
  | snd (op : Sender.Op)
  /-- one packet reaches the receiver: the history chunks with these indices, each with an arbitrary I-bit -/
  | deliver (is : List (Nat × Bool))
  /-- every operation of the receiver model that is not a packet: `read`, `accept`, `open`, `gather`, `tick`,
  `setState`. (A `.pkt` here would inject chunks nobody sent: it is not an operation of NetSys and does nothing.) -/
  | rcv (op : Receiver.Op)

/-- the sender operation a NetSys operation performs (depends on the sender's write counter only) -/
def sndOp (P : Params) (s : Sender.St) : Op → Option Sender.Op
  | .write si ppi => some (.write si ppi (P.pay s.nextMsg).length)
  | .snd (.write _ _ _) => none
  | .snd op => some op
  | _ => none

/-- the DATA chunks a sender operation puts on the wire -/
def emits (s : Sender.St) : Sender.Op → List Sender.Chunk
  | .gather orc sel => (Sender.gather s orc sel).2.packets.flatten
  | _ => []

/-- the packet `deliver is` builds from the history -/
def packetOf (P : Params) (wire : List Sender.Chunk) (is : List (Nat × Bool)) : List Receiver.InChunk :=
  is.filterMap fun x => (wire[x.1]?).map fun c => Receiver.InChunk.data (toWire P c) x.2

/-- the receiver operation a NetSys operation performs -/
def rcvOp (P : Params) (wire : List Sender.Chunk) : Op → Option Receiver.Op
  | .deliver is => some (.pkt (packetOf P wire is))
  | .rcv (.pkt _) => none
  | .rcv op => some op
  | _ => none

def step (P : Params) (s : St) (op : Op) : St :=
  match sndOp P s.snd op with
  | some o => { s with snd := Sender.step s.snd o, wire := s.wire ++ emits s.snd o }
  | none =>
    match rcvOp P s.wire op with
    | some o => { s with rcv := Receiver.step s.rcv o }
    | none => s

def run (P : Params) (s : St) : List Op → St
  | [] => s
  | op :: ops => run P (step P s op) ops

/-! ## what the two applications see -/

/-- an accepted write: stream, PPI, message identity -/
structure Write where
  si : BitVec 16
  ppi : BitVec 32
  msg : Nat
  deriving Repr, DecidableEq, Inhabited

/-- `WriteSCTP` accepted the message: it returned `(len, nil)` for a non-empty payload (the fragments were queued) -/
def accepts (s : Sender.St) (si : BitVec 16) (ppi : BitVec 32) (len : Nat) : Bool :=
  len != 0 && (match (Sender.write s si ppi len).2.2 with | .none => true | _ => false)

def writeOut (P : Params) (s : St) : Op → List Write
  | .write si ppi => if accepts s.snd si ppi (P.pay s.snd.nextMsg).length then [⟨si, ppi, s.snd.nextMsg⟩] else []
  | _ => []

/-- the accepted writes of a run, in order -/
def writes (P : Params) : St → List Op → List Write
  | _, [] => []
  | s, op :: ops => writeOut P s op ++ writes P (step P s op) ops

/-- `(PPI, bytes)` of the accepted writes on stream `si`, in write order -/
def writesOn (P : Params) (si : BitVec 16) (s : St) (ops : List Op) : List (BitVec 32 × List UInt8) :=
  ((writes P s ops).filter (·.si == si)).map fun w => (w.ppi, P.pay w.msg)

def readOut (si : BitVec 16) (s : St) : Op → List (BitVec 32 × List UInt8)
  | .rcv (.read nm n) => if nm.1 = si then
      (match (Receiver.read s.rcv nm n).2 with | .ok _ ppi data => [(ppi, data)] | _ => []) else []
  | _ => []

/-- `(PPI, bytes)` of every successful `ReadSCTP` on stream `si` (any stream object of that id), in order -/
def readsOn (P : Params) (si : BitVec 16) : St → List Op → List (BitVec 32 × List UInt8)
  | _, [] => []
  | s, op :: ops => readOut si s op ++ readsOn P si (step P s op) ops

/-- number of TSNs the run has assigned (`myNextTSN` counted without wrap-around): chunks moved to in flight -/
def movedOut (s : Sender.St) : Sender.Op → List Sender.Chunk
  | .gather orc sel => (Sender.gather s orc sel).2.admits.map (·.chunk)
  | _ => []

/-! ## hypotheses of the composition theorems, as decidable predicates on the run -/

/-- every stream the sender opens is reliable and ordered, and the peer never resets one (`unreg`) -/
def ReliableOp : Op → Bool
  | .snd (.openS _ unordered relType _ _) => !unordered && relType == 0
  | .snd (.unreg _) => false
  | _ => true

def Reliable (ops : List Op) : Bool := ops.all ReliableOp

/-- the D15 window: at every step, the messages written on `si` are at most `W` ahead of those read on it -/
def WinOk (P : Params) (si : BitVec 16) (W : Nat) (s : St) (ops : List Op) : Bool :=
  (List.range (ops.length + 1)).all fun n =>
    decide ((writesOn P si s (ops.take n)).length ≤ (readsOn P si s (ops.take n)).length + W)

end NetSys
