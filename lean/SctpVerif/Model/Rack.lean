import SctpVerif.Gen.Funcs
/-!
# L0 model of RACK loss detection, the tail-loss probe (PTO) and the TLR burst budget
(association.go: `onRackAfterSACK`, `onRackTimeoutLocked`, `schedulePTOAfterSendLocked`, `onPTOTimerLocked`,
`rackInsert/rackRemove`, `start/stopRackTimer`, `start/stopPTOTimer`, the firing branch of `timerLoop`,
`tlr*Locked`, the RACK/RTT bookkeeping inside `processSelectiveAck`, and windowedmin.go). Core-only, executable, total.

The component is the RACK/PTO/TLR fields of `Association` plus the per-chunk data those functions read. The rest
of the association is its ENVIRONMENT:

* `Env` — what the functions read from outside: the four readings of `a.SRTT()` (`SrttView`: each code site
  evaluates `srttMs > 0` and `time.Duration(srttMs * 1e6)` itself; `SrttView.ofRat / ofFloat` are those very
  expressions, generated), `inFastRecovery`, `t3RTX.isRunning()`, `pendingQueue.size()`;
* environment OPERATIONS (`Op`): what the sender paths do to the data RACK reads — a new chunk enters the in-flight
  queue (`send` = the RACK part of `movePendingDataChunkToInflightQueue`), a chunk is retransmitted (`resend` = the
  five lines `nSent++ / since = now / rackRemove / rackInsert / checkPartialReliabilityStatus` of
  `getDataPacketsToRetransmit` and `gatherOutboundFastRetransmissionPackets`), a message becomes abandoned
  (`abandon`), T3 marks everything (`t3` = `markAllToRetrasmit`), the clock advances (`advance`).
  The theorems quantify over all operation lists and all `Env` values.

Generated arithmetic: EVERY condition and formula below that is not plain control flow is a `Gen.*` expression site
regenerated from the source on each run (go/extract/exprs.go, block "RACK / PTO / TLR"):
`psa_*` (RTT sampling and newest-delivered bookkeeping of both loops of `processSelectiveAck`), `cumAck_allAcked`,
`wmin_cutoff`, `rack_*` (all of `onRackAfterSACK`: high-watermark, delivered time, min-RTT, reordering window
initialisation / suppression / inflation / keep counter / SRTT clamp, the three tests of the marking loop, the timer
duration, the PTO), `ptoSend_*`, `rackTimer_* / ptoTimer_*` (deadline computation), `timerLoop_rackDue / ptoDue`,
`rackTimeout_*`, `pto_*`, `tlr_* / tlrPhase_* / tlrLoss_* / tlrFinish_* / tlrAllow_*`, `init_*`. Serial-number
comparisons are `Gen.sna32*`. Hand-written: the control flow, the two list walks, the queue look-ups.

Conventions.
* `time.Time` is `Int`: nanoseconds on one monotonic clock; the zero `Time` is `0` and every real reading is `> 0`
  (the harness logs Unix-style readings offset so that this holds). `time.Duration` is `Int` nanoseconds.
* A chunk is identified by its BitVec 32 (unique in the in-flight queue): `q` is the in-flight queue in queue order with the
  flags the functions read; `list` is the RACK list (`rackHead … rackTail`) as TSNs; `rackInList` is membership.
  A list entry without a chunk in `q` cannot arise (`rackRemove` accompanies every `pop`); the walks drop such an entry.
* `inflightQueue.get(cum+1+i)` for `i = 0, 1, …` until the first miss visits `q` from the offset of `cum+1`
  (`scanFrom`), as in `Model/Sender.lean`.
* `abandoned()` (read through the head fragment) is the per-chunk flag `abandoned`, refreshed by the `abandon` op.
* `awakeWriteLoop`, logging, the HEARTBEAT sent by an idle PTO (counted in the ghost `hbProbes`) are outside.
* Error returns of `processSelectiveAck` (BitVec 32 not in flight) are `none`; the state they leave behind is not described
  (they are unreachable when the in-flight TSNs are consecutive, see `Model/Sender.lean`).
-/
namespace Rack
open Gen


/-- `rackSettings` after defaulting + MTU -/
structure Cfg where
  mtu : BitVec 32 := 1200
  wcDelAck : Int := init_wcDelAckDefault       -- a.rack.rackWCDelAck
  reoWndFloor : Int := 0                        -- a.rack.rackReoWndFloor
  minRTTWindow : Int := 30000000000             -- a.rack.rackMinRTTWnd.rackMinRTTWnd
  deriving Inhabited, DecidableEq, Repr

/-- the fields of `chunkPayloadData` RACK / PTO / TLR read or write -/
structure Chunk where
  tsn : BitVec 32
  since : Int
  nSent : BitVec 32 := 1
  acked : Bool := false
  abandoned : Bool := false
  retransmit : Bool := false
  deriving Inhabited, DecidableEq, Repr

/-- what the four code sites compute from `a.SRTT()` -/
structure SrttView where
  rackValid : Bool := false     -- onRackAfterSACK, reordering-window clamp: `srttMs > 0`
  rackDur : Int := 0            --   `time.Duration(srttMs * 1e6)`
  ptoValid : Bool := false      -- onRackAfterSACK, PTO
  ptoDur : Int := 0
  sendValid : Bool := false     -- schedulePTOAfterSendLocked
  sendDur : Int := 0
  tlrValid : Bool := false      -- tlrFirstRTTDurationLocked
  tlrDur : Int := 0
  deriving Inhabited, DecidableEq, Repr

def SrttView.ofRat (x : Rat) : SrttView :=
  { rackValid := rack_srttValid_Rat x, rackDur := rack_srttDur_Rat x,
    ptoValid := rack_ptoSrttValid_Rat x, ptoDur := rack_ptoSrtt_Rat x,
    sendValid := ptoSend_srttValid_Rat x, sendDur := ptoSend_srtt_Rat x,
    tlrValid := tlr_srttValid_Rat x, tlrDur := tlr_firstRTTDur_Rat x }

def SrttView.ofFloat (x : Float) : SrttView :=
  { rackValid := rack_srttValid_Float x, rackDur := rack_srttDur_Float x,
    ptoValid := rack_ptoSrttValid_Float x, ptoDur := rack_ptoSrtt_Float x,
    sendValid := ptoSend_srttValid_Float x, sendDur := ptoSend_srtt_Float x,
    tlrValid := tlr_srttValid_Float x, tlrDur := tlr_firstRTTDur_Float x }

structure Env where
  srtt : SrttView := {}
  inFastRecovery : Bool := false
  t3Running : Bool := false        -- a.t3RTX.isRunning()
  pendingSize : Int := 0           -- a.pendingQueue.size()
  deriving Inhabited, DecidableEq, Repr

structure St where
  cfg : Cfg := {}
  now : Int := 1
  q : List Chunk := []                        -- inflightQueue
  cumAck : BitVec 32 := 0                           -- cumulativeTSNAckPoint
  myNextTSN : BitVec 32 := 0
  minTSN2MeasureRTT : BitVec 32 := 0
  list : List (BitVec 32) := []                       -- rackHead … rackTail
  reoWnd : Int := 0                           -- rackReoWnd
  minRTT : Int := 0                           -- rackMinRTT
  minWnd : List (Int × Int) := []            -- rack.rackMinRTTWnd.deque
  deliveredTime : Int := 0                   -- rackDeliveredTime
  hw : BitVec 32 := 0                               -- rackHighestDeliveredOrigTSN
  reorderingSeen : Bool := false
  keepInflated : Int := 0                     -- rackKeepInflatedRecoveries
  rackDeadline : Int := 0
  ptoDeadline : Int := 0
  tlrActive : Bool := false
  tlrFirstRTT : Bool := false
  tlrHadAdditionalLoss : Bool := false
  tlrEndTSN : BitVec 32 := 0
  tlrBurstFirst : Int := init_tlrFirst        -- tlrBurstFirstRTTUnits
  tlrBurstLater : Int := init_tlrLater        -- tlrBurstLaterRTTUnits
  tlrGoodOps : BitVec 32 := 0
  tlrStartTime : Int := 0
  hbProbes : Nat := 0                         -- ghost: HEARTBEATs sent by an idle PTO
  deriving Inhabited, DecidableEq, Repr

/-- the RACK / PTO / TLR part of `createAssociationFromConfigWithTsn(cfg, tsn)` at clock reading `now` -/
def init (cfg : Cfg) (tsn : BitVec 32) (now : Int) : St :=
  { cfg := cfg, now := now, cumAck := tsn - 1, myNextTSN := tsn, minTSN2MeasureRTT := tsn,
    hw := init_rackHighWatermark tsn, tlrBurstFirst := init_tlrFirst, tlrBurstLater := init_tlrLater }

/-! ## the chunk store and the RACK list -/

def find (q : List Chunk) (t : BitVec 32) : Option Chunk := q.find? (·.tsn == t)

def modify (q : List Chunk) (t : BitVec 32) (f : Chunk → Chunk) : List Chunk := q.map fun c => if c.tsn == t then f c else c

/-- `payloadQueue.get`: offset from the front chunk's BitVec 32 -/
def get (q : List Chunk) (tsn : BitVec 32) : Option Chunk :=
  match q with
  | [] => none
  | f :: _ => let off := (tsn - f.tsn).toNat; if off ≥ q.length then none else q[off]?

/-- the chunks `for i := 0; ; i++ { c, ok := get(first + i); if !ok { break } … }` visits -/
def scanFrom (q : List Chunk) (first : BitVec 32) : List Chunk :=
  match q with
  | [] => []
  | f :: _ => q.drop (first - f.tsn).toNat

/-- `rackInsert` -/
def rackInsert (s : St) (t : BitVec 32) : St := if s.list.contains t then s else { s with list := s.list ++ [t] }

/-- `rackRemove` -/
def rackRemove (s : St) (t : BitVec 32) : St := { s with list := s.list.filter (· != t) }

/-! ## timers -/

def startRackTimer (s : St) (dur : Int) : St :=
  { s with rackDeadline := if rackTimer_disarms dur then 0 else rackTimer_deadline (time_Now := s.now) (dur := dur) }

def stopRackTimer (s : St) : St := { s with rackDeadline := 0 }

def startPTOTimer (s : St) (dur : Int) : St :=
  { s with ptoDeadline := if ptoTimer_disarms dur then 0 else ptoTimer_deadline (time_Now := s.now) (dur := dur) }

def stopPTOTimer (s : St) : St := { s with ptoDeadline := 0 }

/-! ## windowedMin -/

/-- `sort.Search(n, f)` -/
def searchLoop (f : Nat → Bool) : Nat → Nat → Nat → Nat
  | 0, i, _ => i
  | fuel+1, i, j => if i < j then (let h := (i + j) / 2; if !f h then searchLoop f fuel (h+1) j else searchLoop f fuel i h) else i

def sortSearch (n : Nat) (f : Nat → Bool) : Nat := searchLoop f (n+1) 0 n

/-- `windowedMin.prune` -/
def wminPrune (window : Int) (dq : List (Int × Int)) (now : Int) : List (Int × Int) :=
  if dq.isEmpty then dq
  else
    let cutoff := wmin_cutoff (now := now) (window_rackMinRTTWnd := window)
    let k := sortSearch dq.length fun i => match dq[i]? with
      | some e => !decide (e.1 < cutoff)
      | none => true
    if k > 0 then dq.drop k else dq

/-- the back-to-front loop of `Push`: drop entries whose value is `>= v` -/
def wminPopBack (v : Int) : List (Int × Int) → List (Int × Int)
  | [] => []
  | e :: rest =>
    match wminPopBack v rest with
    | [] => if e.2 ≥ v then [] else [e]
    | r => e :: r

/-- `windowedMin.Push` -/
def wminPush (window : Int) (dq : List (Int × Int)) (now : Int) (v : Int) : List (Int × Int) :=
  wminPopBack v (wminPrune window dq now) ++ [(now, v)]

/-- `windowedMin.Min`: the pruned deque and the minimum (0 when empty) -/
def wminMin (window : Int) (dq : List (Int × Int)) (now : Int) : List (Int × Int) × Int :=
  let d := wminPrune window dq now
  match d with
  | [] => (d, 0)
  | e :: _ => (d, e.2)

/-! ## TLR -/

/-- `tlrFirstRTTDurationLocked` -/
def tlrFirstRTTDuration (env : Env) : Int := if env.srtt.tlrValid then env.srtt.tlrDur else tlr_firstRTTDefault

/-- `tlrUpdatePhaseLocked(currTime)` -/
def tlrUpdatePhase (s : St) (env : Env) (currTime : Int) : St :=
  if tlrPhase_skip (a_tlrActive := s.tlrActive) (a_tlrFirstRTT := s.tlrFirstRTT) then s
  else if tlrPhase_noStart (a_tlrStartTime := s.tlrStartTime) then s
  else if tlrPhase_firstOver (currTime := currTime) (a_tlrStartTime := s.tlrStartTime) (a_tlrFirstRTTDurationLocked := tlrFirstRTTDuration env)
    then { s with tlrFirstRTT := false }
  else s

/-- `tlrCurrentBurstUnitsLocked` -/
def tlrCurrentBurstUnits (s : St) (env : Env) : St × Int :=
  if !s.tlrActive then (s, 0)
  else
    let s1 := tlrUpdatePhase s env s.now
    (s1, if s1.tlrFirstRTT then s1.tlrBurstFirst else s1.tlrBurstLater)

/-- `tlrCurrentBurstBudgetScaledLocked`: what `gatherOutbound` starts with -/
def tlrBudgetScaled (s : St) (env : Env) : St × Int :=
  if !s.tlrActive then (s, 0)
  else
    let r := tlrCurrentBurstUnits s env
    (r.1, tlr_budgetScaled (units := r.2) (a_MTU := s.cfg.mtu))

/-- `tlrHighestOutstandingTSNLocked` -/
def tlrHighestOutstanding (s : St) : Option (BitVec 32) :=
  let n := (scanFrom s.q (tlr_scanTSN (a_cumulativeTSNAckPoint := s.cumAck) (i := 0))).length
  if n = 0 then none else some (tlr_scanTSN (a_cumulativeTSNAckPoint := s.cumAck) (i := BitVec.ofNat 32 (n - 1)))

/-- `tlrBeginLocked` -/
def tlrBegin (s : St) : St :=
  { s with tlrActive := true, tlrFirstRTT := true, tlrHadAdditionalLoss := false, tlrStartTime := s.now,
           tlrEndTSN := match tlrHighestOutstanding s with
             | some e => e
             | none => s.cumAck }

/-- `tlrApplyAdditionalLossLocked(currTime)` -/
def tlrApplyAdditionalLoss (s : St) (env : Env) (currTime : Int) : St :=
  if !s.tlrActive then s
  else
    let s1 := { tlrUpdatePhase s env currTime with tlrHadAdditionalLoss := true, tlrGoodOps := 0 }
    if s1.tlrFirstRTT then
      let u := tlrLoss_firstStepped (a_tlrBurstFirstRTTUnits := s1.tlrBurstFirst)
      { s1 with tlrBurstFirst := if tlrLoss_firstBelowMin (a_tlrBurstFirstRTTUnits := u) then tlrLoss_firstMin else u }
    else
      let u := tlrLoss_laterStepped (a_tlrBurstLaterRTTUnits := s1.tlrBurstLater)
      { s1 with tlrBurstLater := if tlrLoss_laterBelowMin (a_tlrBurstLaterRTTUnits := u) then tlrLoss_laterMin else u }

/-- `if a.tlrFirstRTT && ackProgress { a.tlrFirstRTT = false }` -/
def tlrLeaveFirst (s : St) (ackProgress : Bool) : St :=
  if tlrFinish_leavesFirst (a_tlrFirstRTT := s.tlrFirstRTT) (ackProgress := ackProgress) then { s with tlrFirstRTT := false } else s

/-- the good-operations counter at the end of an episode: 16 episodes without additional loss restore the default bursts -/
def tlrScore (s : St) : St :=
  if tlrFinish_clean (a_tlrHadAdditionalLoss := s.tlrHadAdditionalLoss) then
    (if tlrFinish_resetsBurst (a_tlrGoodOps := s.tlrGoodOps + 1) then
      { s with tlrBurstFirst := tlrFinish_firstDefault, tlrBurstLater := tlrFinish_laterDefault, tlrGoodOps := 0 }
    else { s with tlrGoodOps := s.tlrGoodOps + 1 })
  else { s with tlrGoodOps := 0 }

/-- the end of an episode -/
def tlrEnd (s : St) : St :=
  { tlrScore s with tlrActive := false, tlrFirstRTT := false, tlrHadAdditionalLoss := false, tlrEndTSN := 0 }

/-- `tlrMaybeFinishLocked(ackProgress)` -/
def tlrMaybeFinish (s : St) (ackProgress : Bool) : St :=
  if !s.tlrActive then s
  else if tlrFinish_done (a_cumulativeTSNAckPoint := s.cumAck) (a_tlrEndTSN := s.tlrEndTSN) then tlrEnd (tlrLeaveFirst s ackProgress)
  else tlrLeaveFirst s ackProgress

/-- `tlrAllowSendLocked(&budgetScaled, &consumed, estBytes)` with the non-nil pointers `gatherOutbound` passes:
the answer and the new `(budgetScaled, consumed)` -/
def tlrAllow (active : Bool) (b : Int × Bool) (est : Int) : Bool × (Int × Bool) :=
  if tlrAllow_inactive (a_tlrActive := active) (budgetScaled_eq_nil := false) (consumed_eq_nil := false) then (true, b)
  else if tlrAllow_free (estBytes := est) then (true, b)
  else
    let need := tlrAllow_need (estBytes := est)
    if tlrAllow_refuses (consumed := b.2) (budgetScaled := b.1) (needScaled := need) then (false, b)
    else
      let b1 := tlrAllow_spent (budgetScaled := b.1) (needScaled := need)
      (true, (if tlrAllow_clamps (budgetScaled := b1) then 0 else b1, true))

/-- one gather: the requests in the order the three loops make them; the answers and the final `(budget, consumed)` -/
def tlrAllowRun (active : Bool) : Int × Bool → List Int → List Bool × (Int × Bool)
  | b, [] => ([], b)
  | b, e :: es =>
    let r := tlrAllow active b e
    let rest := tlrAllowRun active r.2 es
    (r.1 :: rest.1, rest.2)

/-! ## PTO -/

/-- `schedulePTOAfterSendLocked` -/
def schedulePTOAfterSend (s : St) (env : Env) : St :=
  if ptoSend_idle (a_inflightQueue_size := (s.q.length : Int)) then stopPTOTimer s
  else
    let pto := if env.srtt.sendValid then
        let extra := if ptoSend_single (a_inflightQueue_size := (s.q.length : Int)) then s.cfg.wcDelAck else ptoSend_extra
        ptoSend_pto (srtt := env.srtt.sendDur) (extra := extra)
      else ptoSend_noRTT
    startPTOTimer s pto

/-- step 5 of `onRackAfterSACK` (the same computation, written a second time in the code) -/
def schedulePTOAfterSack (s : St) (env : Env) : St :=
  if rack_ptoIdle (a_inflightQueue_size := (s.q.length : Int)) then stopPTOTimer s
  else
    let pto := if env.srtt.ptoValid then
        let extra := if rack_ptoSingle (a_inflightQueue_size := (s.q.length : Int)) then s.cfg.wcDelAck else rack_ptoExtra
        rack_pto (srtt := env.srtt.ptoDur) (extra := extra)
      else rack_ptoNoRTT
    startPTOTimer s pto

/-- the chunk `onPTOTimerLocked` ends up with in `latest`: the last one of the scan that is neither acked nor abandoned -/
def ptoLatest (s : St) : Option Chunk :=
  ((scanFrom s.q (pto_scanTSN (a_cumulativeTSNAckPoint := s.cumAck) (i := 0))).filter
    fun c => !pto_skipDead (c_acked := c.acked) (c_abandoned := c.abandoned)).getLast?

/-- `if !a.tlrActive { a.tlrBeginLocked() } else { a.tlrApplyAdditionalLossLocked(currTime) }` of `onPTOTimerLocked` -/
def ptoTlr (s : St) (env : Env) : St :=
  if pto_beginsTLR (a_tlrActive := s.tlrActive) then tlrBegin s else tlrApplyAdditionalLoss s env s.now

/-- `onPTOTimerLocked`: new state and the TSNs it marked for retransmission (at most one) -/
def onPTOTimer (s : St) (env : Env) : St × List (BitVec 32) :=
  if pto_idle (a_inflightQueue_size := (s.q.length : Int)) then ({ stopPTOTimer s with hbProbes := s.hbProbes + 1 }, [])
  else
    let s1 := ptoTlr s env
    if pto_hasPending (a_pendingQueue_size := env.pendingSize) then (s1, [])      -- "PTO should just wake the writer"
    else match ptoLatest s1 with
      | none => (s1, [])
      | some c =>
        if pto_marks (latest_ne_nil := true) (latest_retransmit := c.retransmit) then
          ({ s1 with q := modify s1.q c.tsn fun c => { c with retransmit := true } }, [c.tsn])
        else (s1, [])

/-! ## the marking walk over the RACK list -/

/-- the three tests of the loop body; `onRackAfterSACK` and `onRackTimeoutLocked` each have their own copy in the code -/
structure WalkFns where
  skipDead : Bool → Bool → Bool
  skipResent : Bool → BitVec 32 → Bool
  tooNew : Int → Int → Int → Bool

def sackWalk : WalkFns :=
  { skipDead := fun a b => rack_skipDead (chunk_acked := a) (chunk_abandoned := b),
    skipResent := fun r n => rack_skipResent (chunk_retransmit := r) (chunk_nSent := n),
    tooNew := fun t w d => rack_tooNew (chunk_since := t) (a_rackReoWnd := w) (a_rackDeliveredTime := d) }

def timeoutWalk : WalkFns :=
  { skipDead := fun a b => rackTimeout_skipDead (chunk_acked := a) (chunk_abandoned := b),
    skipResent := fun r n => rackTimeout_skipResent (chunk_retransmit := r) (chunk_nSent := n),
    tooNew := fun t w d => rackTimeout_tooNew (chunk_since := t) (a_rackReoWnd := w) (a_rackDeliveredTime := d) }

structure WalkOut where
  list : List (BitVec 32)          -- the RACK list afterwards
  q : List Chunk
  marks : List (BitVec 32)         -- chunks marked lost, in list order

/-- `for chunk := a.rackHead; chunk != nil; { … }`: acked / abandoned entries are unlinked, chunks already flagged or
retransmitted before are skipped (kept), the walk stops at the first chunk that is too new, every other chunk is
flagged for retransmission and unlinked -/
def walk (f : WalkFns) (reoWnd : Int) (delivered : Int) : List (BitVec 32) → List Chunk → WalkOut
  | [], q => { list := [], q := q, marks := [] }
  | t :: rest, q =>
    match find q t with
    | none => walk f reoWnd delivered rest q
    | some c =>
      if f.skipDead c.acked c.abandoned then walk f reoWnd delivered rest q
      else if f.skipResent c.retransmit c.nSent then
        let r := walk f reoWnd delivered rest q
        { r with list := t :: r.list }
      else if f.tooNew c.since reoWnd delivered then { list := t :: rest, q := q, marks := [] }
      else
        let r := walk f reoWnd delivered rest (modify q t fun c => { c with retransmit := true })
        { r with marks := t :: r.marks }

/-- the tail shared by both callers: `if marked { if a.tlrActive { tlrApplyAdditionalLossLocked(now) } … }` -/
def afterMarks (s : St) (env : Env) (marked : Bool) : St :=
  if marked && s.tlrActive then tlrApplyAdditionalLoss s env s.now else s

/-- the walk's result written back, then `afterMarks` -/
def afterWalk (s : St) (env : Env) (r : WalkOut) : St :=
  afterMarks { s with list := r.list, q := r.q } env (!r.marks.isEmpty)

/-- `onRackTimeoutLocked` -/
def onRackTimeout (s : St) (env : Env) : St × List (BitVec 32) :=
  if rackTimeout_noDelivered (a_rackDeliveredTime := s.deliveredTime) then (s, [])
  else
    let r := walk timeoutWalk s.reoWnd s.deliveredTime s.list s.q
    (afterWalk s env r, r.marks)

/-! ## onRackAfterSACK -/

/-- step 1a: the high-watermark of delivered TSNs, or "reordering seen" when the newest delivered chunk is not above it -/
def rackHw (s : St) (newestTSN : BitVec 32) : St :=
  if rack_hwAdvances (a_rackHighestDeliveredOrigTSN := s.hw) (newestDeliveredOrigTSN := newestTSN)
    then { s with hw := newestTSN } else { s with reorderingSeen := true }

/-- step 1b: the latest send time among delivered chunks -/
def rackNewer (s : St) (newestTime : Int) : St :=
  if rack_newerDelivered (newestDeliveredSendTime := newestTime) (a_rackDeliveredTime := s.deliveredTime)
    then { s with deliveredTime := newestTime } else s

/-- step 1: high-watermark, reordering flag, delivered time -/
def rackDelivered (s : St) (found : Bool) (newestTime : Int) (newestTSN : BitVec 32) : St :=
  if found then rackNewer (rackHw s newestTSN) newestTime else s

/-- step 2a: `if minRTT := a.rack.rackMinRTTWnd.Min(currTime); minRTT > 0 { a.rackMinRTT = minRTT }` -/
def reoMinRTT (s : St) : St :=
  let m := wminMin s.cfg.minRTTWindow s.minWnd s.now
  { s with minWnd := m.1, minRTT := if rack_minRTTValid (minRTT := m.2) then m.2 else s.minRTT }

/-- `base`: a quarter of the min-RTT or the configured floor, 0 without a min-RTT -/
def reoBase (s : St) : Int :=
  if rack_haveMinRTT (a_rackMinRTT := s.minRTT) then rack_reoBase (a_rackMinRTT := s.minRTT) (a_rack_rackReoWndFloor := s.cfg.reoWndFloor) else 0

/-- step 2b: suppress the window during recovery while no reordering was ever seen, else initialise it from `base` -/
def reoInit (s : St) (env : Env) : St :=
  if rack_suppressReoWnd (a_rackReorderingSeen := s.reorderingSeen) (a_inFastRecovery := env.inFastRecovery) (a_t3RTX_isRunning := env.t3Running)
    then { s with reoWnd := 0 }
  else if rack_initReoWnd (a_rackReoWnd := s.reoWnd) (base := reoBase s) then { s with reoWnd := reoBase s } else s

/-- step 2c: duplicate TSNs reported (DSACK-style): inflate, keep inflated for 16 recoveries -/
def reoInflate (s : St) (nDups : Int) : St :=
  if rack_dupInflates (sack_duplicateTSN_len := nDups) (a_rackMinRTT := s.minRTT) then
    { s with reoWnd := rack_reoInflated (a_rackReoWnd := s.reoWnd) (a_rackMinRTT := s.minRTT) (a_rack_rackReoWndFloor := s.cfg.reoWndFloor),
             keepInflated := rack_keepInit }
  else s

/-- step 2d: count down the keep-inflated counter outside fast recovery; at 0 fall back to a quarter of the min-RTT -/
def reoKeep (s : St) (env : Env) : St :=
  if rack_keepDecrements (a_inFastRecovery := env.inFastRecovery) (a_rackKeepInflatedRecoveries := s.keepInflated) then
    let k := s.keepInflated - 1
    if rack_keepExpired (a_rackKeepInflatedRecoveries := k) (a_rackMinRTT := s.minRTT)
      then { s with keepInflated := k, reoWnd := rack_reoAfterKeep (a_rackMinRTT := s.minRTT) }
      else { s with keepInflated := k }
  else s

/-- step 2e: "the reordering window MUST be bounded by SRTT" -/
def reoClamp (s : St) (env : Env) : St :=
  if env.srtt.rackValid then
    (if rack_reoAboveSrtt (a_rackReoWnd := s.reoWnd) (srttDur := env.srtt.rackDur) then { s with reoWnd := env.srtt.rackDur } else s)
  else s

/-- step 2: min-RTT and the reordering window -/
def rackReoWnd (s : St) (env : Env) (nDups : Int) : St :=
  reoClamp (reoKeep (reoInflate (reoInit (reoMinRTT s) env) nDups) env) env

/-- step 3: loss marking -/
def rackMark (s : St) (env : Env) : St × List (BitVec 32) :=
  if rack_haveDelivered (a_rackDeliveredTime := s.deliveredTime) then
    let r := walk sackWalk s.reoWnd s.deliveredTime s.list s.q
    (afterWalk s env r, r.marks)
  else (s, [])

/-- step 4: the RACK timer -/
def rackArm (s : St) : St :=
  if rack_armTimer (a_rackHead_ne_nil := !s.list.isEmpty) (a_rackDeliveredTime := s.deliveredTime) then
    startRackTimer s (rack_timerDur (rackRTT := rack_rtt (a_rackDeliveredTime := s.deliveredTime) (time_Now := s.now)) (a_rackReoWnd := s.reoWnd))
  else stopRackTimer s

/-- `onRackAfterSACK(deliveredFound, newestDeliveredSendTime, newestDeliveredOrigTSN, sack)`; `nDups = len(sack.duplicateTSN)` -/
def onRackAfterSACK (s : St) (env : Env) (found : Bool) (newestTime : Int) (newestTSN : BitVec 32) (nDups : Int) : St × List (BitVec 32) :=
  let s2 := rackReoWnd (rackDelivered s found newestTime newestTSN) env nDups
  let r := rackMark s2 env
  (schedulePTOAfterSack (rackArm r.1) env, r.2)

/-! ## the RACK / RTT part of processSelectiveAck -/

structure AckAcc where
  newestTime : Int := 0          -- newestDeliveredSendTime (zero Int initially)
  newestTSN : BitVec 32 := 0            -- newestDeliveredOrigTSN
  found : Bool := false           -- deliveredFound
  samples : List Int := []        -- ghost output: the RTT samples handed to `rtoMgr.setNewRTT` / `rackMinRTTWnd.Push`, oldest first
  deriving Inhabited, DecidableEq, Repr

/-- the RTT sample inside `if !chunkPayload.acked { … }` (Karn: original transmissions only, once per round trip);
`gap` selects the copy of the code -/
def ackSample (gap : Bool) (s : St) (a : AckAcc) (c : Chunk) : St × AckAcc :=
  let measurable := if gap then psa_gapMeasurable (chunkPayload_tsn := c.tsn) (a_minTSN2MeasureRTT := s.minTSN2MeasureRTT)
                    else psa_cumMeasurable (chunkPayload_tsn := c.tsn) (a_minTSN2MeasureRTT := s.minTSN2MeasureRTT)
  let original := if gap then psa_gapOriginal (chunkPayload_nSent := c.nSent) else psa_cumOriginal (chunkPayload_nSent := c.nSent)
  if measurable && original then
    ({ s with minTSN2MeasureRTT := s.myNextTSN, minWnd := wminPush s.cfg.minRTTWindow s.minWnd s.now (s.now - c.since) },
     { a with samples := a.samples ++ [s.now - c.since] })
  else (s, a)

/-- "RACK.segment is the most recently sent segment that has been delivered": strictly later send time wins -/
def ackNewest (gap : Bool) (a : AckAcc) (c : Chunk) : AckAcc :=
  let newer := if gap then psa_gapNewer (chunkPayload_since := c.since) (newestDeliveredSendTime := a.newestTime)
               else psa_cumNewer (chunkPayload_since := c.since) (newestDeliveredSendTime := a.newestTime)
  if newer then { a with newestTime := c.since, newestTSN := c.tsn, found := true } else a

/-- the body of `if !chunkPayload.acked { … }` as far as RTT and RACK are concerned -/
def ackOne (gap : Bool) (s : St) (a : AckAcc) (c : Chunk) : St × AckAcc :=
  let r := ackSample gap s a c
  (r.1, ackNewest gap r.2 c)

/-- `for idx := cumAck+1; sna32LTE(idx, cum); idx++ { pop(idx); rackRemove; … }`; `none` = `ErrInflightQueueTSNPop` -/
def popCum : List Chunk → (idx cum : BitVec 32) → St → AckAcc → Option (List Chunk × St × AckAcc)
  | [], idx, cum, s, a => if sna32LTE idx cum then none else some ([], s, a)
  | c :: rest, idx, cum, s, a =>
    if sna32LTE idx cum then
      if c.tsn == idx then
        let s1 := rackRemove s c.tsn
        let r := if !c.acked then ackOne false s1 a c else (s1, a)
        popCum rest (idx + 1) cum r.1 r.2
      else none
    else some (c :: rest, s, a)

/-- the gap-ack loop for one BitVec 32: `get`, `rackRemove`, `markAsAcked`, RTT / newest; `none` = `ErrTSNRequestNotExist` -/
def gapOne (q : List Chunk) (s : St) (a : AckAcc) (tsn : BitVec 32) : Option (List Chunk × St × AckAcc) :=
  match get q tsn with
  | none => none
  | some c =>
    let s1 := rackRemove s c.tsn
    if !c.acked then
      let r := ackOne true s1 a c
      some (modify q c.tsn (fun c => { c with acked := true, retransmit := false }), r.1, r.2)
    else some (q, s1, a)

def gapAll : List (BitVec 32) → List Chunk → St → AckAcc → Option (List Chunk × St × AckAcc)
  | [], q, s, a => some (q, s, a)
  | t :: ts, q, s, a =>
    match gapOne q s a t with
    | none => none
    | some r => gapAll ts r.1 r.2.1 r.2.2

/-- the cumulative-point update of `processAcknowledgement` and the timer part of `onCumulativeTSNAckPointAdvanced`:
the state and whether the point advanced (`old` = the cumulative point before the SACK) -/
def ackFinish (old cum : BitVec 32) (q : List Chunk) (s : St) : St × Bool :=
  if sna32LT old cum then
    (if cumAck_allAcked (a_inflightQueue_size := (q.length : Int)) then stopRackTimer (stopPTOTimer { s with q := q, cumAck := cum })
     else { s with q := q, cumAck := cum }, true)
  else ({ s with q := q }, false)

/-- `processSelectiveAck` + the cumulative-point update of `processAcknowledgement` + `onCumulativeTSNAckPointAdvanced`
(timers): state, what was found, whether the cumulative point advanced. `gapTsns` = `cum + i` for every `i` of every
gap block, in the order of the SACK. -/
def ackPhase (s : St) (cum : BitVec 32) (gapTsns : List (BitVec 32)) : Option (St × AckAcc × Bool) :=
  match popCum s.q (s.cumAck + 1) cum s {} with
  | none => none
  | some r1 =>
    match gapAll gapTsns r1.1 r1.2.1 r1.2.2 with
    | none => none
    | some r2 =>
      let f := ackFinish s.cumAck cum r2.1 r2.2.1
      some (f.1, r2.2.2, f.2)

def iter (f : St → St) : Nat → St → St
  | 0, s => s
  | n+1, s => iter f n (f s)

/-- everything `handleSack` does after `processAcknowledgement` that concerns this component: `nMiss3` chunks reached
three miss indications in `processFastRetransmission` (each: `if a.tlrActive { tlrApplyAdditionalLossLocked(now) }`),
then `onRackAfterSACK`, then `tlrMaybeFinishLocked(advanced || found)` -/
def afterAck (s : St) (env : Env) (a : AckAcc) (advanced : Bool) (nDups : Int) (nMiss3 : Nat) : St × List (BitVec 32) :=
  let s1 := iter (fun s => if s.tlrActive then tlrApplyAdditionalLoss s env s.now else s) nMiss3 s
  let r := onRackAfterSACK s1 env a.found a.newestTime a.newestTSN nDups
  (tlrMaybeFinish r.1 (advanced || a.found), r.2)

/-- a SACK that `handleSack` processes (state established, not stale, valid) -/
def sack (s : St) (env : Env) (cum : BitVec 32) (gapTsns : List (BitVec 32)) (nDups : Int) (nMiss3 : Nat) : Option (St × List (BitVec 32)) :=
  match ackPhase s cum gapTsns with
  | none => none
  | some r => some (afterAck r.1 env r.2.1 r.2.2 nDups nMiss3)

/-! ## environment operations -/

/-- `generateNextTSN`, `since = now`, `nSent = 1`, `inflightQueue.pushNoCheck` -/
def pushChunk (s : St) : St :=
  { s with myNextTSN := s.myNextTSN + 1, q := s.q ++ [{ tsn := s.myNextTSN, since := s.now, nSent := 1 }] }

/-- the RACK part of `movePendingDataChunkToInflightQueue`: `since = now`, `nSent = 1`, `checkPartialReliabilityStatus`
(`prFires`: it abandoned the message and called `rackRemove`, a no-op for a chunk not yet listed), `pushNoCheck`, `rackInsert` -/
def send (s : St) (prFires : Bool) : St :=
  rackInsert (pushChunk (if prFires then rackRemove s s.myNextTSN else s)) s.myNextTSN

/-- what a retransmission does to the chunk: `retransmit = false` (T3/RACK/PTO path only), `nSent++`, `since = now` -/
def retx (now : Int) (clearFlag : Bool) (c : Chunk) : Chunk :=
  { c with retransmit := (if clearFlag then false else c.retransmit), nSent := c.nSent + 1, since := now }

def touch (s : St) (t : BitVec 32) (clearFlag : Bool) : St := { s with q := modify s.q t (retx s.now clearFlag) }

/-- a retransmission (`clearFlag`: the T3/RACK/PTO path of `getDataPacketsToRetransmit` resets `retransmit`; the fast
retransmission path does not touch it): `nSent++`, `since = now`, `rackRemove`, `rackInsert`, `checkPartialReliabilityStatus` -/
def resend (s : St) (t : BitVec 32) (clearFlag prFires : Bool) : St :=
  if prFires then rackRemove (rackInsert (rackRemove (touch s t clearFlag) t) t) t
  else rackInsert (rackRemove (touch s t clearFlag) t) t

/-- `abandoned()` becomes true for these chunks (their message's head got `_abandoned` and `_allInflight`) -/
def abandon (s : St) (ts : List (BitVec 32)) : St :=
  { s with q := s.q.map fun c => if ts.contains c.tsn then { c with abandoned := true } else c }

/-- `payloadQueue.markAllToRetrasmit` (T3 expiry) -/
def t3 (s : St) : St :=
  { s with q := s.q.map fun c => if c.acked || c.abandoned then c else { c with retransmit := true } }

/-- the `case <-timer.C` branch of `timerLoop`: due deadlines are cleared, then `onRackTimeout`, then `onPTOTimer` -/
def timerFire (s : St) (env : Env) : St × List (BitVec 32) :=
  let fireRack := timerLoop_rackDue (a_rackDeadline := s.rackDeadline) (currTime := s.now)
  let firePTO := timerLoop_ptoDue (a_ptoDeadline := s.ptoDeadline) (currTime := s.now)
  let s1 := if fireRack then stopRackTimer s else s              -- `a.rackDeadline = time.Time{}`
  let s2 := if firePTO then stopPTOTimer s1 else s1              -- `a.ptoDeadline = time.Time{}`
  let r1 := if fireRack then onRackTimeout s2 env else (s2, [])
  let r2 := if firePTO then onPTOTimer r1.1 env else (r1.1, [])
  (r2.1, r1.2 ++ r2.2)

inductive Op where
  | advance (d : Nat)                                  -- the clock moves forward by `d` ns
  | send (prFires : Bool)
  | resend (t : BitVec 32) (clearFlag prFires : Bool)
  | abandon (ts : List (BitVec 32))
  | ptoAfterSend (env : Env)                           -- `schedulePTOAfterSendLocked` (a gather that sent new DATA)
  | budget (env : Env)                                 -- `tlrCurrentBurstBudgetScaledLocked` (start of `gatherOutbound`)
  | sack (env : Env) (cum : BitVec 32) (gapTsns : List (BitVec 32)) (nDups : Int) (nMiss3 : Nat)
  | t3
  | timerFire (env : Env)
  | rackTimeout (env : Env)                            -- `onRackTimeout` by itself (the callback may run late)
  | ptoTimeout (env : Env)

def step (s : St) : Op → St
  | .advance d => { s with now := s.now + (d : Int) }
  | .send p => send s p
  | .resend t c p => resend s t c p
  | .abandon ts => abandon s ts
  | .ptoAfterSend env => schedulePTOAfterSend s env
  | .budget env => (tlrBudgetScaled s env).1
  | .sack env cum gaps nd nm => match sack s env cum gaps nd nm with
    | some r => r.1
    | none => s
  | .t3 => t3 s
  | .timerFire env => (timerFire s env).1
  | .rackTimeout env => (onRackTimeout s env).1
  | .ptoTimeout env => (onPTOTimer s env).1

def run (s : St) : List Op → St
  | [] => s
  | op :: ops => run (step s op) ops

end Rack
