import SctpVerif.Gen.Consts
/-!
# L0 model of `rtxTimer` (rtx_timer.go) and `ackTimer` (ack_timer.go)

Both types wrap one `time.AfterFunc` timer. The Go runtime side is the ENVIRONMENT `GoTimer`:

* `armed`   – the runtime timer is set, with its deadline (virtual ns) and a ghost tag;
* `spawned` – tags of callbacks whose timer has fired (goroutine created) but which have not
  yet taken the mutex and run `timeout()`. They may run in ANY order (`run i`).

`Timer.Reset(d)` arms (replacing an arming), `Timer.Stop()` disarms and reports `true` iff it was
armed — i.e. `false` once the fire has happened, whether or not the callback has run. The
environment step `fire` may happen whenever the timer is armed (Go never fires early; firing
"any time" over-approximates lateness and keeps the safety theorems independent of the clock —
the correspondence driver fires exactly at the deadline).

Code-visible state is `Rtx` / `Ack` (same fields as the Go structs, `pending` is a `uint8` and
wraps like one). `RtxSys` / `AckSys` add the environment, the clock and GHOST fields the code
never reads (`epoch`, `fires`, `since`, the tags): they only serve to state the theorems.

`timeout()` is modelled as atomic including the observer call; in Go the observer runs (by
`defer`) just after the timer's mutex is released — that window is not modelled here.
`nRtos` is a Go `uint` (64 bit) and modelled as `Nat`: 2^64 expiries are out of reach.
The float arithmetic `(rto, rtoMax) ↦ n-th interval` is a parameter `ivl : Nat → Int` (ns) of
`start`, supplied from `Rto.intervalNsF` by the driver; the theorems hold for every `ivl`.
-/
namespace Timer

inductive TState | stopped | started | closed
  deriving DecidableEq, Repr, Inhabited

/-- what reaches the observer -/
inductive Ev
  | timeout (id n : Nat)   -- onRetransmissionTimeout(id, nRtos)
  | failure (id : Nat)     -- onRetransmissionFailure(id)
  | ack                    -- onAckTimeout()
  deriving DecidableEq, Repr, Inhabited

/-- environment: the runtime timer and the callbacks it has spawned -/
structure GoTimer where
  armed : Option (Nat × Nat) := none      -- (deadline, ghost tag)
  spawned : List Nat := []                -- ghost tags of fired, not yet run callbacks
  deriving Repr, Inhabited

/-- `timer.Reset(d)` at time `now`; `d ≤ 0` fires as soon as possible -/
def GoTimer.reset (g : GoTimer) (now : Nat) (d : Int) (tag : Nat) : GoTimer :=
  { g with armed := some (now + d.toNat, tag) }

/-- `timer.Stop()`: disarmed timer and "was armed" -/
def GoTimer.stop (g : GoTimer) : GoTimer × Bool := ({ g with armed := none }, g.armed.isSome)

/-- the runtime fires the armed timer: its callback goroutine now exists -/
def GoTimer.fire (g : GoTimer) : GoTimer :=
  match g.armed with
  | none => g
  | some (_, tag) => { armed := none, spawned := g.spawned ++ [tag] }

/-! ## rtxTimer -/

structure Rtx where
  id : Nat
  maxRetrans : Nat
  ivl : Nat → Int := fun _ => 0      -- stands for `rto`, `rtoMax` through calculateNextTimeout()
  nRtos : Nat := 0
  state : TState := .stopped
  pending : BitVec 8 := 0

structure RtxSys where
  t : Rtx
  g : GoTimer := {}
  now : Nat := 0
  epoch : Nat := 0       -- ghost: number of successful start() calls
  fires : Nat := 0       -- ghost: runtime fires since the latest successful start()

/-- `newRTXTimer(id, observer, maxRetrans, rtoMax)` (the AfterFunc is created and stopped) -/
def RtxSys.new (id maxRetrans : Nat) : RtxSys := { t := { id := id, maxRetrans := maxRetrans } }

namespace RtxSys

/-- `start(rto)` -/
def start (s : RtxSys) (ivl : Nat → Int) : RtxSys × Bool :=
  if s.t.state ≠ .stopped then (s, false)
  else
    let e := s.epoch + 1
    ({ s with
        t := { s.t with ivl := ivl, nRtos := 0, state := .started, pending := s.t.pending + 1 },
        g := s.g.reset s.now (ivl 0) e, epoch := e, fires := 0 }, true)

/-- `stop()` -/
def stop (s : RtxSys) : RtxSys :=
  if s.t.state = .started then
    let r := s.g.stop   -- (disarmed timer, "was armed")
    { s with g := r.1, t := { s.t with pending := if r.2 then s.t.pending - 1 else s.t.pending, state := .stopped } }
  else s

/-- `close()` (`timer.Stop()` is only evaluated when started: `&&` short-circuits) -/
def close (s : RtxSys) : RtxSys :=
  if s.t.state = .started then
    let r := s.g.stop
    { s with g := r.1, t := { s.t with pending := if r.2 then s.t.pending - 1 else s.t.pending, state := .closed } }
  else { s with t := { s.t with state := .closed } }

/-- `isRunning()` -/
def isRunning (s : RtxSys) : Bool := s.t.state = .started

/-- `timeout()`: the body a spawned callback executes -/
def timeout (s : RtxSys) : RtxSys × Option Ev :=
  let p := s.t.pending - 1
  if p = 0 ∧ s.t.state = .started then
    let n := s.t.nRtos + 1
    if s.t.maxRetrans = 0 ∨ n ≤ s.t.maxRetrans then
      ({ s with t := { s.t with nRtos := n, pending := p + 1 }, g := s.g.reset s.now (s.t.ivl n) s.epoch },
        some (.timeout s.t.id n))
    else
      ({ s with t := { s.t with nRtos := n, pending := p, state := .stopped } }, some (.failure s.t.id))
  else ({ s with t := { s.t with pending := p } }, none)

/-- environment: the armed runtime timer fires -/
def fire (s : RtxSys) : RtxSys :=
  if s.g.armed.isSome then { s with g := s.g.fire, fires := s.fires + 1 } else s

/-- environment: the `i`-th outstanding callback gets the mutex and runs `timeout()` -/
def run (s : RtxSys) (i : Nat) : RtxSys × Option Ev :=
  if i < s.g.spawned.length then timeout { s with g := { s.g with spawned := s.g.spawned.eraseIdx i } }
  else (s, none)

end RtxSys

/-- operations of the code (`start/stop/close`) and of the environment (`fire/run/tick`) -/
inductive Op
  | start (ivl : Nat → Int)
  | stop
  | close
  | fire
  | run (i : Nat)
  | tick (d : Nat)     -- time passes

def RtxSys.step (s : RtxSys) : Op → RtxSys × List Ev
  | .start ivl => ((s.start ivl).1, [])
  | .stop => (s.stop, [])
  | .close => (s.close, [])
  | .fire => (s.fire, [])
  | .run i => let (s', e) := s.run i; (s', e.toList)
  | .tick d => ({ s with now := s.now + d }, [])

/-- run a whole operation list; events in order -/
def RtxSys.exec (s : RtxSys) : List Op → RtxSys × List Ev
  | [] => (s, [])
  | o :: os => let (s1, e1) := s.step o; let (s2, e2) := s1.exec os; (s2, e1 ++ e2)

/-! ## ackTimer -/

structure Ack where
  state : TState := .stopped
  pending : BitVec 8 := 0

structure AckSys where
  t : Ack := {}
  g : GoTimer := {}
  now : Nat := 0
  epoch : Nat := 0     -- ghost
  since : Nat := 0     -- ghost: time of the latest successful start()

namespace AckSys

/-- `start()`: a started (or closed) timer is left alone — in particular its deadline -/
def start (s : AckSys) : AckSys × Bool :=
  if s.t.state ≠ .stopped then (s, false)
  else
    let e := s.epoch + 1
    ({ s with t := { state := .started, pending := s.t.pending + 1 },
              g := s.g.reset s.now (Gen.ackInterval : Nat) e, epoch := e, since := s.now }, true)

def stop (s : AckSys) : AckSys :=
  if s.t.state = .started then
    let r := s.g.stop
    { s with g := r.1, t := { pending := if r.2 then s.t.pending - 1 else s.t.pending, state := .stopped } }
  else s

def close (s : AckSys) : AckSys :=
  if s.t.state = .started then
    let r := s.g.stop
    { s with g := r.1, t := { pending := if r.2 then s.t.pending - 1 else s.t.pending, state := .closed } }
  else { s with t := { s.t with state := .closed } }

def isRunning (s : AckSys) : Bool := s.t.state = .started

/-- `timeout()` -/
def timeout (s : AckSys) : AckSys × Option Ev :=
  let p := s.t.pending - 1
  if p = 0 ∧ s.t.state = .started then ({ s with t := { pending := p, state := .stopped } }, some .ack)
  else ({ s with t := { s.t with pending := p } }, none)

def fire (s : AckSys) : AckSys := if s.g.armed.isSome then { s with g := s.g.fire } else s

def run (s : AckSys) (i : Nat) : AckSys × Option Ev :=
  if i < s.g.spawned.length then timeout { s with g := { s.g with spawned := s.g.spawned.eraseIdx i } }
  else (s, none)

/-- `Op.start`'s argument is ignored: the interval is the constant `ackInterval` -/
def step (s : AckSys) : Op → AckSys × List Ev
  | .start _ => (s.start.1, [])
  | .stop => (s.stop, [])
  | .close => (s.close, [])
  | .fire => (s.fire, [])
  | .run i => let (s', e) := s.run i; (s', e.toList)
  | .tick d => ({ s with now := s.now + d }, [])

def exec (s : AckSys) : List Op → AckSys × List Ev
  | [] => (s, [])
  | o :: os => let (s1, e1) := s.step o; let (s2, e2) := s1.exec os; (s2, e1 ++ e2)

end AckSys

end Timer
