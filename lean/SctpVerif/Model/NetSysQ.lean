import SctpVerif.Model.NetSys
import SctpVerif.Model.PendQ
/-!
# NetSysQ — NetSys with the selection oracle replaced by the pending-queue model (no interleaving)

COMPOSES `Model/NetSys.lean` (Sender model + history network + Receiver model) with the message policy of
`Model/PendQ.lean` (`messagePendingQueuePolicy` of pending_queue.go); nothing of either is re-modelled. In `Model/Sender.lean`
the pending queue is the list `pending` in push order and the chunk `peek()` returns is an ORACLE (`sel`: its index in that
list). Here the oracle is computed:

* next to the sender state runs a `PendQ.MsgPol` that is pushed every chunk a write appends to `pending`
  (`view`: the fields the scheduler reads; `id` stands for the chunk pointer, fresh per chunk) and `ids`, the
  identities of the chunks of `pending`, in the same order;
* the selection list of a gather is `selOf`: what draining the queue hands out — `peek`, look the chunk's identity up in
  `ids` (its index in `pending`), `pop` it, erase the index, again. This is literally how the direct-drive sender harness
  produces the `sel=` values it logs from the REAL queue (`go/harness/assoc_test.go`: shadow list in push order,
  `pendIndex` by pointer, removal of the index). A gather consumes one entry per chunk it takes from the pending queue
  (`popLoop`, `probe`) and ignores the rest, so the full drain is the right list whatever the windows / budget allow;
* after the gather the queue is advanced by as many pops as the pending list got shorter.

The selection list an operation `.snd (.gather orc sel)` carries is IGNORED (replaced). A run of NetSysQ is the run of
NetSys on the RESOLVED operation list (`resolve`).

Where Go goes on after an error the model does not follow: `movePendingDataChunkToInflightQueue` logs a failed
`pendingQueue.pop` and moves the chunk anyway; here the flag `err` is raised, the index is still handed out (the chunk IS
moved), and from then on the queue hands out nothing (`selOf = []`): the state after a queue error is not modelled.

Core-only, executable.
-/
namespace NetSysQ
open NetSys

/-- what the scheduler reads of a sender chunk; `id` stands for the pointer -/
def view (id : Nat) (c : Sender.Chunk) : PendQ.Chunk :=
  { id := id, sid := c.si.toNat, unordered := c.unordered, b := c.bfrag, e := c.efrag, len := c.len }

structure Q where
  pol : PendQ.MsgPol := {}
  ids : List Nat := []          -- identities of the chunks of `Sender.St.pending`, in the same (push) order
  nextId : Nat := 0
  err : Bool := false           -- a `pop` failed or a peeked chunk was not in `ids`; afterwards not modelled
  deriving Repr, Inhabited

/-- `pendingQueue.push` for every chunk a write appended -/
def pushAll (q : Q) : List Sender.Chunk → Q
  | [] => q
  | c :: r => pushAll { q with pol := q.pol.push (view q.nextId c), ids := q.ids ++ [q.nextId], nextId := q.nextId + 1 } r

/-- the indices (into the pending list, each counted after the earlier pops) of the chunks the queue hands out while it
is drained: `c := peek(); i := index of c; pop(c)`; a failed pop ends the list after its index -/
def drain : Nat → PendQ.MsgPol → List Nat → List Nat
  | 0, _, _ => []
  | fuel+1, m, ids =>
    match m.peek with
    | none => []
    | some c =>
      let i := ids.idxOf c.id
      if i < ids.length then
        match m.pop c with
        | (m', .ok) => i :: drain fuel m' (ids.eraseIdx i)
        | _ => [i]
      else []

/-- the selection oracle of the next gather -/
def selOf (q : Q) : List Nat := if q.err then [] else drain (q.ids.length + 1) q.pol q.ids

/-- `k` chunks were taken from the pending queue: the same `peek` / `pop` pairs on the queue state -/
def advance : Nat → Q → Q
  | 0, q => q
  | k+1, q =>
    if q.err then q else
    match q.pol.peek with
    | none => { q with err := true }
    | some c =>
      let i := q.ids.idxOf c.id
      if i < q.ids.length then
        match q.pol.pop c with
        | (m', .ok) => advance k { q with pol := m', ids := q.ids.eraseIdx i }
        | (m', _) => { q with pol := m', ids := q.ids.eraseIdx i, err := true }
      else { q with err := true }

structure St where
  sys : NetSys.St
  q : Q := {}

def init (P : Params) : St := { sys := NetSys.init P }

/-- the operation NetSys performs: a gather gets the queue's selection -/
def resolveOp (q : Q) : Op → Op
  | .snd (.gather orc _) => .snd (.gather orc (selOf q))
  | op => op

/-- the queue after the (resolved) operation; `pen` / `pen'` = the sender's pending list before / after it -/
def qStep (q : Q) (pen pen' : List Sender.Chunk) : Op → Q
  | .write _ _ => pushAll q (pen'.drop pen.length)
  | .snd (.gather _ _) => advance (pen.length - pen'.length) q
  | _ => q

def step (P : Params) (s : St) (op : Op) : St × Op :=
  let op' := resolveOp s.q op
  let sys' := NetSys.step P s.sys op'
  ({ sys := sys', q := qStep s.q s.sys.snd.pending sys'.snd.pending op' }, op')

/-- the operation list NetSys performs in a run of NetSysQ -/
def resolve (P : Params) : St → List Op → List Op
  | _, [] => []
  | s, op :: ops => (step P s op).2 :: resolve P (step P s op).1 ops

def run (P : Params) : St → List Op → St
  | s, [] => s
  | s, op :: ops => run P (step P s op).1 ops

end NetSysQ
