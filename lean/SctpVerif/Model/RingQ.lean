/-!
L0 model of the generic ring-buffer `queue[T]` (queue.go), used by `payloadQueue` (in-flight chunks).
Core-only. Go `int` → `Int`; `%` is Go's truncated remainder (`Int.tmod`); an index outside the slice
is a Go panic and is reported as such (`none`), never totalised. `zero` is T's zero value.
Not modelled: `newQueue(capacity)` for `capacity > 2^62` (the doubling loop overflows).
-/
namespace RingQ

structure Q (α : Type) where
  buf : Array α
  head : Int := 0
  tail : Int := 0
  count : Int := 0
deriving Repr

variable {α : Type}

/-- `minCap = 16`, doubled until `≥ capacity` -/
def capFor (capacity : Int) : Nat :=
  let rec go (fuel : Nat) (c : Nat) : Nat :=
    match fuel with
    | 0 => c
    | fuel + 1 => if (c : Int) < capacity then go fuel (c * 2) else c
  go 64 16

def new (zero : α) (capacity : Int) : Q α := { buf := Array.replicate (capFor capacity) zero }

def len (q : Q α) : Int := q.count

/-- `buf[i]` with Go's bounds check -/
def idx (q : Q α) (i : Int) : Option α :=
  if i < 0 then none else q.buf[i.toNat]?

def setIdx (q : Q α) (i : Int) (v : α) : Option (Q α) :=
  if i < 0 ∨ i.toNat ≥ q.buf.size then none else some { q with buf := q.buf.setIfInBounds i.toNat v }

/-- `growIfFull`: `copy` into a fresh slice of `count<<1` elements -/
def growIfFull (zero : α) (q : Q α) : Option (Q α) :=
  if q.count < q.buf.size then some q
  else
    -- make([]T, q.count<<1) panics for a negative length; count ≥ len(buf) ≥ 0 here
    let n := (q.count * 2).toNat
    let src : List α :=
      if q.tail > q.head then (q.buf.toList.drop q.head.toNat).take (q.tail - q.head).toNat
      else q.buf.toList.drop q.head.toNat ++ q.buf.toList.take q.tail.toNat
    let copied := src.take n
    some { buf := (copied ++ List.replicate (n - copied.length) zero).toArray, head := 0, tail := q.count, count := q.count }

def pushBack (zero : α) (q : Q α) (x : α) : Option (Q α) := do
  let q ← growIfFull zero q
  let q ← setIdx q q.tail x
  if q.buf.size = 0 then none   -- `% len(q.buf)` with an empty slice: division by zero
  else some { q with tail := (q.tail + 1).tmod q.buf.size, count := q.count + 1 }

def popFront (zero : α) (q : Q α) : Option (Q α × α) := do
  let x ← idx q q.head
  let q ← setIdx q q.head zero
  if q.buf.size = 0 then none
  else some ({ q with head := (q.head + 1).tmod q.buf.size, count := q.count - 1 }, x)

def front (q : Q α) : Option α := idx q q.head

def back (q : Q α) : Option α :=
  if q.buf.size = 0 then none else idx q ((q.tail - 1 + q.buf.size).tmod q.buf.size)

def atIdx (q : Q α) (i : Int) : Option α :=
  if q.buf.size = 0 then none else idx q ((q.head + i).tmod q.buf.size)

end RingQ
