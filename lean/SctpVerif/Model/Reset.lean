import SctpVerif.Gen.Consts
import SctpVerif.Gen.Funcs
/-!
L0 model of outgoing stream reset (RFC 6525 as pion/sctp implements it) between two ESTABLISHED associations:
stream.go (`Close`, `WriteSCTP`/`packetize`, `ReadSCTP`, `onInboundStreamReset`, `resetOutgoingStreamSequenceNumbers`),
association.go (`OpenStream`/`getOrCreateStream`/`createStream`, `sendResetRequest`, `popPendingDataChunksToSend`
for what concerns the end-of-stream marker, `gatherOutboundDataAndReconfigPackets`, `gatherOutboundReconfigPackets`,
`handleData`/`acceptPayloadData`/`handlePeerLastTSNAndAcknowledgement`, `handleReconfig`/`handleReconfigParam`,
`resetStreamsIfAny`, `rememberPerformedReset`, `resetOutgoingStreamSequenceNumbers`, T-reconfig expiry),
pending_queue.go (order in which entries may leave the queue), reassembly_queue.go for unfragmented messages.

Two endpoints and the history of every packet each side ever sent; `deliver x i` hands the i-th packet ever sent by
`x` to the other side: never choosing it is loss, twice is duplication, any order is reordering, an old index is a
stale replay. Stream objects are addressed by handle (index into `objs`): the application keeps its `*Stream` after the
association dropped it from `a.streams`.

What is abstracted (all quantified over in the theorems, recorded from the real code by the harness):
* congestion / flow control, RACK, T3: WHICH pending entries leave the queue in one `gatherOutbound` call (`sel`), and
  which already sent chunks are put on the wire again (`pre`, `post`) are inputs of `gather`; the model only insists
  that `sel` respects the queue discipline and that retransmitted TSNs were sent before;
* whether a SACK is due (`sack`); SACK processing at the sender changes nothing the model carries;
* TSN / RSN / SSN / MID are natural numbers (no wrap-around: fewer than 2^31 TSNs, 2^15 SSNs per run — C16's matter);
* messages are unfragmented (one chunk); the receive buffer is never full; `rememberPerformedReset` never prunes
  (fewer than 2048 reset requests per direction). Where the model meets one of these limits it sets `unsup`.
Core-only (linked into the driver).
-/
namespace Rs

/-- one unfragmented user message as a DATA / I-DATA chunk body -/
structure Data where
  sid : Nat
  unord : Bool
  seq : Nat      -- SSN (DATA) or MID (I-DATA)
  msg : Nat      -- message id (first four payload bytes)
  len : Nat
  wobj : Nat     -- ghost: handle (at the sender) of the stream object that wrote it
  gen : Nat := 0 -- ghost: incarnation number of that object
  deriving Repr, DecidableEq, Inhabited

/-- pending-queue entry: a message or the end-of-stream marker `sendResetRequest` queues (nil user data) -/
inductive Item where
  | data (d : Data)
  | marker (sid : Nat) (wobj : Nat)
  deriving Repr, DecidableEq, Inhabited

def Item.sid : Item → Nat
  | .data d => d.sid
  | .marker s _ => s

def Item.isUnord : Item → Bool
  | .data d => d.unord
  | .marker .. => false

structure Chunk where
  tsn : Nat
  d : Data
  deriving Repr, DecidableEq, Inhabited

/-- a packet on the wire -/
inductive Msg where
  | data (cs : List Chunk)
  | sack (cum : Nat)
  | req (rsn : Nat) (last : Nat) (sids : List Nat)   -- outgoing SSN reset request
  | resp (rsn : Nat) (result : Nat)                   -- re-configuration response
  deriving Repr, DecidableEq, Inhabited

/-- queued message of the reassembly queue -/
structure QMsg where
  seq : Nat
  msg : Nat
  len : Nat
  deriving Repr, DecidableEq, Inhabited

/-- a `*Stream` -/
structure Obj where
  sid : Nat
  state : Nat := Gen.StreamStateOpen
  ssn : Nat := 0          -- sequenceNumber
  omid : Nat := 0         -- nextOrderedMID
  umid : Nat := 0         -- nextUnorderedMID
  readErr : Bool := false -- io.EOF (set by onInboundStreamReset)
  nextSeq : Nat := 0      -- reassemblyQueue.nextSSN / nextMID
  ord : List QMsg := []   -- ordered messages, sorted by seq
  unord : List QMsg := [] -- complete unordered messages, arrival order
  -- ghost
  gen : Nat := 0                   -- incarnation of the identifier this object belongs to
  wrote : List (Nat × Bool) := []  -- messages Write accepted on this object: (id, unordered), in order
  got : List (Nat × Bool) := []    -- what Read has returned, in order: (id, came from the unordered queue)
  eofSeen : Bool := false          -- Read has returned EOF
  rx : List Chunk := []            -- every chunk handed to this object's reassembly queue
  deriving Repr, DecidableEq, Inhabited

/-! ### performed-request bookkeeping, exactly as in the code (uint32, serial-number comparison, trimming)

`Ep.perf` below is the abstraction the two-endpoint model uses (a request sequence number once performed stays
performed); `PerfSet` is the real thing: `performedResetRSNs` + `newestPerformedReset` with the trimming of
`rememberPerformedReset`. The driver keeps both and flags a run in which they disagree; `Props/C14` proves that
every RSN within 1024 of the newest one is still in the exact set, which is what makes the abstraction sound. -/

structure PerfSet where
  set : List (BitVec 32) := []   -- performedResetRSNs (nil map = empty)
  newest : BitVec 32 := 0        -- newestPerformedReset
  deriving Repr, DecidableEq, Inhabited

/-- Go: `const keep = 1024` -/
def perfKeep : Nat := 1024

/-- Go: rememberPerformedReset -/
def PerfSet.remember (p : PerfSet) (rsn : BitVec 32) : PerfSet :=
  let newest := if p.set.isEmpty || Gen.sna32LT p.newest rsn then rsn else p.newest
  let set := if p.set.contains rsn then p.set else rsn :: p.set
  if set.length > 2 * perfKeep then
    { set := set.filter (fun old => !Gen.sna32LT old (newest - BitVec.ofNat 32 perfKeep)), newest := newest }
  else { set := set, newest := newest }

/-- Go: `_, done := a.performedResetRSNs[rsn]` -/
def PerfSet.has (p : PerfSet) (rsn : BitVec 32) : Bool := p.set.contains rsn

def PerfSet.run (p : PerfSet) (rs : List (BitVec 32)) : PerfSet := rs.foldl PerfSet.remember p

/-- an outgoing reset request this side created (ghost part: which objects it closes) -/
structure ReqRec where
  rsn : Nat
  last : Nat
  sids : List Nat
  wobjs : List Nat
  deriving Repr, DecidableEq, Inhabited

structure Ep where
  il : Bool                 -- useInterleaving
  nextTSN : Nat
  nextRSN : Nat
  cum : Nat                 -- peerLastTSN()
  maxOff : Nat := 8448      -- payloadQueue.maxTSNOffset
  accCap : Nat := Gen.acceptChSize
  maxReq : Nat := Gen.maxReconfigRequests
  buf : Nat := 1048576      -- maxReceiveBufferSize
  mps : Nat := 1200         -- largest message the harness may write (unfragmented)
  pend : List Item := []    -- pendingQueue, push order
  sent : List Chunk := []   -- every chunk that ever got a TSN
  ctl : List Msg := []      -- controlQueue
  reconfigs : List (Nat × Nat × List Nat) := []  -- a.reconfigs: my requests awaiting a response, rsn ↦ (lastTSN, sids)
  wr : Bool := false        -- willRetransmitReconfig
  rcv : List Nat := []      -- TSNs above `cum` held by payloadQueue
  rreqs : List (Nat × Nat × List Nat) := []      -- a.reconfigRequests: the peer's requests not yet performed
  perf : List Nat := []     -- performedResetRSNs
  reg : List (Nat × Nat) := []   -- a.streams: sid ↦ handle
  objs : List Obj := []
  acq : List Nat := []      -- acceptCh
  unsup : Bool := false     -- the run left what the model covers (fragmentation, full receive buffer)
  -- ghost
  reqLog : List ReqRec := []
  deriving Repr, Inhabited

/-! ### small list helpers (association lists keyed by the first component) -/

def lookup {β : Type} (k : Nat) : List (Nat × β) → Option β
  | [] => none
  | (k', v) :: rest => if k' = k then some v else lookup k rest

def erase {β : Type} (k : Nat) (l : List (Nat × β)) : List (Nat × β) := l.filter (fun p => p.1 != k)

def insert {β : Type} (k : Nat) (v : β) (l : List (Nat × β)) : List (Nat × β) := (k, v) :: erase k l

/-- stable insertion of a reply into a list sorted by (rsn, result) -/
def respKey : Msg → Nat × Nat
  | .resp r v => (r, v)
  | _ => (0, 0)

def keyLe (a b : Nat × Nat) : Bool := a.1 < b.1 || (a.1 == b.1 && a.2 ≤ b.2)

def insSorted (m : Msg) : List Msg → List Msg
  | [] => [m]
  | x :: rest => if keyLe (respKey x) (respKey m) then x :: insSorted m rest else m :: x :: rest

def sortReplies (l : List Msg) : List Msg := l.foldl (fun acc m => insSorted m acc) []

/-! ### application calls -/

/-- Go: OpenStream → getOrCreateStream(id, accept = false). Returns the handle and whether an object was created. -/
def openStream (e : Ep) (sid : Nat) (gen : Nat) : Ep × Nat × Bool :=
  match lookup sid e.reg with
  | some h => (e, h, false)
  | none => ({ e with objs := e.objs ++ [{ sid := sid, gen := gen }], reg := insert sid e.objs.length e.reg }, e.objs.length, true)

/-- Go: Stream.packetize — which counter numbers the message, and the counters afterwards -/
def seqOf (il : Bool) (o : Obj) (unord : Bool) : Nat :=
  if il then (if unord then o.umid else o.omid) else o.ssn

def bump (il : Bool) (o : Obj) (unord : Bool) : Obj :=
  if il then (if unord then { o with umid := o.umid + 1 } else { o with omid := o.omid + 1 })
  else if unord then o else { o with ssn := o.ssn + 1 }

inductive WriteRes where
  | ok (n : Nat) | noHandle | closed | unsupported
  deriving Repr, DecidableEq

/-- Go: Stream.WriteSCTP with a payload of 4 ≤ len ≤ maxPayloadSize bytes (association established, non-blocking) -/
def write (e : Ep) (h len : Nat) (unord : Bool) (msg : Nat) : Ep × WriteRes :=
  match e.objs[h]? with
  | none => (e, .noHandle)
  | some o =>
    if o.state != Gen.StreamStateOpen then (e, .closed)
    else if len > e.mps then ({ e with unsup := true }, .unsupported)
    else
      let len := max len 4
      let d : Data := { sid := o.sid, unord := unord, seq := seqOf e.il o unord, msg := msg, len := len, wobj := h, gen := o.gen }
      let o' := { bump e.il o unord with wrote := o.wrote ++ [(msg, unord)] }
      ({ e with objs := e.objs.set h o', pend := e.pend ++ [.data d] }, .ok len)

/-- Go: Stream.Close → sendResetRequest (queues the end-of-stream marker behind the stream's data). `none` = no such handle. -/
def close (e : Ep) (h : Nat) : Ep × Bool :=
  match e.objs[h]? with
  | none => (e, false)
  | some o =>
    if o.state == Gen.StreamStateOpen then
      let o' := { o with state := if o.readErr then Gen.StreamStateClosed else Gen.StreamStateClosing }
      ({ e with objs := e.objs.set h o', pend := e.pend ++ [.marker o.sid h] }, true)
    else (e, true)

/-- Go: reassemblyQueue.read for complete single-chunk messages: unordered first, then the ordered head if it is
not ahead of the cursor (an entry BELOW the cursor is handed out too — duplicates of an SSN are not filtered) -/
def readOne (o : Obj) : Option ((Nat × Bool) × Obj) :=
  match o.unord with
  | q :: rest => some ((q.msg, true), { o with unord := rest })
  | [] =>
    match o.ord with
    | [] => none
    | q :: rest =>
      if q.seq ≤ o.nextSeq then some ((q.msg, false), { o with ord := rest, nextSeq := if q.seq = o.nextSeq then o.nextSeq + 1 else o.nextSeq })
      else none

/-- Go: repeated Stream.ReadSCTP until it would block or returns the read error -/
def drain : Nat → Obj → List Nat → Obj × List Nat
  | 0, o, acc => (o, acc)
  | fuel + 1, o, acc =>
    match readOne o with
    | some (m, o') => drain fuel { o' with got := o'.got ++ [m] } (acc ++ [m.1])
    | none => (o, acc)

/-- returns the ids read and whether the drain ended with EOF (`false`: it would block) -/
def read (e : Ep) (h : Nat) : Ep × Option (List Nat × Bool) :=
  match e.objs[h]? with
  | none => (e, none)
  | some o =>
    let r := drain (o.ord.length + o.unord.length) o []
    let o' := if r.1.readErr then { r.1 with eofSeen := true } else r.1
    ({ e with objs := e.objs.set h o' }, some (r.2, r.1.readErr))

/-- Go: AcceptStream without blocking -/
def accept (e : Ep) : Ep × Option Nat :=
  match e.acq with
  | [] => (e, none)
  | h :: rest => ({ e with acq := rest }, some h)

/-! ### the write loop -/

/-- may the pending entry at index `i` leave the queue now?
without interleaving (messagePendingQueuePolicy, no fragments): the oldest unordered chunk, else the head of the
ordered queue; with interleaving (per-stream FIFO schedulers): the oldest entry of its stream. -/
def mayPop (il : Bool) (pend : List Item) (i : Nat) : Bool :=
  match pend[i]? with
  | none => false
  | some it =>
    if il then (pend.take i).all (fun j => j.sid != it.sid)
    else if it.isUnord then (pend.take i).all (fun j => !j.isUnord)
    else pend.all (fun j => !j.isUnord) && i == 0

/-- pop the entries named by `sel` one after the other (indices refer to the shrinking queue) -/
def popSel (il : Bool) : List Item → List Nat → Option (List Item × List Item)
  | pend, [] => some ([], pend)
  | pend, i :: rest =>
    if mayPop il pend i then
      match pend[i]?, popSel il (pend.eraseIdx i) rest with
      | some it, some (out, left) => some (it :: out, left)
      | _, _ => none
    else none

/-- Go: movePendingDataChunkToInflightQueue for the data entries, `sisToReset` for the markers -/
def assign (next : Nat) : List Item → List Chunk × List (Nat × Nat) × Nat
  | [] => ([], [], next)
  | .data d :: rest => let r := assign (next + 1) rest; ({ tsn := next, d := d } :: r.1, r.2.1, r.2.2)
  | .marker s w :: rest => let r := assign next rest; (r.1, (s, w) :: r.2.1, r.2.2)

def findChunk (sent : List Chunk) (t : Nat) : Option Chunk := sent.find? (fun c => c.tsn == t)

def findAll (sent : List Chunk) : List Nat → Option (List Chunk)
  | [] => some []
  | t :: rest =>
    match findChunk sent t, findAll sent rest with
    | some c, some cs => some (c :: cs)
    | _, _ => none

/-- a DATA packet carrying the chunks with these TSNs (all sent before) -/
def mkData (sent : List Chunk) (tsns : List Nat) : Option Msg := (findAll sent tsns).map Msg.data

def mkDatas (sent : List Chunk) : List (List Nat) → Option (List Msg)
  | [] => some []
  | p :: rest =>
    match mkData sent p, mkDatas sent rest with
    | some m, some ms => some (m :: ms)
    | _, _ => none

def reqOf (r : Nat × Nat × List Nat) : Msg := .req r.1 r.2.1 r.2.2

/-- the request created for the markers popped in one pass (ghost part: the objects they belong to) -/
def newReqRec (e : Ep) (markers : List (Nat × Nat)) (next : Nat) : ReqRec :=
  { rsn := e.nextRSN, last := next - 1, sids := markers.map (·.1), wobjs := markers.map (·.2) }

/-- the endpoint after one pass of the write loop that took `popped` out of the pending queue and left `left` -/
def gatherEp (e : Ep) (popped left : List Item) : Ep :=
  let a := assign e.nextTSN popped
  let e1 : Ep := { e with pend := left, sent := e.sent ++ a.1, nextTSN := a.2.2, ctl := [], wr := false }
  if a.2.1.isEmpty then e1 else
    { e1 with nextRSN := e.nextRSN + 1, reconfigs := e.reconfigs ++ [(e.nextRSN, a.2.2 - 1, a.2.1.map (·.1))],
              reqLog := e.reqLog ++ [newReqRec e a.2.1 a.2.2] }

/-- what that pass puts on the wire: control queue, DATA (retransmissions and new chunks as the oracle bundled them),
RECONFIG (retransmissions if the timer fired, then the request for the markers popped in this pass with
senderLastTSN = myNextTSN − 1), fast retransmissions, SACK -/
def gatherOut (e : Ep) (popped : List Item) (preP postP : List Msg) (sack : Bool) : List Msg :=
  let a := assign e.nextTSN popped
  e.ctl ++ preP ++ (if e.wr then e.reconfigs.map reqOf else []) ++
    (if a.2.1.isEmpty then [] else [.req e.nextRSN (a.2.2 - 1) (a.2.1.map (·.1))]) ++ postP ++ (if sack then [.sack e.cum] else [])

/-- Go: gatherOutbound in state established. `none`: the oracle is impossible (an entry may not leave the queue yet,
or a TSN named for retransmission was never sent). -/
def gather (e : Ep) (sel : List Nat) (pre post : List (List Nat)) (sack : Bool) : Option (Ep × List Msg) :=
  match popSel e.il e.pend sel with
  | none => none
  | some (popped, left) =>
    let sent := e.sent ++ (assign e.nextTSN popped).1
    match mkDatas sent pre, mkDatas sent post with
    | some preP, some postP => some (gatherEp e popped left, gatherOut e popped preP postP sack)
    | _, _ => none

/-- Go: onRetransmissionTimeout(timerReconfig) -/
def trc (e : Ep) : Ep := { e with wr := true }

/-! ### the read loop -/

/-- Go: Stream.onInboundStreamReset -/
def inboundReset (o : Obj) : Obj :=
  { o with readErr := true, state := if o.state == Gen.StreamStateClosing then Gen.StreamStateClosed else o.state }

/-- one stream identifier of a request that is being performed -/
def resetOne (e : Ep) (sid : Nat) : Ep :=
  match lookup sid e.reg with
  | none => e
  | some h =>
    match e.objs[h]? with
    | none => { e with reg := erase sid e.reg }
    | some o => { e with objs := e.objs.set h (inboundReset o), reg := erase sid e.reg }

/-- Go: resetStreamsIfAny -/
def resetStreamsIfAny (e : Ep) (rsn last : Nat) (sids : List Nat) : Ep × Msg :=
  if last ≤ e.cum then
    let e1 := sids.foldl resetOne e
    ({ e1 with rreqs := erase rsn e1.rreqs, perf := rsn :: e1.perf }, .resp rsn Gen.reconfigResultSuccessPerformed)
  else (e, .resp rsn Gen.reconfigResultInProgress)

/-- every deferred request is looked at again (Go: the loop over a.reconfigRequests after each pop) -/
def recheck (e : Ep) : List (Nat × Nat × List Nat) → Ep × List Msg
  | [] => (e, [])
  | r :: rest =>
    let s := resetStreamsIfAny e r.1 r.2.1 r.2.2
    let t := recheck s.1 rest
    (t.1, s.2 :: t.2)

/-- Go: handlePeerLastTSNAndAcknowledgement — advance the cumulative point as far as possible -/
def advance : Nat → Ep → Ep × List Msg
  | 0, e => (e, [])
  | fuel + 1, e =>
    if e.rcv.contains (e.cum + 1) then
      let e1 := { e with rcv := e.rcv.filter (· != e.cum + 1), cum := e.cum + 1 }
      let s := recheck e1 e1.rreqs
      let t := advance fuel s.1
      (t.1, s.2 ++ t.2)
    else (e, [])

/-- Go: reassemblyQueue.pushWithError / pushIData for a complete single-chunk message -/
def insOrd (q : QMsg) : List QMsg → List QMsg
  | [] => [q]
  | x :: rest => if x.seq ≤ q.seq then x :: insOrd q rest else q :: x :: rest

def pushObj (il : Bool) (o : Obj) (c : Chunk) : Obj :=
  let q : QMsg := { seq := c.d.seq, msg := c.d.msg, len := c.d.len }
  let o := { o with rx := o.rx ++ [c] }
  if c.d.unord then
    if il && o.unord.any (·.seq == q.seq) then o     -- hasQueuedUnorderedMID
    else { o with unord := o.unord ++ [q] }
  else if c.d.seq < o.nextSeq then o                 -- already delivered
  else if il && o.ord.any (·.seq == q.seq) then o    -- the MID is already queued
  else { o with ord := insOrd q o.ord }

def objBytes (o : Obj) : Nat := (o.ord.map (·.len)).sum + (o.unord.map (·.len)).sum

/-- Go: getMyReceiverWindowCredit: only streams in a.streams count -/
def credit (e : Ep) : Nat :=
  let q := (e.reg.map (fun p => match e.objs[p.2]? with | some o => objBytes o | none => 0)).sum
  if q ≥ e.buf then 0 else e.buf - q

/-- Go: handleData (state established) -/
def handleData (e : Ep) (c : Chunk) : Ep × List Msg :=
  let canPush := !e.rcv.contains c.tsn && e.cum < c.tsn && c.tsn ≤ e.cum + e.maxOff
  if canPush then
    -- acceptPayloadData: getOrCreateStream(sid, accept = true)
    let r : Option (Ep × Nat) :=
      match lookup c.d.sid e.reg with
      | some h => some (e, h)
      | none =>
        if e.acq.length < e.accCap then
          some ({ e with objs := e.objs ++ [{ sid := c.d.sid, gen := c.d.gen }], reg := insert c.d.sid e.objs.length e.reg,
                         acq := e.acq ++ [e.objs.length] }, e.objs.length)
        else none
    match r with
    | none => (e, [])                       -- accept queue full: chunk discarded, nothing acknowledged
    | some (e1, h) =>
      if credit e1 == 0 then ({ e1 with unsup := true }, [])
      else
        match e1.objs[h]? with
        | none => ({ e1 with unsup := true }, [])
        | some o =>
          let e2 := { e1 with objs := e1.objs.set h (pushObj e1.il o c), rcv := c.tsn :: e1.rcv }
          advance e2.rcv.length e2
  else advance e.rcv.length e

def handleDatas (e : Ep) : List Chunk → Ep × List Msg
  | [] => (e, [])
  | c :: rest => let s := handleData e c; let t := handleDatas s.1 rest; (t.1, s.2 ++ t.2)

/-- Go: handleReconfigParam, case paramOutgoingResetRequest -/
def handleReq (e : Ep) (rsn last : Nat) (sids : List Nat) : Ep × List Msg :=
  if e.perf.contains rsn then (e, [.resp rsn Gen.reconfigResultSuccessPerformed])
  else if e.cum < last && e.rreqs.length ≥ e.maxReq then (e, [])     -- ErrTooManyReconfigRequests: dropped
  else
    let s := resetStreamsIfAny { e with rreqs := insert rsn (last, sids) e.rreqs } rsn last sids
    (s.1, [s.2])

/-- Go: Stream.resetOutgoingStreamSequenceNumbers -/
def zeroCounters (o : Obj) : Obj := { o with ssn := 0, omid := 0, umid := 0 }

def rewindOne (e : Ep) (sid : Nat) : Ep :=
  match lookup sid e.reg with
  | none => e
  | some h =>
    match e.objs[h]? with
    | none => e
    | some o => if o.state != Gen.StreamStateOpen then { e with objs := e.objs.set h (zeroCounters o) } else e

/-- Go: handleReconfigParam, case paramReconfigResponse -/
def handleResp (e : Ep) (rsn result : Nat) : Ep :=
  if result == Gen.reconfigResultInProgress then e     -- the timer is restarted
  else
    let e1 := if result == Gen.reconfigResultSuccessPerformed then
        (match lookup rsn e.reconfigs with
         | some r => r.2.foldl rewindOne e
         | none => e)
      else e
    { e1 with reconfigs := erase rsn e1.reconfigs }

/-- Go: handleInbound for one packet of the peer; replies go to the control queue -/
def handle (e : Ep) (p : Msg) : Ep :=
  match p with
  | .data cs => let s := handleDatas e cs; { s.1 with ctl := s.1.ctl ++ sortReplies s.2 }
  | .sack _ => e
  | .req rsn last sids => let s := handleReq e rsn last sids; { s.1 with ctl := s.1.ctl ++ s.2 }
  | .resp rsn result => handleResp e rsn result

/-! ### the two-endpoint system -/

structure Sys where
  a : Ep
  b : Ep
  ha : List Msg := []
  hb : List Msg := []
  taint : List Nat := []          -- ghost: identifiers re-opened before both directions had been reset
  gen : Nat → Nat := fun _ => 0   -- ghost: number of incarnations of each identifier so far

instance : Inhabited Sys := ⟨{ a := default, b := default }⟩

inductive Op where
  | openS (x : Bool) (sid : Nat)            -- false = A, true = B
  | write (x : Bool) (h len : Nat) (unord : Bool) (msg : Nat)
  | close (x : Bool) (h : Nat)
  | gather (x : Bool) (sel : List Nat) (pre post : List (List Nat)) (sack : Bool)
  | deliver (x : Bool) (i : Nat)            -- i-th packet ever sent by x goes to the other side
  | trc (x : Bool)
  | t3 (x : Bool)
  | read (x : Bool) (h : Nat)
  | accept (x : Bool)
  deriving Repr, DecidableEq

def Sys.init (il : Bool) (tsnA tsnB : Nat) : Sys :=
  { a := { il := il, nextTSN := tsnA, nextRSN := tsnA, cum := tsnB - 1 },
    b := { il := il, nextTSN := tsnB, nextRSN := tsnB, cum := tsnA - 1 } }

def Sys.ep (s : Sys) (x : Bool) : Ep := if x then s.b else s.a
def Sys.hist (s : Sys) (x : Bool) : List Msg := if x then s.hb else s.ha
def Sys.setEp (s : Sys) (x : Bool) (e : Ep) : Sys := if x then { s with b := e } else { s with a := e }
def Sys.put (s : Sys) (x : Bool) (e : Ep) (out : List Msg) : Sys :=
  if x then { s with b := e, hb := s.hb ++ out } else { s with a := e, ha := s.ha ++ out }

/-- every request of `e` that names `sid` has been performed by `peer` -/
def reqsDone (e peer : Ep) (sid : Nat) : Bool :=
  e.reqLog.all (fun r => !r.sids.contains sid || peer.perf.contains r.rsn)

def sideQuiet (e peer : Ep) (sid : Nat) : Bool :=
  (lookup sid e.reg).isNone &&
  e.objs.all (fun o => o.sid != sid || o.state != Gen.StreamStateOpen) &&
  e.pend.all (fun it => match it with | .marker s _ => s != sid | .data _ => true) &&
  reqsDone e peer sid

/-- "both directions of `sid` have been reset": the identifier is in neither stream table, no object with it is
still open for writing, no end-of-stream marker for it is queued, every reset request naming it was performed -/
def Sys.quiet (s : Sys) (sid : Nat) : Bool := sideQuiet s.a s.b sid && sideQuiet s.b s.a sid

def Sys.step (s : Sys) : Op → Sys
  | .openS x sid =>
    let r := openStream (s.ep x) sid (s.gen sid + 1)
    let s1 := s.setEp x r.1
    if r.2.2 then
      (if s.quiet sid then { s1 with gen := fun i => if i = sid then s.gen sid + 1 else s.gen i }
       else { s1 with taint := sid :: s1.taint })
    else s1
  | .write x h len unord msg => s.setEp x (write (s.ep x) h len unord msg).1
  | .close x h => s.setEp x (close (s.ep x) h).1
  | .gather x sel pre post sack =>
    match gather (s.ep x) sel pre post sack with
    | some (e, out) => s.put x e out
    | none => s
  | .deliver x i =>
    match (s.hist x)[i]? with
    | none => s
    | some p => s.setEp (!x) (handle (s.ep (!x)) p)
  | .trc x => s.setEp x (trc (s.ep x))
  | .t3 _ => s
  | .read x h => s.setEp x (read (s.ep x) h).1
  | .accept x => s.setEp x (accept (s.ep x)).1

def Sys.run (s : Sys) (ops : List Op) : Sys := ops.foldl Sys.step s

end Rs
