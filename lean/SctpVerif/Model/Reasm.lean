import SctpVerif.Gen.Funcs
/-!
L0 model of `reassemblyQueue` (reassembly_queue.go), function by function. Core-only (linked into
the driver).

Modelling decisions (each is checked by the correspondence harness `TestVerifReasm`):

* `*chunkPayloadData` → `Chunk` (value). Only the fields the receive path reads. `head` is always
  nil on the receive path (`unmarshal` never sets it), so `isFragmented() = !B || !E`.
  `userData []byte` → `List UInt8` (byte-exact reassembly can be stated; the driver regenerates
  the bytes from the (len, seed) pair of the op line).
* `sort.Slice` is not stable and its result for a comparator that is not a strict weak order is
  implementation-defined. `goSort` is Go's `insertionSort_func`, which is what `sort.Slice`
  runs for slices of at most 12 elements — for those the model is exact for ANY keys. For longer
  slices the model is exact whenever the comparator is a strict total order on the keys present
  (distinct keys inside a half-space window), because then the sorted result is unique. The
  invariant of an honest peer gives exactly that; the hostile generator keeps every sorted
  container at ≤ 12 elements.
* `sort.Search` (in `insertChunkSetByMID`) is modelled step by step (`goSearch`), exact for any keys.
* `orderedMIDMap` holds exactly the pointers of the slice `orderedMID` (every insertion and
  deletion site touches both: `pushOrderedIData`, `read`, `forwardTSNForOrderedMID`); the model
  keeps one copy (`orderedMID`) and derives the map lookup / `len` from it. The harness checks the
  bijection white-box after every op (`sync` token).
* `unorderedMIDMap` → association list keyed by `set.mid`; Go's random map iteration order in
  `forwardTSNForUnorderedMID` is not observable (clamped subtraction commutes).
* a new `chunkSet` is appended to `r.ordered`, the slice is sorted by SSN and THEN the chunk is
  pushed through the pointer; the comparator reads only `ssn`, so the model sorts the already
  filled set.
* the `== nil` map re-initialisations never fire after `newReassemblyQueue` and are omitted.
* Go would panic on `set.chunks[0]` of an empty set / `chunks[0]` of an empty run: the model
  returns `Err.panic` there (never totalised); `Proofs/Reasm.lean` shows it unreachable.
* `nBytes uint64` → `BitVec 64`, `int` → `Int`/`Nat` (lengths and counts are never negative).
-/
namespace Reasm
open Gen

abbrev PPI := BitVec 32

structure Chunk where
  tsn       : BitVec 32 := 0
  si        : BitVec 16 := 0
  ssn       : BitVec 16 := 0
  mid       : BitVec 32 := 0
  fsn       : BitVec 32 := 0
  unordered : Bool := false
  bf        : Bool := false   -- beginningFragment
  ef        : Bool := false   -- endingFragment
  iData     : Bool := false
  ppi       : PPI := 0
  userData  : List UInt8 := []
deriving Repr, DecidableEq, Inhabited

/-- Go: `isFragmented` with `head == nil` (receive path). -/
def Chunk.isFragmented (c : Chunk) : Bool := !c.bf || !c.ef

/-- Go: `len(c.userData)`. -/
def Chunk.len (c : Chunk) : Nat := c.userData.length

/-! ### sorting and searching as Go does it -/

/-- inner loop of `insertionSort_func`: `rev` is the already processed prefix, REVERSED (last
element first); `x` moves towards the front while `less(x, previous)`. -/
def insRev {α : Type} (lt : α → α → Bool) (x : α) : List α → List α
  | [] => [x]
  | y :: ys => if lt x y then y :: insRev lt x ys else x :: y :: ys

/-- Go: `insertionSort_func(data, 0, n)` = `sort.Slice` for `n ≤ 12`. -/
def goSort {α : Type} (lt : α → α → Bool) (l : List α) : List α :=
  (l.foldl (fun rev x => insRev lt x rev) []).reverse

def sortChunksByTSN (a : List Chunk) : List Chunk := goSort (fun x y => sna32LT x.tsn y.tsn) a
def sortChunksByFSN (a : List Chunk) : List Chunk := goSort (fun x y => sna32LT x.fsn y.fsn) a

/-- Go: `sort.Search(n, f)`; `fuel` bounds the loop (`n+1` is always enough: `j - i` halves). -/
def goSearch (f : Nat → Bool) : Nat → Nat → Nat → Nat
  | 0, i, _ => i
  | fuel+1, i, j =>
    if i < j then
      let h := (i + j) / 2
      if !f h then goSearch f fuel (h + 1) j else goSearch f fuel i h
    else i

/-! ### chunkSet -/

structure ChunkSet where
  ssn    : BitVec 16
  ppi    : PPI
  chunks : List Chunk
deriving Repr, DecidableEq, Inhabited

def sortChunksBySSN (a : List ChunkSet) : List ChunkSet := goSort (fun x y => sna16LT x.ssn y.ssn) a

def newChunkSet (ssn : BitVec 16) (ppi : PPI) : ChunkSet := { ssn := ssn, ppi := ppi, chunks := [] }

/-- condition 3 of `isComplete`: every chunk's TSN is the previous one + 1. -/
def tsnContig : BitVec 32 → List Chunk → Bool
  | _, [] => true
  | last, c :: cs => if c.tsn != last + 1 then false else tsnContig c.tsn cs

/-- Go: `chunkSet.isComplete` on the chunk slice. -/
def chunksComplete : List Chunk → Bool
  | [] => false
  | c0 :: rest =>
    if !c0.bf then false
    else if !((c0 :: rest).getLast (List.cons_ne_nil _ _)).ef then false
    else tsnContig c0.tsn rest

def ChunkSet.isComplete (s : ChunkSet) : Bool := chunksComplete s.chunks

def ChunkSet.hasTSN (s : ChunkSet) (t : BitVec 32) : Bool := s.chunks.any (fun c => c.tsn == t)

/-- Go: `pushNoDuplicate`: append, sort by TSN, report completeness. -/
def ChunkSet.pushNoDuplicate (s : ChunkSet) (c : Chunk) : ChunkSet × Bool :=
  let s' := { s with chunks := sortChunksByTSN (s.chunks ++ [c]) }
  (s', s'.isComplete)

/-- Go: `chunkSet.push` (not used by the queue itself; kept for completeness). -/
def ChunkSet.push (s : ChunkSet) (c : Chunk) : ChunkSet × Bool :=
  if s.hasTSN c.tsn then (s, false) else s.pushNoDuplicate c

/-! ### chunkSetMID -/

structure ChunkSetMID where
  mid    : BitVec 32
  ppi    : PPI
  chunks : List Chunk
deriving Repr, DecidableEq, Inhabited

def newChunkSetMID (mid : BitVec 32) (ppi : PPI) : ChunkSetMID := { mid := mid, ppi := ppi, chunks := [] }

def fsnContig : BitVec 32 → List Chunk → Bool
  | _, [] => true
  | last, c :: cs => if c.fsn != last + 1 then false else fsnContig c.fsn cs

/-- Go: `chunkSetMID.isComplete`. -/
def chunksCompleteMID : List Chunk → Bool
  | [] => false
  | c0 :: rest =>
    if !c0.bf then false
    else if !((c0 :: rest).getLast (List.cons_ne_nil _ _)).ef then false
    else if c0.fsn != 0 then false
    else fsnContig c0.fsn rest

def ChunkSetMID.isComplete (s : ChunkSetMID) : Bool := chunksCompleteMID s.chunks

/-- Go: `pushAndCheck` → (set, complete, accepted). -/
def ChunkSetMID.pushAndCheck (s : ChunkSetMID) (c : Chunk) : ChunkSetMID × Bool × Bool :=
  if s.isComplete then (s, false, false)
  else if s.chunks.any (fun x => x.fsn == c.fsn) then (s, false, false)
  else
    let s' : ChunkSetMID :=
      { s with chunks := sortChunksByFSN (s.chunks ++ [c]), ppi := if c.bf then c.ppi else s.ppi }
    (s', s'.isComplete, true)

/-- Go: `insertChunkSetByMID`. -/
def insertChunkSetByMID (a : List ChunkSetMID) (cset : ChunkSetMID) : List ChunkSetMID :=
  let insertAt := goSearch (fun i => match a[i]? with
                                     | some s => !sna32LT s.mid cset.mid
                                     | none => true) (a.length + 1) 0 a.length
  a.take insertAt ++ cset :: a.drop insertAt

/-! ### reassemblyQueue -/

inductive Err | none | dataLimit | midLimit | panic
deriving Repr, DecidableEq, Inhabited

inductive RErr | ok | tryAgain | shortBuffer
deriving Repr, DecidableEq, Inhabited

structure Q where
  si              : BitVec 16
  nextSSN         : BitVec 16 := 0
  nextMID         : BitVec 32 := 0
  ordered         : List ChunkSet := []
  unordered       : List ChunkSet := []
  unorderedChunks : List Chunk := []
  orderedMID      : List ChunkSetMID := []      -- also stands for `orderedMIDMap` (same pointers)
  unorderedMID    : List ChunkSetMID := []
  unorderedMIDMap : List ChunkSetMID := []      -- map mid ↦ set, key = set.mid
  useInterleaving : Bool := false
  nBytes          : BitVec 64 := 0
  maxEntries      : BitVec 32
deriving Repr, Inhabited

/-- Go: `newReassemblyQueue`. -/
def new (si : BitVec 16) (maxEntries : BitVec 32) : Q := { si := si, maxEntries := maxEntries }

def Q.isDataLimitReached (q : Q) (n : Nat) : Bool := isReassemblyQueueLimitReached q.maxEntries (n : Int)
def Q.hasDataLimit (q : Q) : Bool := decide (q.maxEntries > 0#32)
def Q.isMIDLimitReached (q : Q) (n : Nat) : Bool := isReassemblyQueueLimitReached q.maxEntries (n : Int)

def countChunks (sets : List ChunkSet) : Nat := (sets.map (fun s => s.chunks.length)).sum

def Q.orderedDataEntryCount (q : Q) : Nat := countChunks q.ordered
def Q.unorderedDataEntryCount (q : Q) : Nat := q.unorderedChunks.length + countChunks q.unordered
def Q.unorderedMIDEntryCount (q : Q) : Nat := q.unorderedMIDMap.length + q.unorderedMID.length
def Q.hasQueuedUnorderedMID (q : Q) (mid : BitVec 32) : Bool := q.unorderedMID.any (fun s => s.mid == mid)

/-- Go: `atomic.AddUint64(&r.nBytes, uint64(len(chunk.userData)))`. -/
def Q.addBytes (q : Q) (n : Nat) : Q := { q with nBytes := q.nBytes + BitVec.ofNat 64 n }

/-- Go: `subtractNumBytes(nBytes int)` on the counter:
`if int(cur) >= nBytes { cur += -uint64(nBytes) } else { cur = 0 }`. -/
def subBytes (cur : BitVec 64) (n : Int) : BitVec 64 :=
  if cur.toInt ≥ n then cur + BitVec.ofInt 64 (-n) else 0

def Q.subtractNumBytes (q : Q) (n : Int) : Q := { q with nBytes := subBytes q.nBytes n }

def Q.getNumBytes (q : Q) : Int := q.nBytes.toInt

/-- the loop `for _, c := range set.chunks { r.subtractNumBytes(len(c.userData)) }` (touches only the counter). -/
def subChunks (cur : BitVec 64) : List Chunk → BitVec 64
  | [] => cur
  | c :: cs => subChunks (subBytes cur (c.len : Int)) cs

/-- Go: `findCompleteUnorderedChunkSet`, scan part. `start = none` is `startIdx = -1`.
Returns `(startIdx, nChunks)` when `found`. -/
def scanUnordered : List Chunk → Nat → Option Nat → Nat → BitVec 32 → Option (Nat × Nat)
  | [], _, _, _, _ => none
  | c :: cs, i, start, n, last =>
    if c.bf then
      if c.ef then some (i, 1) else scanUnordered cs (i + 1) (some i) 1 c.tsn
    else match start with
      | none => scanUnordered cs (i + 1) none n last
      | some s =>
        if c.tsn != last + 1 then scanUnordered cs (i + 1) none n last
        else if c.ef then some (s, n + 1)
        else scanUnordered cs (i + 1) (some s) (n + 1) c.tsn

inductive FoundU
  | notFound
  | found (set : ChunkSet) (rest : List Chunk)
  | panic

/-- Go: `findCompleteUnorderedChunkSet` on the slice `uc` → (set, remaining `unorderedChunks`). -/
def findCompleteUnorderedChunkSet (uc : List Chunk) : FoundU :=
  match scanUnordered uc 0 none 0 0 with
  | none => .notFound
  | some (start, n) =>
    let chunks := (uc.drop start).take n
    match chunks with
    | [] => .panic                      -- `chunks[0]` on an empty slice
    | c0 :: _ => .found { ssn := 0, ppi := c0.ppi, chunks := chunks } (uc.take start ++ uc.drop (start + n))

inductive FindO
  | notFound
  | found (pre : List ChunkSet) (s : ChunkSet) (post : List ChunkSet)
  | panic

def FindO.cons (s : ChunkSet) : FindO → FindO
  | .found pre x post => .found (s :: pre) x post
  | r => r

/-- the loop in `pushWithError` looking for a fragmented set with this SSN:
`set.ssn == ssn && set.chunks[0].isFragmented()` (index 0 of an empty slice panics).
`found pre s post`: the slice is `pre ++ s :: post` and `cset` points at `s`. -/
def findFragSet (ssn : BitVec 16) : List ChunkSet → FindO
  | [] => .notFound
  | s :: rest =>
    if s.ssn == ssn then
      match s.chunks with
      | [] => .panic
      | c0 :: _ => if c0.isFragmented then .found [] s rest else (findFragSet ssn rest).cons s
    else (findFragSet ssn rest).cons s

/-- `m[mid] = f(m[mid])` through the pointer: replaces the first (only) set with this MID. -/
def updMID (mid : BitVec 32) (s' : ChunkSetMID) : List ChunkSetMID → List ChunkSetMID
  | [] => []
  | s :: rest => if s.mid == mid then s' :: rest else s :: updMID mid s' rest

/-- `delete(m, mid)`: removes the first (only) set with this MID. -/
def delMID (mid : BitVec 32) : List ChunkSetMID → List ChunkSetMID
  | [] => []
  | s :: rest => if s.mid == mid then rest else s :: delMID mid rest

/-- Go: `pushOrderedIData`. -/
def Q.pushOrderedIData (q : Q) (c : Chunk) : Q × Bool × Err :=
  if sna32LT c.mid q.nextMID then (q, false, .none)
  else
    -- cset := r.orderedMIDMap[mid]
    match q.orderedMID.find? (fun s => s.mid == c.mid) with
    | some cset =>
      let (cset', complete, accepted) := cset.pushAndCheck c
      if !accepted then (q, false, .none)
      else
        let q := { q with orderedMID := updMID c.mid cset' q.orderedMID }
        (q.addBytes c.len, complete, .none)
    | none =>
      if q.isMIDLimitReached q.orderedMID.length then (q, false, .midLimit)
      else
        let cset := newChunkSetMID c.mid c.ppi
        let (cset', complete, accepted) := cset.pushAndCheck c
        -- the (still empty) set is inserted before the chunk is pushed through the pointer;
        -- `insertChunkSetByMID` reads only `mid`
        if !accepted then ({ q with orderedMID := insertChunkSetByMID q.orderedMID cset }, false, .none)
        else
          let q := { q with orderedMID := insertChunkSetByMID q.orderedMID cset' }
          (q.addBytes c.len, complete, .none)

/-- Go: `pushUnorderedIData`. -/
def Q.pushUnorderedIData (q : Q) (c : Chunk) : Q × Bool × Err :=
  if q.hasQueuedUnorderedMID c.mid then (q, false, .none)
  else
    let go (q : Q) (cset : ChunkSetMID) : Q × Bool × Err :=
      let (cset', complete, accepted) := cset.pushAndCheck c
      if !accepted then (q, false, .none)
      else
        let q := q.addBytes c.len
        if complete then
          ({ q with unorderedMIDMap := delMID c.mid q.unorderedMIDMap,
                    unorderedMID := q.unorderedMID ++ [cset'] }, true, .none)
        else
          ({ q with unorderedMIDMap := updMID c.mid cset' q.unorderedMIDMap },
           false, .none)
    match q.unorderedMIDMap.find? (fun s => s.mid == c.mid) with
    | some cset => go q cset
    | none =>
      if q.isMIDLimitReached q.unorderedMIDEntryCount then (q, false, .midLimit)
      else
        let cset := newChunkSetMID c.mid c.ppi
        go { q with unorderedMIDMap := q.unorderedMIDMap ++ [cset] } cset

/-- Go: `pushIData`. -/
def Q.pushIData (q : Q) (c : Chunk) : Q × Bool × Err :=
  if c.si != q.si then (q, false, .none)
  else if c.unordered then q.pushUnorderedIData c
  else q.pushOrderedIData c

/-- Go: `pushWithError` → (queue, complete, error). -/
def Q.pushWithError (q : Q) (c : Chunk) : Q × Bool × Err :=
  if c.iData then
    { q with useInterleaving := true }.pushIData c
  else if c.si != q.si then (q, false, .none)
  else if c.unordered then
    if q.hasDataLimit && q.isDataLimitReached q.unorderedDataEntryCount then (q, false, .dataLimit)
    else
      let uc := sortChunksByTSN (q.unorderedChunks ++ [c])
      let q := q.addBytes c.len
      match findCompleteUnorderedChunkSet uc with
      | .panic => ({ q with unorderedChunks := uc }, false, .panic)
      | .notFound => ({ q with unorderedChunks := uc }, false, .none)
      | .found cset rest => ({ q with unorderedChunks := rest, unordered := q.unordered ++ [cset] }, true, .none)
  else if sna16LT c.ssn q.nextSSN then (q, false, .none)
  else
    match (if c.isFragmented then findFragSet c.ssn q.ordered else FindO.notFound) with
    | .panic => (q, false, .panic)
    | .found pre cset post =>
      if cset.hasTSN c.tsn then (q, false, .none)
      else if q.hasDataLimit && q.isDataLimitReached q.orderedDataEntryCount then (q, false, .dataLimit)
      else
        let (cset', complete) := cset.pushNoDuplicate c
        ({ q with ordered := pre ++ cset' :: post }.addBytes c.len, complete, .none)
    | .notFound =>
      if q.hasDataLimit && q.isDataLimitReached q.orderedDataEntryCount then (q, false, .dataLimit)
      else
        let (cset', complete) := (newChunkSet c.ssn c.ppi).pushNoDuplicate c
        ({ q with ordered := sortChunksBySSN (q.ordered ++ [cset']) }.addBytes c.len, complete, .none)

/-- Go: `push`. -/
def Q.push (q : Q) (c : Chunk) : Q × Bool := let (q, b, _) := q.pushWithError c; (q, b)

/-- Go: `isReadable`. -/
def Q.isReadable (q : Q) : Bool :=
  if q.useInterleaving then
    if q.unorderedMID.length > 0 then true
    else match q.orderedMID with
      | cset :: _ => cset.isComplete && sna32LTE cset.mid q.nextMID
      | [] => false
  else if q.unordered.length > 0 then true
  else match q.ordered with
    | cset :: _ => cset.isComplete && sna16LTE cset.ssn q.nextSSN
    | [] => false

/-- the copy loop of `read`: `(nTotal, err, bytes copied so far)`; `buflen = len(buf)`.
`copy(buf[nTotal:], c.userData)` only runs when the chunk fits, so the copied bytes are contiguous
from offset 0 as long as `err` is unset. -/
def copyLoop (buflen : Int) : List Chunk → Int → Bool → List UInt8 → Int × Bool × List UInt8
  | [], nTotal, err, out => (nTotal, err, out)
  | c :: cs, nTotal, err, out =>
    if buflen - nTotal < (c.len : Int) then copyLoop buflen cs (nTotal + c.len) true out
    else copyLoop buflen cs (nTotal + c.len) err (if err then out else out ++ c.userData)

structure ReadRes where
  n    : Int
  ppi  : PPI
  err  : RErr
  data : List UInt8      -- `buf[:n]` when `err = ok`
deriving Repr, DecidableEq, Inhabited

def ReadRes.tryAgain : ReadRes := { n := 0, ppi := 0, err := .tryAgain, data := [] }

/-- Go: `read(buf)` with `len(buf) = buflen`. -/
def Q.read (q : Q) (buflen : Nat) : Q × ReadRes :=
  if q.useInterleaving then
    let fin (iSet : ChunkSetMID) (after : Q) : Q × ReadRes :=
      let (nTotal, err, out) := copyLoop buflen iSet.chunks 0 false []
      if err then (q, { n := nTotal, ppi := 0, err := .shortBuffer, data := [] })
      else (after.subtractNumBytes nTotal, { n := nTotal, ppi := iSet.ppi, err := .ok, data := out })
    match q.unorderedMID with
    | iSet :: rest => fin iSet { q with unorderedMID := rest }
    | [] =>
      match q.orderedMID with
      | iSet :: rest =>
        if !iSet.isComplete then (q, .tryAgain)
        else if sna32GT iSet.mid q.nextMID then (q, .tryAgain)
        else fin iSet { q with orderedMID := rest,
                               nextMID := if iSet.mid == q.nextMID then q.nextMID + 1 else q.nextMID }
      | [] => (q, .tryAgain)
  else
    let fin (cset : ChunkSet) (after : Q) : Q × ReadRes :=
      let (nTotal, err, out) := copyLoop buflen cset.chunks 0 false []
      if err then (q, { n := nTotal, ppi := 0, err := .shortBuffer, data := [] })
      else (after.subtractNumBytes nTotal, { n := nTotal, ppi := cset.ppi, err := .ok, data := out })
    match q.unordered with
    | cset :: rest => fin cset { q with unordered := rest }
    | [] =>
      match q.ordered with
      | cset :: rest =>
        if !cset.isComplete then (q, .tryAgain)
        else if sna16GT cset.ssn q.nextSSN then (q, .tryAgain)
        else fin cset { q with ordered := rest,
                               nextSSN := if cset.ssn == q.nextSSN then q.nextSSN + 1 else q.nextSSN }
      | [] => (q, .tryAgain)

/-- the `keep` loop of `forwardTSNForOrdered`: (counter, keep). -/
def fwdOrderedLoop (lastSSN : BitVec 16) : List ChunkSet → BitVec 64 → BitVec 64 × List ChunkSet
  | [], nb => (nb, [])
  | s :: rest, nb =>
    if sna16LTE s.ssn lastSSN && !s.isComplete then fwdOrderedLoop lastSSN rest (subChunks nb s.chunks)
    else let (nb', keep) := fwdOrderedLoop lastSSN rest nb; (nb', s :: keep)

/-- Go: `forwardTSNForOrdered`. -/
def Q.forwardTSNForOrdered (q : Q) (lastSSN : BitVec 16) : Q :=
  let (nb, keep) := fwdOrderedLoop lastSSN q.ordered q.nBytes
  { q with ordered := keep, nBytes := nb,
           nextSSN := if sna16LTE q.nextSSN lastSSN then lastSSN + 1 else q.nextSSN }

/-- number of leading chunks with `!sna32GT(c.tsn, newCumulativeTSN)` = `lastIdx + 1`. -/
def fwdUnorderedPrefix (t : BitVec 32) : List Chunk → Nat
  | [] => 0
  | c :: cs => if sna32GT c.tsn t then 0 else fwdUnorderedPrefix t cs + 1

/-- Go: `forwardTSNForUnordered`. -/
def Q.forwardTSNForUnordered (q : Q) (newCumulativeTSN : BitVec 32) : Q :=
  let k := fwdUnorderedPrefix newCumulativeTSN q.unorderedChunks
  if k > 0 then
    { q with nBytes := subChunks q.nBytes (q.unorderedChunks.take k), unorderedChunks := q.unorderedChunks.drop k }
  else q

def fwdOrderedMIDLoop (lastMID : BitVec 32) : List ChunkSetMID → BitVec 64 → BitVec 64 × List ChunkSetMID
  | [], nb => (nb, [])
  | s :: rest, nb =>
    if sna32LTE s.mid lastMID && !s.isComplete then fwdOrderedMIDLoop lastMID rest (subChunks nb s.chunks)
    else let (nb', keep) := fwdOrderedMIDLoop lastMID rest nb; (nb', s :: keep)

/-- Go: `forwardTSNForOrderedMID` (the `delete(r.orderedMIDMap, …)` is the same removal: one copy). -/
def Q.forwardTSNForOrderedMID (q : Q) (lastMID : BitVec 32) : Q :=
  let (nb, keep) := fwdOrderedMIDLoop lastMID q.orderedMID q.nBytes
  { q with orderedMID := keep, nBytes := nb,
           nextMID := if sna32LTE q.nextMID lastMID then lastMID + 1 else q.nextMID }

def fwdUnorderedMIDLoop (lastMID : BitVec 32) : List ChunkSetMID → BitVec 64 → BitVec 64 × List ChunkSetMID
  | [], nb => (nb, [])
  | s :: rest, nb =>
    if sna32LTE s.mid lastMID then fwdUnorderedMIDLoop lastMID rest (subChunks nb s.chunks)
    else let (nb', keep) := fwdUnorderedMIDLoop lastMID rest nb; (nb', s :: keep)

/-- Go: `forwardTSNForUnorderedMID` (map iteration in list order; the order is not observable). -/
def Q.forwardTSNForUnorderedMID (q : Q) (lastMID : BitVec 32) : Q :=
  let (nb, keep) := fwdUnorderedMIDLoop lastMID q.unorderedMIDMap q.nBytes
  { q with unorderedMIDMap := keep, nBytes := nb }

/-! ### white-box truth the harness computes by walking the Go structures -/

def bytesOf (cs : List Chunk) : Nat := (cs.map Chunk.len).sum
def bytesOfSets (ss : List ChunkSet) : Nat := (ss.map (fun s => bytesOf s.chunks)).sum
def bytesOfMIDSets (ss : List ChunkSetMID) : Nat := (ss.map (fun s => bytesOf s.chunks)).sum

/-- `Σ len(userData)` over every chunk held in the containers. -/
def Q.heldBytes (q : Q) : Nat :=
  bytesOfSets q.ordered + bytesOfSets q.unordered + bytesOf q.unorderedChunks +
  bytesOfMIDSets q.orderedMID + bytesOfMIDSets q.unorderedMID + bytesOfMIDSets q.unorderedMIDMap

/-! ### operations (the alphabet theorems quantify over) -/

inductive Op
  | push (c : Chunk)
  | read (buflen : Nat)
  | fwdO (ssn : BitVec 16)
  | fwdU (tsn : BitVec 32)
  | fwdOM (mid : BitVec 32)
  | fwdUM (mid : BitVec 32)
deriving Repr

def Q.step (q : Q) : Op → Q
  | .push c => (q.pushWithError c).1
  | .read n => (q.read n).1
  | .fwdO s => q.forwardTSNForOrdered s
  | .fwdU t => q.forwardTSNForUnordered t
  | .fwdOM m => q.forwardTSNForOrderedMID m
  | .fwdUM m => q.forwardTSNForUnorderedMID m

def Q.run (q : Q) (ops : List Op) : Q := ops.foldl Q.step q

end Reasm
