import SctpVerif.Model.NetSys
/-!
# NetSysPR — NetSys with partial reliability: FORWARD-TSN / I-FORWARD-TSN travel over the adversarial network too

Everything of `Model/NetSys.lean` is reused (`Params`, `Op`, `toWire`, `sndOp`, `accepts`, `Write`, `cut`); nothing of the
`Sender` / `Receiver` models is re-modelled. What is new:

* streams may have ANY reliability policy (`openS si unordered relType relVal …` is not restricted), so the sender
  abandons messages (`checkPR`), advances `advancedPeerTSNAckPoint` and builds FORWARD-TSN / I-FORWARD-TSN chunks;
* the wire HISTORY holds `Item`s: every DATA / I-DATA chunk any gather put on the wire (`Item.data`, as in NetSys) and
  every FORWARD-TSN / I-FORWARD-TSN chunk a gather emitted (`Item.fwd`, the value of `GatherOut.fwd`: new cumulative
  TSN and stream list as `createForwardTSN` / `createIForwardTSN` built them in that state);
* `deliver is` hands the receiver ONE packet made of the history items with the indices `is`, DATA or FORWARD-TSN —
  any indices, any number of times, in any order, in any bundling; an index never chosen is a lost chunk; a
  FORWARD-TSN from long ago may arrive after newer ones, and after the DATA it skips.

Everything else as in NetSys: the SACKs the sender processes are op arguments (`Op.snd (.sack cum arwnd gaps marks)`),
not taken from the receiver. For the C07 composition this matters: the CONTENT of a FORWARD-TSN depends on the sender's
cumulative ack point, which SACKs move. `SackSound` below is the (decidable) run hypothesis "no SACK acknowledges
cumulatively more than the receiver's cumulative point at that moment"; `Props/C05recv.lean` (`C05_assoc_sack_sound`)
proves that every SACK the real receive half builds has exactly its own cumulative point. Gap blocks and a_rwnd stay
arbitrary.

Core-only, executable.
-/
namespace NetSysPR
open NetSys (Params Op Write toWire sndOp accepts)

deriving instance DecidableEq for Sender.Chunk
deriving instance DecidableEq for Sender.Fwd

/-- what travels: a DATA / I-DATA chunk or a FORWARD-TSN / I-FORWARD-TSN chunk, as the sender built it -/
inductive Item where
  | data (c : Sender.Chunk)
  | fwd (f : Sender.Fwd)
  deriving Inhabited, DecidableEq, Repr

structure St where
  snd : Sender.St
  rcv : Receiver.St
  wire : List Item := []   -- history of every DATA and FORWARD-TSN chunk put on the wire, in order

def init (P : Params) : St := { snd := (NetSys.init P).snd, rcv := (NetSys.init P).rcv }

/-- the new cumulative TSN a FORWARD-TSN / I-FORWARD-TSN carries -/
def fwdCum : Sender.Fwd → BitVec 32
  | .fwd nc _ => nc
  | .ifwd nc _ => nc

/-- what the receiver's decoder makes of the sender's FORWARD-TSN / I-FORWARD-TSN chunk -/
def inFwd : Sender.Fwd → Receiver.InChunk
  | .fwd nc es => .fwd nc es
  | .ifwd nc es => .ifwd nc (es.map fun e => (e.1.1, e.1.2, e.2))

/-- what the receiver's decoder makes of a history item (`imm`: the I-bit of a DATA chunk, chosen by the network) -/
def inChunk (P : Params) : Item → Bool → Receiver.InChunk
  | .data c, imm => .data (toWire P c) imm
  | .fwd f, _ => inFwd f

/-- the items a sender operation puts on the wire: the DATA chunks of the packets, then the FORWARD-TSN if the gather emits one -/
def emits (s : Sender.St) : Sender.Op → List Item
  | .gather orc sel =>
    (Sender.gather s orc sel).2.packets.flatten.map Item.data ++
      (match (Sender.gather s orc sel).2.fwd with | some f => [Item.fwd f] | none => [])
  | _ => []

/-- the history items `deliver is` picks (an index beyond the history names nothing) -/
def pick (wire : List Item) (is : List (Nat × Bool)) : List (Item × Bool) :=
  is.filterMap fun x => (wire[x.1]?).map fun it => (it, x.2)

/-- the packet `deliver is` builds from the history -/
def packetOf (P : Params) (wire : List Item) (is : List (Nat × Bool)) : List Receiver.InChunk :=
  (pick wire is).map fun x => inChunk P x.1 x.2

/-- the receiver operation a NetSysPR operation performs -/
def rcvOp (P : Params) (wire : List Item) : Op → Option Receiver.Op
  | .deliver is => some (.pkt (packetOf P wire is))
  | .rcv (.pkt _) => none
  | .rcv op => some op
  | _ => none

def step (P : Params) (s : St) (op : Op) : St :=
  match sndOp P s.snd op with
  | some o => { s with snd := Sender.step s.snd o, wire := s.wire ++ emits s.snd o }
  | none =>
    match rcvOp P s.wire op with
    | some o => { s with rcv := Receiver.step s.rcv o }
    | none => s

def run (P : Params) (s : St) : List Op → St
  | [] => s
  | op :: ops => run P (step P s op) ops

/-! ## what the two applications see (as in NetSys) -/

def writeOut (P : Params) (s : St) : Op → List Write
  | .write si ppi => if accepts s.snd si ppi (P.pay s.snd.nextMsg).length then [⟨si, ppi, s.snd.nextMsg⟩] else []
  | _ => []

/-- the accepted writes of a run, in order -/
def writes (P : Params) : St → List Op → List Write
  | _, [] => []
  | s, op :: ops => writeOut P s op ++ writes P (step P s op) ops

/-- `(PPI, bytes)` of the accepted writes on stream `si`, in write order -/
def writesOn (P : Params) (si : BitVec 16) (s : St) (ops : List Op) : List (BitVec 32 × List UInt8) :=
  ((writes P s ops).filter (·.si == si)).map fun w => (w.ppi, P.pay w.msg)

def readOut (si : BitVec 16) (s : St) : Op → List (BitVec 32 × List UInt8)
  | .rcv (.read nm n) => if nm.1 = si then
      (match (Receiver.read s.rcv nm n).2 with | .ok _ ppi data => [(ppi, data)] | _ => []) else []
  | _ => []

/-- `(PPI, bytes)` of every successful `ReadSCTP` on stream `si` (any stream object of that id), in order -/
def readsOn (P : Params) (si : BitVec 16) : St → List Op → List (BitVec 32 × List UInt8)
  | _, [] => []
  | s, op :: ops => readOut si s op ++ readsOn P si (step P s op) ops

/-! ## hypotheses of the composition theorems, as decidable predicates on the run -/

/-- single incarnation per stream: the peer never resets a stream (`unreg`; known finding D24 is the counterexample
otherwise). NetSysPR has no RE-CONFIG chunk on the wire, so the receiver never resets one either. -/
def NoResetOp : Op → Bool
  | .snd (.unreg _) => false
  | _ => true

def NoReset (ops : List Op) : Bool := ops.all NoResetOp

/-- "SACKs are sound": no SACK the sender processes acknowledges cumulatively more than the receiver's cumulative point
at that moment (serial ≤). Nothing is asked of gap blocks, a_rwnd, RACK marks. -/
def sackSoundOp (s : St) : Op → Bool
  | .snd (.sack cum _ _ _) => Gen.sna32LTE cum s.rcv.pq.cum
  | _ => true

def SackSound (P : Params) : St → List Op → Bool
  | _, [] => true
  | s, op :: ops => sackSoundOp s op && SackSound P (step P s op) ops

/-- the chunks a sender operation moves from the pending queue to in flight (each gets the next TSN) -/
def movedOut (s : Sender.St) : Sender.Op → List Sender.Chunk
  | .gather orc sel => (Sender.gather s orc sel).2.admits.map (·.chunk)
  | _ => []

/-- TSNs assigned by the run (`myNextTSN` counted without wrap-around) -/
def tsnsAssigned (P : Params) : St → List Op → Nat
  | _, [] => 0
  | s, op :: ops => (match sndOp P s.snd op with | some o => (movedOut s.snd o).length | none => 0) + tsnsAssigned P (step P s op) ops

/-- fewer than 2^31 chunks in flight in every state of the run (the premise `TsnOk` of `Props/C07.lean`) -/
def InflightOk (P : Params) : St → List Op → Bool
  | s, [] => decide (s.snd.inflight.length < 2^31)
  | s, op :: ops => decide (s.snd.inflight.length < 2^31) && InflightOk P (step P s op) ops

end NetSysPR
