/-!
# `Teardown` — the close / abort / transport-failure choreography of one association (C09)

Core-only, executable. A transition system of the goroutines of ONE association over the shared objects the code uses:

* processes: `readLoop` (`RL`), `writeLoop` (`WL`), `timerLoop` (`TL`), a timer-callback goroutine (`TC`), the
  constructor call `Client/Server` (`CN`), and a LIST of API callers of arbitrary length (`Caller`): blocked reads (per
  stream), blocking writes, `AcceptStream`, `Shutdown`, `Close`, `Abort`;
* shared objects: the transport (`conn` closed by us, `rdFail`/`wrFail`), `closeWriteLoopCh` (`cw`), `readLoopCloseCh`
  (`rc`), `acceptCh` (`ac`), `abortSentCh`, `awakeWriteLoopCh` (one token), `handshakeCompletedCh` (a rendez-vous between
  `completeHandshake` and the constructor's select), `writeNotify` (`wn`), the per-stream condition variable (`woken`
  flags of the readers), `a.lock`.

**The choreography is a parameter** (`Choreo`): the ordered statements of `readLoop`'s deferred block, of `close()` and of
`Abort()`, the arms of every select, how readers are woken (Broadcast or Signal), whether a write error closes the
transport. `Model/ConcFacts.lean` reads it off the translator's facts; the theorems are proved for `Choreo.expected` and
`Props/C09.lean` decides that the two coincide.

**`a.lock`.** A critical section that contains no blocking operation is ONE step with guard "lock free"
(`C20_interleaving_refines_sequence`). The sections that do block while holding the lock — `completeHandshake` inside a
handler or inside the T1-failure callback (`Gen.blockingUnderLock`) — and the deferred block of `readLoop`, which is
interpreted statement by statement, hold it across steps (`Holder`).

**Environment** (`Act.env…`): everything that is not the package's own progress — a packet arriving, a timer firing, the
application issuing a call, data / a stream / window space arriving for a blocked caller, and the triggers themselves
(transport failure, write failure, context cancellation). Each consumes one unit of `fuel`, so every run is finite; the
no-stuck theorem does not count environment steps as progress.

Assumptions written into the model (not proved about the code): `completeHandshake` is attempted at most once per
association (`hsTried`; the code can in principle attempt it twice when the last T1 expiry races with the arrival of the
answer — then the second attempt holds `a.lock` until the transport is closed); one constructor call per association;
API methods are called only after the constructor returned the association (`hsDone`); `sync.Cond`, channels, `sync.Once`
behave as specified by Go.
-/
namespace Conc

/-- one statement of the deferred block of `readLoop`, of `close()` or of `Abort()` -/
inductive Op
  | closeCw        -- closeWriteLoopOnce.Do(close(closeWriteLoopCh))
  | lockA | unlockA
  | setClosed      -- setState(closed)
  | unregAll       -- for every registered stream: unregisterStream(s, closeErr)
  | unblockWrites  -- unblockPendingWrites()
  | closeAc | closeRc
  | closeConn      -- closeNetConn(): netConnCloseOnce.Do(netConn.Close())
  | closeTimers    -- closeAllTimers()
  | setAbort       -- lock; willSendAbort = true, cause; unlock
  | wrDeadline     -- netConn.SetWriteDeadline(now + 200 ms)
  | awake          -- awakeWriteLoop()
  | waitAbortSent  -- select { <-abortSentCh ; <-time.After(200 ms) }
  | readDeadline   -- netConn.SetReadDeadline(now): the pending and every later Read fails
  | waitRc         -- <-readLoopCloseCh
  deriving DecidableEq, Repr, Inhabited

inductive Wake | all | one
  deriving DecidableEq, Repr, Inhabited

structure Choreo where
  deferProg : List Op
  closeProg : List Op      -- close()
  closeApi  : List Op      -- Close() = close() then wait
  abortProg : List Op
  chSend : Bool  -- arms of completeHandshake's select
  chCw : Bool
  chRc : Bool
  wlAwake : Bool      -- arms of writeLoop's select
  wlCw : Bool
  wlCwChecksAbort : Bool   -- the closeWriteLoopCh arm re-reads willSendAbort under the lock and continues if set
  wlErrCloses : Bool       -- a write error calls closeNetConn
  tlCw : Bool              -- timerLoop selects on closeWriteLoopCh and returns
  shCw : Bool        -- arms of Shutdown's select
  shCwChecks : Bool  -- the closeWriteLoopCh arm reads the completion flags under a.lock: nil only if the peer's SHUTDOWN-ACK / SHUTDOWN-COMPLETE came
  shCtx : Bool
  cnHs : Bool   -- arms of the client constructor's select (ctx arm calls Close())
  cnRc : Bool
  cnCtx : Bool
  svHs : Bool         -- arms of the server constructor's select
  svRc : Bool
  wrNotify : Bool    -- arms of the blocking-write wait
  wrCtx : Bool
  accEof : Bool            -- AcceptStream returns EOF when acceptCh is closed
  unregWake : Wake
  resetWake : Wake
  unregSetsErr : Bool      -- unregisterStream stores the error unconditionally
  unregDeletes : Bool
  unblockCloses : Bool     -- unblockPendingWrites closes writeNotify
  dlKeepsTerminal : Bool   -- the helper goroutine of SetReadDeadline sets the deadline error only `if s.readErr == nil`
  deriving DecidableEq, Repr, Inhabited

def Choreo.expected : Choreo where
  deferProg := [.closeCw, .lockA, .setClosed, .unregAll, .unblockWrites, .unlockA, .closeAc, .closeRc]
  closeProg := [.setClosed, .closeConn, .closeTimers, .closeCw]
  closeApi := [.setClosed, .closeConn, .closeTimers, .closeCw, .waitRc]
  abortProg := [.setAbort, .wrDeadline, .awake, .waitAbortSent, .readDeadline, .waitRc, .waitAbortSent]
  chSend := true
  chCw := true
  chRc := true
  wlAwake := true
  wlCw := true
  wlCwChecksAbort := true
  wlErrCloses := true
  tlCw := true
  shCw := true
  shCwChecks := true
  shCtx := true
  cnHs := true
  cnRc := true
  cnCtx := true
  svHs := true
  svRc := true
  wrNotify := true
  wrCtx := true
  accEof := true
  unregWake := .all
  resetWake := .all
  unregSetsErr := true
  unregDeletes := true
  unblockCloses := true
  dlKeepsTerminal := true

inductive Holder | rlCH | tcCH | rlDefer
  deriving DecidableEq, Repr, Inhabited

/-- why a read / an API call failed -/
inductive Err
  | transport                -- netConn.Read failed (peer closed, injected failure, read deadline, our own Close)
  | abort (cause : String)   -- handleAbort: the error text lists the causes of the ABORT chunk
  | closedBeforeConn | handshake | ctx | notEstablished | shutdownNonEstablished
  | shutdownIncomplete       -- Shutdown: the association closed before the peer's SHUTDOWN-ACK / SHUTDOWN-COMPLETE arrived
  deriving DecidableEq, Repr, Inhabited

inductive Res
  | ok
  | eof
  | err (e : Err)
  | nil                      -- Shutdown returned nil
  deriving DecidableEq, Repr, Inhabited

inductive Pkt
  | data
  | hsFinal (err : Bool)     -- COOKIE-ECHO / COOKIE-ACK that completes the handshake (or fails to establish)
  | abort (cause : String)
  | reset (sid : Nat)        -- outgoing-reset request for stream sid performed now
  | shutdownComplete
  | shutdownAck              -- the peer's SHUTDOWN-ACK: shutdownCompletePending := true
  deriving DecidableEq, Repr, Inhabited

inductive RL
  | reading | handling (p : Pkt) | inCH (err : Bool) | defer (k : Nat) | done
  deriving DecidableEq, Repr, Inhabited

inductive WL
  | gather | write (n : Nat) (ok : Bool) (ab : Bool) | sel | cwArm | closing | exit | done
  deriving DecidableEq, Repr, Inhabited

inductive TL | sel | cb | done
  deriving DecidableEq, Repr, Inhabited

inductive TC | idle | spawned (fail : Bool) | inCH
  deriving DecidableEq, Repr, Inhabited

inductive CN
  | sel (client : Bool)      -- waiting in the constructor's select (a client also watches its context)
  | closing (k : Nat)        -- context cancelled: running Close()
  | fin (r : Res)
  deriving DecidableEq, Repr, Inhabited

inductive Kind | rd (sid : Nat) | wr | acc | sh | cl | ab (cause : String)
  deriving DecidableEq, Repr, Inhabited

inductive Caller
  | idle (k : Kind)                       -- the call has not been issued yet
  | rdWait (sid : Nat) (woken : Bool)     -- in readNotifier.Wait(); woken = a Signal/Broadcast has reached this waiter
  | wrBegin | wrWait
  | accWait
  | shBegin | shWait
  | cl (k : Nat)
  | ab (cause : String) (k : Nat)
  | fin (k : Kind) (r : Res)
  deriving DecidableEq, Repr, Inhabited

structure St where
  -- shared objects
  conn : Bool := false
  rdFail : Bool := false
  wrFail : Bool := false
  cw : Bool := false
  rc : Bool := false
  ac : Bool := false
  abortSent : Bool := false
  stClosed : Bool := false
  notEst : Bool := false            -- state ≠ established for good (closed, or a shutdown has begun)
  timersClosed : Bool := false
  wn : Bool := false
  unreg : Bool := false
  willAbort : Option String := none
  awake : Bool := false
  lock : Option Holder := none
  closeErr : Option Err := none
  gone : List Nat := []             -- streams already removed by an inbound reset
  hsTried : Bool := false
  hsDone : Bool := false
  ctxCancelled : Bool := false
  lost : List Nat := []             -- streams whose TERMINAL read error was replaced by a late read-deadline expiry (then cleared by the next SetReadDeadline)
  sdAcked : Bool := false           -- shutdownCompletePending || shutdownCompleteReceived: the peer acknowledged our SHUTDOWN
  -- processes
  rl : RL := .reading
  wl : WL := .sel
  tl : TL := .sel
  tc : TC := .idle
  cn : CN := .sel true
  callers : List Caller := []
  fuel : Nat := 0
  -- ghosts
  connCloses : Nat := 0             -- how often netConn.Close() was really called
  lateWrites : Nat := 0             -- netConn.Write calls issued after netConn.Close()
  wireAbort : Option String := none -- cause carried by the ABORT that was put on the wire
  deriving Repr, Inhabited

inductive Act
  -- environment
  | envPacket (p : Pkt) | envReadFail | envWriteFail | envCtxCancel | envFire (fail : Bool) | envPoke
  | envDeadline (sid : Nat)         -- a read deadline armed earlier on stream sid expires now (nobody need be reading)
  | envStart (i : Nat)              -- the application issues call i
  | envServe (i : Nat)              -- blocked caller i is served normally (data / a stream / window space arrives)
  -- the package
  | rlReadErr | rlHandle | rlCH (arm : Nat) | rlDefer
  | wlGather (n : Nat) (fin : Bool) | wlWrite | wlSel (arm : Nat) | wlCwArm | wlClosing | wlExit
  | tlExit | tlCb
  | tcRun | tcCH (arm : Nat)
  | cn (arm : Nat)
  | call (i : Nat) (arm : Nat)
  deriving DecidableEq, Repr, Inhabited

def Act.isEnv : Act → Bool
  | .envPacket _ | .envReadFail | .envWriteFail | .envCtxCancel | .envFire _ | .envPoke | .envStart _ | .envServe _ | .envDeadline _ => true
  | _ => false

/-- wake the readers waiting on stream `sid` (every stream if `none`, except those already gone) -/
def wakeReaders (mode : Wake) (sel : Nat → Bool) : List Caller → List Caller
  | [] => []
  | .rdWait sid false :: cs =>
    if sel sid then
      match mode with
      | .all => .rdWait sid true :: wakeReaders mode sel cs
      | .one => .rdWait sid true :: wakeReaders mode (fun s => s != sid && sel s) cs
    else .rdWait sid false :: wakeReaders mode sel cs
  | c :: cs => c :: wakeReaders mode sel cs

/-- effect of one non-blocking statement -/
def applyOp (ch : Choreo) (s : St) : Op → St
  | .closeCw => { s with cw := true }
  | .setClosed => { s with stClosed := true, notEst := true }
  | .unregAll =>
    { s with unreg := true, callers := wakeReaders ch.unregWake (fun sid => !s.gone.contains sid) s.callers }
  | .unblockWrites => if ch.unblockCloses then { s with wn := true } else s
  | .closeAc => { s with ac := true }
  | .closeRc => { s with rc := true }
  | .closeConn => { s with conn := true, rdFail := true, connCloses := if s.conn then s.connCloses else s.connCloses + 1 }
  | .closeTimers => { s with timersClosed := true }
  | .awake => { s with awake := true }
  | .readDeadline => { s with rdFail := true }
  | .unlockA => { s with lock := none }
  | _ => s

def applyOps (ch : Choreo) (s : St) (ops : List Op) : St := ops.foldl (applyOp ch) s

/-- a statement executed by a process that may have to wait: `none` = not enabled now -/
def execOp (ch : Choreo) (s : St) (cause : String) : Op → Option St
  | .lockA => if s.lock.isNone then some { s with lock := some .rlDefer } else none
  | .setAbort => if s.lock.isNone then some { s with willAbort := some cause } else none
  | .waitRc => if s.rc then some s else none
  | op => some (applyOp ch s op)

def setCaller (s : St) (i : Nat) (c : Caller) : St := { s with callers := s.callers.set i c }

def readRes (s : St) (sid : Nat) : Res :=
  if s.gone.contains sid then .eof else match s.closeErr with
    | some e => .err e
    | none => .err .transport

/-- the select of `completeHandshake`, executed by holder `h` -/
def chArm (ch : Choreo) (s : St) (err : Bool) (arm : Nat) : Option St :=
  match arm with
  | 0 =>  -- send on handshakeCompletedCh: needs the constructor in its select
    match s.cn with
    | .sel client =>
      if ch.chSend && (if client then ch.cnHs else ch.svHs) then
        some { s with cn := .fin (if err then .err .handshake else .ok), hsDone := !err, lock := none }
      else none
    | _ => none
  | 1 => if ch.chCw && s.cw then some { s with lock := none } else none
  | 2 => if ch.chRc && s.rc then some { s with lock := none } else none
  | _ => none

def callerStep (ch : Choreo) (s : St) (i : Nat) (arm : Nat) : Option St :=
  match s.callers[i]? with
  | none => none
  | some c =>
    match c with
    | .idle _ => none
    | .fin _ _ => none
    | .rdWait sid woken => if woken && !s.lost.contains sid then some (setCaller s i (.fin (.rd sid) (readRes s sid))) else none
    | .wrBegin =>
      if s.lock.isNone then
        if s.notEst then some (setCaller s i (.fin .wr (.err .notEstablished)))
        else if arm == 1 then some (setCaller s i .wrWait)
        else some (setCaller { s with awake := true } i (.fin .wr .ok))
      else none
    | .wrWait =>
      if arm == 0 then (if ch.wrNotify && s.wn then some (setCaller s i .wrBegin) else none)
      else (if ch.wrCtx && s.ctxCancelled then some (setCaller s i (.fin .wr (.err .ctx))) else none)
    | .accWait => if ch.accEof && s.ac then some (setCaller s i (.fin .acc .eof)) else none
    | .shBegin =>
      if s.lock.isNone then
        if s.notEst then some (setCaller s i (.fin .sh (.err .shutdownNonEstablished)))
        else some (setCaller (applyOp ch { s with notEst := true, awake := true } .unblockWrites) i .shWait)
      else none
    | .shWait =>
      if arm == 0 then
        (if ch.shCw && s.cw then
          (if ch.shCwChecks then
            (if s.lock.isNone then some (setCaller s i (.fin .sh (if s.sdAcked then .nil else .err .shutdownIncomplete))) else none)
          else some (setCaller s i (.fin .sh .nil)))
        else none)
      else (if ch.shCtx && s.ctxCancelled then some (setCaller s i (.fin .sh (.err .ctx))) else none)
    | .cl k =>
      match ch.closeApi[k]? with
      | none => some (setCaller s i (.fin .cl .ok))
      | some op => (execOp ch s "" op).map fun s' => setCaller s' i (.cl (k+1))
    | .ab cause k =>
      match ch.abortProg[k]? with
      | none => some (setCaller s i (.fin (.ab cause) .ok))
      | some op => (execOp ch s cause op).map fun s' => setCaller s' i (.ab cause (k+1))

/-- the first program point of a call; a read on a stream whose error is already set does not wait -/
def startCaller (s : St) : Kind → Caller
  | .rd sid => .rdWait sid (s.unreg || s.gone.contains sid)
  | .wr => .wrBegin
  | .acc => .accWait
  | .sh => .shBegin
  | .cl => .cl 0
  | .ab cause => .ab cause 0

def step (ch : Choreo) (s : St) : Act → Option St
  -- environment ------------------------------------------------------------------------------------
  | .envPacket p =>
    if s.rl == .reading && !s.rdFail && s.fuel > 0 then some { s with rl := .handling p, fuel := s.fuel - 1 } else none
  | .envReadFail => if !s.rdFail && s.fuel > 0 then some { s with rdFail := true, fuel := s.fuel - 1 } else none
  | .envWriteFail => if !s.wrFail && s.fuel > 0 then some { s with wrFail := true, fuel := s.fuel - 1 } else none
  | .envCtxCancel => if !s.ctxCancelled && s.fuel > 0 then some { s with ctxCancelled := true, fuel := s.fuel - 1 } else none
  | .envFire f =>
    if s.tc == .idle && !s.timersClosed && s.fuel > 0 then some { s with tc := .spawned f, fuel := s.fuel - 1 } else none
  | .envPoke => if s.tl == .sel && s.fuel > 0 then some { s with tl := .cb, fuel := s.fuel - 1 } else none
  | .envDeadline sid =>
    -- before the stream has its terminal error this is the ordinary transient deadline error (not modelled: the reader
    -- just tries again); afterwards it must leave the terminal error alone
    if s.fuel > 0 then
      some { s with fuel := s.fuel - 1,
                    lost := if ch.dlKeepsTerminal || !(s.unreg || s.gone.contains sid) then s.lost else sid :: s.lost }
    else none
  | .envStart i =>
    if s.hsDone && s.fuel > 0 then
      match s.callers[i]? with
      | some (.idle k) => some (setCaller { s with fuel := s.fuel - 1 } i (startCaller s k))
      | _ => none
    else none
  | .envServe i =>
    if s.fuel > 0 then
      match s.callers[i]? with
      | some (.rdWait sid _) => some (setCaller { s with fuel := s.fuel - 1 } i (.fin (.rd sid) .ok))
      | some .accWait => if s.ac then none else some (setCaller { s with fuel := s.fuel - 1 } i (.fin .acc .ok))
      | some .wrWait => some (setCaller { s with fuel := s.fuel - 1 } i .wrBegin)
      | _ => none
    else none
  -- readLoop ---------------------------------------------------------------------------------------
  | .rlReadErr =>
    if s.rl == .reading && s.rdFail then some { s with rl := .defer 0, closeErr := some .transport } else none
  | .rlHandle =>
    match s.rl with
    | .handling p =>
      if s.lock.isNone then
        match p with
        | .data => some { s with rl := .reading, awake := true }
        | .hsFinal err =>
          if s.hsTried then some { s with rl := .reading }
          else some { s with rl := .inCH err, hsTried := true, lock := some .rlCH }
        | .abort cause => some { applyOps ch s ch.closeProg with rl := .defer 0, closeErr := some (.abort cause) }
        | .reset sid =>
          if s.gone.contains sid || s.unreg then some { s with rl := .reading }
          else some { s with rl := .reading, gone := sid :: s.gone, callers := wakeReaders ch.resetWake (fun x => x == sid) s.callers }
        | .shutdownComplete => some { applyOps ch s ch.closeProg with rl := .reading, sdAcked := true }
        | .shutdownAck => some { s with rl := .reading, sdAcked := true, awake := true }
      else none
    | _ => none
  | .rlCH arm =>
    match s.rl with
    | .inCH err => if s.lock == some .rlCH then (chArm ch s err arm).map fun s' => { s' with rl := .reading } else none
    | _ => none
  | .rlDefer =>
    match s.rl with
    | .defer k =>
      match ch.deferProg[k]? with
      | none => some { s with rl := .done }
      | some op => (execOp ch s "" op).map fun s' => { s' with rl := .defer (k+1) }
    | _ => none
  -- writeLoop --------------------------------------------------------------------------------------
  | .wlGather n fin =>
    if s.wl == .gather && s.lock.isNone then
      match s.willAbort with
      | some cause => some { s with wl := .write 1 false true, willAbort := none, wireAbort := some cause }
      | none => if n ≤ s.fuel then some { s with wl := .write n (!fin) false, fuel := s.fuel - n } else none
    else none
  | .wlWrite =>
    match s.wl with
    | .write 0 ok _ => some { s with wl := if ok then .sel else .closing }
    | .write (n+1) ok ab =>
      let s1 := if ab then { s with abortSent := true } else s
      if s.conn || s.wrFail then
        let s2 := { s1 with lateWrites := if s.conn then s1.lateWrites + 1 else s1.lateWrites, wl := .exit }
        some (if ch.wlErrCloses then applyOp ch s2 .closeConn else s2)
      else some { s1 with wl := .write n ok ab }
    | _ => none
  | .wlSel arm =>
    if s.wl == .sel then
      if arm == 0 then (if ch.wlAwake && s.awake then some { s with wl := .gather, awake := false } else none)
      else (if ch.wlCw && s.cw then some { s with wl := if ch.wlCwChecksAbort then .cwArm else .exit } else none)
    else none
  | .wlCwArm =>
    if s.wl == .cwArm && s.lock.isNone then some { s with wl := if s.willAbort.isSome then .gather else .exit } else none
  | .wlClosing => if s.wl == .closing then some { applyOps ch s ch.closeProg with wl := .done } else none
  | .wlExit => if s.wl == .exit then some { applyOps ch s [.setClosed, .closeTimers] with wl := .done } else none
  -- timerLoop --------------------------------------------------------------------------------------
  | .tlExit => if s.tl == .sel && ch.tlCw && s.cw then some { s with tl := .done } else none
  | .tlCb => if s.tl == .cb && s.lock.isNone then some { s with tl := .sel } else none
  -- timer callback ---------------------------------------------------------------------------------
  | .tcRun =>
    match s.tc with
    | .spawned fail =>
      if s.lock.isNone then
        if fail && !s.hsTried then some { s with tc := .inCH, hsTried := true, lock := some .tcCH }
        else some { s with tc := .idle, awake := true }
      else none
    | _ => none
  | .tcCH arm =>
    if s.tc == .inCH && s.lock == some .tcCH then (chArm ch s true arm).map fun s' => { s' with tc := .idle } else none
  -- constructor ------------------------------------------------------------------------------------
  | .cn arm =>
    match s.cn with
    | .sel client =>
      if arm == 0 then
        (if (if client then ch.cnRc else ch.svRc) && s.rc then some { s with cn := .fin (.err .closedBeforeConn) } else none)
      else (if client && ch.cnCtx && s.ctxCancelled then some { s with cn := .closing 0 } else none)
    | .closing k =>
      match ch.closeApi[k]? with
      | none => some { s with cn := .fin (.err .ctx) }
      | some op => (execOp ch s "" op).map fun s' => { s' with cn := .closing (k+1) }
    | .fin _ => none
  -- API callers ------------------------------------------------------------------------------------
  | .call i arm => callerStep ch s i arm

def run (ch : Choreo) : St → List Act → Option St
  | s, [] => some s
  | s, a :: as => match step ch s a with
    | some s' => run ch s' as
    | none => none

def Caller.quiet : Caller → Bool
  | .idle _ | .fin _ _ => true
  | _ => false

/-- no goroutine of the package is left and no call is pending -/
def St.done (s : St) : Bool :=
  s.rl == .done && s.wl == .done && s.tl == .done && s.tc == .idle &&
    (match s.cn with | .fin _ => true | _ => false) && s.callers.all Caller.quiet

def Caller.active : Caller → Bool
  | .cl _ | .ab _ _ => true
  | _ => false

/-- a teardown has been set off: the transport read side is failing, or a process that will make it fail is on its way -/
def St.triggered (s : St) : Bool :=
  s.rdFail || (match s.rl with | .defer _ | .done | .handling (.abort _) | .handling .shutdownComplete => true | _ => false) ||
    (match s.wl with | .closing => true | .write (_+1) _ _ => s.wrFail | _ => false) ||
    (match s.cn with | .closing _ => true | _ => false) || s.callers.any Caller.active

/-- every action of the package itself (not of the environment) that could be enabled in `s`, up to the parameters that do
not influence enabledness (`wlGather` is enabled for some `n` iff it is for `n = 0`) -/
def procActs (s : St) : List Act :=
  [.rlReadErr, .rlHandle, .rlCH 0, .rlCH 1, .rlCH 2, .rlDefer, .wlGather 0 false, .wlWrite, .wlSel 0, .wlSel 1, .wlCwArm,
   .wlClosing, .wlExit, .tlExit, .tlCb, .tcRun, .tcCH 0, .tcCH 1, .tcCH 2, .cn 0, .cn 1] ++
  (List.range s.callers.length).flatMap fun i => [.call i 0, .call i 1]

/-- not finished, and nothing the package could do by itself -/
def St.stuck (ch : Choreo) (s : St) : Bool := !s.done && (procActs s).all fun a => (step ch s a).isNone

/-- greedy scheduler for experiments: always the first enabled action of the package -/
def runGreedy (ch : Choreo) : Nat → St → St
  | 0, s => s
  | n+1, s => match (procActs s).find? (fun a => (step ch s a).isSome) with
    | some a => match step ch s a with
      | some s' => runGreedy ch n s'
      | none => s
    | none => s

end Conc
