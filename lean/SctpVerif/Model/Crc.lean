/-!
CRC32c (Castagnoli, reflected polynomial 0x82F63B78), bit by bit — the function Go computes with
`crc32.Update(0, crc32.MakeTable(crc32.Castagnoli), data)`.

`hash/crc32.Update(crc, tab, p)` is `^update(^crc, p)`, so chaining `Update` over the pieces of a
byte string equals one `Update` over the concatenation; `generatePacketChecksum` (packet.go) is
therefore `crc32c (raw[0:8] ++ [0,0,0,0] ++ raw[12:])`.

Core-only, executable (linked into the driver). No theorem depends on the value of this function:
C13 is proved with the CRC uninterpreted; the driver uses it to recompute checksums of the
implementation's packets, and the harness compares it with `hash/crc32` on random strings.
-/
namespace Crc

def poly : UInt32 := 0x82F63B78

/-- one bit of the reflected shift register -/
@[inline] def stepBit (c : UInt32) : UInt32 :=
  if c &&& 1 == 1 then (c >>> 1) ^^^ poly else c >>> 1

/-- feed one byte (8 bit steps) -/
@[inline] def stepByte (c : UInt32) (b : UInt8) : UInt32 :=
  let c := c ^^^ b.toUInt32
  stepBit (stepBit (stepBit (stepBit (stepBit (stepBit (stepBit (stepBit c)))))))

/-- raw register update over a byte list (no pre/post inversion) -/
def update (c : UInt32) : List UInt8 → UInt32
  | [] => c
  | b :: bs => update (stepByte c b) bs

/-- CRC32c of a byte string: initial value and final XOR 0xFFFFFFFF. -/
def crc32cU (bs : List UInt8) : UInt32 := (update 0xFFFFFFFF bs) ^^^ 0xFFFFFFFF

/-- the same on the `BitVec` byte strings the codec model uses -/
def crc32c (bs : List (BitVec 8)) : BitVec 32 :=
  (bs.foldl (fun c b => stepByte c (UInt8.ofBitVec b)) 0xFFFFFFFF ^^^ 0xFFFFFFFF).toBitVec

end Crc
