/-!
# `Conc` — the logic under the goroutines (C20, C09)

Core-only. Three parts:

* **Lock graph**: an executable acyclicity test for the lock-order edge list the translator derives from the
  source (`Gen.lockOrderEdges`), by repeatedly removing the edges that end in a sink.
* **Critical sections**: threads whose only access to shared state is inside sections guarded by ONE mutex
  (`fstep`: acquire / one micro-operation / release, arbitrarily interleaved) against the coarse system whose
  steps are whole sections (`cstep`). `Proofs/Conc.lean` shows every fine run is a coarse run in the order of the
  acquisitions, so theorems proved for sequences of steps hold for concurrent callers.
* **Teardown** (`Model/Teardown.lean`) builds on nothing here but shares the namespace.

What is NOT here and cannot be: data races (a property of the Go memory model), the Go scheduler, `sync.Mutex`
fairness. The runs of the harness sample those.
-/
namespace Conc

/-! ## lock graph -/

abbrev Edge := String × String

/-- forget the `where` component of the generated triples -/
def edgesOf (es : List (String × String × String)) : List Edge := es.map fun e => (e.1, e.2.1)

/-- no edge leaves `v` -/
def isSink (es : List Edge) (v : String) : Bool := !es.any (fun f => f.1 == v)

/-- drop every edge whose target is a sink (such an edge lies on no cycle) -/
def elimStep (es : List Edge) : List Edge := es.filter (fun e => !isSink es e.2)

def acyclicFuel : Nat → List Edge → Bool
  | _, [] => true
  | 0, _ :: _ => false
  | n+1, e :: es => acyclicFuel n (elimStep (e :: es))

/-- `true` iff sink elimination empties the edge list (in at most `length` rounds) -/
def acyclic (es : List Edge) : Bool := acyclicFuel es.length es

/-- a path of at least one edge -/
inductive Reach (es : List Edge) : String → String → Prop
  | edge {a b} : (a, b) ∈ es → Reach es a b
  | step {a b c} : (a, b) ∈ es → Reach es b c → Reach es a c

/-! ## critical sections under one mutex -/

/-- a micro-operation executed while holding the mutex: reads and writes the shared state and the thread's own local state -/
abbrev MicroOp (S L : Type) := S × L → S × L

/-- a critical section = the micro-operations between Lock and Unlock -/
abbrev Section (S L : Type) := List (MicroOp S L)

def runOps {S L : Type} : Section S L → S × L → S × L
  | [], x => x
  | f :: fs, x => runOps fs (f x)

def upd {α : Type} (f : Nat → α) (t : Nat) (v : α) : Nat → α := fun i => if i = t then v else f i

structure Sys (S L : Type) where
  shared : S
  locals : Nat → L
  progs  : Nat → List (Section S L)        -- per thread: the critical sections it still has to run
  holder : Option (Nat × Section S L)      -- who holds the mutex, and what is left of its section

inductive Ev | acq (t : Nat) | op (t : Nat) | rel (t : Nat)
  deriving DecidableEq, Repr

/-- fine-grained step: any thread may acquire the free mutex; only the holder touches the shared state -/
def fstep {S L : Type} (y : Sys S L) : Ev → Option (Sys S L)
  | .acq t =>
    match y.holder, y.progs t with
    | none, c :: rest => some { y with holder := some (t, c), progs := upd y.progs t rest }
    | _, _ => none
  | .op t =>
    match y.holder with
    | some (t', f :: fs) =>
      if t' = t then
        let r := f (y.shared, y.locals t)
        some { y with shared := r.1, locals := upd y.locals t r.2, holder := some (t, fs) }
      else none
    | _ => none
  | .rel t =>
    match y.holder with
    | some (t', []) => if t' = t then some { y with holder := none } else none
    | _ => none

def frun {S L : Type} : Sys S L → List Ev → Option (Sys S L)
  | y, [] => some y
  | y, e :: es => match fstep y e with
    | some y' => frun y' es
    | none => none

/-- coarse step: thread `t` runs its next critical section as ONE atomic action -/
def cstep {S L : Type} (y : Sys S L) (t : Nat) : Option (Sys S L) :=
  match y.holder, y.progs t with
  | none, c :: rest =>
    let r := runOps c (y.shared, y.locals t)
    some { y with shared := r.1, locals := upd y.locals t r.2, progs := upd y.progs t rest }
  | _, _ => none

def crun {S L : Type} : Sys S L → List Nat → Option (Sys S L)
  | y, [] => some y
  | y, t :: ts => match cstep y t with
    | some y' => crun y' ts
    | none => none

/-- the order in which the sections were entered -/
def acqs : List Ev → List Nat
  | [] => []
  | .acq t :: es => t :: acqs es
  | _ :: es => acqs es

/-- abstraction: a section in progress counts as already completed -/
def absSys {S L : Type} (y : Sys S L) : Sys S L :=
  match y.holder with
  | none => y
  | some (t, fs) =>
    let r := runOps fs (y.shared, y.locals t)
    { y with shared := r.1, locals := upd y.locals t r.2, holder := none }

end Conc
