import SctpVerif.Gen.Consts
/-!
L0 model of the association set-up and feature negotiation (association.go: initClient, handleInit,
handleInitAck, handleCookieEcho, handleCookieAck, establish / updateInterleavingState,
setSupportedExtensions, supportedExtensionsFromChunkTypes, setSendZeroChecksum logic,
marshalPacket / unmarshalPacket checksum decisions), restricted to what negotiation depends on.

Two endpoints and the history of every packet each side ever sent; `deliver x i` hands the i-th
packet ever sent by `x` to the other side: never choosing it is loss, choosing it twice is
duplication, any order is reordering / delay. Core-only (used by the compiled driver).
-/
namespace Hs

/-- association states as in the Go code (numeric values are checked against Gen.* in Props) -/
def stClosed : Nat := 0
def stCookieWait : Nat := 1
def stCookieEchoed : Nat := 2
def stEstablished : Nat := 3

inductive Msg where
  | init (types : List Nat) (zc : Option Nat)
  | initAck (types : List Nat) (zc : Option Nat) (cookie : Nat)
  | cookieEcho (cookie : Nat)
  | cookieAck
  deriving Repr, DecidableEq, Inhabited

/-- a packet on the wire: one chunk and whether its checksum field is zero -/
structure Pkt where
  msg : Msg
  zeroCk : Bool
  deriving Repr, DecidableEq, Inhabited

structure Ep where
  id : Nat
  il : Bool            -- localInterleaving (configuration)
  zc : Bool            -- recvZeroChecksum (configuration: EnableZeroChecksum)
  st : Nat := stClosed
  pil : Bool := false  -- peerInterleaving
  pfwd : Bool := false -- peerForwardTSN
  pifwd : Bool := false
  sendZero : Bool := false
  uil : Bool := false  -- useInterleaving
  ufwd : Bool := false
  uifwd : Bool := false
  hasCookie : Bool := false
  storedInit : Bool := false
  storedCookie : Option Nat := none
  queue : List Msg := []   -- controlQueue: chunks queued but not yet marshalled by the write loop
  t1i : Bool := false      -- T1-init timer running
  t1c : Bool := false      -- T1-cookie timer running
  deriving Repr, DecidableEq, Inhabited

/-- Go: setSupportedExtensions -/
def extTypes (il : Bool) : List Nat :=
  [Gen.ctReconfig, Gen.ctForwardTSN] ++ (if il then [Gen.ctIData, Gen.ctIForwardTSN] else [])

def zcParam (zc : Bool) : Option Nat := if zc then some Gen.dtlsErrorDetectionMethod else none

/-- Go: updateInterleavingState (the pending queue is empty during the handshake):
`useInterleaving = local ∧ peer`; with interleaving `useIForwardTSN = peerIForwardTSN ∧ local` and
`useForwardTSN = false`, without it `useIForwardTSN = false` and `useForwardTSN = peerForwardTSN`. -/
def updateIl (e : Ep) : Ep :=
  { e with uil := e.il && e.pil, uifwd := e.il && e.pil && e.pifwd, ufwd := !(e.il && e.pil) && e.pfwd }

/-- Go: supportedExtensionsFromChunkTypes, one flag -/
def hasType (types : List Nat) (t : Nat) : Bool := types.contains t

/-- Go: `case *paramZeroChecksumAcceptable: a.sendZeroChecksum = val.edmid == dtlsErrorDetectionMethod`
(no parameter: the flag keeps its value) -/
def zcLearn (cur : Bool) : Option Nat → Bool
  | some edmid => edmid == Gen.dtlsErrorDetectionMethod
  | none => cur

/-- peer flags from an INIT / INIT-ACK parameter list (flags are reset first, then OR-ed per
supported-extensions parameter; a zero-checksum parameter sets sendZero, its absence leaves it) -/
def learnPeer (e : Ep) (types : List Nat) (zc : Option Nat) : Ep :=
  { e with pfwd := hasType types Gen.ctForwardTSN, pil := hasType types Gen.ctIData,
           pifwd := hasType types Gen.ctIForwardTSN, sendZero := zcLearn e.sendZero zc }

/-- Go: marshalPacket — checksum is computed unless sendZeroChecksum and no INIT / COOKIE-ECHO inside -/
def mkPkt (e : Ep) (m : Msg) : Pkt :=
  let mandatory := match m with
    | .init .. => true
    | .cookieEcho .. => true
    | _ => false
  { msg := m, zeroCk := e.sendZero && !mandatory }

/-- Go: packet.unmarshal acceptance of the checksum field (correct CRC assumed when non-zero) -/
def accepts (e : Ep) (p : Pkt) : Bool :=
  if p.zeroCk then
    e.zc && (match p.msg with
      | .init .. => false
      | .cookieEcho .. => false
      | _ => true)
  else true

def establish (e : Ep) : Ep := { updateIl e with st := stEstablished }

/-- Go: handleInit -/
def handleInit (e : Ep) (types : List Nat) (zc : Option Nat) : Ep × List Msg :=
  if e.st != stClosed && e.st != stCookieWait && e.st != stCookieEchoed then (e, [])
  else
    let e1 := { updateIl (learnPeer e types zc) with hasCookie := true }
    (e1, [.initAck (extTypes e1.il) (zcParam e1.zc) e1.id])

/-- Go: handleInitAck -/
def handleInitAck (e : Ep) (types : List Nat) (zc : Option Nat) (cookie : Nat) : Ep × List Msg :=
  if e.st != stCookieWait then (e, [])
  else
    let e1 := { updateIl (learnPeer e types zc) with storedInit := false, storedCookie := some cookie, st := stCookieEchoed, t1i := false, t1c := true }
    (e1, [.cookieEcho cookie])

/-- Go: handleCookieEcho -/
def handleCookieEcho (e : Ep) (cookie : Nat) : Ep × List Msg :=
  if !e.hasCookie then (e, [])
  else if e.st == stEstablished then
    if cookie != e.id then (e, []) else (e, [.cookieAck])
  else if e.st == stClosed || e.st == stCookieWait || e.st == stCookieEchoed then
    if cookie != e.id then (e, [])
    else
      let e1 := establish { e with storedInit := false, storedCookie := none, t1i := false, t1c := false }
      (e1, [.cookieAck])
  else (e, [])

/-- Go: handleCookieAck -/
def handleCookieAck (e : Ep) : Ep × List Msg :=
  if e.st != stCookieEchoed then (e, [])
  else (establish { e with storedCookie := none, t1c := false }, [])

/-- one inbound packet: new endpoint state and the chunks it queues in reply -/
def handle (e : Ep) (p : Pkt) : Ep × List Msg :=
  if !accepts e p then (e, []) else
  match p.msg with
  | .init types zc => handleInit e types zc
  | .initAck types zc cookie => handleInitAck e types zc cookie
  | .cookieEcho cookie => handleCookieEcho e cookie
  | .cookieAck => handleCookieAck e

/-- Go: initClient -/
def start (e : Ep) : Ep × List Msg :=
  ({ e with storedInit := true, st := stCookieWait, t1i := true }, [.init (extTypes e.il) (zcParam e.zc)])

/-- Go: onRetransmissionTimeout for T1-init / T1-cookie -/
def t1Init (e : Ep) : Ep × List Msg :=
  if e.storedInit then (e, [.init (extTypes e.il) (zcParam e.zc)]) else (e, [])
def t1Cookie (e : Ep) : Ep × List Msg :=
  match e.storedCookie with
  | some c => (e, [.cookieEcho c])
  | none => (e, [])

/-- Go: gatherOutbound for control chunks — everything queued is marshalled NOW, with the flags the
endpoint has NOW (not those it had when the chunk was queued) -/
def flush (e : Ep) (more : List Msg) : Ep × List Pkt :=
  ({ e with queue := [] }, (e.queue ++ more).map (mkPkt e))

/-- the two-endpoint system with packet histories -/
structure Sys where
  a : Ep
  b : Ep
  ha : Array Pkt := #[]
  hb : Array Pkt := #[]
  deriving Repr, Inhabited

inductive Op where
  | start (x : Bool)              -- false = A, true = B
  | deliver (x : Bool) (i : Nat)  -- i-th packet ever sent by x goes to the other side
  | t1Init (x : Bool)
  | t1Cookie (x : Bool)
  | t1Queue (x : Bool) (cookie : Bool)  -- the timer fires and queues the retransmission; the write loop runs later
  | gather (x : Bool)
  deriving Repr, DecidableEq

def Sys.init (ilA zcA ilB zcB : Bool) : Sys :=
  { a := { id := 0, il := ilA, zc := zcA }, b := { id := 1, il := ilB, zc := zcB } }

def Sys.ep (s : Sys) (x : Bool) : Ep := if x then s.b else s.a
def Sys.hist (s : Sys) (x : Bool) : Array Pkt := if x then s.hb else s.ha
def Sys.put (s : Sys) (x : Bool) (e : Ep) (out : List Pkt) : Sys :=
  if x then { s with b := e, hb := s.hb ++ out.toArray } else { s with a := e, ha := s.ha ++ out.toArray }

def Sys.step (s : Sys) : Op → Sys
  | .start x =>   -- initClient runs once, on a fresh association
    if (s.ep x).st == stClosed then (let (e, m) := start (s.ep x); let (e, o) := flush e m; s.put x e o) else s
  | .deliver x i =>
    match (s.hist x)[i]? with
    | none => s
    | some p => let (e, m) := handle (s.ep (!x)) p; let (e, o) := flush e m; s.put (!x) e o
  | .t1Init x => let (e, m) := t1Init (s.ep x); let (e, o) := flush e m; s.put x e o
  | .t1Cookie x => let (e, m) := t1Cookie (s.ep x); let (e, o) := flush e m; s.put x e o
  | .t1Queue x cookie =>
    let (e, m) := if cookie then t1Cookie (s.ep x) else t1Init (s.ep x)
    s.put x { e with queue := e.queue ++ m } []
  | .gather x => let (e, o) := flush (s.ep x) []; s.put x e o

def Sys.run (s : Sys) (ops : List Op) : Sys := ops.foldl Sys.step s

end Hs
