/-!
L0 model of `pending_queue.go` (+ the scheduler factories of `association_interleaving_options.go`),
function by function. Core-only (linked into the compiled driver).

Abstractions (all named here, nothing else is abstracted):
* a `*chunkPayloadData` is a `Chunk` value `(id, sid, unordered, b, e, len)`; the harness gives every
  chunk it allocates a fresh `id`, so Go's pointer comparison `popped != chunkPayload` is structural
  equality of `Chunk`s. `len` is `len(userData)` (0 for the stream-reset marker, `userData == nil`).
* Go maps are association lists (`AMap`, first match wins, `set` keeps them sorted by key). The only
  place that ranges over a map is WFQ `Peek`; its selection uses the strict order
  (finish tag, stream id), so Go's random iteration order cannot be observed
  (theorem `C17_wfq_serves_min`: the result is THE minimum).
* `chunkFinish map[*chunkPayloadData]float64` is fused into the stream queues: a queue entry is
  `(chunk, finish tag)`. Equivalent as long as no chunk pointer is queued twice (fresh ids).
* `float64` → a type `α` with the operations of `Num α`; instances: `Float` (IEEE double, the driver)
  and `Rat` (the theorems).
* where Go would panic (nil receiver / nil chunk dereference) the model returns `.panic`; the harness
  ends the sequence there, so the state after a panic is not modelled.
-/
namespace PendQ

/-- scheduler-visible view of a DATA / I-DATA chunk -/
structure Chunk where
  id : Nat
  sid : Nat            -- streamIdentifier (uint16; only compared and used as a map key)
  unordered : Bool
  b : Bool             -- beginningFragment
  e : Bool             -- endingFragment
  len : Nat            -- len(userData)
deriving DecidableEq, Repr, Inhabited

/-- the package-level error values of pending_queue.go / errors.go that this component returns -/
inductive Err where
  | unexpectedUnordered   -- ErrUnexpectedChunkPoppedUnordered
  | unexpectedOrdered     -- ErrUnexpectedChunkPoppedOrdered
  | unexpectedStream      -- ErrUnexpectedChunkPoppedStream
  | qState                -- ErrUnexpectedQState
  | modeChangeNonEmpty    -- ErrPendingQueueModeChangeNonEmpty
  | nilScheduler          -- errNilStreamScheduler
  | invalidWeight         -- errInvalidStreamSchedulerWeight
deriving DecidableEq, Repr, Inhabited

/-- outcome of a `pop`: Go returns `nil`, one of the errors, or panics -/
inductive PopRes where
  | ok
  | err (e : Err)
  | panic
deriving DecidableEq, Repr, Inhabited

/-- outcome of a `peek`: a chunk pointer (possibly nil) or a panic -/
inductive PeekRes where
  | chunk (c : Option Chunk)
  | panic
deriving DecidableEq, Repr, Inhabited

/-! ### Go maps with `uint16` keys -/

abbrev AMap (β : Type) := List (Nat × β)

namespace AMap
variable {β : Type}

def get : AMap β → Nat → Option β
  | [], _ => none
  | (k', v) :: m, k => if k = k' then some v else get m k

def replace : AMap β → Nat → β → AMap β
  | [], _, _ => []
  | (k', v') :: m, k, v => if k = k' then (k, v) :: m else (k', v') :: replace m k v

def insertSorted : AMap β → Nat → β → AMap β
  | [], k, v => [(k, v)]
  | (k', v') :: m, k, v => if k < k' then (k, v) :: (k', v') :: m else (k', v') :: insertSorted m k v

/-- `m[k] = v` (replaces the entry with key `k` if there is one, else inserts in key order) -/
def set (m : AMap β) (k : Nat) (v : β) : AMap β :=
  if (get m k).isSome then replace m k v else insertSorted m k v

/-- `delete(m, k)` -/
def erase : AMap β → Nat → AMap β
  | [], _ => []
  | (k', v) :: m, k => if k = k' then erase m k else (k', v) :: erase m k

def keys (m : AMap β) : List Nat := m.map Prod.fst

end AMap

/-! ### messagePendingQueuePolicy (non-interleaved) -/

structure MsgPol where
  unord : List Chunk := []
  ord : List Chunk := []
  selected : Bool := false
  unordSel : Bool := false
deriving DecidableEq, Repr, Inhabited

namespace MsgPol

def push (q : MsgPol) (c : Chunk) : MsgPol :=
  if c.unordered then { q with unord := q.unord ++ [c] } else { q with ord := q.ord ++ [c] }

def peek (q : MsgPol) : Option Chunk :=
  if q.selected then
    if q.unordSel then q.unord.head? else q.ord.head?
  else
    match q.unord.head? with
    | some c => some c
    | none => q.ord.head?

/-- `popSelected`: the selected queue is popped first (destructively), then compared. -/
def popSelected (q : MsgPol) (c : Chunk) : MsgPol × PopRes :=
  let (popped, q', err) :=
    if q.unordSel then (q.unord.head?, { q with unord := q.unord.tail }, Err.unexpectedUnordered)
    else (q.ord.head?, { q with ord := q.ord.tail }, Err.unexpectedOrdered)
  if popped ≠ some c then (q', .err err)
  else if c.e then ({ q' with selected := false }, .ok)
  else (q', .ok)

def popNewSelection (q : MsgPol) (c : Chunk) : MsgPol × PopRes :=
  let (popped, q', err, isSel) :=
    if c.unordered then (q.unord.head?, { q with unord := q.unord.tail }, Err.unexpectedUnordered, true)
    else (q.ord.head?, { q with ord := q.ord.tail }, Err.unexpectedOrdered, false)
  if popped ≠ some c then (q', .err err)
  else if !c.e then ({ q' with selected := true, unordSel := isSel }, .ok)
  else (q', .ok)

def pop (q : MsgPol) (c : Chunk) : MsgPol × PopRes :=
  if q.selected then popSelected q c
  else if !c.b then (q, .err .qState)
  else popNewSelection q c

/-- `pop(nil)`: not selected → `chunkPayload.beginningFragment` dereferences nil; selected → the
queue is popped, a non-nil head differs from nil (error), a nil head equals nil and
`popped.endingFragment` dereferences nil. -/
def popNil (q : MsgPol) : MsgPol × PopRes :=
  if q.selected then
    let (popped, q', err) :=
      if q.unordSel then (q.unord.head?, { q with unord := q.unord.tail }, Err.unexpectedUnordered)
      else (q.ord.head?, { q with ord := q.ord.tail }, Err.unexpectedOrdered)
    if popped.isSome then (q', .err err) else (q', .panic)
  else (q, .panic)

def contents (q : MsgPol) : List Chunk := q.unord ++ q.ord

end MsgPol

/-! ### roundRobinPendingQueuePolicy -/

structure RR where
  queues : AMap (List Chunk) := []
  order : List Nat := []
  sel : Bool := false
  selStream : Nat := 0
deriving DecidableEq, Repr, Inhabited

namespace RR

def push (q : RR) (c : Chunk) : RR :=
  let sq := q.queues.get c.sid
  let wasEmpty := match sq with
    | none => true
    | some l => l.isEmpty
  { q with queues := q.queues.set c.sid (sq.getD [] ++ [c]),
           order := if wasEmpty then q.order ++ [c.sid] else q.order }

/-- `q.streamQueues[q.selectedStream].get(0)`: a missing map entry is a nil `*pendingBaseQueue`
whose `get` dereferences it. -/
def headOfSel (q : RR) (s : Nat) : PeekRes :=
  match q.queues.get s with
  | none => .panic
  | some l => .chunk l.head?

def peek (q : RR) : RR × PeekRes :=
  if q.sel then (q, headOfSel q q.selStream)
  else match q.order with
    | [] => (q, .chunk none)
    | s :: _ =>
      let q' := { q with sel := true, selStream := s }
      (q', headOfSel q' s)

def pop (q : RR) (c : Chunk) : RR × PopRes :=
  if !q.sel then (q, .err .qState)
  else match q.queues.get q.selStream with
    | none => (q, .err .qState)
    | some l =>
      let popped := l.head?
      let l' := l.tail
      let q1 := { q with queues := q.queues.set q.selStream l' }
      if popped ≠ some c then (q1, .err .unexpectedStream)
      else
        let order := q.order.tail
        if l'.length > 0 then
          ({ q1 with order := order ++ [q.selStream], sel := false, selStream := 0 }, .ok)
        else
          ({ q1 with queues := q.queues.erase q.selStream, order := order, sel := false, selStream := 0 }, .ok)

/-- `Pop` with a nil chunk: a non-empty selected queue loses its head and the comparison fails; an
empty one yields nil == nil, the scheduler returns nil and `pendingQueue.pop` then dereferences the
nil chunk (`len(chunkPayload.userData)`). -/
def popNil (q : RR) : RR × PopRes :=
  if !q.sel then (q, .err .qState)
  else match q.queues.get q.selStream with
    | none => (q, .err .qState)
    | some l =>
      if l.isEmpty then (q, .panic)
      else ({ q with queues := q.queues.set q.selStream l.tail }, .err .unexpectedStream)

def contents (q : RR) : List Chunk := (q.queues.map Prod.snd).flatten

end RR

/-! ### the number type of the WFQ finish tags -/

class Num (α : Type) where
  ofNat : Nat → α
  add : α → α → α
  div : α → α → α
  lt : α → α → Bool
  beq : α → α → Bool
  /-- `x < math.Inf(1)` -/
  finite : α → Bool

instance : Num Rat where
  ofNat n := (n : Rat)
  add a b := a + b
  div a b := a / b
  lt a b := decide (a < b)
  beq a b := decide (a = b)
  finite _ := true

instance : Num Float where
  ofNat n := Float.ofNat n
  add a b := a + b
  div a b := a / b
  lt a b := a < b
  beq a b := a == b
  finite a := a < (1.0 / 0.0)

/-- `math.Max` on the values that occur here (no NaN, no negative zero). -/
def gmax {α : Type} [Num α] (a b : α) : α := if Num.lt a b then b else a

/-! ### weightedFairQueueingPendingQueuePolicy -/

structure WFQ (α : Type) where
  queues : AMap (List (Chunk × α)) := []      -- streamQueues fused with chunkFinish
  finish : AMap α := []                        -- streamFinish
  weights : AMap Nat := []
  vtime : α
  sel : Bool := false
  selStream : Nat := 0
deriving Repr, Inhabited

namespace WFQ
variable {α : Type} [Num α]

/-- `newWeightedFairQueueingPendingQueuePolicy`: zero weights are not copied. -/
def new (weights : AMap Nat) : WFQ α :=
  { weights := weights.filter (fun kv => kv.2 != 0), vtime := Num.ofNat 0 }

/-- `weight := float64(q.weights[streamID]); if weight == 0 { weight = 1 }` -/
def weightNat (q : WFQ α) (s : Nat) : Nat :=
  let w := (q.weights.get s).getD 0
  if w = 0 then 1 else w

def weightOf (q : WFQ α) (s : Nat) : α := Num.ofNat (weightNat q s)

def push (q : WFQ α) (c : Chunk) : WFQ α :=
  let s := c.sid
  let l := (q.queues.get s).getD []
  let start := gmax q.vtime ((q.finish.get s).getD (Num.ofNat 0))
  let fin := Num.add start (Num.div (Num.ofNat c.len) (weightOf q s))
  { q with queues := q.queues.set s (l ++ [(c, fin)]), finish := q.finish.set s fin }

def headOfSel (q : WFQ α) (s : Nat) : PeekRes :=
  match q.queues.get s with
  | none => .panic
  | some l => .chunk (l.head?.map Prod.fst)

/-- one iteration of the `for streamID, streamQueue := range q.streamQueues` loop; the accumulator
`none` stands for the initial `(nil, 0, +Inf)`. -/
def selStep (q : WFQ α) (acc : Option (Chunk × Nat × α)) (s : Nat) : Option (Chunk × Nat × α) :=
  match (q.queues.get s).bind List.head? with
  | none => acc
  | some (c, f) =>
    match acc with
    | none => if Num.finite f then some (c, s, f) else none
    | some (_, s', f') =>
      if Num.lt f f' || (Num.beq f f' && decide (s < s')) then some (c, s, f) else acc

def select (q : WFQ α) : Option (Chunk × Nat × α) := q.queues.keys.foldl (selStep q) none

def peek (q : WFQ α) : WFQ α × PeekRes :=
  if q.sel then (q, headOfSel q q.selStream)
  else match select q with
    | none => (q, .chunk none)
    | some (c, s, _) => ({ q with sel := true, selStream := s }, .chunk (some c))

def pop (q : WFQ α) (c : Chunk) : WFQ α × PopRes :=
  if !q.sel then (q, .err .qState)
  else match q.queues.get q.selStream with
    | none => (q, .err .qState)
    | some l =>
      let l' := l.tail
      let q1 := { q with queues := q.queues.set q.selStream l' }
      match l.head? with
      | none => (q1, .err .unexpectedStream)
      | some (p, f) =>
        if p ≠ c then (q1, .err .unexpectedStream)
        else
          let v := gmax q.vtime f
          if l'.isEmpty then
            ({ q1 with queues := q.queues.erase q.selStream, vtime := v, sel := false, selStream := 0 }, .ok)
          else ({ q1 with vtime := v, sel := false, selStream := 0 }, .ok)

/-- as `RR.popNil`; with an empty selected queue `Pop` itself completes (`chunkFinish[nil]` reads 0)
and `pendingQueue.pop` panics afterwards. -/
def popNil (q : WFQ α) : WFQ α × PopRes :=
  if !q.sel then (q, .err .qState)
  else match q.queues.get q.selStream with
    | none => (q, .err .qState)
    | some l =>
      if l.isEmpty then (q, .panic)
      else ({ q with queues := q.queues.set q.selStream l.tail }, .err .unexpectedStream)

def contents (q : WFQ α) : List Chunk := ((q.queues.map Prod.snd).flatten).map Prod.fst

end WFQ

/-! ### scheduler factories (association_interleaving_options.go) -/

/-- what `InterleavingStreamSchedulerFactory` the pending queue was built with -/
inductive Factory where
  | none                          -- nil factory
  | nilSched                      -- a custom factory that returns a nil scheduler
  | rr                            -- WithInterleavingRoundRobinScheduler
  | wfq (weights : AMap Nat)      -- WFQ with the weights cloned when the factory was made
deriving DecidableEq, Repr, Inhabited

structure Settings where
  factory : Factory := .none
  wfqWeights : AMap Nat := []
deriving DecidableEq, Repr, Inhabited

inductive Opt where
  | rr                            -- WithInterleavingRoundRobinScheduler()
  | wfq                           -- WithInterleavingWeightedFairQueueingScheduler()
  | weight (sid w : Nat)          -- WithInterleavingWeightedFairQueueingWeight(sid, w)
  | factoryNil                    -- WithInterleavingStreamSchedulerFactory(nil)
  | factoryNilSched               -- WithInterleavingStreamSchedulerFactory(func() … { return nil })
  | nilOpt                        -- a nil option (skipped)
deriving DecidableEq, Repr, Inhabited

/-- `setWeightedFairQueueingStreamScheduler`: the factory closes over a clone of the weights. -/
def setWFQ (s : Settings) : Settings := { s with factory := .wfq s.wfqWeights }

def applyOpt (s : Settings) : Opt → Except Err Settings
  | .rr => .ok { s with factory := .rr }
  | .wfq => .ok (setWFQ s)
  | .weight sid w =>
    if w = 0 then .error .invalidWeight
    else .ok (setWFQ { s with wfqWeights := s.wfqWeights.set sid w })
  | .factoryNil => .error .nilScheduler
  | .factoryNilSched => .ok { s with factory := .nilSched }
  | .nilOpt => .ok s

/-- `WithInterleavingOptions(opts...)` applied to a config whose `interleaving` is `cur`
(`none` = nil pointer): all-or-nothing. -/
def withInterleavingOptions (cur : Option Settings) (opts : List Opt) : Except Err (Option Settings) :=
  let rec go (s : Settings) : List Opt → Except Err Settings
    | [] => .ok s
    | o :: os => match applyOpt s o with
      | .error e => .error e
      | .ok s' => go s' os
  match go (cur.getD {}) opts with
  | .error e => .error e
  | .ok s => .ok (some s)

/-- `Config.applyDefaults` (called by `build{Client,Server}Config` after the options): nil settings
become empty settings, a nil factory becomes WFQ with the weights set so far. -/
def applyDefaults (cur : Option Settings) : Option Settings :=
  let s := cur.getD {}
  some (if s.factory = .none then setWFQ s else s)

/-- the defaulting done by `createAssociation`: a nil settings pointer means WFQ without weights;
a non-nil one is used as it is. -/
def factoryOfConfig (cur : Option Settings) : Factory :=
  match cur with
  | none => .wfq []
  | some s => s.factory

/-! ### pendingQueue -/

inductive Policy (α : Type) where
  | msg (m : MsgPol)
  | rr (r : RR)
  | wfq (w : WFQ α)
deriving Repr, Inhabited

structure PQ (α : Type) where
  nBytes : Int := 0
  nChunks : Int := 0
  interleaving : Bool := false
  factory : Factory := .none
  policy : Policy α := .msg {}
deriving Repr, Inhabited

namespace PQ
variable {α : Type} [Num α]

def new (f : Factory) : PQ α := { factory := f }

def setInterleaving (q : PQ α) (enabled : Bool) : PQ α × Option Err :=
  if q.interleaving = enabled then (q, none)
  else if q.nChunks ≠ 0 then (q, some .modeChangeNonEmpty)
  else
    let q := { q with interleaving := enabled }
    if enabled then
      match q.factory with
      | .none => (q, some .nilScheduler)
      | .nilSched => (q, some .nilScheduler)
      | .rr => ({ q with policy := .rr {} }, none)
      | .wfq w => ({ q with policy := .wfq (WFQ.new w) }, none)
    else ({ q with policy := .msg {} }, none)

def policyPush (p : Policy α) (c : Chunk) : Policy α :=
  match p with
  | .msg m => .msg (m.push c)
  | .rr r => .rr (r.push c)
  | .wfq w => .wfq (w.push c)

def policyPeek (p : Policy α) : Policy α × PeekRes :=
  match p with
  | .msg m => (.msg m, .chunk m.peek)
  | .rr r => let (r', x) := r.peek; (.rr r', x)
  | .wfq w => let (w', x) := w.peek; (.wfq w', x)

def policyPop (p : Policy α) (c : Chunk) : Policy α × PopRes :=
  match p with
  | .msg m => let (m', r) := m.pop c; (.msg m', r)
  | .rr r => let (r', x) := r.pop c; (.rr r', x)
  | .wfq w => let (w', x) := w.pop c; (.wfq w', x)

def policyPopNil (p : Policy α) : Policy α × PopRes :=
  match p with
  | .msg m => let (m', r) := m.popNil; (.msg m', r)
  | .rr r => let (r', x) := r.popNil; (.rr r', x)
  | .wfq w => let (w', x) := w.popNil; (.wfq w', x)

def push (q : PQ α) (c : Chunk) : PQ α :=
  { q with policy := policyPush q.policy c, nBytes := q.nBytes + c.len, nChunks := q.nChunks + 1 }

def peek (q : PQ α) : PQ α × PeekRes :=
  let (p, r) := policyPeek q.policy
  ({ q with policy := p }, r)

def pop (q : PQ α) (c : Chunk) : PQ α × PopRes :=
  let (p, r) := policyPop q.policy c
  match r with
  | .ok =>
    let nb := q.nBytes - c.len
    ({ q with policy := p, nBytes := if nb < 0 then 0 else nb, nChunks := q.nChunks - 1 }, .ok)
  | r => ({ q with policy := p }, r)

/-- `pop(nil)`; when the policy returns nil for a nil chunk the wrapper dereferences it. -/
def popNil (q : PQ α) : PQ α × PopRes :=
  let (p, r) := policyPopNil q.policy
  ({ q with policy := p }, r)

def contents (q : PQ α) : List Chunk :=
  match q.policy with
  | .msg m => m.contents
  | .rr r => r.contents
  | .wfq w => w.contents

end PQ

/-! ### operations and runs (what the harness does, what the theorems quantify over) -/

inductive Op where
  | push (c : Chunk)
  | peek
  | pop                 -- as the association does it: `c := peek(); if c != nil { pop(c) }`
  | rawPop (c : Chunk)  -- misuse: pop of an arbitrary chunk without peeking
  | popNil              -- misuse: pop(nil)
  | setil (b : Bool)
deriving DecidableEq, Repr, Inhabited

inductive Res where
  | none                                   -- push
  | peeked (r : PeekRes)
  | popped (c : Option Chunk) (r : PopRes) -- chunk handed to pop (none: queue was empty, no pop done)
  | raw (r : PopRes)
  | setil (e : Option Err)
deriving Repr, Inhabited

namespace PQ
variable {α : Type} [Num α]

def step (q : PQ α) : Op → PQ α × Res
  | .push c => (q.push c, .none)
  | .peek => let (q', r) := q.peek; (q', .peeked r)
  | .pop =>
    match q.peek with
    | (q', .panic) => (q', .popped none .panic)
    | (q', .chunk none) => (q', .popped none .ok)
    | (q', .chunk (some c)) => let (q'', r) := q'.pop c; (q'', .popped (some c) r)
  | .rawPop c => let (q', r) := q.pop c; (q', .raw r)
  | .popNil => let (q', r) := q.popNil; (q', .raw r)
  | .setil b => let (q', e) := q.setInterleaving b; (q', .setil e)

/-- run an op list, collecting `(op, result)` -/
def run (q : PQ α) : List Op → PQ α × List (Op × Res)
  | [] => (q, [])
  | o :: os =>
    let (q', r) := q.step o
    let (q'', tr) := run q' os
    (q'', (o, r) :: tr)

end PQ

/-- chunks pushed / successfully popped along a trace, in order -/
def pushesOf : List (Op × Res) → List Chunk
  | [] => []
  | (.push c, _) :: tr => c :: pushesOf tr
  | _ :: tr => pushesOf tr

def popsOf : List (Op × Res) → List Chunk
  | [] => []
  | (_, .popped (some c) .ok) :: tr => c :: popsOf tr
  | _ :: tr => popsOf tr

end PendQ
