import SctpVerif.Gen.Consts
import SctpVerif.Gen.Funcs
/-!
L0 model of graceful shutdown (association.go: Shutdown, gatherOutbound / gatherOutboundPriorityPackets /
gatherOutboundShutdownPackets / gatherOutboundSackPackets, advanceShutdownAfterDataDrain,
hasPendingOrInflightData, handleData (state gate, SHUTDOWN-SENT branch, SACK decision),
handlePeerLastTSNAndAcknowledgement, handleSack / processAcknowledgement / postprocessSack,
handleShutdown / processShutdownAcknowledgement / finishShutdownHandling / retransmitShutdownAck,
handleShutdownAck, handleShutdownComplete, onShutdownTimeout, onAckTimeout, sendPayloadData's state gate,
close(), the exit paths of readLoop / writeLoop; stream.go: WriteSCTP (sequence number only consumed by an
accepted write), ReadSCTP (data before readErr)).

Two ESTABLISHED endpoints and the history of every packet each side ever sent; `deliver x i` hands the
i-th packet ever sent by `x` to the other side: never choosing it is loss, choosing it twice is
duplication, any order is reordering / delay / stale replay.

What is abstracted. One DATA chunk per message; TSNs, acknowledgement points and sequence numbers are
natural numbers counted from the sender's initial TSN (wrap-around is C16's subject). WHICH chunks a
write-loop pass sends (cwnd, rwnd, MTU bundling, burst budget, T3 / fast-retransmit / RACK marks, stream
scheduler) is an INPUT of `gather` (the list of DATA packets as (TSN, message) pairs): the model only
checks that a retransmission names a chunk still in the in-flight queue and a new chunk is a pending
message taking the next TSN. Every theorem quantifies over all such inputs. Core-only (linked into the driver).
-/
namespace Sd

/-- association states as in the Go code (checked against Gen.* in Props/C08) -/
def stClosed : Nat := 0
def stCookieWait : Nat := 1
def stCookieEchoed : Nat := 2
def stEstablished : Nat := 3
def stShutdownAckSent : Nat := 4
def stShutdownPending : Nat := 5
def stShutdownReceived : Nat := 6
def stShutdownSent : Nat := 7

/-- ackState values -/
def ackIdle : Nat := 0
def ackImmediate : Nat := 1
def ackDelay : Nat := 2

/-- a user message as one DATA chunk: (message id, stream, stream sequence number / MID) -/
abbrev Msg := Nat × Nat × Nat

inductive Chunk where
  | data (tsn msg sid ssn : Nat)
  | sack (cum : Nat) (gaps : List (Nat × Nat))   -- cum = number of TSNs acknowledged cumulatively; gaps = absolute TSN ranges
  | shutdown (cum : Nat)
  | shutdownAck
  | shutdownComplete
  | abort
  deriving Repr, DecidableEq, Inhabited

abbrev Pkt := List Chunk

/-- Go: newReceivePayloadQueue(getMaxTSNOffset(initialRecvBufSize)).maxTSNOffset -/
def maxOff : Nat := (((Gen.getMaxTSNOffset (BitVec.ofNat 32 Gen.initialRecvBufSize)).toNat + 63) / 64) * 64

/-- send half of an endpoint -/
structure Snd where
  attempts : Nat := 0          -- writes attempted so far (the id of the next message)
  wlog : List Msg := []        -- accepted writes, in order
  pend : List Msg := []        -- pendingQueue
  sentq : List Msg := []       -- chunk that got TSN offset i (in-flight queue = entries at index >= cum)
  cum : Nat := 0               -- cumulativeTSNAckPoint + 1 - initial TSN
  deriving Repr, DecidableEq, Inhabited

/-- receive half of an endpoint, and what its readers have seen -/
structure Rcv where
  pl : Nat := 0                -- peerLastTSN + 1 - peer's initial TSN
  rq : List Nat := []          -- payloadQueue: TSNs received above the cumulative point
  store : List Msg := []       -- complete messages in the streams' reassembly queues (not read yet)
  rlog : List Msg := []        -- reader's view: the messages in the order read
  eofs : List (Nat × Nat) := []  -- closure reported on stream s after k messages had been read from it
  deriving Repr, DecidableEq, Inhabited

structure Ep where
  st : Nat := stEstablished
  wS : Bool := false     -- willSendShutdown
  wSA : Bool := false    -- willSendShutdownAck
  wSC : Bool := false    -- willSendShutdownComplete
  scp : Bool := false    -- shutdownCompletePending
  scr : Bool := false    -- shutdownCompleteReceived
  wAb : Bool := false    -- willSendAbort
  t2 : Nat := 0          -- t2Shutdown.state: 0 stopped, 1 started, 2 closed
  ack : Nat := ackIdle   -- ackState
  imm : Bool := false    -- immediateAckTriggered (per inbound packet)
  del : Bool := false    -- delayedAckTriggered
  snd : Snd := {}
  rcv : Rcv := {}
  -- callers and loops
  sd : Nat := 0                -- Shutdown call: 0 none passed the gate, 1 waiting, 2 returned nil, 3 returned ErrShutdownIncomplete
  callAt : Nat := 0            -- ghost: number of accepted writes when the call passed the gate
  dead : Bool := false         -- closeWriteLoopCh closed, read loop and write loop gone, streams unregistered
  connFailed : Bool := false   -- ghost: the loops ended because the transport under this endpoint failed
  deriving Repr, DecidableEq, Inhabited

def t2start (t : Nat) : Nat := if t == 0 then 1 else t
def t2stop (t : Nat) : Nat := if t == 1 then 0 else t

/-- Go: inflightQueue.size() -/
def Ep.inflight (e : Ep) : Nat := e.snd.sentq.length - e.snd.cum
/-- Go: hasPendingOrInflightData -/
def Ep.hasData (e : Ep) : Bool := !e.snd.pend.isEmpty || e.snd.cum < e.snd.sentq.length
/-- Go: inflightQueue.get(tsn) succeeds -/
def Ep.inflightHas (e : Ep) (t : Nat) : Bool := e.snd.cum ≤ t && t < e.snd.sentq.length

/-- Go: close() + what follows from it: the conn is closed so the read loop returns (state closed, every
stream unregistered with the read error), the write loop returns (timers closed; a pending ABORT is marshalled in
its last pass onto the closed conn and never reaches the wire), closeWriteLoopCh is closed so a waiting Shutdown
returns: nil if the peer's SHUTDOWN-ACK or SHUTDOWN-COMPLETE was received, ErrShutdownIncomplete otherwise -/
def close (e : Ep) : Ep :=
  { e with st := stClosed, t2 := 2, dead := true, wAb := false,
           sd := if e.sd == 1 then (if e.scp || e.scr then 2 else 3) else e.sd }

/-- Go: advanceShutdownAfterDataDrain(state) -/
def advance (e : Ep) (state : Nat) : Ep :=
  if e.hasData then e
  else if state == stShutdownPending then { e with wS := true, st := stShutdownSent }
  else if state == stShutdownReceived then { e with wSA := true, st := stShutdownAckSent }
  else e

/-! ## inbound -/

/-- Go: payloadQueue.canPush -/
def Ep.canPush (e : Ep) (t : Nat) : Bool := !(t < e.rcv.pl || e.rcv.rq.contains t || e.rcv.pl + maxOff ≤ t)

/-- Go: the `for { payloadQueue.pop(false) }` loop of handlePeerLastTSNAndAcknowledgement -/
def popLoop : Nat → Nat → List Nat → Nat × List Nat
  | 0, pl, rq => (pl, rq)
  | n+1, pl, rq => if rq.contains pl then popLoop n (pl+1) (rq.erase pl) else (pl, rq)

/-- the receive half after one DATA chunk that passed the state gate: pushed when `can` (Go: canPush, then
payloadQueue.push + Stream.handleData), then the cumulative point advances over everything contiguous -/
def rcvData (r : Rcv) (can : Bool) (t m s k : Nat) : Rcv :=
  let r1 : Rcv := if can then { r with rq := t :: r.rq, store := r.store ++ [(m, s, k)] } else r
  { r1 with pl := (popLoop r1.rq.length r1.pl r1.rq).1, rq := (popLoop r1.rq.length r1.pl r1.rq).2 }

/-- Go: handleData (+ acceptPayloadData / pushPayloadDataToStream / handlePeerLastTSNAndAcknowledgement,
ackMode normal). In SHUTDOWN-SENT: willSendShutdown, T2 stopped, SACK at once. A SACK is due at once for a gap,
a chunk that cannot be pushed, remaining holes, or a second packet while the ack is being delayed; otherwise it
is delayed. Not modelled: a full receive buffer and a refused stream (the streams exist, the buffer is 1 MiB). -/
def handleData (e : Ep) (t m s k : Nat) : Ep :=
  if e.scp || !(e.st == stEstablished || e.st == stShutdownPending || e.st == stShutdownSent) then e else
  let inSent := e.st == stShutdownSent
  let can := e.canPush t
  let r := rcvData e.rcv can t m s k
  let delayed := !(decide (e.rcv.pl < t) || !can || inSent || !r.rq.isEmpty) && e.ack == ackIdle
  { e with wS := inSent || e.wS, t2 := if inSent then t2stop e.t2 else e.t2, rcv := r,
           imm := !delayed || e.imm, del := delayed || e.del }

/-- Go: processAcknowledgement restricted to the cumulative point (+ the range validation of
processSelectiveAck); `none` = the error return -/
def ackCum (e : Ep) (c : Nat) : Option Ep :=
  if c < e.snd.cum then some e
  else if e.snd.cum < c && !(e.inflightHas e.snd.cum && e.inflightHas (c - 1)) then none
  else some { e with snd := { e.snd with cum := c } }

/-- Go: handleSack -/
def handleSack (e : Ep) (c : Nat) (gaps : List (Nat × Nat)) : Ep :=
  if !(e.st == stEstablished || e.st == stShutdownPending || e.st == stShutdownReceived) then e
  else if c < e.snd.cum then e
  else if e.snd.cum < c && !(e.inflightHas e.snd.cum && e.inflightHas (c - 1)) then e
  else if gaps.any (fun g => g.1 < c || g.2 < g.1 || !e.inflightHas g.1 || !e.inflightHas g.2) then e
  else
    let state := e.st
    let e := { e with snd := { e.snd with cum := c } }
    -- postprocessSack
    if e.snd.cum < e.snd.sentq.length then e
    else if !e.snd.pend.isEmpty then e
    else advance e state

/-- Go: finishShutdownHandling -/
def finishShutdown (e : Ep) (state : Nat) : Ep :=
  if state == stEstablished || state == stShutdownPending || state == stShutdownReceived then
    (if e.hasData then { e with st := stShutdownReceived }
     else { e with wSA := true, st := stShutdownAckSent })
  else e

/-- Go: retransmitShutdownAck -/
def retransmitShutdownAck (e : Ep) : Ep :=
  if e.scp then e else { e with t2 := t2stop e.t2, wS := false, wSA := true }

/-- Go: `if entersShutdownReceived(state) { a.setState(shutdownReceived) }` -/
def enterReceived (e : Ep) : Ep :=
  if e.st == stEstablished || e.st == stShutdownPending then { e with st := stShutdownReceived } else e

/-- Go: handleShutdown -/
def handleShutdown (e : Ep) (c : Nat) : Ep :=
  if e.scp then e
  else if e.st == stShutdownAckSent then retransmitShutdownAck e
  else if e.st == stShutdownSent then
    { e with t2 := t2stop e.t2, wS := false, wSA := true, st := stShutdownAckSent }
  else if !(e.st == stEstablished || e.st == stShutdownPending || e.st == stShutdownReceived) then e
  else
    let state := e.st
    match ackCum (enterReceived e) c with
    | none => { enterReceived e with st := state }
    | some e2 => finishShutdown e2 state

/-- Go: handleShutdownAck -/
def handleShutdownAck (e : Ep) : Ep :=
  if e.st == stShutdownSent || e.st == stShutdownAckSent then
    { e with t2 := t2stop e.t2, wS := false, wSA := false, scp := true, wSC := true }
  else e

/-- Go: handleShutdownComplete -/
def handleShutdownComplete (e : Ep) : Ep :=
  if e.st == stShutdownAckSent then close { e with t2 := t2stop e.t2, scr := true } else e

def handleChunk (e : Ep) : Chunk → Ep
  | .data t m s k => handleData e t m s k
  | .sack c g => handleSack e c g
  | .shutdown c => handleShutdown e c
  | .shutdownAck => handleShutdownAck e
  | .shutdownComplete => handleShutdownComplete e
  | .abort => close e    -- Go: handleAbort: close(); the error return ends the read loop

/-- Go: handleChunksEnd -/
def chunksEnd (e : Ep) : Ep :=
  if e.imm then { e with ack := ackImmediate }
  else if e.del then { e with ack := ackDelay }
  else e

/-- Go: handleInbound (handleChunksStart, every chunk, handleChunksEnd) -/
def handlePkt (e : Ep) (p : Pkt) : Ep :=
  chunksEnd (p.foldl handleChunk { e with imm := false, del := false })

/-! ## outbound -/

/-- consecutive runs of an ascending list (Go: getGapAckBlocks, as absolute TSNs) -/
def runs : List Nat → List (Nat × Nat)
  | [] => []
  | t :: ts =>
    match runs ts with
    | (a, b) :: rest => if t + 1 == a then (t, b) :: rest else (t, t) :: (a, b) :: rest
    | [] => [(t, t)]

/-- insertion sort (structural, so that concrete runs can be evaluated by the kernel) -/
def insSorted (t : Nat) : List Nat → List Nat
  | [] => [t]
  | a :: l => if t ≤ a then t :: a :: l else a :: insSorted t l
def sortNat : List Nat → List Nat
  | [] => []
  | a :: l => insSorted a (sortNat l)

def Ep.sackChunk (e : Ep) : Chunk := .sack e.rcv.pl (runs (sortNat e.rcv.rq))

/-- Go: gatherOutboundSackPackets -/
def gatherSack (e : Ep) : Ep × List Pkt :=
  if e.ack == ackImmediate then ({ e with ack := ackIdle }, [[e.sackChunk]]) else (e, [])

/-- Go: gatherOutboundShutdownPackets; the Bool is `ok` -/
def gatherShut (e : Ep) : Ep × List Pkt × Bool :=
  if e.wSC then ({ e with wSC := false, wSA := false, wS := false }, [[.shutdownComplete]], false)
  else if e.wSA then ({ e with wSA := false, wS := false, t2 := t2start e.t2 }, [[.shutdownAck]], true)
  else if e.wS then ({ e with wS := false, t2 := t2start e.t2 }, [[.shutdown e.rcv.pl]], true)
  else (e, [], true)

/-- one DATA chunk the write loop decided to put on the wire: a retransmission of a chunk still in the
in-flight queue, or the pending message `m` taking the next TSN (anything else is not something the code can do
and is dropped, which the correspondence then reports) -/
def sendOne (e : Ep) (tm : Nat × Nat) : Ep × List Chunk :=
  if tm.1 < e.snd.sentq.length then
    (if e.snd.cum ≤ tm.1 then
      match e.snd.sentq[tm.1]? with
      | some c => (e, [.data tm.1 c.1 c.2.1 c.2.2])
      | none => (e, [])
    else (e, []))
  else if tm.1 == e.snd.sentq.length then
    match e.snd.pend.find? (fun c => c.1 == tm.2) with
    | some c => ({ e with snd := { e.snd with pend := e.snd.pend.erase c, sentq := e.snd.sentq ++ [c] } }, [.data tm.1 c.1 c.2.1 c.2.2])
    | none => (e, [])
  else (e, [])

def sendPkt (e : Ep) : List (Nat × Nat) → Ep × List Chunk
  | [] => (e, [])
  | tm :: rest =>
    let r1 := sendOne e tm
    let r2 := sendPkt r1.1 rest
    (r2.1, r1.2 ++ r2.2)

/-- Go: gatherDataPacketsToRetransmit, gatherOutboundDataAndReconfigPackets, gatherOutboundFastRetransmissionPackets -/
def sendData (e : Ep) : List (List (Nat × Nat)) → Ep × List Pkt
  | [] => (e, [])
  | p :: rest =>
    let r1 := sendPkt e p
    let r2 := sendData r1.1 rest
    (r2.1, (if r1.2.isEmpty then [] else [r1.2]) ++ r2.2)

/-- Go: gatherOutboundPriorityPackets, the two non-terminal cases (a SHUTDOWN-ACK / SACK+SHUTDOWN that must not wait) -/
def gatherPrio (e : Ep) : Ep × List Pkt :=
  if e.st == stShutdownAckSent && e.wSA then (let r := gatherShut e; (r.1, r.2.1))
  else if e.st == stShutdownSent && e.wS then
    (let r1 := gatherSack e; let r2 := gatherShut r1.1; (r2.1, r1.2 ++ r2.2.1))
  else (e, [])

/-- Go: gatherOutbound, the `switch state` part; `d` = the DATA packets of this pass -/
def gatherState (e : Ep) (d : List (List (Nat × Nat))) : Ep × List Pkt × Bool :=
  if e.st == stEstablished then
    let r1 := sendData e d
    let r2 := gatherSack r1.1
    (r2.1, r1.2 ++ r2.2, true)
  else if e.st == stShutdownPending || e.st == stShutdownReceived then
    let r1 := sendData e d
    let r2 := gatherSack (advance r1.1 e.st)
    let r3 := gatherShut r2.1
    (r3.1, r1.2 ++ r2.2 ++ r3.2.1, r3.2.2)
  else if e.st == stShutdownSent then
    let r2 := gatherSack e
    let r3 := gatherShut r2.1
    (r3.1, r2.2 ++ r3.2.1, r3.2.2)
  else if e.st == stShutdownAckSent then gatherShut e
  else (e, [], true)

/-- Go: gatherOutbound (the terminal SHUTDOWN-COMPLETE first, then priority packets, then the per-state part) -/
def gather (e : Ep) (d : List (List (Nat × Nat))) : Ep × List Pkt × Bool :=
  if e.wAb then ({ e with wAb := false }, [[.abort]], false) else   -- Go: gatherAbortPacket, terminal
  if e.wSC then gatherShut e else
  let r0 := gatherPrio e
  let r := gatherState r0.1 d
  (r.1, r0.2 ++ r.2.1, r.2.2)

/-- one iteration of writeLoop: gatherOutbound, send, `if !ok { a.close(); return }` -/
def writeLoopPass (e : Ep) (d : List (List (Nat × Nat))) : Ep × List Pkt :=
  if e.dead then (e, []) else
  let r := gather e d
  (if r.2.2 then r.1 else close r.1, r.2.1)

/-! ## API, timers -/

/-- next stream sequence number of stream `s` (Go: Stream.sequenceNumber / nextOrderedMID; a rejected
write gives its number back) -/
def Ep.nextSsn (e : Ep) (s : Nat) : Nat := (e.snd.wlog.filter (fun w => w.2.1 == s)).length

/-- Go: Stream.WriteSCTP → sendPayloadData: accepted only in ESTABLISHED. Result: accepted? -/
def write (e : Ep) (s : Nat) : Ep × Bool :=
  if e.st == stEstablished then
    let w : Msg := (e.snd.attempts, s, e.nextSsn s)
    ({ e with snd := { e.snd with attempts := e.snd.attempts + 1, wlog := e.snd.wlog ++ [w], pend := e.snd.pend ++ [w] } }, true)
  else ({ e with snd := { e.snd with attempts := e.snd.attempts + 1 } }, false)

/-- Go: Association.Shutdown up to the wait. Result: did the call pass the state gate? -/
def shutdownCall (e : Ep) : Ep × Bool :=
  if e.st == stEstablished then
    let e := { e with st := stShutdownPending, sd := 1, callAt := e.snd.wlog.length }
    (if e.hasData then e else { e with wS := true, st := stShutdownSent }, true)
  else (e, false)

/-- Go: onRetransmissionTimeout(timerT2Shutdown) → onShutdownTimeout; fires only while the timer is started -/
def t2Fire (e : Ep) : Ep :=
  if e.t2 != 1 then e
  else if e.scp then e
  else if e.st == stShutdownSent then { e with wS := true }
  else if e.st == stShutdownAckSent then { e with wSA := true }
  else e

/-- Go: onAckTimeout; the ack timer runs exactly while ackState is delay (and is closed with the loops) -/
def ackFire (e : Ep) : Ep :=
  if e.ack == ackDelay && !e.dead then { e with ack := ackImmediate } else e

def Rcv.readOn (r : Rcv) (s : Nat) : List Nat := (r.rlog.filter (fun x => x.2.1 == s)).map (·.1)

/-- Go: Stream.ReadSCTP called while something is readable: the ordered message with the next sequence number -/
def drain : Nat → Rcv → Nat → Rcv
  | 0, r, _ => r
  | n+1, r, s =>
    match r.store.find? (fun c => c.2.1 == s && c.2.2 == (r.readOn s).length) with
    | none => r
    | some c => drain n { r with store := r.store.erase c, rlog := r.rlog ++ [c] } s

/-- drain stream `s`, then one more ReadSCTP if the stream carries a read error (closure is reported) -/
def read (e : Ep) (s : Nat) : Ep :=
  let r := drain e.rcv.store.length e.rcv s
  { e with rcv := if e.dead then { r with eofs := r.eofs ++ [(s, (r.readOn s).length)] } else r }

/-- Go: OpenStream's state gate -/
def openOk (e : Ep) : Bool :=
  !(e.st == stShutdownAckSent || e.st == stShutdownPending || e.st == stShutdownReceived || e.st == stShutdownSent || e.st == stClosed)

/-- the transport under the endpoint fails: Read returns an error, the read loop takes its exit path
(closeWriteLoopCh closed, state closed, streams unregistered), the write loop follows -/
def closeConn (e : Ep) : Ep := if e.dead then e else { close e with connFailed := true }

/-- Go: Association.Close: close() (and the wait for the read loop) -/
def closeApi (e : Ep) : Ep := if e.dead then e else close e

/-- Go: Association.Abort up to its wait: the ABORT is left to the write loop -/
def abortCall (e : Ep) : Ep := { e with wAb := true }

/-! ## the two-endpoint system -/

structure Sys where
  a : Ep := {}
  b : Ep := {}
  ha : Array Pkt := #[]
  hb : Array Pkt := #[]
  deriving Repr, Inhabited

inductive Op where
  | write (x : Bool) (s : Nat)            -- false = A, true = B
  | shutdown (x : Bool)
  | gather (x : Bool) (d : List (List (Nat × Nat)))
  | deliver (x : Bool) (i : Nat)          -- i-th packet ever sent by x goes to the other side
  | t2 (x : Bool)
  | t3 (x : Bool)                         -- marks chunks for retransmission: covered by the input of `gather`
  | ackt (x : Bool)
  | read (x : Bool) (s : Nat)
  | closeConn (x : Bool)
  | closeApi (x : Bool)
  | abort (x : Bool)
  deriving Repr, DecidableEq

def Sys.init : Sys := {}

def Sys.ep (s : Sys) (x : Bool) : Ep := if x then s.b else s.a
def Sys.hist (s : Sys) (x : Bool) : Array Pkt := if x then s.hb else s.ha
def Sys.put (s : Sys) (x : Bool) (e : Ep) (out : List Pkt) : Sys :=
  if x then { s with b := e, hb := s.hb ++ out.toArray } else { s with a := e, ha := s.ha ++ out.toArray }

def Sys.step (s : Sys) : Op → Sys
  | .write x sid => s.put x (write (s.ep x) sid).1 []
  | .shutdown x => s.put x (shutdownCall (s.ep x)).1 []
  | .gather x d => let r := writeLoopPass (s.ep x) d; s.put x r.1 r.2
  | .deliver x i =>
    match (s.hist x)[i]? with
    | none => s
    | some p => if (s.ep (!x)).dead then s else s.put (!x) (handlePkt (s.ep (!x)) p) []
  | .t2 x => s.put x (t2Fire (s.ep x)) []
  | .t3 _ => s
  | .ackt x => s.put x (ackFire (s.ep x)) []
  | .read x sid => s.put x (read (s.ep x) sid) []
  | .closeConn x => s.put x (closeConn (s.ep x)) []
  | .closeApi x => s.put x (closeApi (s.ep x)) []
  | .abort x => s.put x (abortCall (s.ep x)) []

def Sys.run (s : Sys) (ops : List Op) : Sys := ops.foldl Sys.step s

end Sd
