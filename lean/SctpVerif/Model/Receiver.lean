import SctpVerif.Model.RecvQ
import SctpVerif.Model.Reasm
import SctpVerif.Model.Timer
/-!
# L0 model of the RECEIVE half of the association (association.go, stream.go)

COMPOSES the existing component models: `RecvQ.Q` (receive_payload_queue.go), one `Reasm.Q`
(reassembly_queue.go) per stream object, and the ack-timer automaton `Timer.AckSys` (ack_timer.go with
the Go runtime timer as environment). Nothing of those is re-modelled here.

Handler by handler, same branches:
`handleData` (state gate `canHandleData`, wrong-kind check, SHUTDOWN-SENT special case, `canPush`,
`acceptPayloadData` with `getOrCreateStream`, `getMyReceiverWindowCredit`, the full-buffer branch with the
"fills a gap below the highest TSN" exception, `pushPayloadDataToStream`, gap / duplicate ⇒ `sackNow`),
`handlePeerLastTSNAndAcknowledgement` (pop loop, deferred reset requests `resetStreamsIfAny`, the ack
decisions), `handleChunksStart/End`, `onAckTimeout`, `createSelectiveAckChunk` and the SACK / ABORT /
control part of `gatherOutbound`, `handleForwardTSN` / `handleIForwardTSN`, `handleHeartbeat`, the
outgoing-reset-request part of `handleReconfigParam`, `Stream.ReadSCTP`, the `check()` of a DATA chunk.

Straight-line expressions of the code are the translator-generated `Gen.*` expression sites
(go/extract/exprs.go), called with named arguments: `rwnd_*` (credit), `accept_*` (admission at a full
buffer), `data_*` (state gate, kind, gap, sackNow), `ack_*` (ack decisions), `fwd_stale`, `ifwd_stale`,
`reset_due`, `sack_pending`.

Modelling decisions (each is tied by the correspondence run `TestVerifAssocReceiver`):
* `a.streams` (map) → association list `streams`; a Stream OBJECT is named `(si, inc)`: `inc` counts the
  objects created for that stream id (ghost; the harness numbers the real objects the same way). Objects
  deleted from the table by an inbound reset move to `gone` (the application may still hold and read them;
  their bytes are no longer counted by `getMyReceiverWindowCredit` — deviation D13, mirrored).
* `acceptCh` (capacity `acceptChSize`) → `acceptQ`; a peer-created stream that finds it full is dropped.
* `controlQueue` → `control`: only what the receive half puts there (HEARTBEAT-ACK, RE-CONFIG responses,
  the ERROR for an unsupported FORWARD-TSN). Go's random map order in the reset loop is not modelled:
  requests are served in arrival order and the driver compares the emitted packets as a multiset.
* where Go would panic (`Reasm.Err.panic`) the model sets `panicked` — never totalised; `C03_recv_total`
  proves it unreachable.
* the ack timer is the proved automaton `Timer.AckSys`; in the single-threaded harness its callback runs at
  the deadline (`tick`).
Core-only (linked into the driver).
-/
namespace Receiver
open Gen

abbrev TSN := BitVec 32
abbrev Name := BitVec 16 × Nat

structure Stream where
  si : BitVec 16
  inc : Nat
  q : Reasm.Q
  readErr : Bool := false     -- `readErr = io.EOF` after the peer reset its direction
deriving Inhabited

structure ResetReq where
  rsn : BitVec 32
  lastTSN : TSN
  ids : List (BitVec 16)
deriving Inhabited, Repr, DecidableEq

/-- what the receive half puts on the control queue -/
inductive Ctl
  | hback (info : String)                   -- HEARTBEAT-ACK echoing the info (hex)
  | resp (rsn : BitVec 32) (result : Nat)   -- RE-CONFIG response
  | error                                   -- ERROR (unrecognised chunk type)
deriving Inhabited, Repr, DecidableEq

/-- what `gather` emits for the receive half -/
inductive Out
  | abort                                   -- ABORT with a protocol-violation cause
  | ctl (c : Ctl)                           -- a packet from the control queue
  | sack (cum : TSN) (arwnd : BitVec 32) (gaps : List (BitVec 16 × BitVec 16)) (dups : List TSN)
deriving Inhabited, Repr, DecidableEq

structure St where
  maxBuf : BitVec 32
  maxEntries : BitVec 32
  il : Bool                    -- useInterleaving
  useFwd : Bool
  useIFwd : Bool
  ackMode : Int
  state : BitVec 32 := 3
  scp : Bool := false          -- shutdownCompletePending
  pq : RecvQ.Q
  streams : List Stream := []
  gone : List Stream := []
  nInc : List (BitVec 16 × Nat) := []
  acceptQ : List Name := []
  ackState : Int := 0
  timer : Timer.AckSys := {}
  immTrig : Bool := false      -- immediateAckTriggered
  delTrig : Bool := false      -- delayedAckTriggered
  willSendAbort : Bool := false
  control : List Ctl := []
  resetReqs : List ResetReq := []
  performed : List (BitVec 32) := []
  newestPerformed : BitVec 32 := 0
  panicked : Bool := false
  objs : List Name := []       -- ghost: every stream object ever registered, in creation order

/-- `createAssociationFromConfigWithTsn` + what the handshake leaves behind (`payloadQueue.init(peerInitialTSN-1)`) -/
def init (maxBuf maxEntries : BitVec 32) (il useFwd useIFwd : Bool) (ackMode : Int) (peerInitialTSN : TSN) : St :=
  { maxBuf := maxBuf, maxEntries := maxEntries, il := il, useFwd := useFwd, useIFwd := useIFwd, ackMode := ackMode,
    pq := RecvQ.init (RecvQ.new (getMaxTSNOffset maxBuf)) (peerInitialTSN - 1) }

instance : Inhabited St := ⟨init 0 0 false false false 0 0⟩

/-! ### the stream table -/

def getS (l : List Stream) (si : BitVec 16) : Option Stream := l.find? (fun x => x.si == si)

/-- `a.streams[si].reassemblyQueue = f(…)`: the entry `getS` finds (a map has one entry per key) -/
def setQ : List Stream → BitVec 16 → (Reasm.Q → Reasm.Q) → List Stream
  | [], _, _ => []
  | x :: l, si, f => if x.si == si then { x with q := f x.q } :: l else x :: setQ l si f

def nextInc (l : List (BitVec 16 × Nat)) (si : BitVec 16) : Nat := (l.lookup si).getD 0

def bumpInc (l : List (BitVec 16 × Nat)) (si : BitVec 16) : List (BitVec 16 × Nat) :=
  (si, nextInc l si + 1) :: l.filter (fun p => p.1 != si)

/-- Go: `createStream(streamIdentifier, accept)` (the caller checked that no stream has this id) -/
def createStream (s : St) (si : BitVec 16) (accept : Bool) : St × Option Stream :=
  let strm : Stream := { si := si, inc := nextInc s.nInc si, q := Reasm.new si s.maxEntries }
  if accept then
    if s.acceptQ.length < acceptChSize then
      ({ s with streams := s.streams ++ [strm], acceptQ := s.acceptQ ++ [(si, strm.inc)], nInc := bumpInc s.nInc si,
                objs := s.objs ++ [(si, strm.inc)] }, some strm)
    else (s, none)      -- "dropped a new stream": the object is garbage
  else ({ s with streams := s.streams ++ [strm], nInc := bumpInc s.nInc si, objs := s.objs ++ [(si, strm.inc)] }, some strm)

/-- Go: `getOrCreateStream(streamIdentifier, accept, _)` -/
def getOrCreateStream (s : St) (si : BitVec 16) (accept : Bool) : St × Option Stream :=
  match getS s.streams si with
  | some x => (s, some x)
  | none => createStream s si accept

/-- Go: `getMyReceiverWindowCredit` -/
def credit (s : St) : BitVec 32 :=
  let bytesQueued := s.streams.foldl (fun acc x => acc + rwnd_addStream (s_getNumBytesInReassemblyQueue := x.q.getNumBytes)) 0#32
  if rwnd_exhausted (bytesQueued := bytesQueued) (a_maxReceiveBufferSize := s.maxBuf) then 0
  else rwnd_credit (a_maxReceiveBufferSize := s.maxBuf) (bytesQueued := bytesQueued)

/-- Go: `abortProtocolViolation` -/
def abortPV (s : St) : St := { s with willSendAbort := true }

/-! ### deferred stream resets -/

/-- the `delete(a.streams, id)` loop of `resetStreamsIfAny`: the object leaves the table with `readErr = io.EOF` -/
def unregister (s : St) (id : BitVec 16) : St :=
  match getS s.streams id with
  | none => s
  | some x => { s with streams := s.streams.filter (fun y => y.si != id), gone := s.gone ++ [{ x with readErr := true }] }

/-- Go: `rememberPerformedReset` -/
def rememberPerformed (s : St) (rsn : BitVec 32) : St :=
  let newest := if s.performed.isEmpty || sna32LT s.newestPerformed rsn then rsn else s.newestPerformed
  let perf := if s.performed.contains rsn then s.performed else s.performed ++ [rsn]
  let perf := if perf.length > 2 * 1024 then perf.filter (fun old => !sna32LT old (newest - 1024)) else perf
  { s with performed := perf, newestPerformed := newest }

/-- Go: `resetStreamsIfAny` (the response packet goes to the control queue through the caller) -/
def resetStreamsIfAny (s : St) (r : ResetReq) : St :=
  if reset_due (resetRequest_senderLastTSN := r.lastTSN) (a_peerLastTSN := s.pq.cum) then
    let s := r.ids.foldl unregister s
    let s := { s with resetReqs := s.resetReqs.filter (fun x => x.rsn != r.rsn) }
    let s := rememberPerformed s r.rsn
    { s with control := s.control ++ [.resp r.rsn 1] }
  else { s with control := s.control ++ [.resp r.rsn reconfigResultInProgress] }

/-- Go: `handleReconfigParam`, case `*paramOutgoingResetRequest` -/
def handleResetReq (s : St) (r : ResetReq) : St :=
  if s.performed.contains r.rsn then { s with control := s.control ++ [.resp r.rsn 1] }
  else if sna32LT s.pq.cum r.lastTSN && decide (s.resetReqs.length ≥ maxReconfigRequests) then s
  else
    let s := { s with resetReqs := s.resetReqs.filter (fun x => x.rsn != r.rsn) ++ [r] }
    resetStreamsIfAny s r

/-! ### acknowledgement decisions -/

/-- Go: the pop loop of `handlePeerLastTSNAndAcknowledgement`; fuel = `payloadQueue.size()` (every successful
pop decrements it) -/
def popLoop : Nat → St → St
  | 0, s => s
  | n+1, s =>
    if (RecvQ.pop s.pq false).2 then
      let s := { s with pq := (RecvQ.pop s.pq false).1 }
      popLoop n (s.resetReqs.foldl resetStreamsIfAny s)
    else s

/-- Go: `handlePeerLastTSNAndAcknowledgement(sackImmediately)` -/
def ackStep (s : St) (sackImmediately : Bool) : St :=
  let s := popLoop s.pq.size.toNat s
  let hasPacketLoss := ack_hasPacketLoss (a_payloadQueue_size := s.pq.size)
  if ack_immediate (sackImmediately := sackImmediately) (hasPacketLoss := hasPacketLoss) (a_ackMode := s.ackMode) then
    { s with immTrig := true }
  else if ack_mayDelay (a_ackMode := s.ackMode) (a_ackState := s.ackState) then
    if ack_wasIdle (a_ackState := s.ackState) then { s with delTrig := true } else { s with immTrig := true }
  else { s with immTrig := true }

/-! ### DATA -/

/-- Go: `pushPayloadDataToStream` → (state, accepted) -/
def pushToStream (s : St) (c : Reasm.Chunk) : St × Bool :=
  let s := { s with pq := (RecvQ.push s.pq c.tsn).1 }
  match getS s.streams c.si with
  | none => (s, false)
  | some x =>
    let r := x.q.pushWithError c
    let s := { s with streams := setQ s.streams c.si (fun _ => r.1) }
    match r.2.2 with
    | .none => (s, true)
    | .panic => ({ s with panicked := true }, false)
    | _ => (abortPV s, false)

/-- Go: `acceptPayloadData` → (state, keep going) -/
def acceptPayloadData (s : St) (c : Reasm.Chunk) : St × Bool :=
  match getOrCreateStream s c.si true with
  | (s, none) => (s, false)
  | (s, some _) =>
    if accept_hasCredit (a_getMyReceiverWindowCredit := credit s) then pushToStream s c
    else
      let ok := (RecvQ.lastTSN s.pq).isSome
      let lastTSN := (RecvQ.lastTSN s.pq).getD 0
      if accept_dropAtFullBuffer (ok := ok) (chunkPayload_tsn := c.tsn) (lastTSN := lastTSN) then (s, true)
      else pushToStream s c

/-- Go: `handleData` -/
def handleData (s : St) (c : Reasm.Chunk) (immediateSack : Bool) : St :=
  let state := s.state
  if !data_canHandle (a_shutdownCompletePending := s.scp) (state := state) then s
  else if data_wrongKind (chunkPayload_isIData := c.iData) (a_useInterleaving := s.il) then abortPV s
  else
    -- (in SHUTDOWN-SENT `willSendShutdown` is set and T2 stopped here: the SHUTDOWN exchange is not modelled)
    let canPush := RecvQ.canPush s.pq c.tsn
    let r := if canPush then acceptPayloadData s c else (s, true)
    if !r.2 then
      if state == 7#32 then ackStep r.1 true else r.1
    else
      let s := r.1
      let expectedTSN := data_expectedTSN (a_peerLastTSN := s.pq.cum)
      let gapDetected := data_gapDetected (chunkPayload_tsn := c.tsn) (expectedTSN := expectedTSN)
      let sackNow := data_sackNow (chunkPayload_immediateSack := immediateSack) (gapDetected := gapDetected) (canPush := canPush)
      ackStep s (if state == 7#32 then true else sackNow)

/-! ### FORWARD-TSN -/

def staleFwd (s : St) : St := { s with ackState := ackStateImmediate, timer := s.timer.stop }

/-- one `(stream, sequence)` entry: the stream is created like the skipped DATA would have -/
def fwdEntry (s : St) (e : BitVec 16 × BitVec 16) : St :=
  let r := match getS s.streams e.1 with
    | some _ => (s, true)
    | none => let r := createStream s e.1 true; (r.1, r.2.isSome)
  if r.2 then { r.1 with streams := setQ r.1.streams e.1 (fun q => q.forwardTSNForOrdered e.2) } else r.1

/-- Go: `handleForwardTSN` -/
def handleFwd (s : St) (newCum : TSN) (entries : List (BitVec 16 × BitVec 16)) : St :=
  if s.il then abortPV s
  else if !s.useFwd then { s with control := s.control ++ [.error] }
  else if fwd_stale (chunkTSN_newCumulativeTSN := newCum) (a_peerLastTSN := s.pq.cum) then staleFwd s
  else
    let s := { s with pq := RecvQ.advance s.pq newCum }
    let s := entries.foldl fwdEntry s
    let s := { s with streams := s.streams.map fun x => { x with q := x.q.forwardTSNForUnordered newCum } }
    ackStep s false

def ifwdEntry (s : St) (e : BitVec 16 × Bool × BitVec 32) : St :=
  let r := match getS s.streams e.1 with
    | some _ => (s, true)
    | none => let r := createStream s e.1 true; (r.1, r.2.isSome)
  if r.2 then
    { r.1 with streams := setQ r.1.streams e.1 (fun q =>
        if e.2.1 then q.forwardTSNForUnorderedMID e.2.2 else q.forwardTSNForOrderedMID e.2.2) }
  else r.1

/-- Go: `handleIForwardTSN` -/
def handleIFwd (s : St) (newCum : TSN) (entries : List (BitVec 16 × Bool × BitVec 32)) : St :=
  if !s.useIFwd then abortPV s
  else if ifwd_stale (chunkTSN_newCumulativeTSN := newCum) (a_peerLastTSN := s.pq.cum) then staleFwd s
  else
    let s := { s with pq := RecvQ.advance s.pq newCum }
    let s := entries.foldl ifwdEntry s
    ackStep s false

/-! ### packets -/

inductive InChunk
  | data (c : Reasm.Chunk) (immediateSack : Bool)
  | fwd (newCum : TSN) (entries : List (BitVec 16 × BitVec 16))
  | ifwd (newCum : TSN) (entries : List (BitVec 16 × Bool × BitVec 32))
  | hb (info : String)
  | reset (r : ResetReq)
deriving Inhabited

/-- Go: `handleChunk`: `check()` first (a DATA chunk without user data ⇒ ABORT), then the handler -/
def handleChunk (s : St) : InChunk → St
  | .data c imm => if c.userData.isEmpty then abortPV s else handleData s c imm
  | .fwd c es => handleFwd s c es
  | .ifwd c es => handleIFwd s c es
  | .hb info => { s with control := s.control ++ [.hback info] }
  | .reset r => handleResetReq s r

/-- Go: `handleChunksStart` -/
def chunksStart (s : St) : St := { s with delTrig := false, immTrig := false }

/-- Go: `handleChunksEnd` -/
def chunksEnd (s : St) : St :=
  if s.immTrig then { s with ackState := ackStateImmediate, timer := s.timer.stop }
  else if s.delTrig then { s with ackState := ackStateDelay, timer := s.timer.start.1 }
  else s

/-- Go: `handleInbound` for a packet that passed the decoder and `checkPacket` -/
def packet (s : St) (cs : List InChunk) : St := chunksEnd (cs.foldl handleChunk (chunksStart s))

/-! ### the application, the writer, the clock -/

inductive ReadOut
  | ok (n : Int) (ppi : Reasm.PPI) (data : List UInt8)
  | short (n : Int)
  | block            -- `readNotifier.Wait()`
  | eof
  | nostream
deriving Inhabited, Repr, DecidableEq

def readStream (x : Stream) (buflen : Nat) : Stream × ReadOut :=
  let r := x.q.read buflen
  match r.2.err with
  | .ok => ({ x with q := r.1 }, .ok r.2.n r.2.ppi r.2.data)
  | .shortBuffer => (x, .short r.2.n)
  | .tryAgain => (x, if x.readErr then .eof else .block)   -- the queue is served before `readErr`

/-- the object `find? p` finds is replaced by `v` -/
def setFirst (p : Stream → Bool) (v : Stream) : List Stream → List Stream
  | [] => []
  | y :: l => if p y then v :: l else y :: setFirst p v l

/-- Go: `Stream.ReadSCTP` on the object `(si, inc)` -/
def read (s : St) (name : Name) (buflen : Nat) : St × ReadOut :=
  match s.streams.find? (fun x => x.si == name.1 && x.inc == name.2) with
  | some x =>
    let r := readStream x buflen
    ({ s with streams := setFirst (fun y => y.si == name.1 && y.inc == name.2) r.1 s.streams }, r.2)
  | none =>
    match s.gone.find? (fun x => x.si == name.1 && x.inc == name.2) with
    | some x =>
      let r := readStream x buflen
      ({ s with gone := setFirst (fun y => y.si == name.1 && y.inc == name.2) r.1 s.gone }, r.2)
    | none => (s, .nostream)

/-- Go: a non-blocking receive from `acceptCh` -/
def accept (s : St) : St × Option Name :=
  match s.acceptQ with
  | [] => (s, none)
  | n :: rest => ({ s with acceptQ := rest }, some n)

/-- Go: `OpenStream` -/
def openStream (s : St) (si : BitVec 16) : St × Option Name :=
  if s.state == 4#32 || s.state == 5#32 || s.state == 6#32 || s.state == 7#32 || s.state == 0#32 then (s, none)
  else
    let r := getOrCreateStream s si false
    (r.1, r.2.map fun x => (x.si, x.inc))

/-- Go: `createSelectiveAckChunk` -/
def createSack (s : St) : St × Out :=
  let d := RecvQ.popDuplicates s.pq
  ({ s with pq := d.1 }, .sack s.pq.cum (credit s) (RecvQ.gaps s.pq) d.2)

/-- Go: `gatherOutbound`, what the receive half contributes: ABORT (terminal), the control queue, the
state steps of `advanceShutdownAfterDataDrain` (nothing is ever pending or in flight here), the SACK.
SHUTDOWN / SHUTDOWN-ACK chunks are not modelled. Returns the packets and the `ok` flag. -/
def gather (s : St) : St × List Out × Bool :=
  if s.willSendAbort then ({ s with willSendAbort := false }, [.abort], false)
  else
    let st0 := s.state
    let s1 := { s with control := [], state := if st0 == 5#32 then 7#32 else if st0 == 6#32 then 4#32 else st0 }
    if (st0 == 3#32 || st0 == 5#32 || st0 == 6#32 || st0 == 7#32) && sack_pending (a_ackState := s.ackState) then
      let r := createSack { s1 with ackState := ackStateIdle }
      (r.1, s.control.map Out.ctl ++ [r.2], true)
    else (s1, s.control.map Out.ctl, true)

/-- Go: `onAckTimeout` -/
def ackTimeout (s : St) : St := { s with ackState := ackStateImmediate }

/-- the clock advances by `d` ns; the ack timer, if its deadline is reached, fires and its callback runs -/
def tick (s : St) (d : Nat) : St :=
  let target := s.timer.now + d
  match s.timer.g.armed with
  | some (dl, _) =>
    if dl ≤ target then
      let t := ({ s.timer with now := dl } : Timer.AckSys).fire
      let r := t.run 0
      let s := { s with timer := { r.1 with now := target } }
      if r.2 == some .ack then ackTimeout s else s
    else { s with timer := { s.timer with now := target } }
  | none => { s with timer := { s.timer with now := target } }

/-! ### operations (the alphabet the theorems quantify over) -/

inductive Op
  | pkt (cs : List InChunk)
  | read (name : Name) (buflen : Nat)
  | accept
  | open (si : BitVec 16)
  | gather
  | tick (ns : Nat)
  | setState (st : BitVec 32)
deriving Inhabited

def Op.data (c : Reasm.Chunk) (imm : Bool := false) : Op := .pkt [.data c imm]
def Op.fwd (newCum : TSN) (es : List (BitVec 16 × BitVec 16)) : Op := .pkt [.fwd newCum es]
def Op.ifwd (newCum : TSN) (es : List (BitVec 16 × Bool × BitVec 32)) : Op := .pkt [.ifwd newCum es]

def step (s : St) : Op → St
  | .pkt cs => packet s cs
  | .read n b => (read s n b).1
  | .accept => (accept s).1
  | .open si => (openStream s si).1
  | .gather => (gather s).1
  | .tick d => tick s d
  | .setState st => { s with state := st }

def run (s : St) (ops : List Op) : St := ops.foldl step s

/-! ### white-box observables (what the harness logs) -/

def heldOf (x : Stream) : Nat := x.q.heldBytes
def heldRegistered (s : St) : Nat := (s.streams.map heldOf).sum
def heldGone (s : St) : Nat := (s.gone.map heldOf).sum

end Receiver
