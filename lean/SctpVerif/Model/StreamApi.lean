import SctpVerif.Model.Sender
import SctpVerif.Model.Reasm
/-!
# L0 model of the STREAM API layer (stream.go, the API-facing parts of association.go). Core-only, executable, total.

It sits ON TOP of the two existing models and forks neither:
* `Sender` (Model/Sender.lean) — `packetize`, `rollback`, `pushPending`, `checkPR`, `gather`, `sack`, `t3`, `openStream`
  are REUSED as they are (the send half of an association incl. the abandonment decision with `firstSent`);
* `Reasm` (Model/Reasm.lean) — `Q.pushWithError`, `Q.read`, `Q.isReadable` are REUSED for the read half of a Stream.

What is added here, function by function:
* `Stream.WriteSCTP` → `write`: size check, stream-state check, empty write, (blocking mode) the per-stream write lock,
  `packetize`, then `Association.sendPayloadData` → state gate, the blocking-write gate `blockWrite ∧ writePending` with
  its deadline, push, and the failure branch of `WriteSCTP` (`rollbackStream`);
* a blocking write that has to wait is a `Waiter` parked in `sendPayloadData`'s `select` (its SSN/MID and buffered bytes
  are already taken: `packetize` ran); it leaves through `wake` (a `writeNotify` token: re-check state and flag, then push)
  or `failWaiter` (deadline: roll back);
* `popPendingDataChunksToSend`'s release of blocked writers (`notifyBlockWritable`) → the end of `gather`;
* `Stream.Close` + `sendResetRequest` → `closeStream`; `Stream.onInboundStreamReset` → `reof`;
* `Stream.ReadSCTP` → `read` (`tryRead` = one pass of its loop, `readDone` = its deferred function),
  `Stream.handleData` → `rpush`, `Stream.SetReadDeadline` and its timer goroutine → `rdeadline` / `fireTimer`;
* `createForwardTSN` / `createIForwardTSN` → `forwardTsn`.

Conditions are NOT re-typed: they are the expression sites the translator regenerates from the source on every run
(go/extract/exprs.go), added for this model: `Gen.write_tooLarge / write_notOpen / write_empty` (the three tests of
`WriteSCTP`), `Gen.send_notEstablished[AfterWait]` (state gate before and after waiting), `Gen.send_gated` /
`Gen.send_waits` (`if a.blockWrite`, `for a.writePending`), `Gen.popPending_notifyWritable` (who releases blocked
writers), `Gen.reset_notEstablished`, `Gen.close_isOpen`, `Gen.close_noReadErr`. The pieces reused from `Sender` are
hand-typed there; `Proofs/StreamApi.lean` proves them equal to the sites `Gen.packetize_unordered / _fragmentSize /
_beginning / _ending / _ssnAdvances`, `Gen.checkPR_*`, `Gen.abandoned_*` and the `…_skips / …_stops / miss_eligible`
sites of every retransmission path (new site kinds for these: `kv` = a composite-literal field, `ret` = a returned
expression, `for` = a loop condition).

Single-threaded abstraction (what the harness can drive deterministically under testing/synctest): one call at a time;
after every op everything that became runnable has run. Consequences, each mirrored by the harness:
* a second `WriteSCTP` on a stream whose writer is parked would wait for `writeLock` before doing anything: `busy`;
  a second `ReadSCTP` on a stream with a parked reader: `busy` (which of two readers a `Signal` wakes is up to the runtime);
* the `writeNotify` channel is not state of the model: a token only matters to a parked writer, a parked writer has
  consumed any stale token when it parked (and found `writePending` still set), so a parked writer wakes up for good
  exactly when a gather notifies; WHICH parked writer gets the token is an oracle input (`woke`);
* time is the virtual millisecond clock of `Sender.St.now`; deadlines are absolute ms.

Never totalised: `maxPayload = 0` makes `packetize` loop forever (`hang`), no Stream object → `noStream`.
-/
namespace Sapi
open Gen

/-! ## state -/

inductive WErr | tooLarge | streamClosed | notEstablished | deadline
  deriving BEq, Repr, Inhabited, DecidableEq

/-- result of a `WriteSCTP` call -/
inductive WRes
  | ok (n : Nat)          -- `(n, nil)`
  | err (e : WErr)        -- `(0, err)`
  | blocked (wid : Nat)   -- the call is parked in `sendPayloadData`
  | busy                  -- the stream's write lock is held by a parked call
  | noStream
  | hang                  -- `packetize` would never return (`maxPayloadSize = 0`)
  deriving BEq, Repr, Inhabited, DecidableEq

def WRes.isErr : WRes → Bool
  | .err _ => true
  | _ => false

/-- a `WriteSCTP` call parked in the `select` of `sendPayloadData` -/
structure Waiter where
  wid : Nat
  si : BitVec 16
  chunks : List Sender.Chunk      -- what `packetize` built
  unordered : Bool
  n : Nat                         -- `len(payload)`
  deadline : Option Nat           -- the stream's write deadline (absolute ms), if any
  deriving Inhabited

inductive RdErr | eof | deadline
  deriving BEq, Repr, Inhabited, DecidableEq

/-- the read half of a Stream object -/
structure RStream where
  q : Reasm.Q
  readErr : Option RdErr := none
  timer : Option Nat := none               -- read-deadline goroutine waiting for its timer (fires at this ms); = `readTimeoutCancel != nil`
  reader : Option (Nat × Nat) := none      -- a parked `ReadSCTP`: (call id, `len(buf)`)
  deriving Inhabited

structure St where
  snd : Sender.St
  state : BitVec 32 := BitVec.ofNat 32 established     -- `a.getState()`; `snd.established` is kept equal to `state == established`
  blockWrite : Bool := false
  writePending : Bool := false
  sstate : BitVec 16 → Int := fun _ => (StreamStateOpen : Int)    -- `Stream.state`
  waiters : List Waiter := []
  nextWid : Nat := 0
  rd : BitVec 16 → Option RStream := fun _ => none
  nextRid : Nat := 0
  sids : List (BitVec 16) := []            -- streams that have a Stream object, in creation order
  deriving Inhabited

def init (cfg : Sender.Cfg) (blockWrite : Bool) (tsn peerRwnd : BitVec 32) : St :=
  { snd := Sender.init cfg tsn peerRwnd, blockWrite := blockWrite }

def isEstablished (state : BitVec 32) : Bool := state == BitVec.ofNat 32 established

/-- `a.setState(n)` -/
def setState (s : St) (n : BitVec 32) : St :=
  { s with state := n, snd := { s.snd with established := isEstablished n } }

def setRd (s : St) (si : BitVec 16) (r : RStream) : St :=
  { s with rd := fun k => if k = si then some r else s.rd k }

/-! ## write -/

/-- the failure branch of `WriteSCTP`: `bufferedAmount -= n`, the counter `packetize` advanced is put back -/
def rollbackStream (s : St) (si : BitVec 16) (unordered : Bool) (n : Nat) : St :=
  match s.snd.streams si with
  | none => s
  | some st => { s with snd := Sender.setStream s.snd si (Sender.rollback s.snd.cfg st unordered n) }

def hasWaiter (s : St) (si : BitVec 16) : Bool := s.waiters.any (·.si == si)

/-- the loop `for a.writePending { select { case <-ctx.Done(): …; case <-writeNotify: } }` is entered -/
def mustWait (s : St) : Bool := send_gated s.blockWrite && send_waits s.writePending

/-- `ctx.Done()` is already closed: the write deadline is not in the future -/
def deadlinePassed (now : Nat) : Option Nat → Bool
  | none => false
  | some d => decide (d ≤ now)

/-- the tail of `sendPayloadData`: `if a.blockWrite { a.writePending = true }`, push every chunk -/
def pushChunks (s : St) (cs : List Sender.Chunk) : St :=
  { s with snd := Sender.pushPending s.snd cs, writePending := if send_gated s.blockWrite then true else s.writePending }

/-- `Stream.WriteSCTP(payload of len bytes, ppi)` with the stream's write deadline `dl` (absolute ms) -/
def write (s : St) (si : BitVec 16) (ppi : BitVec 32) (len : Nat) (dl : Option Nat) : St × WRes :=
  match s.snd.streams si with
  | none => (s, .noStream)
  | some st =>
    if write_tooLarge (len : Int) s.snd.cfg.maxMessageSize then (s, .err .tooLarge)
    else if write_notOpen (s.sstate si) then (s, .err .streamClosed)
    else if write_empty (len : Int) then (s, .ok 0)
    else if hasWaiter s si then (s, .busy)                      -- `s.writeLock.Lock()` would wait for the parked call
    else if s.snd.cfg.maxPayload = 0 then (s, .hang)
    else
      -- chunks, unordered := s.packetize(payload, ppi)
      let p := Sender.packetize s.snd.cfg st si s.snd.nextMsg ppi len
      let s1 : St := { s with snd := Sender.setStream s.snd si p.st }
      -- err := s.association.sendPayloadData(s.writeDeadline, chunks)
      if send_notEstablished s.state then (rollbackStream s1 si p.unordered len, .err .notEstablished)
      else if mustWait s then
        if deadlinePassed s.snd.now dl then (rollbackStream s1 si p.unordered len, .err .deadline)
        else
          ({ s1 with snd := { s1.snd with nextMsg := s.snd.nextMsg + 1 },
                     waiters := s.waiters ++ [{ wid := s.nextWid, si := si, chunks := p.chunks, unordered := p.unordered, n := len, deadline := dl }],
                     nextWid := s.nextWid + 1 }, .blocked s.nextWid)
      else
        (pushChunks { s1 with snd := { s1.snd with nextMsg := s.snd.nextMsg + 1, wrapBuf := s.snd.wrapBuf || p.wrap } } p.chunks, .ok len)

def dropWaiter (s : St) (wid : Nat) : St := { s with waiters := s.waiters.filter (·.wid != wid) }

/-- a parked call gives up (`ctx.Done()`, or the state gate after a wake-up): the failure branch of `WriteSCTP` -/
def failWaiter (s : St) (w : Waiter) : St := rollbackStream (dropWaiter s w.wid) w.si w.unordered w.n

/-- a parked call received the `writeNotify` token: state gate, then the loop condition again, then the push -/
def wake (s : St) (wid : Nat) : St × Option WRes :=
  match s.waiters.find? (·.wid == wid) with
  | none => (s, none)
  | some w =>
    if send_notEstablishedAfterWait s.state then (failWaiter s w, some (.err .notEstablished))
    else if send_waits s.writePending then (s, none)                       -- goes round the loop: parked again
    else (pushChunks (dropWaiter s wid) w.chunks, some (.ok w.n))

/-- parked calls whose deadline has been reached, in call order: each returns `ctx.Err()` -/
def expireWaiters (s : St) : St × List (Nat × WRes) :=
  let due := s.waiters.filter fun w => deadlinePassed s.snd.now w.deadline
  (due.foldl failWaiter s, due.map fun w => (w.wid, .err .deadline))

/-! ## gather -/

/-- the stream/sequence list of a FORWARD-TSN: greatest SSN (serial order) per stream over the ORDERED chunks, by stream id -/
def fwdInsert (m : List (BitVec 16 × BitVec 16)) (si ssn : BitVec 16) : List (BitVec 16 × BitVec 16) :=
  match m with
  | [] => [(si, ssn)]
  | (k, v) :: r =>
    if k = si then (k, if sna16LT v ssn then ssn else v) :: r
    else if si < k then (si, ssn) :: (k, v) :: r
    else (k, v) :: fwdInsert r si ssn

/-- same for I-FORWARD-TSN: per (stream, unordered) the greatest MID; ordered entry of a stream before its unordered one -/
def ifwdInsert (m : List (BitVec 16 × Bool × BitVec 32)) (si : BitVec 16) (u : Bool) (mid : BitVec 32) : List (BitVec 16 × Bool × BitVec 32) :=
  match m with
  | [] => [(si, u, mid)]
  | (k, ku, v) :: r =>
    if k = si ∧ ku = u then (k, ku, if sna32LT v mid then mid else v) :: r
    else if si < k ∨ (si = k ∧ !u ∧ ku) then (si, u, mid) :: (k, ku, v) :: r
    else (k, ku, v) :: ifwdInsert r si u mid

/-- the chunks `for i := cumAck+1; sna32LTE(i, advPeerAck); i++ { c, ok := get(i); if !ok break … }` visits -/
def fwdScan (s : Sender.St) : Nat → BitVec 32 → List Sender.Chunk
  | 0, _ => []
  | fuel+1, i =>
    if sna32LTE i s.advPeerAck then
      match Sender.get s.inflight i with
      | none => []
      | some (_, c) => c :: fwdScan s fuel (i + 1)
    else []

inductive Fwd
  | none
  | fwd (cum : BitVec 32) (streams : List (BitVec 16 × BitVec 16))               -- FORWARD-TSN
  | ifwd (cum : BitVec 32) (streams : List (BitVec 16 × Bool × BitVec 32))       -- I-FORWARD-TSN
  deriving BEq, Repr, Inhabited

/-- `gatherOutboundForwardTSNPackets` on the state left by the data part of the gather; `armed` = `willSendForwardTSN` before -/
def forwardTsn (s : Sender.St) (armed : Bool) : Fwd :=
  if armed && sna32GT s.advPeerAck s.cumAck && s.cfg.prEnabled then
    let cs := fwdScan s (s.inflight.length + 1) (s.cumAck + 1)
    if s.cfg.useInterleaving then
      .ifwd s.advPeerAck (cs.foldl (fun m c => ifwdInsert m c.si c.unordered c.mid) [])
    else
      .fwd s.advPeerAck ((cs.filter (!·.unordered)).foldl (fun m c => fwdInsert m c.si c.ssn) [])
  else .none

structure GatherOut where
  out : Sender.GatherOut := {}
  fwd : Fwd := .none
  notified : Bool := false                 -- `notifyBlockWritable` ran
  woken : List (Nat × WRes) := []          -- parked calls that returned because of it

/-- `gatherOutbound`: the data part is `Sender.gather`; at the end of `popPendingDataChunksToSend` blocked writers are
released (`Gen.popPending_notifyWritable`: blocking mode ∧ (something was sent ∨ the flag is up) ∧ the queue is empty) -/
def gather (s : St) (orc : Sender.Oracle) (sel : List Nat) (woke : Option Nat) : St × GatherOut :=
  let r := Sender.gather s.snd orc sel
  let notify := s.snd.established &&
    popPending_notifyWritable s.blockWrite (r.2.admits.length : Int) s.writePending r.1.penChunks
  let s1 : St := { s with snd := r.1, writePending := if notify then false else s.writePending }
  let fwd := if s.snd.established then forwardTsn r.1 s.snd.willSendForwardTSN else .none
  match (if notify then woke else none) with
  | some wid =>
    let w := wake s1 wid
    (w.1, { out := r.2, fwd := fwd, notified := notify, woken := w.2.toList.map fun x => (wid, x) })
  | none => (s1, { out := r.2, fwd := fwd, notified := notify })

/-! ## close -/

inductive CloseRes | ok | notEstablished | noStream
  deriving BEq, Repr, Inhabited, DecidableEq

/-- the end-of-stream marker `sendResetRequest` queues: a DATA chunk without user data -/
def resetMarker (si : BitVec 16) (msg : Nat) : Sender.Chunk := { si := si, len := 0, msg := msg, bfrag := true, efrag := true }

/-- `Stream.Close()`: open → closing (closed if the read side already ended), then `sendResetRequest`, which fails outside
`established` AFTER the state change -/
def closeStream (s : St) (si : BitVec 16) : St × CloseRes :=
  match s.snd.streams si with
  | none => (s, .noStream)
  | some _ =>
    if close_isOpen (s.sstate si) then
      let noErr := match s.rd si with
        | some r => r.readErr.isNone
        | none => true
      let st' : Int := if close_noReadErr noErr then (StreamStateClosing : Int) else (StreamStateClosed : Int)
      let s1 : St := { s with sstate := fun k => if k = si then st' else s.sstate k }
      if reset_notEstablished s.state then (s1, .notEstablished)
      else ({ s1 with snd := Sender.pushPending { s1.snd with nextMsg := s1.snd.nextMsg + 1 } [resetMarker si s1.snd.nextMsg] }, .ok)
    else (s, .ok)

/-! ## read half -/

/-- result of a `ReadSCTP` call -/
inductive RRes
  | data (n : Int) (ppi : BitVec 32) (bytes : List UInt8)    -- `(n, ppi, nil)`
  | short (n : Int)                                          -- `(n, 0, io.ErrShortBuffer)`: n = length of the message
  | err (e : RdErr)                                          -- `(0, 0, readErr)`
  | blocked (rid : Nat)
  | busy
  | noStream
  deriving BEq, Repr, Inhabited

/-- one pass of the loop of `ReadSCTP`; `none` = `readNotifier.Wait()` -/
def tryRead (r : RStream) (buflen : Nat) : RStream × Option RRes :=
  let x := r.q.read buflen
  match x.2.err with
  | .ok => ({ r with q := x.1 }, some (.data x.2.n x.2.ppi x.2.data))
  | .shortBuffer => ({ r with q := x.1 }, some (.short x.2.n))
  | .tryAgain =>
    match r.readErr with
    | some e => (r, some (.err e))
    | none => (r, none)

/-- the deferred function of `ReadSCTP`: a read-deadline goroutine that can no longer matter is cancelled -/
def readDone (r : RStream) : RStream := if r.timer.isSome && r.readErr.isSome then { r with timer := none } else r

/-- a parked reader is signalled: it runs the loop again -/
def wakeReader (r : RStream) : RStream × List (Nat × RRes) :=
  match r.reader with
  | none => (r, [])
  | some (rid, buflen) =>
    match tryRead r buflen with
    | (r', some res) => (readDone { r' with reader := none }, [(rid, res)])
    | (r', none) => (r', [])

/-- `Stream.ReadSCTP(buf)` with `len(buf) = buflen` -/
def read (s : St) (si : BitVec 16) (buflen : Nat) : St × RRes :=
  match s.rd si with
  | none => (s, .noStream)
  | some r =>
    if r.reader.isSome then (s, .busy)
    else match tryRead r buflen with
      | (r', some res) => (setRd s si (readDone r'), res)
      | (r', none) => ({ setRd s si { r' with reader := some (s.nextRid, buflen) } with nextRid := s.nextRid + 1 }, .blocked s.nextRid)

/-- `Stream.handleData`: push; a complete message that makes the queue readable signals the reader -/
def rpush (s : St) (si : BitVec 16) (c : Reasm.Chunk) : St × Reasm.Err × List (Nat × RRes) :=
  match s.rd si with
  | none => (s, .none, [])
  | some r =>
    let x := r.q.pushWithError c
    if x.2.2 != .none then (s, x.2.2, [])                       -- `return err` (the model's queue is unchanged on a limit error)
    else
      let r1 := { r with q := x.1 }
      if x.2.1 && x.1.isReadable then
        let w := wakeReader r1
        (setRd s si w.1, .none, w.2)
      else (setRd s si r1, .none, [])

/-- the read-deadline goroutine's timer fires: `readErr` becomes the deadline error unless one is set, the reader is signalled -/
def fireTimer (r : RStream) : RStream × List (Nat × RRes) :=
  wakeReader { r with readErr := (if r.readErr.isNone then some .deadline else r.readErr), timer := none }

/-- `Stream.SetReadDeadline(t)`; `at` = `none` for the zero time, otherwise the absolute ms -/
def rdeadline (s : St) (si : BitVec 16) (at_ : Option Nat) : St × List (Nat × RRes) :=
  match s.rd si with
  | none => (s, [])
  | some r =>
    let r1 := { r with timer := none }                                    -- close(readTimeoutCancel)
    match (match r1.readErr with
           | some e => if e != .deadline then none else some { r1 with readErr := none }
           | none => some r1) with
    | none => (setRd s si r1, [])                                          -- EOF stays; `return nil`
    | some r2 =>
      match at_ with
      | none => (setRd s si r2, [])
      | some t =>
        if t ≤ s.snd.now then let f := fireTimer r2; (setRd s si f.1, f.2)     -- `time.NewTimer(≤ 0)` fires at once
        else (setRd s si { r2 with timer := some t }, [])

/-- `Stream.onInboundStreamReset()`: `readErr = io.EOF`, every reader is woken, closing → closed -/
def reof (s : St) (si : BitVec 16) : St × List (Nat × RRes) :=
  match s.rd si with
  | none => (s, [])
  | some r =>
    let w := wakeReader { r with readErr := some .eof }
    let s1 := setRd s si w.1
    ({ s1 with sstate := fun k => if k = si ∧ s.sstate si = (StreamStateClosing : Int) then (StreamStateClosed : Int) else s1.sstate k }, w.2)

/-- the read-deadline timer of a stream has reached its instant -/
def timerDue (r : RStream) (now : Nat) : Bool :=
  match r.timer with
  | some t => decide (t ≤ now)
  | none => false

/-- read-deadline timers that are due, stream by stream -/
def fireTimers (s : St) : List (BitVec 16) → St × List (Nat × RRes)
  | [] => (s, [])
  | si :: rest =>
    match s.rd si with
    | some r =>
      if timerDue r s.snd.now then
        let f := fireTimer r
        let x := fireTimers (setRd s si f.1) rest
        (x.1, f.2 ++ x.2)
      else fireTimers s rest
    | none => fireTimers s rest

/-! ## streams, clock -/

inductive OpenRes | ok | closed
  deriving BEq, Repr, Inhabited, DecidableEq

/-- `OpenStream` refuses in the shutdown states and in `closed` -/
def openRefused (state : BitVec 32) : Bool :=
  state == BitVec.ofNat 32 shutdownAckSent || state == BitVec.ofNat 32 shutdownPending ||
  state == BitVec.ofNat 32 shutdownReceived || state == BitVec.ofNat 32 shutdownSent || state == BitVec.ofNat 32 closed

/-- `OpenStream(si)` + `SetReliabilityParams(unordered, relType, relVal)`; an existing Stream object is kept -/
def openStream (s : St) (si : BitVec 16) (unordered : Bool) (relType : BitVec 8) (relVal : BitVec 32) : St × OpenRes :=
  if openRefused s.state then (s, .closed)
  else
    let s1 : St := { s with snd := Sender.openStream s.snd si unordered relType relVal 0 }
    match s.snd.streams si with
    | some _ => (s1, .ok)
    | none =>
      ({ setRd s1 si { q := Reasm.new si 0 } with
           sstate := fun k => if k = si then (StreamStateOpen : Int) else s.sstate k, sids := s.sids ++ [si] }, .ok)

/-- `Stream.SetReliabilityParams` on an existing Stream object -/
def setRel (s : St) (si : BitVec 16) (unordered : Bool) (relType : BitVec 8) (relVal : BitVec 32) : St :=
  match s.snd.streams si with
  | none => s
  | some st => { s with snd := Sender.setStream s.snd si { st with unordered := unordered, relType := relType, relVal := relVal } }

/-- the clock advances: T3 expiries and RACK/PTO marks (oracles, as in `Sender`), then write deadlines, then read deadlines -/
def tick (s : St) (ms nT3 : Nat) (marks : List (BitVec 32)) : St × List (Nat × WRes) × List (Nat × RRes) :=
  let s1 : St := { s with snd := Sender.step s.snd (.tick ms nT3 marks) }
  let w := expireWaiters s1
  let r := fireTimers w.1 w.1.sids
  (r.1, w.2, r.2)

/-! ## operations (the alphabet the theorems quantify over) -/

inductive Op where
  | setState (n : BitVec 32)
  | openS (si : BitVec 16) (unordered : Bool) (relType : BitVec 8) (relVal : BitVec 32)
  | setRel (si : BitVec 16) (unordered : Bool) (relType : BitVec 8) (relVal : BitVec 32)
  | write (si : BitVec 16) (ppi : BitVec 32) (len : Nat) (dl : Option Nat)
  | gather (orc : Sender.Oracle) (sel : List Nat) (woke : Option Nat)
  | sack (cum arwnd : BitVec 32) (gaps : List (BitVec 16 × BitVec 16)) (marks : List (BitVec 32))
  | t3
  | tick (ms nT3 : Nat) (marks : List (BitVec 32))
  | close (si : BitVec 16)
  | rpush (si : BitVec 16) (c : Reasm.Chunk)
  | read (si : BitVec 16) (buflen : Nat)
  | rdeadline (si : BitVec 16) (at_ : Option Nat)
  | reof (si : BitVec 16)

def step (s : St) : Op → St
  | .setState n => setState s n
  | .openS si u rt rv => (openStream s si u rt rv).1
  | .setRel si u rt rv => setRel s si u rt rv
  | .write si ppi len dl => (write s si ppi len dl).1
  | .gather orc sel woke => (gather s orc sel woke).1
  | .sack cum arwnd gaps marks => { s with snd := (Sender.sack s.snd cum arwnd gaps marks).1 }
  | .t3 => { s with snd := Sender.t3 s.snd }
  | .tick ms n marks => (tick s ms n marks).1
  | .close si => (closeStream s si).1
  | .rpush si c => (rpush s si c).1
  | .read si n => (read s si n).1
  | .rdeadline si t => (rdeadline s si t).1
  | .reof si => (reof s si).1

def run (s : St) : List Op → St
  | [] => s
  | op :: ops => run (step s op) ops

end Sapi
