import SctpVerif.Gen.Consts
import SctpVerif.Gen.Funcs
/-!
# L0 model of `rtoManager` (rtx_timer.go)

`float64` is modelled twice (DESIGN §3): over `Rat` for the theorems and over `Float` (the same
IEEE-754 doubles as Go) for the correspondence driver, which must agree with the Go code bit for
bit. The arithmetic of `setNewRTT`, `reset` and `getRTO` is NOT written here: it is the
translator's output `Gen.rtoManager_*_{Rat,Float}` (regenerated from the Go source on every run,
receiver fields passed by name). Hand-written: the record, `newRTOManager` (a composite
literal, outside the translator's subset) and `setRTO` (a test hook with no non-test caller,
fact `Gen.setRTOSites = []`).

The mutex is not modelled (every method holds it for its whole body).
-/
namespace Rto

/-- the fields of `rtoManager` other than the mutex -/
structure Mgr (α : Type) where
  srtt : α
  rttvar : α
  rto : α
  noUpdate : Bool := false
  rtoMax : α
  deriving Repr

/-! ## `Rat` instance (theorems) -/
namespace R

/-- `newRTOManager(rtoMax)` -/
def new (rtoMax : Rat) : Mgr Rat :=
  { srtt := 0, rttvar := 0, rto := Gen.rtoInitial,
    rtoMax := if rtoMax == 0 then Gen.defaultRTOMax else rtoMax }

/-- `setNewRTT(rtt)`: new manager and the returned srtt -/
def setNewRTT (m : Mgr Rat) (rtt : Rat) : Mgr Rat × Rat :=
  let r := Gen.rtoManager_setNewRTT_Rat (m_srtt := m.srtt) (m_rttvar := m.rttvar) (m_rto := m.rto)
    (m_noUpdate := m.noUpdate) (m_rtoMax := m.rtoMax) (rtt := rtt)
  ({ m with srtt := r.m_srtt, rttvar := r.m_rttvar, rto := r.m_rto }, r.ret)

def getRTO (m : Mgr Rat) : Rat := Gen.rtoManager_getRTO_Rat (m_rto := m.rto)

def reset (m : Mgr Rat) : Mgr Rat :=
  let r := Gen.rtoManager_reset_Rat (m_srtt := m.srtt) (m_rttvar := m.rttvar) (m_rto := m.rto) (m_noUpdate := m.noUpdate)
  { m with srtt := r.m_srtt, rttvar := r.m_rttvar, rto := r.m_rto }

/-- what can happen to a manager in non-test code: a round-trip sample, or `reset()` -/
inductive Op
  | rtt (x : Rat)
  | reset

def apply (m : Mgr Rat) : Op → Mgr Rat
  | .rtt x => (setNewRTT m x).1
  | .reset => reset m

/-- the manager after a sequence of samples / resets -/
def run (m : Mgr Rat) : List Op → Mgr Rat
  | [] => m
  | o :: os => run (apply m o) os

end R

/-! ## `Float` instance (driver) -/
namespace F

def new (rtoMax : Float) : Mgr Float :=
  { srtt := 0, rttvar := 0, rto := Gen.rtoInitial_F,
    rtoMax := if rtoMax == 0 then Gen.defaultRTOMax_F else rtoMax }

def setNewRTT (m : Mgr Float) (rtt : Float) : Mgr Float × Float :=
  let r := Gen.rtoManager_setNewRTT_Float (m_srtt := m.srtt) (m_rttvar := m.rttvar) (m_rto := m.rto)
    (m_noUpdate := m.noUpdate) (m_rtoMax := m.rtoMax) (rtt := rtt)
  ({ m with srtt := r.m_srtt, rttvar := r.m_rttvar, rto := r.m_rto }, r.ret)

def getRTO (m : Mgr Float) : Float := Gen.rtoManager_getRTO_Float (m_rto := m.rto)

def reset (m : Mgr Float) : Mgr Float :=
  let r := Gen.rtoManager_reset_Float (m_srtt := m.srtt) (m_rttvar := m.rttvar) (m_rto := m.rto) (m_noUpdate := m.noUpdate)
  { m with srtt := r.m_srtt, rttvar := r.m_rttvar, rto := r.m_rto }

/-- `setRTO(rto, noUpdate)` (test hook) -/
def setRTO (m : Mgr Float) (rto : Float) (noUpdate : Bool) : Mgr Float := { m with rto := rto, noUpdate := noUpdate }

end F

/-! ## `rtxTimer.calculateNextTimeout`: `time.Duration(timeout) * time.Millisecond`

`time.Duration(x)` truncates the float toward zero; outside the int64 range (and for NaN) the
result is architecture dependent in Go, so the model refuses to predict it (`none`). The
multiplication by 10^6 wraps like Go's int64. -/

def wrap64 (i : Int) : Int :=
  let m := i % (2^64 : Int)
  if m < (2^63 : Int) then m else m - 2^64

/-- nanoseconds of the `n`-th expiry interval of a timer started with `rto` (Float instance). -/
def intervalNsF (rto : Float) (n : Nat) (rtoMax : Float) : Option Int :=
  let x := Gen.calculateNextTimeout_Float rto n rtoMax
  if x.isNaN || x.abs >= 9223372036854775808.0 then none
  else some (wrap64 (x.toInt64.toInt * 1000000))

end Rto
