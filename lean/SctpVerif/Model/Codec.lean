import SctpVerif.Gen.Consts
import SctpVerif.Gen.Funcs
import SctpVerif.Model.Crc
/-!
L0 model of the wire codec of pion/sctp: packet.go, chunkheader.go, chunk_*.go, param*.go,
paramheader.go, error_cause*.go — function by function, branch by branch, quirks included.

Conventions
* bytes are `List (BitVec 8)`; `uintN` is `BitVec N`; Go `int` is `Nat`/`Int`.
* every Go index / slice expression is a *checked* read (`u8At`, `u16At`, `u32At`, `slice`,
  `sliceFrom`): where Go would panic with "index out of range" the model returns `Res.panic`.
  Nothing is totalised; `C03_decode_total` proves the decoder never reaches those outcomes.
* every Go loop is a recursion on explicit fuel; running out of fuel is the outcome `Res.loop`
  ("Go would still be iterating"). `dec` supplies `len/4+1`; `C03_decode_work` proves that is enough.
* offsets are kept exactly as Go keeps them (`offset`, `remaining`), not as list suffixes.
* the decoded structures carry the fields that the Go structs carry and that are observable:
  the chunk-specific fields plus those `chunkHeader` fields which the chunk's `marshal` does not
  overwrite (e.g. `flags` of SACK, `raw` of COOKIE-ACK). Header state that `marshal` overwrites
  (DATA/ABORT/ERROR flags, ECN-capable body, …) is not part of the structure.
* type numbers, cause codes and sizes are the translator-generated `Gen.*` constants.
Core-only (linked into the driver).
-/
namespace Codec

abbrev Byte := BitVec 8
abbrev Bytes := List Byte

/-- error classes = the Go sentinel error that `errors.Is` finds first (see `vCodecErrClass`
in go/harness/codec_test.go for the same table on the Go side). -/
inductive Err
  | ErrPacketRawTooSmall | ErrParseSCTPChunkNotEnoughData | ErrUnmarshalUnknownChunkType | ErrChecksumMismatch
  | ErrChunkHeaderTooSmall | ErrChunkHeaderNotEnoughSpace | ErrChunkHeaderPaddingNonZero
  | ErrChunkValueNotLongEnough | ErrChunkTypeInitFlagZero | ErrChunkTypeInitUnmarshalFailed
  | ErrChunkNotLongEnoughForParams | ErrChunkTypeInitAckFlagZero | ErrInitAckUnmarshalFailed
  | ErrInitChunkParseParamTypeFailed
  | ErrSackSizeNotLargeEnoughInfo | ErrSackSizeNotMatchPredicted
  | ErrHeartbeatNotLongEnoughInfo | ErrParseParamTypeFailed | ErrHeartbeatParam | ErrHeartbeatChunkUnmarshal
  | ErrHeartbeatExtraNonZero | ErrHeartbeatMarshalNoInfo
  | ErrHeartbeatAckParams | ErrHeartbeatAckNotHeartbeatInfo | ErrHeartbeatAckMarshalParam
  | ErrBuildAbortChunkFailed | ErrBuildErrorChunkFailed | ErrInvalidSCTPChunk
  | ErrInvalidChunkSize
  | ErrChunkParseParamTypeFailed | ErrParamTypeUnhandled | ErrParamHeaderTooShort
  | ErrParamHeaderSelfReportedLengthShorter | ErrParamHeaderSelfReportedLengthLonger
  | ErrSSNResetRequestParamTooShort | ErrReconfigRespParamTooShort | ErrZeroChecksumParamTooShort
  | ErrInvalidChunkLength | ErrInvalidAlgorithmType
  | ErrChunkTooShort | ErrMarshalStreamFailed | errIForwardTSNChunkTooShort | errIForwardTSNTooManyStreams
  | ErrChunkPayloadSmall
  deriving DecidableEq, Repr, Inhabited

/-- outcome of a Go function: value, returned error, runtime panic, or still looping when the
fuel ran out. -/
inductive Res (α : Type) where
  | ok (a : α)
  | err (e : Err)
  | panic
  | loop
  deriving Repr, Inhabited, DecidableEq

namespace Res
@[inline] def bind {α β : Type} (x : Res α) (f : α → Res β) : Res β :=
  match x with
  | .ok a => f a
  | .err e => .err e
  | .panic => .panic
  | .loop => .loop
instance : Monad Res where
  pure := .ok
  bind := Res.bind
/-- Go: `if err != nil { return fmt.Errorf("%w: %v", E, err) }` — the class becomes `E` -/
@[inline] def wrap {α : Type} (x : Res α) (e : Err) : Res α :=
  match x with
  | .err _ => .err e
  | r => r
end Res
open Res

/-! ### checked reads (Go index and slice expressions, `encoding/binary`) -/

/-- `b[i]` -/
def u8At (b : Bytes) (i : Nat) : Res Byte :=
  match b.drop i with
  | x :: _ => .ok x
  | [] => .panic
def u16 (x y : Byte) : BitVec 16 := BitVec.ofNat 16 (x.toNat * 256 + y.toNat)
/-- (nested multiplications by 256 on purpose: a product of a symbolic value with a huge literal is
unfolded unary by definitional unfolding) -/
def u32 (a b c d : Byte) : BitVec 32 :=
  BitVec.ofNat 32 (((a.toNat * 256 + b.toNat) * 256 + c.toNat) * 256 + d.toNat)
/-- `binary.BigEndian.Uint16(b[i:])` -/
def u16At (b : Bytes) (i : Nat) : Res (BitVec 16) :=
  match b.drop i with
  | x :: y :: _ => .ok (u16 x y)
  | _ => .panic
/-- `binary.BigEndian.Uint32(b[i:])` -/
def u32At (b : Bytes) (i : Nat) : Res (BitVec 32) :=
  match b.drop i with
  | x :: y :: z :: w :: _ => .ok (u32 x y z w)
  | _ => .panic
/-- `binary.LittleEndian.Uint32(b[i:])` -/
def u32leAt (b : Bytes) (i : Nat) : Res (BitVec 32) :=
  match b.drop i with
  | x :: y :: z :: w :: _ => .ok (u32 w z y x)
  | _ => .panic
/-- `b[i:]` -/
def sliceFrom (b : Bytes) (i : Nat) : Res Bytes :=
  if i ≤ b.length then .ok (b.drop i) else .panic
/-- `b[lo:hi]` -/
def slice (b : Bytes) (lo hi : Nat) : Res Bytes :=
  if lo ≤ hi ∧ hi ≤ b.length then .ok ((b.take hi).drop lo) else .panic

/-! ### writers (`binary.BigEndian.PutUintNN`, `make`) -/
def byteOf (n : Nat) : Byte := BitVec.ofNat 8 n
def be16 (v : BitVec 16) : Bytes := [byteOf (v.toNat / 256), byteOf v.toNat]
def be32 (v : BitVec 32) : Bytes :=
  [byteOf (v.toNat / 256 / 256 / 256), byteOf (v.toNat / 256 / 256), byteOf (v.toNat / 256), byteOf v.toNat]
def le32 (v : BitVec 32) : Bytes :=
  [byteOf v.toNat, byteOf (v.toNat / 256), byteOf (v.toNat / 256 / 256), byteOf (v.toNat / 256 / 256 / 256)]
def zeros (n : Nat) : Bytes := List.replicate n 0#8
/-- Go `uint16(n)` of an `int` -/
def trunc16 (n : Nat) : BitVec 16 := BitVec.ofNat 16 n

/-- `getPadding(n)` (util.go, translator-generated) as a count -/
def pad4 (n : Nat) : Nat := (Gen.getPadding (n : Int)).toNat
/-- `allZero` (chunk_init_common.go) -/
def allZero (b : Bytes) : Bool := b.all (· == 0#8)

/-! ### type numbers (from the translator) -/
def ctData : Byte := byteOf Gen.ctPayloadData
def ctInit : Byte := byteOf Gen.ctInit
def ctInitAck : Byte := byteOf Gen.ctInitAck
def ctSack : Byte := byteOf Gen.ctSack
def ctHeartbeat : Byte := byteOf Gen.ctHeartbeat
def ctHeartbeatAck : Byte := byteOf Gen.ctHeartbeatAck
def ctAbort : Byte := byteOf Gen.ctAbort
def ctShutdown : Byte := byteOf Gen.ctShutdown
def ctShutdownAck : Byte := byteOf Gen.ctShutdownAck
def ctError : Byte := byteOf Gen.ctError
def ctCookieEcho : Byte := byteOf Gen.ctCookieEcho
def ctCookieAck : Byte := byteOf Gen.ctCookieAck
def ctShutdownComplete : Byte := byteOf Gen.ctShutdownComplete
def ctIData : Byte := byteOf Gen.ctIData
def ctReconfig : Byte := byteOf Gen.ctReconfig
def ctForwardTSN : Byte := byteOf Gen.ctForwardTSN
def ctIForwardTSN : Byte := byteOf Gen.ctIForwardTSN

def ptHeartbeatInfo : BitVec 16 := trunc16 Gen.heartbeatInfo
def ptStateCookie : BitVec 16 := trunc16 Gen.stateCookie
def ptOutReset : BitVec 16 := trunc16 Gen.outSSNResetReq
def ptReconfigResp : BitVec 16 := trunc16 Gen.reconfigResp
def ptEcn : BitVec 16 := trunc16 Gen.ecnCapable
def ptZeroChecksum : BitVec 16 := trunc16 Gen.zeroChecksumAcceptable
def ptRandom : BitVec 16 := trunc16 Gen.random
def ptChunkList : BitVec 16 := trunc16 Gen.chunkList
def ptReqHmac : BitVec 16 := trunc16 Gen.reqHMACAlgo
def ptSupportedExt : BitVec 16 := trunc16 Gen.supportedExt
def ptFwdTsnSupp : BitVec 16 := trunc16 Gen.forwardTSNSupp

def ccUnrecognizedChunk : BitVec 16 := trunc16 Gen.unrecognizedChunkType
def ccInvalidMandatory : BitVec 16 := trunc16 Gen.invalidMandatoryParameter
def ccUserAbort : BitVec 16 := trunc16 Gen.userInitiatedAbort
def ccProtocolViolation : BitVec 16 := trunc16 Gen.protocolViolation

/-! ### structures -/

/-- the 11 parameter structs of param_*.go (type-specific fields) -/
inductive Param
  | heartbeatInfo (info : Bytes)
  | stateCookie (cookie : Bytes)
  | outReset (reqSN respSN lastTSN : BitVec 32) (sids : List (BitVec 16))
  | reconfigResp (respSN result : BitVec 32)
  | ecnCapable
  | zeroChecksum (edmid : BitVec 32)
  | random (data : Bytes)
  | chunkList (types : Bytes)
  | reqHmac (algos : List (BitVec 16))
  | supportedExt (types : Bytes)
  | fwdTsnSupported
  deriving DecidableEq, Repr, Inhabited

/-- which Go struct holds the error cause -/
inductive CauseKind
  | hdr | invalidMandatory | unrecognizedChunk | protocolViolation | userAbort
  deriving DecidableEq, Repr, Inhabited

/-- error cause: Go struct kind, `errorCauseHeader.code`, and the kind's data field
(`raw` / `unrecognizedChunk` / `additionalInformation` / `upperLayerAbortReason`) -/
structure Cause where
  kind : CauseKind
  code : BitVec 16
  data : Bytes
  deriving DecidableEq, Repr, Inhabited

structure InitCommon where
  tag : BitVec 32
  arwnd : BitVec 32
  nOut : BitVec 16
  nIn : BitVec 16
  itsn : BitVec 32
  params : List Param
  /-- `unrecognizedParams []paramHeader`: (typ, raw) — decoded, never marshalled -/
  unrec : List (BitVec 16 × Bytes)
  deriving DecidableEq, Repr, Inhabited

inductive Chunk
  | data (iData unordered beginning ending immediate : Bool) (tsn : BitVec 32) (si ssn : BitVec 16)
      (mid fsn ppi : BitVec 32) (userData : Bytes)
  | init (flags : Byte) (c : InitCommon)
  | initAck (flags : Byte) (c : InitCommon)
  | sack (flags : Byte) (cum arwnd : BitVec 32) (gaps : List (BitVec 16 × BitVec 16)) (dups : List (BitVec 32))
  /-- `chunkHeartbeat` with `len(params) ≥ 1` -/
  | heartbeat (params : List Param)
  /-- `chunkHeartbeat` with no params: `marshal` re-emits the stored header as it is -/
  | heartbeatEmpty (typ flags : Byte) (raw : Bytes)
  | heartbeatAck (flags : Byte) (params : List Param)
  | abort (causes : List Cause)
  | error (causes : List Cause)
  | shutdown (flags : Byte) (cum : BitVec 32)
  | shutdownAck (flags : Byte) (raw : Bytes)
  | shutdownComplete (flags : Byte) (raw : Bytes)
  | cookieEcho (flags : Byte) (cookie : Bytes)
  | cookieAck (flags : Byte) (raw : Bytes)
  | reconfig (flags : Byte) (a : Param) (b : Option Param)
  | forwardTsn (flags : Byte) (cum : BitVec 32) (streams : List (BitVec 16 × BitVec 16))
  | iForwardTsn (flags : Byte) (cum : BitVec 32) (streams : List (BitVec 16 × Bool × BitVec 32))
  deriving DecidableEq, Repr, Inhabited

structure Packet where
  sport : BitVec 16
  dport : BitVec 16
  vtag : BitVec 32
  chunks : List Chunk
  deriving DecidableEq, Repr, Inhabited

/-! ## paramheader.go, param*.go -/

/-- `paramHeader.marshal` -/
def paramHeaderMarshal (typ : BitVec 16) (raw : Bytes) : Bytes :=
  be16 typ ++ be16 (trunc16 (Gen.paramHeaderLength + raw.length)) ++ raw

/-- `paramHeader.unmarshal`: (typ, raw, len) -/
def paramHeaderUnmarshal (raw : Bytes) : Res (BitVec 16 × Bytes × Nat) :=
  if raw.length < Gen.paramHeaderLength then .err .ErrParamHeaderTooShort else do
  let l ← u16At raw 2
  let plen := l.toNat
  if plen < Gen.paramHeaderLength then .err .ErrParamHeaderSelfReportedLengthShorter
  else if raw.length < plen then .err .ErrParamHeaderSelfReportedLengthLonger
  else do
    let typ ← u16At raw 0            -- parseParamType(raw[0:]) cannot fail here (len ≥ 4)
    let v ← slice raw Gen.paramHeaderLength plen
    .ok (typ, v, plen)

/-- `marshal` of each param struct -/
def encParam : Param → Bytes
  | .heartbeatInfo i => paramHeaderMarshal ptHeartbeatInfo i
  | .stateCookie c => paramHeaderMarshal ptStateCookie c
  | .outReset a b c sids =>
    paramHeaderMarshal ptOutReset (be32 a ++ be32 b ++ be32 c ++ (sids.map be16).flatten)
  | .reconfigResp sn r => paramHeaderMarshal ptReconfigResp (be32 sn ++ be32 r)
  | .ecnCapable => paramHeaderMarshal ptEcn []
  | .zeroChecksum e => paramHeaderMarshal ptZeroChecksum (be32 e)
  | .random d => paramHeaderMarshal ptRandom d
  | .chunkList t => paramHeaderMarshal ptChunkList t
  | .reqHmac as => paramHeaderMarshal ptReqHmac ((as.map be16).flatten)
  | .supportedExt t => paramHeaderMarshal ptSupportedExt t
  | .fwdTsnSupported => paramHeaderMarshal ptFwdTsnSupp []

/-- `for i := range lim { ids[i] = Uint16(raw[12+2*i:]) }` -/
def readU16s (raw : Bytes) (off : Nat) : Nat → Res (List (BitVec 16))
  | 0 => .ok []
  | n+1 => do
    let x ← u16At raw off
    let xs ← readU16s raw (off + 2) n
    .ok (x :: xs)

/-- `paramRequestedHMACAlgorithm.unmarshal` loop: `for i < len(raw) { …; i += 2 }` -/
def readHmacs (raw : Bytes) : Nat → Nat → Res (List (BitVec 16))
  | 0, _ => .loop
  | fuel+1, i =>
    if i < raw.length then do
      let a ← u16At raw i
      if a.toNat = Gen.hmacSHA128 ∨ a.toNat = Gen.hmacSHA256 then do
        let xs ← readHmacs raw fuel (i + 2)
        .ok (a :: xs)
      else .err .ErrInvalidAlgorithmType
    else .ok []

/-- `buildParam(typ, raw)`: the param and its `length()` (the header's self-reported length) -/
def buildParam (typ : BitVec 16) (raw : Bytes) : Res (Param × Nat) :=
  if typ = ptFwdTsnSupp then do
    let (_, _, n) ← paramHeaderUnmarshal raw; .ok (.fwdTsnSupported, n)
  else if typ = ptSupportedExt then do
    let (_, v, n) ← paramHeaderUnmarshal raw; .ok (.supportedExt v, n)
  else if typ = ptEcn then do
    let (_, _, n) ← paramHeaderUnmarshal raw; .ok (.ecnCapable, n)
  else if typ = ptRandom then do
    let (_, v, n) ← paramHeaderUnmarshal raw; .ok (.random v, n)
  else if typ = ptReqHmac then do
    let (_, v, n) ← paramHeaderUnmarshal raw
    if v.length % 2 = 1 then .err .ErrInvalidChunkLength else do
    let as ← readHmacs v (v.length / 2 + 1) 0
    .ok (.reqHmac as, n)
  else if typ = ptChunkList then do
    let (_, v, n) ← paramHeaderUnmarshal raw; .ok (.chunkList v, n)
  else if typ = ptStateCookie then do
    let (_, v, n) ← paramHeaderUnmarshal raw; .ok (.stateCookie v, n)
  else if typ = ptHeartbeatInfo then do
    let (_, v, n) ← paramHeaderUnmarshal raw; .ok (.heartbeatInfo v, n)
  else if typ = ptOutReset then do
    let (_, v, n) ← paramHeaderUnmarshal raw
    if v.length < Gen.paramOutgoingResetRequestStreamIdentifiersOffset then .err .ErrSSNResetRequestParamTooShort else do
    let a ← u32At v 0
    let b ← u32At v 4
    let c ← u32At v 8
    let lim := (v.length - Gen.paramOutgoingResetRequestStreamIdentifiersOffset) / 2
    let sids ← readU16s v Gen.paramOutgoingResetRequestStreamIdentifiersOffset lim
    .ok (.outReset a b c sids, n)
  else if typ = ptReconfigResp then do
    let (_, v, n) ← paramHeaderUnmarshal raw
    if v.length < 8 then .err .ErrReconfigRespParamTooShort else do
    let sn ← u32At v 0
    let r ← u32At v 4
    .ok (.reconfigResp sn r, n)
  else if typ = ptZeroChecksum then do
    let (_, v, n) ← paramHeaderUnmarshal raw
    if v.length < 4 then .err .ErrZeroChecksumParamTooShort else do
    let e ← u32At v 0
    .ok (.zeroChecksum e, n)
  else .err .ErrParamTypeUnhandled

/-- `parseParamType` -/
def parseParamType (raw : Bytes) : Res (BitVec 16) :=
  if raw.length < 2 then .err .ErrChunkParseParamTypeFailed else u16At raw 0

/-! ## error_cause*.go -/

/-- `errorCauseHeader.marshal`: `e.len = uint16(len(raw)) + 4` wraps; `make([]byte, e.len)` shorter
than 4 makes `PutUint16` panic; `copy` truncates -/
def causeHeaderMarshal (code : BitVec 16) (raw : Bytes) : Res Bytes :=
  let elen : BitVec 16 := trunc16 raw.length + trunc16 Gen.errorCauseHeaderLength
  if elen.toNat < Gen.errorCauseHeaderLength then .panic
  else .ok (be16 code ++ be16 elen ++ raw.take (elen.toNat - Gen.errorCauseHeaderLength))

/-- `marshal` of the five cause structs -/
def encCause (c : Cause) : Res Bytes :=
  match c.kind with
  | .hdr => causeHeaderMarshal c.code c.data
  | .invalidMandatory => causeHeaderMarshal c.code c.data
  | .protocolViolation => causeHeaderMarshal c.code c.data          -- does not set the code
  | .unrecognizedChunk => causeHeaderMarshal ccUnrecognizedChunk c.data
  | .userAbort => causeHeaderMarshal ccUserAbort c.data

/-- `errorCauseHeader.unmarshal`: (code, len, raw) -/
def causeHeaderUnmarshal (raw : Bytes) : Res (BitVec 16 × Nat × Bytes) := do
  let code ← u16At raw 0
  let l ← u16At raw 2
  if l.toNat < Gen.errorCauseHeaderLength ∨ l.toNat > raw.length then .err .ErrInvalidSCTPChunk else do
  let valueLength := (l - trunc16 Gen.errorCauseHeaderLength).toNat
  let v ← slice raw Gen.errorCauseHeaderLength (Gen.errorCauseHeaderLength + valueLength)
  .ok (code, l.toNat, v)

/-- `buildErrorCause`: the cause and its `length()` -/
def buildErrorCause (raw : Bytes) : Res (Cause × Nat) := do
  let c ← u16At raw 0
  let (code, l, v) ← causeHeaderUnmarshal raw
  let kind :=
    if c = ccInvalidMandatory then CauseKind.invalidMandatory
    else if c = ccUnrecognizedChunk then .unrecognizedChunk
    else if c = ccProtocolViolation then .protocolViolation
    else if c = ccUserAbort then .userAbort
    else .hdr
  .ok ({ kind := kind, code := code, data := v }, l)

/-- the cause loop of `chunkAbort.unmarshal` / `chunkError.unmarshal`:
`for len(a.raw)-offset >= 4 { e := buildErrorCause(a.raw[offset:]); offset += e.length() }` -/
def causesLoop (raw : Bytes) : Nat → Nat → Res (List Cause)
  | 0, _ => .loop
  | fuel+1, offset =>
    if (raw.length : Int) - offset ≥ 4 then do
      let r ← sliceFrom raw offset
      let (e, l) ← buildErrorCause r
      let es ← causesLoop raw fuel (offset + l)
      .ok (e :: es)
    else .ok []

def encCauses : List Cause → Res Bytes
  | [] => .ok []
  | c :: cs => do
    let r ← encCause c
    let rs ← encCauses cs
    .ok (r ++ rs)

/-! ## chunkheader.go -/

/-- `chunkHeader.marshal` -/
def chunkHeaderMarshal (typ flags : Byte) (raw : Bytes) : Bytes :=
  [typ, flags] ++ be16 (trunc16 (raw.length + Gen.chunkHeaderSize)) ++ raw

/-- the padding check loop of `chunkHeader.unmarshal`:
`for i := lengthAfterValue; i > 0; i-- { if raw[chunkHeaderSize+valueLength+(i-1)] != 0 {…} }` -/
def paddingLoop (raw : Bytes) (valueLength : Nat) : Nat → Res Unit
  | 0 => .ok ()
  | i+1 => do
    let b ← u8At raw (Gen.chunkHeaderSize + valueLength + i)
    if b ≠ 0#8 then .err .ErrChunkHeaderPaddingNonZero else paddingLoop raw valueLength i

/-- `chunkHeader.unmarshal`: (typ, flags, raw). Note `length - chunkHeaderSize` is a `uint16`
subtraction: a length field below 4 wraps to a value length of 65532…65535. -/
def chunkHeaderUnmarshal (raw : Bytes) : Res (Byte × Byte × Bytes) :=
  if raw.length < Gen.chunkHeaderSize then .err .ErrChunkHeaderTooSmall else do
  let typ ← u8At raw 0
  let flags ← u8At raw 1
  let length ← u16At raw 2
  let valueLength : Nat := (length - trunc16 Gen.chunkHeaderSize).toNat
  let lengthAfterValue : Int := (raw.length : Int) - ((Gen.chunkHeaderSize : Int) + valueLength)
  if lengthAfterValue < 0 then .err .ErrChunkHeaderNotEnoughSpace else do
  if lengthAfterValue < 4 then paddingLoop raw valueLength lengthAfterValue.toNat else pure ()
  let v ← slice raw Gen.chunkHeaderSize (Gen.chunkHeaderSize + valueLength)
  .ok (typ, flags, v)

/-! ## chunk_*.go : decoders (each takes the header fields, i.e. works on `c.raw` only) -/

/-- the parameter loop of `chunkInitCommon.unmarshal` -/
def initParamsLoop (raw : Bytes) : Nat → Nat → Int → Res (List Param × List (BitVec 16 × Bytes))
  | 0, _, _ => .loop
  | fuel+1, offset, remaining =>
    if remaining > 0 then
      if remaining > Gen.initOptionalVarHeaderLength then do
        let r ← sliceFrom raw offset
        let (typ, v, plen) ← (paramHeaderUnmarshal r).wrap .ErrInitChunkParseParamTypeFailed
        let adv := plen + pad4 plen
        match buildParam typ r with
        | .ok (p, _) => do
          let (ps, us) ← initParamsLoop raw fuel (offset + adv) (remaining - adv)
          .ok (p :: ps, us)
        | .err _ => do
          let (ps, us) ← initParamsLoop raw fuel (offset + adv) (remaining - adv)
          .ok (ps, (typ, v) :: us)
        | .panic => .panic
        | .loop => .loop
      else .ok ([], [])
    else .ok ([], [])

/-- `chunkInitCommon.unmarshal` (caller guarantees `len(raw) ≥ 16` — or the reads panic) -/
def initCommonUnmarshal (raw : Bytes) : Res InitCommon := do
  let tag ← u32At raw 0
  let arwnd ← u32At raw 4
  let nOut ← u16At raw 8
  let nIn ← u16At raw 10
  let itsn ← u32At raw 12
  let (ps, us) ← initParamsLoop raw (raw.length / 4 + 1) Gen.initChunkMinLength
                    ((raw.length : Int) - Gen.initChunkMinLength)
  .ok { tag, arwnd, nOut, nIn, itsn, params := ps, unrec := us }

def encParamsPadded : List Param → Bytes
  | [] => []
  | [p] => encParam p
  | p :: ps => let pp := encParam p; pp ++ zeros (pad4 pp.length) ++ encParamsPadded ps

/-- `chunkInitCommon.marshal`: params padded except the last -/
def initCommonMarshal (c : InitCommon) : Bytes :=
  be32 c.tag ++ be32 c.arwnd ++ be16 c.nOut ++ be16 c.nIn ++ be32 c.itsn ++ encParamsPadded c.params

def decInit (ack : Bool) (flags : Byte) (raw : Bytes) : Res Chunk :=
  if raw.length < Gen.initChunkMinLength then
    .err (if ack then .ErrChunkNotLongEnoughForParams else .ErrChunkValueNotLongEnough)
  else if flags ≠ 0#8 then .err (if ack then .ErrChunkTypeInitAckFlagZero else .ErrChunkTypeInitFlagZero)
  else do
    let c ← (initCommonUnmarshal raw).wrap (if ack then .ErrInitAckUnmarshalFailed else .ErrChunkTypeInitUnmarshalFailed)
    .ok (if ack then .initAck flags c else .init flags c)

def readGaps (raw : Bytes) (off : Nat) : Nat → Res (List (BitVec 16 × BitVec 16))
  | 0 => .ok []
  | n+1 => do
    let s ← u16At raw off
    let e ← u16At raw (off + 2)
    let r ← readGaps raw (off + 4) n
    .ok ((s, e) :: r)

def readU32s (raw : Bytes) (off : Nat) : Nat → Res (List (BitVec 32))
  | 0 => .ok []
  | n+1 => do
    let x ← u32At raw off
    let xs ← readU32s raw (off + 4) n
    .ok (x :: xs)

/-- `chunkSelectiveAck.unmarshal` -/
def decSack (flags : Byte) (raw : Bytes) : Res Chunk :=
  if raw.length < Gen.selectiveAckHeaderSize then .err .ErrSackSizeNotLargeEnoughInfo else do
  let cum ← u32At raw 0
  let arwnd ← u32At raw 4
  let ng ← u16At raw 8
  let nd ← u16At raw 10
  if raw.length ≠ Gen.selectiveAckHeaderSize + (4 * ng.toNat + 4 * nd.toNat) then .err .ErrSackSizeNotMatchPredicted else do
  let gaps ← readGaps raw Gen.selectiveAckHeaderSize ng.toNat
  let dups ← readU32s raw (Gen.selectiveAckHeaderSize + 4 * ng.toNat) nd.toNat
  .ok (.sack flags cum arwnd gaps dups)

/-- the common body of `chunkHeartbeat.unmarshal` / `chunkHeartbeatAck.unmarshal` after the
empty-value case; `eShort`, `eHdr`, `eNotInfo`, `eBuild` are the error classes of the two variants -/
def decHeartbeatParam (raw : Bytes) (eShort eHdr eNotInfo eBuild : Err) : Res Param :=
  if raw.length < Gen.initOptionalVarHeaderLength then .err eShort else do
  let pType ← (parseParamType raw).wrap eHdr
  if pType ≠ ptHeartbeatInfo then .err eNotInfo else do
  let (_, _, plen) ← (paramHeaderUnmarshal raw).wrap eHdr
  if plen < Gen.initOptionalVarHeaderLength ∨ plen > raw.length then .err eShort else do
  let r ← slice raw 0 plen
  let (p, _) ← (buildParam pType r).wrap eBuild
  let rem ← sliceFrom raw plen
  if rem.length > 0 ∧ !allZero rem then .err .ErrHeartbeatExtraNonZero else
  .ok p

def decHeartbeat (typ flags : Byte) (raw : Bytes) : Res Chunk :=
  if raw.length = 0 then .ok (.heartbeatEmpty typ flags raw) else do
  let p ← decHeartbeatParam raw .ErrHeartbeatNotLongEnoughInfo .ErrParseParamTypeFailed .ErrHeartbeatParam .ErrHeartbeatChunkUnmarshal
  .ok (.heartbeat [p])

def decHeartbeatAck (flags : Byte) (raw : Bytes) : Res Chunk :=
  if raw.length = 0 then .ok (.heartbeatAck flags []) else do
  let p ← decHeartbeatParam raw .ErrHeartbeatAckParams .ErrHeartbeatAckParams .ErrHeartbeatAckNotHeartbeatInfo .ErrHeartbeatAckMarshalParam
  .ok (.heartbeatAck flags [p])

/-- `chunkReconfig.unmarshal` -/
def decReconfig (flags : Byte) (raw : Bytes) : Res Chunk := do
  let pType ← parseParamType raw
  let (a, alen) ← buildParam pType raw
  let offset := alen + pad4 alen
  if raw.length > offset then do
    let r ← sliceFrom raw offset
    let pType ← parseParamType r
    let (b, _) ← buildParam pType r
    .ok (.reconfig flags a (some b))
  else .ok (.reconfig flags a none)

/-- the stream loop of `chunkForwardTSN.unmarshal` -/
def fwdStreamsLoop (raw : Bytes) : Nat → Nat → Int → Res (List (BitVec 16 × BitVec 16))
  | 0, _, _ => .loop
  | fuel+1, offset, remaining =>
    if remaining > 0 then do
      let r ← sliceFrom raw offset
      if r.length < Gen.forwardTSNStreamLength then .err .ErrMarshalStreamFailed else do
      let id ← u16At r 0
      let sq ← u16At r 2
      let ss ← fwdStreamsLoop raw fuel (offset + Gen.forwardTSNStreamLength) (remaining - Gen.forwardTSNStreamLength)
      .ok ((id, sq) :: ss)
    else .ok []

def decForwardTsn (flags : Byte) (raw : Bytes) : Res Chunk :=
  if raw.length < Gen.newCumulativeTSNLength then .err .ErrChunkTooShort else do
  let cum ← u32At raw 0
  let ss ← fwdStreamsLoop raw (raw.length / 4 + 1) Gen.newCumulativeTSNLength ((raw.length : Int) - Gen.newCumulativeTSNLength)
  .ok (.forwardTsn flags cum ss)

abbrev IStream := BitVec 16 × Bool × BitVec 32

/-- `normalizeIForwardTSNStreams`: first occurrence of each (identifier, unordered) key keeps its
place and ends up with the serial-number maximum of the message identifiers seen for that key -/
def normInsert (acc : List IStream) (s : IStream) : List IStream :=
  match acc with
  | [] => [s]
  | a :: rest =>
    if a.1 = s.1 ∧ a.2.1 = s.2.1 then
      (if Gen.sna32LT a.2.2 s.2.2 then (a.1, a.2.1, s.2.2) else a) :: rest
    else a :: normInsert rest s

def normalizeStreams (ss : List IStream) : List IStream :=
  if ss.length < 2 then ss else ss.foldl normInsert []

def readIStreams (raw : Bytes) : Nat → Nat → Res (List IStream)
  | 0, _ => .ok []
  | n+1, i => do
    let offset := Gen.newCumulativeTSNLength + i * Gen.iForwardTSNEntryLength
    let r ← slice raw offset (offset + Gen.iForwardTSNEntryLength)
    let id ← u16At r 0
    let fl ← u16At r 2
    let mid ← u32At r 4
    let ss ← readIStreams raw n (i + 1)
    .ok ((id, fl.toNat % 2 = 1, mid) :: ss)

/-- `chunkIForwardTSN.unmarshal` -/
def decIForwardTsn (flags : Byte) (raw : Bytes) : Res Chunk :=
  if raw.length < Gen.newCumulativeTSNLength then .err .errIForwardTSNChunkTooShort else do
  let cum ← u32At raw 0
  let streamBytes := raw.length - Gen.newCumulativeTSNLength
  if streamBytes % Gen.iForwardTSNEntryLength ≠ 0 then .err .ErrMarshalStreamFailed else do
  let streamCount := streamBytes / Gen.iForwardTSNEntryLength
  if streamCount > Gen.maxIForwardTSNStreams then .err .errIForwardTSNTooManyStreams else do
  let ss ← readIStreams raw streamCount 0
  .ok (.iForwardTsn flags cum (normalizeStreams ss))

def flagBit (flags : Byte) (mask : Nat) : Bool := flags &&& byteOf mask ≠ 0#8

/-- `chunkPayloadData.unmarshal` (DATA and I-DATA) -/
def decData (typ flags : Byte) (raw : Bytes) : Res Chunk :=
  let i := flagBit flags Gen.payloadDataImmediateSACK
  let u := flagBit flags Gen.payloadDataUnorderedBitmask
  let b := flagBit flags Gen.payloadDataBeginingFragmentBitmask
  let e := flagBit flags Gen.payloadDataEndingFragmentBitmask
  if typ = ctData then
    if raw.length < Gen.payloadDataHeaderSize then .err .ErrChunkPayloadSmall else do
    let tsn ← u32At raw 0
    let si ← u16At raw 4
    let ssn ← u16At raw 6
    let ppi ← u32At raw 8
    let ud ← sliceFrom raw Gen.payloadDataHeaderSize
    .ok (.data false u b e i tsn si ssn 0 0 ppi ud)
  else
    if raw.length < Gen.iDataHeaderSize then .err .ErrChunkPayloadSmall else do
    let tsn ← u32At raw 0
    let si ← u16At raw 4
    let mid ← u32At raw 8
    let x ← u32At raw 12
    let ud ← sliceFrom raw Gen.iDataHeaderSize
    .ok (.data true u b e i tsn si (mid.setWidth 16) mid (if b then 0 else x) (if b then x else 0) ud)

/-- the type-specific part of every chunk's `unmarshal`, after `chunkHeader.unmarshal`:
a function of the chunk's own header fields and value only. -/
def decBody (typ flags : Byte) (raw : Bytes) : Res Chunk :=
  if typ = ctInit then decInit false flags raw
  else if typ = ctInitAck then decInit true flags raw
  else if typ = ctAbort then do
    let cs ← (causesLoop raw (raw.length / 4 + 1) 0).wrap .ErrBuildAbortChunkFailed; .ok (.abort cs)
  else if typ = ctCookieEcho then .ok (.cookieEcho flags raw)
  else if typ = ctCookieAck then .ok (.cookieAck flags raw)
  else if typ = ctHeartbeat then decHeartbeat typ flags raw
  else if typ = ctHeartbeatAck then decHeartbeatAck flags raw
  else if typ = ctData ∨ typ = ctIData then decData typ flags raw
  else if typ = ctSack then decSack flags raw
  else if typ = ctReconfig then decReconfig flags raw
  else if typ = ctForwardTSN then decForwardTsn flags raw
  else if typ = ctIForwardTSN then decIForwardTsn flags raw
  else if typ = ctError then do
    let cs ← (causesLoop raw (raw.length / 4 + 1) 0).wrap .ErrBuildErrorChunkFailed; .ok (.error cs)
  else if typ = ctShutdown then
    if raw.length ≠ Gen.cumulativeTSNAckLength then .err .ErrInvalidChunkSize else do
    let cum ← u32At raw 0
    .ok (.shutdown flags cum)
  else if typ = ctShutdownAck then .ok (.shutdownAck flags raw)
  else if typ = ctShutdownComplete then .ok (.shutdownComplete flags raw)
  else .err .ErrUnmarshalUnknownChunkType

/-- the `switch ctype` of `packet.unmarshal` -/
def knownChunkType (t : Byte) : Bool :=
  t = ctInit ∨ t = ctInitAck ∨ t = ctAbort ∨ t = ctCookieEcho ∨ t = ctCookieAck ∨ t = ctHeartbeat ∨
  t = ctHeartbeatAck ∨ t = ctData ∨ t = ctIData ∨ t = ctSack ∨ t = ctReconfig ∨ t = ctForwardTSN ∨
  t = ctIForwardTSN ∨ t = ctError ∨ t = ctShutdown ∨ t = ctShutdownAck ∨ t = ctShutdownComplete

/-- one iteration body of the chunk loop: dispatch on `remaining[0]`, `dataChunk.unmarshal(remaining)`;
returns the chunk and `dataChunk.valueLength()` -/
def decChunk (remaining : Bytes) : Res (Chunk × Nat) := do
  let ctype ← u8At remaining 0
  if !knownChunkType ctype then .err .ErrUnmarshalUnknownChunkType else do
  let (typ, flags, v) ← chunkHeaderUnmarshal remaining
  let c ← decBody typ flags v
  .ok (c, v.length)

/-! ## chunk_*.go : encoders -/

def dataFlags (u b e i : Bool) : Byte :=
  byteOf ((if e then 1 else 0) + (if b then 2 else 0) + (if u then 4 else 0) + (if i then 8 else 0))

/-- each chunk's `marshal()`: header + value, no padding -/
def encChunk : Chunk → Res Bytes
  | .data iData u b e i tsn si ssn mid fsn ppi ud =>
    if iData then
      .ok (chunkHeaderMarshal ctIData (dataFlags u b e i)
        (be32 tsn ++ be16 si ++ be16 0 ++ be32 mid ++ be32 (if b then ppi else fsn) ++ ud))
    else
      .ok (chunkHeaderMarshal ctData (dataFlags u b e i) (be32 tsn ++ be16 si ++ be16 ssn ++ be32 ppi ++ ud))
  | .init flags c => .ok (chunkHeaderMarshal ctInit flags (initCommonMarshal c))
  | .initAck flags c => .ok (chunkHeaderMarshal ctInitAck flags (initCommonMarshal c))
  | .sack flags cum arwnd gaps dups =>
    .ok (chunkHeaderMarshal ctSack flags
      (be32 cum ++ be32 arwnd ++ be16 (trunc16 gaps.length) ++ be16 (trunc16 dups.length)
        ++ (gaps.map fun g => be16 g.1 ++ be16 g.2).flatten ++ (dups.map be32).flatten))
  | .heartbeat params =>
    match params with
    | [] => .ok (chunkHeaderMarshal 0#8 0#8 [])   -- zero-valued header of a hand-built struct
    | [.heartbeatInfo i] => .ok (chunkHeaderMarshal ctHeartbeat 0#8 (encParam (.heartbeatInfo i)))
    | [_] => .err .ErrHeartbeatParam
    | _ => .err .ErrHeartbeatMarshalNoInfo
  | .heartbeatEmpty typ flags raw => .ok (chunkHeaderMarshal typ flags raw)
  | .heartbeatAck flags params =>
    match params with
    | [.heartbeatInfo i] => .ok (chunkHeaderMarshal ctHeartbeatAck flags (encParam (.heartbeatInfo i)))
    | [_] => .err .ErrHeartbeatAckNotHeartbeatInfo
    | _ => .err .ErrHeartbeatAckParams
  | .abort causes => do let r ← encCauses causes; .ok (chunkHeaderMarshal ctAbort 0#8 r)
  | .error causes => do let r ← encCauses causes; .ok (chunkHeaderMarshal ctError 0#8 r)
  | .shutdown flags cum => .ok (chunkHeaderMarshal ctShutdown flags (be32 cum))
  | .shutdownAck flags raw => .ok (chunkHeaderMarshal ctShutdownAck flags raw)
  | .shutdownComplete flags raw => .ok (chunkHeaderMarshal ctShutdownComplete flags raw)
  | .cookieEcho flags cookie => .ok (chunkHeaderMarshal ctCookieEcho flags cookie)
  | .cookieAck flags raw => .ok (chunkHeaderMarshal ctCookieAck flags raw)
  | .reconfig flags a b =>
    let out := encParam a
    let out := match b with
      | some b => out ++ zeros (pad4 out.length) ++ encParam b
      | none => out
    .ok (chunkHeaderMarshal ctReconfig flags out)
  | .forwardTsn flags cum ss =>
    .ok (chunkHeaderMarshal ctForwardTSN flags (be32 cum ++ (ss.map fun s => be16 s.1 ++ be16 s.2).flatten))
  | .iForwardTsn flags cum ss =>
    let ss := normalizeStreams ss
    if ss.length > Gen.maxIForwardTSNStreams then .err .errIForwardTSNTooManyStreams else
    .ok (chunkHeaderMarshal ctIForwardTSN flags
      (be32 cum ++ (ss.map fun s => be16 s.1 ++ be16 (if s.2.1 then 1 else 0) ++ be32 s.2.2).flatten))

/-! ## packet.go -/

/-- `generatePacketChecksum` with the CRC function as a parameter: CRC over raw[0:8], four zero
bytes, raw[12:] (chained `crc32.Update` = CRC of the concatenation). -/
def packetChecksum (crc : Bytes → BitVec 32) (raw : Bytes) : Res (BitVec 32) := do
  let a ← slice raw 0 8
  let b ← sliceFrom raw 12
  .ok (crc (a ++ zeros 4 ++ b))

/-- the chunk loop of `packet.unmarshal`: `for offset < len(raw) { … }` and the final check -/
def chunksLoop (raw : Bytes) : Nat → Nat → Res (List Chunk)
  | 0, _ => .loop
  | fuel+1, offset =>
    if offset < raw.length then do
      let remaining ← sliceFrom raw offset
      if remaining.length < Gen.chunkHeaderSize then .err .ErrParseSCTPChunkNotEnoughData else do
      let (c, vl) ← decChunk remaining
      let cs ← chunksLoop raw fuel (offset + (Gen.chunkHeaderSize + vl + pad4 vl))
      .ok (c :: cs)
    else if offset ≠ raw.length then .err .ErrParseSCTPChunkNotEnoughData
    else .ok []

/-- `packet.unmarshal(doChecksum, raw)` with the CRC function as a parameter -/
def decWith (crc : Bytes → BitVec 32) (doChecksum : Bool) (raw : Bytes) : Res Packet :=
  if raw.length < Gen.packetHeaderSize then .err .ErrPacketRawTooSmall else do
  let offset := Gen.packetHeaderSize
  let doChecksum ←
    if offset + Gen.chunkHeaderSize ≤ raw.length then do
      let t ← u8At raw offset
      pure (if t = ctInit ∨ t = ctCookieEcho then true else doChecksum)
    else pure doChecksum
  let theirs ← u32leAt raw 8
  if theirs ≠ 0#32 ∨ doChecksum then do
    let ours ← packetChecksum crc raw
    if theirs ≠ ours then .err .ErrChecksumMismatch else pure ()
  else pure ()
  let sport ← u16At raw 0
  let dport ← u16At raw 2
  let vtag ← u32At raw 4
  let cs ← chunksLoop raw (raw.length / 4 + 1) offset
  .ok { sport, dport, vtag, chunks := cs }

/-- the chunk loop of `packet.marshal`: append the chunk, then pad to a multiple of 4 of the
whole buffer -/
def encChunks (raw : Bytes) : List Chunk → Res Bytes
  | [] => .ok raw
  | c :: cs => do
    let cr ← encChunk c
    let raw := raw ++ cr
    encChunks (raw ++ zeros (pad4 raw.length)) cs

/-- `raw[8:12] = le32(sum)` -/
def putChecksum (raw : Bytes) (sum : BitVec 32) : Bytes := raw.take 8 ++ le32 sum ++ raw.drop 12

/-- `packet.marshal(doChecksum)` with the CRC function as a parameter -/
def encWith (crc : Bytes → BitVec 32) (doChecksum : Bool) (p : Packet) : Res Bytes := do
  let raw ← encChunks (be16 p.sport ++ be16 p.dport ++ be32 p.vtag ++ zeros 4) p.chunks
  if doChecksum then do
    let s ← packetChecksum crc raw
    .ok (putChecksum raw s)
  else .ok raw

def dec (doChecksum : Bool) (raw : Bytes) : Res Packet := decWith Crc.crc32c doChecksum raw
def enc (doChecksum : Bool) (p : Packet) : Res Bytes := encWith Crc.crc32c doChecksum p

/-! ## association.go: the two wrappers that choose the flag -/

/-- `chunkMandatoryChecksum` -/
def chunkMandatoryChecksum (cs : List Chunk) : Bool :=
  cs.any fun c => match c with
    | .init .. => true
    | .cookieEcho .. => true
    | _ => false

/-- `Association.marshalPacket`: `p.marshal(!a.sendZeroChecksum || chunkMandatoryChecksum(p.chunks))` -/
def marshalPacketWith (crc : Bytes → BitVec 32) (sendZeroChecksum : Bool) (p : Packet) : Res Bytes :=
  encWith crc (!sendZeroChecksum || chunkMandatoryChecksum p.chunks) p
/-- `Association.unmarshalPacket`: `p.unmarshal(!a.recvZeroChecksum, raw)` -/
def unmarshalPacketWith (crc : Bytes → BitVec 32) (recvZeroChecksum : Bool) (raw : Bytes) : Res Packet :=
  decWith crc (!recvZeroChecksum) raw

end Codec
