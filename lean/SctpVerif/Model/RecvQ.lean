import SctpVerif.Gen.Funcs
/-!
L0 model of `receivePayloadQueue` (receive_payload_queue.go), function by function.

* `tsnBitmask []uint64` is modelled bit by bit as `bits : Array Bool` of `64·W` entries; the
  bit of TSN `t` lives at `pos W t = (t/64 % W)·64 + t%64`, which is literally the Go index
  expression `int(tsn/64)%len(q.tsnBitmask), tsn%64`.
* word-level operations (`clearTSNRange` masks, the `TrailingZeros64` scan of
  `getGapAckBlocks`) are modelled by their bit-level meaning; the correspondence check X
  ties them on reachable states.
* serial-number comparisons are the translator-generated `Gen.sna32*`.
Core-only (used by the compiled driver).
-/
namespace RecvQ
open Gen

abbrev TSN := BitVec 32

structure Q where
  tail   : TSN
  size   : Int
  bits   : Array Bool
  dups   : List TSN
  maxOff : TSN
  cum    : TSN
deriving Repr

/-- number of 64-bit words -/
def Q.W (q : Q) : Nat := q.bits.size / 64

/-- Go: `index, offset := int(tsn/64)%len(q.tsnBitmask), tsn%64` flattened to a bit position. -/
def pos (W : Nat) (t : TSN) : Nat := (t.toNat / 64 % W) * 64 + t.toNat % 64

def getBit (b : Array Bool) (i : Nat) : Bool := b.getD i false
def setBit (b : Array Bool) (i : Nat) (v : Bool) : Array Bool := b.setIfInBounds i v

/-- Go: `newReceivePayloadQueue` — the admission bound is rounded up to a multiple of 64 and the
bitmap gets `Gen.tsnBitmaskWords` words (a power of two, so that the ring index is continuous
across the 2^32 wrap). -/
def new (maxOff : TSN) : Q :=
  let m : TSN := ((maxOff + 63#32) / 64#32) * 64#32
  { tail := 0, size := 0, bits := Array.replicate (64 * (tsnBitmaskWords m).toNat) false,
    dups := [], maxOff := m, cum := 0 }

def init (q : Q) (c : TSN) : Q :=
  { q with cum := c, tail := c, size := 0, bits := Array.replicate q.bits.size false, dups := [] }

def hasChunk (q : Q) (t : TSN) : Bool :=
  if q.size == 0 || sna32LTE t q.cum || sna32GT t q.tail then false
  else getBit q.bits (pos q.W t)

def canPush (q : Q) (t : TSN) : Bool :=
  if hasChunk q t || sna32LTE t q.cum || sna32GT t (q.cum + q.maxOff) then false else true

def push (q : Q) (t : TSN) : Q × Bool :=
  if sna32GT t (q.cum + q.maxOff) then (q, false)
  else if sna32LTE t q.cum || hasChunk q t then ({ q with dups := q.dups ++ [t] }, false)
  else
    ({ q with bits := setBit q.bits (pos q.W t) true, size := q.size + 1,
              tail := if sna32GT t q.tail then t else q.tail }, true)

def pop (q : Q) (force : Bool) : Q × Bool :=
  let t := q.cum + 1
  if hasChunk q t then
    ({ q with bits := setBit q.bits (pos q.W t) false, size := q.size - 1, cum := q.cum + 1 }, true)
  else if force then
    let c := q.cum + 1
    ({ q with cum := c, tail := if q.size == 0 then c else q.tail }, false)
  else (q, false)

/-- Go: `clearTSNRange(start, end)`: clears the `end-start+1` (mod 2^32) bits from `start` on and
subtracts the number of bits that were set. Bit-level meaning of the masked word loop. -/
def clearRange (W : Nat) (bits : Array Bool) (size : Int) (start : TSN) : Nat → Array Bool × Int
  | 0 => (bits, size)
  | n+1 =>
    let p := pos W start
    let size' := if getBit bits p then size - 1 else size
    clearRange W (setBit bits p false) size' (start + 1) n

def advance (q : Q) (c : TSN) : Q :=
  if !sna32LT q.cum c then q
  else if q.size == 0 || sna32LTE q.tail c then
    { q with bits := Array.replicate q.bits.size false, size := 0, cum := c, tail := c }
  else
    let (b, s) := clearRange q.W q.bits q.size (q.cum + 1) (c - (q.cum + 1) + 1).toNat
    { q with bits := b, size := s, cum := c, tail := if s == 0 then c else q.tail }

def popDuplicates (q : Q) : Q × List TSN := ({ q with dups := [] }, q.dups)

/-- Go: `getGapAckBlocks` — maximal runs of set bits among TSNs `cum+1 … tail`, as 16-bit offsets.
`d` is the offset being examined, `n` how many remain, `run` the start of the open run. -/
def gapScan (q : Q) (last : Nat) : Nat → Nat → Option Nat → List (BitVec 16 × BitVec 16)
  | 0, _, _ => []
  | n+1, d, run =>
    let b := getBit q.bits (pos q.W (q.cum + BitVec.ofNat 32 d))
    match run, b with
    | none, false => gapScan q last n (d+1) none
    | none, true =>
      if d == last then [(BitVec.ofNat 16 d, BitVec.ofNat 16 d)] else gapScan q last n (d+1) (some d)
    | some s, true =>
      if d == last then [(BitVec.ofNat 16 s, BitVec.ofNat 16 d)] else gapScan q last n (d+1) (some s)
    | some s, false => (BitVec.ofNat 16 s, BitVec.ofNat 16 (d-1)) :: gapScan q last n (d+1) none

def gaps (q : Q) : List (BitVec 16 × BitVec 16) :=
  if q.size == 0 then []
  else
    let last := (q.tail - q.cum).toNat
    -- Go's loop `for tsn := cum+1; sna32LTE(tsn, tail)` does not run when tail is not after cum
    if sna32LTE (q.cum + 1) q.tail then gapScan q last last 1 none else []

def lastTSN (q : Q) : Option TSN := if q.size == 0 then none else some q.tail

end RecvQ
