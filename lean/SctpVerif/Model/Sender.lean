import SctpVerif.Gen.Funcs
/-!
# L0 model of the SENDER half of an association (association.go send/ack paths, payload_queue.go,
queue.go, stream.go write half). Core-only, executable, total.

Mirrors, function by function:

* `Stream.WriteSCTP` / `packetize` / `Association.sendPayloadData`   → `write` (`packetize`, `rollback`, `pushPending`)
* `gatherOutbound` (data part, state established)                    → `gather` =
  `getDataPacketsToRetransmit` → `gatherRtx` (`scanLoop` with `rtxDecide` / `rtxUpd`),
  `popPendingDataChunksToSend` + `movePendingDataChunkToInflightQueue` → `gatherNew` (`popLoop` with `popDecide`,
  `admitChunk` = `chargeSend` + `move`; `probe` with `admitProbe` = `chargeProbe` + `move`),
  `gatherOutboundFastRetransmissionPackets` → `gatherFast` (`scanLoop` with `fastDecide` / `fastUpd`),
  the shared "fits the packet? budget?" tail of the three loops → `packAllow`,
  `bundleDataChunksIntoPackets` → `bundle`, `packet.marshal` length → `marshalLen`
* `handleSack` → `sack` = `processAcknowledgement` (`validate`, then `ackPhase` = `popCum`, `markGaps`, `ackApply` =
  cumulative point, `onCumAdvanced`, `releaseAll` = `Stream.onBufferReleased` per stream), `setPeerWindow` (rwnd),
  `processFastRetransmission` → `fastRetransCheck` (`frLoop` / `missLoop`, `frPost`),
  `finishAcknowledgement` PR part → `prStep` (`advancePeerAck` / `advLoop`), RACK marks → `applyMarks`
* `onRetransmissionTimeout(T3)` → `t3` (`markAllToRetransmit`)
* `gatherOutboundForwardTSNPackets` / `createForwardTSN` / `createIForwardTSN` → `fwdOut` (`forwardTSN`, `iForwardTSN` over `fwdChunks`)
* `payloadQueue` (`pushNoCheck/pop/get/markAsAcked/markAllToRetrasmit/getNumBytes`) → the list `inflight`
  with the byte counter `infBytes`; `get` is by offset from the front chunk's TSN exactly as in the code.
  The ring buffer of queue.go is represented by the list of its live elements.

Arithmetic: `uint32`/`uint16`/`uint64` are `BitVec`, Go `int` is `Int`, `len(x)` is `Nat`. The window tests,
window updates and congestion formulas are NOT re-typed here: they are the `Gen.*` defs the translator
regenerates from those very expressions on every run (go/extract/exprs.go).

Oracles (DESIGN §2.1) — inputs of the transitions, theorems quantify over all of them:
* `Oracle` (`allow`): the TLR burst budget `tlrAllowSendLocked`, as an arbitrary state machine asked once
  per candidate chunk with the estimated bytes (`tlrAllow` below is the real one, used by the driver);
* `sel`: which pending chunk `pendingQueue.peek()` returns (index into `pending`, the pending queue is
  modelled elsewhere); `peek` is idempotent until the chunk is popped;
* `marks`: the TSNs RACK / PTO marked for retransmission (`onRackAfterSACK`, `onRackTimeoutLocked`,
  `onPTOTimerLocked`), applied to chunks that are neither acked nor abandoned, as the code does;
* `nT3` of `tick`: how many T3 expiries the timers produced while the clock advanced.

Simplifications, all behaviour-preserving: the "start a new packet and retry this chunk" `continue` of the three
gather loops is inlined (`bip0`); Go map iteration over `bytesAckedPerStream` is a list in first-touch order (the
per-stream releases commute); `blockWrite` is false (not modelled); RTT measurement, RACK bookkeeping and timers
are not state of this model. SHUTDOWN's cumulative ack (`processShutdownAcknowledgement`) is not an op here.

Ghost fields (no influence on behaviour): `lastArwnd`, `wrapWin`, `wrapBuf`, `clamped`, `Admit` records.
-/
namespace Sender
open Gen

/-! ## configuration, chunks, streams, state -/

structure Cfg where
  mtu : BitVec 32
  minCwnd : BitVec 32 := 0
  fastRtxWnd : BitVec 32 := 0
  cwndCAStep : BitVec 32 := 0
  useInterleaving : Bool := false      -- a.useInterleaving: chunks are I-DATA
  maxPayload : BitVec 32               -- a.maxPayloadSize
  maxMessageSize : BitVec 32 := 65536
  prEnabled : Bool := true             -- partialReliabilityEnabled() = useForwardTSN || useIForwardTSN
  useIForwardTSN : Bool := false       -- a.useIForwardTSN (negotiated only together with interleaving; implies prEnabled)
  deriving Inhabited

structure Chunk where
  tsn : BitVec 32 := 0
  si : BitVec 16 := 0
  len : Nat := 0                        -- len(userData); emptied by markAsAcked
  msg : Nat := 0                        -- identity of the head fragment (`head` pointer)
  ppi : BitVec 32 := 0
  unordered : Bool := false
  bfrag : Bool := true
  efrag : Bool := true
  ssn : BitVec 16 := 0
  mid : BitVec 32 := 0
  fsn : BitVec 32 := 0
  acked : Bool := false
  retransmit : Bool := false
  nSent : BitVec 32 := 0
  missIndicator : BitVec 32 := 0
  since : Nat := 0                      -- virtual ms of the last (re)transmission
  firstSent : Nat := 0                  -- virtual ms of the first transmission (timed partial reliability counts from here)
  deriving Inhabited, BEq, Repr

structure Stream where
  registered : Bool := true             -- present in a.streams
  unordered : Bool := false
  relType : BitVec 8 := 0
  relVal : BitVec 32 := 0
  buffered : BitVec 64 := 0             -- bufferedAmount
  threshold : BitVec 64 := 0            -- bufferedAmountLow
  hasCb : Bool := true                  -- onBufferedAmountLow != nil
  cbCount : Nat := 0                    -- invocations of the callback (ghost counter)
  ssn : BitVec 16 := 0
  nextOrderedMID : BitVec 32 := 0
  nextUnorderedMID : BitVec 32 := 0
  deriving Inhabited, BEq, Repr, DecidableEq

structure St where
  cfg : Cfg
  established : Bool := true            -- getState() == established (otherwise: a state that neither sends nor accepts SACKs)
  cwnd : BitVec 32
  ssthresh : BitVec 32
  rwnd : BitVec 32
  partialBytesAcked : BitVec 32 := 0
  inFastRecovery : Bool := false
  willRetransmitFast : Bool := false
  fastRecoverExitPoint : BitVec 32 := 0
  cumAck : BitVec 32                    -- cumulativeTSNAckPoint
  advPeerAck : BitVec 32                -- advancedPeerTSNAckPoint
  myNextTSN : BitVec 32
  willSendForwardTSN : Bool := false
  inflight : List Chunk := []
  infBytes : Int := 0                   -- inflightQueue.nBytes
  pending : List Chunk := []            -- push order
  penBytes : Int := 0                   -- pendingQueue.nBytes
  penChunks : Int := 0                  -- pendingQueue.nChunks
  streams : BitVec 16 → Option Stream := fun _ => none
  abandonedMsgs : List Nat := []        -- messages whose head has _abandoned
  allInflightMsgs : List Nat := []      -- messages whose head has _allInflight
  nextMsg : Nat := 0
  now : Nat := 0
  -- ghosts
  lastArwnd : BitVec 32                 -- a_rwnd of the last SACK that was processed (initially the peer's INIT value)
  wrapWin : Bool := false               -- a uint32 window computation left the range where it equals the Nat one
  wrapBuf : Bool := false               -- a uint64 bufferedAmount addition wrapped
  clamped : Bool := false               -- onBufferReleased took its "released more than buffered" branch
  deriving Inhabited

def hdr : Int := (commonHeaderSize : Int)

/-- `chunkPayloadData.chunkSizeInPacket()` (translated); chunks built by `packetize` have `typ = 0`, `iData = useInterleaving` -/
def Chunk.sizeInPacket (il : Bool) (c : Chunk) : Int :=
  chunkPayloadData_chunkSizeInPacket (p_userData_len := (c.len : Int)) (p_iData := il) (p_typ := 0#8)

def Chunk.size (il : Bool) (c : Chunk) : Int :=
  chunkPayloadData_chunkSize (p_userData_len := (c.len : Int)) (p_iData := il) (p_typ := 0#8)

/-- `setCWND` (translated clamp) -/
def setCwnd (s : St) (v : BitVec 32) : BitVec 32 :=
  Association_setCWND (a_cwnd := s.cwnd) (a_minCwnd := s.cfg.minCwnd) (cwnd := v)

/-- `abandoned()`: read through the head fragment -/
def isAbandoned (aband allInf : List Nat) (c : Chunk) : Bool := aband.contains c.msg && allInf.contains c.msg

def St.abandoned (s : St) (c : Chunk) : Bool := isAbandoned s.abandonedMsgs s.allInflightMsgs c

/-- `createAssociationFromConfigWithTsn` + what the handshake fixes (peer a_rwnd ↦ rwnd and ssthresh) -/
def init (cfg : Cfg) (tsn peerRwnd : BitVec 32) : St :=
  { cfg := cfg,
    cwnd := Association_setCWND (a_cwnd := 0) (a_minCwnd := cfg.minCwnd) (cwnd := initialCwnd cfg.mtu),
    ssthresh := peerRwnd, rwnd := peerRwnd, lastArwnd := peerRwnd,
    cumAck := tsn - 1, advPeerAck := tsn - 1, myNextTSN := tsn }

/-! ## payloadQueue -/

/-- `payloadQueue.get`: offset from the front chunk's TSN -/
def get (q : List Chunk) (tsn : BitVec 32) : Option (Nat × Chunk) :=
  match q with
  | [] => none
  | f :: _ =>
    let off := (tsn - f.tsn).toNat
    if off ≥ q.length then none else (q[off]?).map (fun c => (off, c))

def sumLen : List Chunk → Nat
  | [] => 0
  | c :: r => c.len + sumLen r

/-- user bytes of stream `si` held by the chunks of a queue -/
def bytesOf (si : BitVec 16) : List Chunk → Nat
  | [] => 0
  | c :: r => (if c.si = si then c.len else 0) + bytesOf si r

/-! ## write -/

inductive WriteErr | none | tooLarge | notEstablished | noStream | hang
  deriving BEq, Repr, Inhabited, DecidableEq

/-- fragment sizes of `packetize`: `min32(maxPayloadSize, remaining)` until nothing remains
(`fuel` = the remaining bytes: every round takes at least one) -/
def fragAux (mp : Nat) : Nat → Nat → List Nat
  | 0, _ => []
  | fuel+1, remaining =>
    if remaining = 0 ∨ mp = 0 then [] else
      let f := min mp remaining
      f :: fragAux mp fuel (remaining - f)

def fragSizes (mp : Nat) (remaining : Nat) : List Nat := fragAux mp remaining remaining

structure Packetized where
  st : Stream                   -- the stream after packetize (bufferedAmount, SSN/MID counters)
  chunks : List Chunk
  unordered : Bool
  wrap : Bool

def mkChunks (si : BitVec 16) (msg : Nat) (ppi : BitVec 32) (unordered : Bool) (ssn : BitVec 16) (mid : BitVec 32) :
    List Nat → (fsn : BitVec 32) → (first : Bool) → List Chunk
  | [], _, _ => []
  | f :: rest, fsn, first =>
    { si := si, len := f, msg := msg, ppi := ppi, unordered := unordered, bfrag := first, efrag := rest.isEmpty,
      ssn := ssn, mid := mid, fsn := fsn } :: mkChunks si msg ppi unordered ssn mid rest (fsn + 1) false

/-- `Stream.packetize` (needs `maxPayload ≠ 0`, otherwise the Go loop never ends: see `write`) -/
def packetize (cfg : Cfg) (st : Stream) (si : BitVec 16) (msg : Nat) (ppi : BitVec 32) (len : Nat) : Packetized :=
  let unordered := ppi != BitVec.ofNat 32 PayloadTypeWebRTCDCEP && st.unordered
  let il := cfg.useInterleaving
  let mid := if il then (if unordered then st.nextUnorderedMID else st.nextOrderedMID) else 0
  let st1 := if il then (if unordered then { st with nextUnorderedMID := st.nextUnorderedMID + 1 }
                                        else { st with nextOrderedMID := st.nextOrderedMID + 1 }) else st
  let ssn := if il then BitVec.setWidth 16 mid else st.ssn
  let chunks := mkChunks si msg ppi unordered ssn mid (fragSizes cfg.maxPayload.toNat len) 0 true
  let st2 := if !il && !unordered then { st1 with ssn := st1.ssn + 1 } else st1
  { st := { st2 with buffered := st2.buffered + BitVec.ofNat 64 len }, chunks := chunks, unordered := unordered,
    wrap := decide (st2.buffered.toNat + len ≥ 2^64) }

/-- the failure branch of `WriteSCTP` -/
def rollback (cfg : Cfg) (st : Stream) (unordered : Bool) (n : Nat) : Stream :=
  let st1 := { st with buffered := st.buffered - BitVec.ofNat 64 n }
  if cfg.useInterleaving then
    (if unordered then { st1 with nextUnorderedMID := st1.nextUnorderedMID - 1 } else { st1 with nextOrderedMID := st1.nextOrderedMID - 1 })
  else if !unordered then { st1 with ssn := st1.ssn - 1 } else st1

def setStream (s : St) (si : BitVec 16) (st : Stream) : St :=
  { s with streams := fun k => if k = si then some st else s.streams k }

/-- `pendingQueue.push` for every chunk -/
def pushPending (s : St) (cs : List Chunk) : St :=
  { s with pending := s.pending ++ cs, penBytes := s.penBytes + (sumLen cs : Int), penChunks := s.penChunks + (cs.length : Int) }

/-- `Stream.WriteSCTP(payload of len bytes, ppi)`; returns the state, n, the error -/
def write (s : St) (si : BitVec 16) (ppi : BitVec 32) (len : Nat) : St × Nat × WriteErr :=
  match s.streams si with
  | none => (s, 0, .noStream)                          -- no Stream object: nothing to call
  | some st =>
    if len > s.cfg.maxMessageSize.toNat then (s, 0, .tooLarge)
    else if len = 0 then (s, 0, .none)
    else if s.cfg.maxPayload = 0 then (s, 0, .hang)   -- Go: `for remaining != 0` with fragmentSize 0 never terminates
    else
      let p := packetize s.cfg st si s.nextMsg ppi len
      let s1 := { setStream s si p.st with nextMsg := s.nextMsg + 1, wrapBuf := s.wrapBuf || p.wrap }
      if s.established then (pushPending s1 p.chunks, len, .none)
      else (setStream s1 si (rollback s.cfg p.st p.unordered len), 0, .notEstablished)

/-! ## gather -/

/-- the burst-budget oracle: an arbitrary machine asked with the estimated bytes of each candidate -/
structure Oracle where
  B : Type
  b : B
  allow : B → Int → Bool × B

/-- `tlrAllowSendLocked` as it is (state = active, budgetScaled, consumed) -/
def tlrAllow (st : Bool × Int × Bool) (est : Int) : Bool × (Bool × Int × Bool) :=
  let (active, budget, consumed) := st
  if !active then (true, st)
  else if est ≤ 0 then (true, st)
  else
    let need := est * (tlrUnitsPerMTU : Int)
    if consumed && budget < need then (false, st)
    else (true, (active, (if budget - need < 0 then 0 else budget - need), true))

def tlrOracle (active : Bool) (budget : Int) : Oracle := ⟨Bool × Int × Bool, (active, budget, false), tlrAllow⟩

/-- an oracle that always allows -/
def freeOracle : Oracle := ⟨Unit, (), fun _ _ => (true, ())⟩

/-- `checkPartialReliabilityStatus`: returns the new set of abandoned messages -/
def checkPR (s : St) (aband : List Nat) (c : Chunk) : List Nat :=
  if !s.cfg.prEnabled then aband
  else if c.ppi == BitVec.ofNat 32 PayloadTypeWebRTCDCEP then aband
  else match s.streams c.si with
    | none => aband
    | some st =>
      if !st.registered then aband
      else if st.relType == BitVec.ofNat 8 ReliabilityTypeRexmit then
        (if c.nSent ≥ st.relVal then c.msg :: aband else aband)
      else if st.relType == BitVec.ofNat 8 ReliabilityTypeTimed then
        (if s.now - c.firstSent ≥ st.relVal.toNat then c.msg :: aband else aband)
      else aband

/-- bytes in the current packet after the "does not fit: start a new packet and retry" step of the gather loops -/
def bip0 (full : Bool) (bip : Int) : Int := if bip != 0 && full then 0 else bip

/-- what a gather loop does with the chunk it looks at -/
inductive Take (B : Type) where
  | skip                          -- `continue`
  | stop (b : B)                  -- `break` / `return`
  | take (b : B) (bip : Int)      -- send it; `bip` = bytes in the current packet afterwards

/-- the common tail of the three gather loops: MTU bundling bookkeeping, then the burst budget.
`full` = "does not fit behind what the packet already holds", `tooBig` = "does not fit in a packet of its own" -/
def packAllow {B : Type} (allow : B → Int → Bool × B) (b : B) (abip cb : Int) (full tooBig : Bool) : Take B :=
  let bip := bip0 full abip
  if bip == 0 && tooBig then .stop b
  else
    let r := allow b (if bip == 0 then cb + hdr else cb)
    if !r.1 then .stop r.2 else .take r.2 ((if bip == 0 then hdr else bip) + cb)

structure LoopAcc (B : Type) where
  b : B
  bytesToSend : Int := 0
  bip : Int := 0
  size : Int := 0                  -- fastRetransSize
  out : List Chunk := []
  aband : List Nat

/-- the scan `for i := 0; ; i++ { c := get(cumAck+1+i) … }` over the in-flight chunks, shared by
`getDataPacketsToRetransmit` and `gatherOutboundFastRetransmissionPackets`: `dec` decides, `upd` updates a taken chunk -/
def scanLoop {B : Type} (s : St) (dec : Int → LoopAcc B → Chunk → Take B) (upd : Chunk → Chunk) :
    Int → List Chunk → LoopAcc B → List Chunk × LoopAcc B
  | _, [], a => ([], a)
  | i, c :: rest, a =>
    match dec i a c with
    | .skip =>
      let r := scanLoop s dec upd (i+1) rest a
      (c :: r.1, r.2)
    | .stop b => (c :: rest, { a with b := b })
    | .take b bip =>
      let c' := upd c
      let r := scanLoop s dec upd (i+1) rest
        { a with b := b, bytesToSend := a.bytesToSend + (c.len : Int), bip := bip, size := a.size + c.sizeInPacket s.cfg.useInterleaving,
                 out := a.out ++ [c'], aband := checkPR s a.aband c' }
      (c' :: r.1, r.2)

/-- loop body of `getDataPacketsToRetransmit` -/
def rtxDecide {B : Type} (s : St) (allow : B → Int → Bool × B) (awnd : BitVec 32) (i : Int) (a : LoopAcc B) (c : Chunk) : Take B :=
  if !c.retransmit then .skip
  else if isAbandoned a.aband s.allInflightMsgs c then .skip   -- abandoned after it was marked: never sent again (the flag stays)
  else if !(rtx_isProbe i s.rwnd (c.len : Int)) && rtx_exceedsWindow a.bytesToSend (c.len : Int) awnd then .stop a.b
  else
    let cb := c.sizeInPacket s.cfg.useInterleaving
    packAllow allow a.b a.bip cb (rtx_packetFull a.bip cb s.cfg.mtu) (rtx_firstTooBig (cb + hdr) s.cfg.mtu)

def rtxUpd (s : St) (c : Chunk) : Chunk := { c with retransmit := false, nSent := c.nSent + 1, since := s.now }

/-- loop body of `gatherOutboundFastRetransmissionPackets` -/
def fastDecide {B : Type} (s : St) (allow : B → Int → Bool × B) (wnd : Int) (_i : Int) (a : LoopAcc B) (c : Chunk) : Take B :=
  if c.acked || isAbandoned a.aband s.allInflightMsgs c then .skip
  else if fastRtx_skip c.nSent c.missIndicator then .skip
  else
    let cb := c.sizeInPacket s.cfg.useInterleaving
    if fastRtx_exceedsWnd wnd a.size cb then .stop a.b
    else packAllow allow a.b a.bip cb (fastRtx_packetFull a.bip cb s.cfg.mtu) (fastRtx_firstTooBig (cb + hdr) s.cfg.mtu)

def fastUpd (s : St) (c : Chunk) : Chunk := { c with nSent := c.nSent + 1, since := s.now }

/-- the part of the in-flight list the scans `for i := 0; ; i++ { get(cumAck+1+i) … }` visit: from the offset of
`cumAck+1` to the end (nothing when `get` fails at once) -/
def scanSplit (s : St) : List Chunk × List Chunk :=
  match get s.inflight (s.cumAck + 1) with
  | none => (s.inflight, [])
  | some (off, _) => (s.inflight.take off, s.inflight.drop off)

/-- ghost record of one chunk moved from pending to in-flight -/
structure Admit where
  chunk : Chunk
  infBefore : Int          -- inflightQueue.getNumBytes() when it was admitted
  cwnd : BitVec 32
  rwndBefore : BitVec 32
  nInflightBefore : Nat    -- inflightQueue.size()
  probe : Bool
  deriving Inhabited

/-- `pendingQueue.peek()`: the oracle names the index -/
def peek (s : St) (sel : List Nat) : Option (Nat × Chunk) :=
  match sel with
  | [] => none
  | i :: _ => (s.pending[i]?).map (fun c => (i, c))

/-- `pendingQueue.pop(c)` bookkeeping (`nBytes` is clamped at 0 in the code) -/
def popPend (s : St) (i : Nat) (c : Chunk) : St :=
  let nb := s.penBytes - (c.len : Int)
  { s with pending := s.pending.eraseIdx i, penBytes := (if nb < 0 then 0 else nb), penChunks := s.penChunks - 1 }

/-- `movePendingDataChunkToInflightQueue` -/
def move (s : St) (i : Nat) (c : Chunk) : St × Chunk :=
  let s1 := popPend s i c
  let allInf := if c.efrag then c.msg :: s1.allInflightMsgs else s1.allInflightMsgs
  let c' := { c with tsn := s1.myNextTSN, since := s1.now, firstSent := s1.now, nSent := 1 }
  let s2 := { s1 with allInflightMsgs := allInf, myNextTSN := s1.myNextTSN + 1 }
  let aband := checkPR s2 s2.abandonedMsgs c'
  ({ s2 with abandonedMsgs := aband, inflight := s2.inflight ++ [c'], infBytes := s2.infBytes + (c'.len : Int) }, c')

structure PopAcc (B : Type) where
  b : B
  bip : Int := 0
  admits : List Admit := []
  sisToReset : List (BitVec 16) := []

/-- loop body of `popPendingDataChunksToSend` for a chunk with user data (`skip` is not used) -/
def popDecide {B : Type} (s : St) (allow : B → Int → Bool × B) (a : PopAcc B) (c : Chunk) : Take B :=
  let dataLen := BitVec.ofNat 32 c.len
  if popPending_exceedsCwnd s.infBytes dataLen s.cwnd then .stop a.b
  else if popPending_exceedsRwnd dataLen s.rwnd then .stop a.b
  else
    let cb := c.sizeInPacket s.cfg.useInterleaving
    packAllow allow a.b a.bip cb (popPending_packetFull a.bip cb s.cfg.mtu) (popPending_firstTooBig (cb + hdr) s.cfg.mtu)

/-- `a.setRWND(a.RWND() - dataLen)` -/
def chargeSend (s : St) (c : Chunk) : St :=
  { s with rwnd := popPending_rwndAfterSend s.rwnd (BitVec.ofNat 32 c.len),
           wrapWin := s.wrapWin || decide (s.infBytes < 0 ∨ s.infBytes + (c.len : Int) ≥ 2^32) }

/-- charge the peer window, then `movePendingDataChunkToInflightQueue` -/
def admitChunk (s : St) (i : Nat) (c : Chunk) : St × Chunk := move (chargeSend s c) i c

def mkAdmit (s : St) (c' : Chunk) (probe : Bool) : Admit :=
  { chunk := c', infBefore := s.infBytes, cwnd := s.cwnd, rwndBefore := s.rwnd, nInflightBefore := s.inflight.length, probe := probe }

/-- the `for` loop of `popPendingDataChunksToSend` (`fuel` = pending chunks + 1: every iteration that does not end the loop pops one) -/
def popLoop {B : Type} (allow : B → Int → Bool × B) : Nat → St → List Nat → PopAcc B → St × List Nat × PopAcc B
  | 0, s, sel, a => (s, sel, a)
  | fuel+1, s, sel, a =>
    match peek s sel with
    | none => (s, sel, a)
    | some (i, c) =>
      if BitVec.ofNat 32 c.len == 0 then
        popLoop allow fuel (popPend s i c) sel.tail { a with sisToReset := a.sisToReset ++ [c.si] }
      else match popDecide s allow a c with
        | .skip => (s, sel, a)
        | .stop b => (s, sel, { a with b := b })
        | .take b bip =>
          let r := admitChunk s i c
          popLoop allow fuel r.1 sel.tail { a with b := b, bip := bip, admits := a.admits ++ [mkAdmit s r.2 false] }

/-- the probe is charged against the peer window, never below zero -/
def chargeProbe (s : St) (c : Chunk) : St :=
  let dataLen := BitVec.ofNat 32 c.len
  { s with rwnd := (if popPending_probeExhaustsRwnd dataLen s.rwnd then 0 else popPending_rwndAfterProbe s.rwnd dataLen),
           wrapWin := s.wrapWin || decide (c.len ≥ 2^32) }

def admitProbe (s : St) (i : Nat) (c : Chunk) : St × Chunk := move (chargeProbe s c) i c

/-- the zero-window probe of `popPendingDataChunksToSend` -/
def probe {B : Type} (allow : B → Int → Bool × B) (s : St) (sel : List Nat) (a : PopAcc B) : St × List Nat × PopAcc B :=
  if a.admits.isEmpty && s.inflight.length == 0 then
    match peek s sel with
    | none => (s, sel, a)
    | some (i, c) =>
      if c.len > 0 then
        let addBytes := hdr + c.sizeInPacket s.cfg.useInterleaving
        if popPending_probeAllowedSize addBytes s.cfg.mtu true then      -- `&&` short-circuits: the budget is asked only if the size fits
          let r := allow a.b addBytes
          if popPending_probeAllowedSize addBytes s.cfg.mtu r.1 then
            let m := admitProbe s i c
            (m.1, sel.tail, { a with b := r.2, admits := a.admits ++ [mkAdmit s m.2 true] })
          else (s, sel, { a with b := r.2 })
        else (s, sel, a)
      else (s, sel, a)
  else (s, sel, a)

/-- `bundleDataChunksIntoPackets` (note: the flush is unconditional, an empty `chunksToSend` would be emitted) -/
def bundle (mtu : BitVec 32) (il : Bool) : List Chunk → List Chunk → Int → List (List Chunk)
  | [], cur, _ => if cur.isEmpty then [] else [cur]
  | c :: rest, cur, bip =>
    let sz := c.sizeInPacket il
    if bundle_packetFull bip sz mtu then cur :: bundle mtu il rest [c] (hdr + sz)
    else bundle mtu il rest (cur ++ [c]) (bip + sz)

/-- length of `packet.marshal`: 12-byte common header, every chunk (its `chunkSize()` bytes) padded to a multiple of 4 -/
def marshalLen (il : Bool) (p : List Chunk) : Int :=
  p.foldl (fun raw c => let r := raw + c.size il; r + getPadding r) (packetHeaderSize : Int)

/-! ## FORWARD-TSN / I-FORWARD-TSN contents (`createForwardTSN`, `createIForwardTSN`, `gatherOutboundForwardTSNPackets`) -/

/-- the chunks the loop `for i := cumAck+1; sna32LTE(i, advancedPeerTSNAckPoint); i++ { c, ok := get(i); if !ok { break } … }`
of `createForwardTSN` / `createIForwardTSN` visits (fuel = queue length + 1 suffices: consecutive offsets, `get` fails once past the end) -/
def fwdScan (s : St) : Nat → BitVec 32 → List Chunk
  | 0, _ => []
  | fuel+1, i =>
    if sna32LTE i s.advPeerAck then
      match get s.inflight i with
      | none => []
      | some (_, c) => c :: fwdScan s fuel (i + 1)
    else []

def fwdChunks (s : St) : List Chunk := fwdScan s (s.inflight.length + 1) (s.cumAck + 1)

/-- `m[k] = v` unless an entry that is not smaller (`lt old v` false) is there already — "report only once with the greatest";
the Go map is a list in first-touch order (its iteration order is canonicalised before comparison) -/
def upsertMax {K V : Type} [DecidableEq K] (lt : V → V → Bool) : List (K × V) → K → V → List (K × V)
  | [], k, v => [(k, v)]
  | (k', v') :: r, k, v => if k' = k then (k', if lt v' v then v else v') :: r else (k', v') :: upsertMax lt r k v

/-- the stream list of `createForwardTSN`: unordered chunks are not listed (RFC 3758 §3.2), per stream the greatest SSN -/
def fwdStreams : List Chunk → List (BitVec 16 × BitVec 16) → List (BitVec 16 × BitVec 16)
  | [], m => m
  | c :: r, m => fwdStreams r (if c.unordered then m else upsertMax sna16LT m c.si c.ssn)

/-- the two maps of `createIForwardTSN`: per (stream, unordered flag) the greatest MID; key = (stream, unordered) -/
def ifwdStreams : List Chunk → List ((BitVec 16 × Bool) × BitVec 32) → List ((BitVec 16 × Bool) × BitVec 32)
  | [], m => m
  | c :: r, m => ifwdStreams r (upsertMax sna32LT m (c.si, c.unordered) c.mid)

/-- `createForwardTSN`: new cumulative TSN and the (stream, SSN) list -/
def forwardTSN (s : St) : BitVec 32 × List (BitVec 16 × BitVec 16) := (s.advPeerAck, fwdStreams (fwdChunks s) [])

/-- `createIForwardTSN`: new cumulative TSN and the ((stream, unordered), MID) list -/
def iForwardTSN (s : St) : BitVec 32 × List ((BitVec 16 × Bool) × BitVec 32) := (s.advPeerAck, ifwdStreams (fwdChunks s) [])

inductive Fwd where
  | fwd (newCum : BitVec 32) (streams : List (BitVec 16 × BitVec 16))
  | ifwd (newCum : BitVec 32) (streams : List ((BitVec 16 × Bool) × BitVec 32))
  deriving BEq, Repr, Inhabited

/-- `gatherOutboundForwardTSNPackets` (before it clears the flag): the chunk it puts on the wire, if any -/
def fwdOut (s : St) : Option Fwd :=
  if s.willSendForwardTSN && sna32GT s.advPeerAck s.cumAck then
    if s.cfg.useIForwardTSN then some (.ifwd (iForwardTSN s).1 (iForwardTSN s).2)
    else if s.cfg.prEnabled then some (.fwd (forwardTSN s).1 (forwardTSN s).2)
    else none
  else none

structure GatherOut where
  rtx : List (List Chunk) := []      -- packets of getDataPacketsToRetransmit
  fresh : List (List Chunk) := []    -- packets with new DATA
  fast : List (List Chunk) := []     -- fast retransmission packets
  admits : List Admit := []
  sisToReset : List (BitVec 16) := []
  fwd : Option Fwd := none           -- the FORWARD-TSN / I-FORWARD-TSN packet of gatherOutboundForwardTSNPackets

def GatherOut.packets (o : GatherOut) : List (List Chunk) := o.rtx ++ o.fresh ++ o.fast

/-- `getDataPacketsToRetransmit` -/
def gatherRtx (s : St) (orc : Oracle) : St × List Chunk × orc.B :=
  let awnd := rtx_awnd s.cwnd s.rwnd
  let pre := (scanSplit s).1
  let suf := (scanSplit s).2
  let r := scanLoop s (rtxDecide s orc.allow awnd) (rtxUpd s) 0 suf { b := orc.b, aband := s.abandonedMsgs }
  ({ s with inflight := pre ++ r.1, abandonedMsgs := r.2.aband }, r.2.out, r.2.b)

/-- `popPendingDataChunksToSend` -/
def gatherNew {B : Type} (s : St) (allow : B → Int → Bool × B) (b : B) (sel : List Nat) : St × PopAcc B :=
  if s.penChunks > 0 then
    let r1 := popLoop allow (s.pending.length + 1) s sel { b := b }
    let r2 := probe allow r1.1 r1.2.1 r1.2.2
    (r2.1, r2.2.2)
  else (s, { b := b })

/-- `gatherOutboundFastRetransmissionPackets` -/
def gatherFast {B : Type} (s : St) (allow : B → Int → Bool × B) (b : B) : St × List Chunk :=
  if !s.willRetransmitFast then (s, [])
  else
    let s0 := { s with willRetransmitFast := false }
    let pre := (scanSplit s0).1
    let suf := (scanSplit s0).2
    let r := scanLoop s0 (fastDecide s0 allow (fastRtx_wnd s.cfg.mtu s.cfg.fastRtxWnd)) (fastUpd s0) 0 suf { b := b, size := hdr, aband := s.abandonedMsgs }
    ({ s0 with inflight := pre ++ r.1, abandonedMsgs := r.2.aband }, r.2.out)

/-- the DATA part of `gatherOutbound` in state established (retransmissions, new data, fast retransmissions,
then `gatherOutboundForwardTSNPackets` clears its flag); nothing in other states -/
def gather (s : St) (orc : Oracle) (sel : List Nat) : St × GatherOut :=
  if !s.established then (s, {})
  else
    let r1 := gatherRtx s orc
    let r2 := gatherNew r1.1 orc.allow r1.2.2 sel
    let newChunks := r2.2.admits.map (·.chunk)
    let r3 := gatherFast r2.1 orc.allow r2.2.b
    let il := s.cfg.useInterleaving
    ({ r3.1 with willSendForwardTSN := false },
     { rtx := bundle s.cfg.mtu il r1.2.1 [] hdr,
       fresh := if newChunks.isEmpty then [] else bundle s.cfg.mtu il newChunks [] hdr,
       fast := if r3.2.isEmpty then [] else bundle s.cfg.mtu il r3.2 [] hdr,
       admits := r2.2.admits, sisToReset := r2.2.sisToReset, fwd := fwdOut r3.1 })

/-! ## SACK -/

abbrev Rel := List (BitVec 16 × Int)      -- bytesAckedPerStream, first-touch order

def addRel : Rel → BitVec 16 → Int → Rel
  | [], si, n => [(si, n)]
  | (k, v) :: r, si, n => if k = si then (k, v + n) :: r else (k, v) :: addRel r si n

def relTotal : Rel → Int
  | [] => 0
  | (_, v) :: r => v + relTotal r

/-- the validation at the head of `processSelectiveAck`: every error here leaves the state untouched -/
def validate (s : St) (cum : BitVec 32) (gaps : List (BitVec 16 × BitVec 16)) : Bool :=
  (if sna32LT s.cumAck cum then (get s.inflight (s.cumAck + 1)).isSome && (get s.inflight cum).isSome else true) &&
  gaps.all fun (st, en) =>
    st != 0 && decide (st ≤ en) &&
    (get s.inflight (cum + BitVec.setWidth 32 st)).isSome &&
    (if cum + BitVec.setWidth 32 en != cum + BitVec.setWidth 32 st then (get s.inflight (cum + BitVec.setWidth 32 en)).isSome else true)

structure CumAcc where
  infBytes : Int
  rel : Rel
  inFR : Bool

/-- the cumulative-ack `for idx := cumAck+1; sna32LTE(idx, cum); idx++ { pop(idx) … }` loop; `none` = `ErrInflightQueueTSNPop` -/
def popCum (exitPt : BitVec 32) : List Chunk → (idx cum : BitVec 32) → CumAcc → Option (List Chunk × CumAcc)
  | [], idx, cum, a => if sna32LTE idx cum then none else some ([], a)
  | c :: rest, idx, cum, a =>
    if sna32LTE idx cum then
      if c.tsn == idx then
        popCum exitPt rest (idx + 1) cum
          { infBytes := a.infBytes - (c.len : Int),
            rel := if !c.acked then addRel a.rel c.si (c.len : Int) else a.rel,
            inFR := if a.inFR && c.tsn == exitPt then false else a.inFR }
      else none
    else some (c :: rest, a)

structure GapAcc where
  q : List Chunk
  infBytes : Int
  rel : Rel
  htna : BitVec 32

/-- what `payloadQueue.markAsAcked` does to the chunk: acked, not to be retransmitted, payload released -/
def Chunk.markAcked (c : Chunk) : Chunk := { c with acked := true, retransmit := false, len := 0 }

/-- one iteration of the gap-ack inner loop (`get`, `markAsAcked`, htna); `none` = `ErrTSNRequestNotExist` -/
def markOne (a : GapAcc) (tsn : BitVec 32) : Option GapAcc :=
  match get a.q tsn with
  | none => none
  | some (off, c) =>
    let a1 := if !c.acked then
        { a with q := a.q.set off c.markAcked,
                 infBytes := a.infBytes - (c.len : Int), rel := addRel a.rel c.si (c.len : Int) }
      else a
    some { a1 with htna := if sna32LT a1.htna tsn then tsn else a1.htna }

def markRange (cum : BitVec 32) : List Nat → GapAcc → Option GapAcc
  | [], a => some a
  | i :: is, a => match markOne a (cum + BitVec.ofNat 32 i) with
    | none => none
    | some a' => markRange cum is a'

def markGaps (cum : BitVec 32) : List (BitVec 16 × BitVec 16) → GapAcc → Option GapAcc
  | [], a => some a
  | (st, en) :: gs, a => match markRange cum (List.range' st.toNat (en.toNat + 1 - st.toNat)) a with
    | none => none
    | some a' => markGaps cum gs a'

/-- `onCumulativeTSNAckPointAdvanced` (congestion part) -/
def onCumAdvanced (s : St) (total : Int) : St :=
  if cumAck_inSlowStart s.cwnd s.ssthresh then
    if cumAck_slowStartGrows s.inFastRecovery s.penChunks then
      { s with cwnd := setCwnd s (cumAck_slowStartCwndArg s.cwnd total),
               wrapWin := s.wrapWin || decide (total < 0 ∨ total ≥ 2^32 ∨ s.cwnd.toNat + (min32 (BitVec.ofInt 32 total) s.cwnd).toNat ≥ 2^32) }
    else s
  else
    let pba := s.partialBytesAcked + BitVec.ofInt 32 total
    if cumAck_caGrows pba s.cwnd s.penChunks then
      let step := cumAck_caStep s.cfg.mtu s.cfg.cwndCAStep
      { s with partialBytesAcked := pba - s.cwnd, cwnd := setCwnd s (cumAck_caCwndArg s.cwnd step),
               wrapWin := s.wrapWin || decide (s.cwnd.toNat + step.toNat ≥ 2^32) }
    else { s with partialBytesAcked := pba }

/-- `Stream.onBufferReleased`; second component: the clamp branch was taken -/
def release (st : Stream) (n : Int) : Stream × Bool :=
  if n ≤ 0 then (st, false)
  else
    let under := release_underflows st.buffered n
    let b' := if under then 0 else st.buffered - BitVec.ofInt 64 n
    let fire := release_crossesLow st.hasCb st.buffered st.threshold b'
    ({ st with buffered := b', cbCount := st.cbCount + (if fire then 1 else 0) }, under)

/-- `for si, n := range bytesAckedPerStream { if s, ok := a.streams[si]; ok { s.onBufferReleased(n) } }` -/
def releaseAll : Rel → St → St
  | [], s => s
  | (si, n) :: r, s =>
    match s.streams si with
    | none => releaseAll r s
    | some st =>
      if st.registered then
        let (st', cl) := release st n
        releaseAll r { setStream s si st' with clamped := s.clamped || cl }
      else releaseAll r s

/-- the loop of `processFastRetransmission`; `false` = `ErrTSNRequestNotExist` (fuel = queue length + 1 suffices:
consecutive offsets, `get` fails once past the end) -/
def missLoop (htna : BitVec 32) : Nat → St → (tsn maxTSN : BitVec 32) → St × Bool
  | 0, s, _, _ => (s, false)
  | fuel+1, s, tsn, maxTSN =>
    if sna32LT tsn maxTSN then
      match get s.inflight tsn with
      | none => (s, false)
      | some (off, c) =>
        if !c.acked && !s.abandoned c && decide (c.missIndicator < 3) then
          let c' := { c with missIndicator := c.missIndicator + 1 }
          let s1 := { s with inflight := s.inflight.set off c' }
          let s2 := if c'.missIndicator == 3 && !s1.inFastRecovery then
              let ss := fastRecovery_ssthresh s1.cwnd s1.cfg.mtu
              { s1 with inFastRecovery := true, fastRecoverExitPoint := htna, ssthresh := ss,
                        cwnd := setCwnd s1 (fastRecovery_cwndArg ss), partialBytesAcked := 0, willRetransmitFast := true }
            else s1
          missLoop htna fuel s2 (tsn + 1) maxTSN
        else missLoop htna fuel s (tsn + 1) maxTSN
    else (s, true)

/-- first half of `processFastRetransmission`: the miss-indication pass, if this SACK qualifies for one -/
def frLoop (s : St) (cum : BitVec 32) (gaps : List (BitVec 16 × BitVec 16)) (htna : BitVec 32) (advanced : Bool) : St × Bool :=
  if !s.inFastRecovery || (s.inFastRecovery && advanced) then
    missLoop htna (s.inflight.length + 1) s (cum + 1)
      (if !s.inFastRecovery then htna
       else match gaps.getLast? with
        | some (_, en) => cum + BitVec.setWidth 32 en
        | none => cum)
  else (s, true)

/-- second half: `if a.inFastRecovery && cumTSNAckPointAdvanced { a.willRetransmitFast = true }` -/
def frPost (r : St × Bool) (advanced : Bool) : St × Bool :=
  if !r.2 then (r.1, false)
  else (if r.1.inFastRecovery && advanced then { r.1 with willRetransmitFast := true } else r.1, true)

/-- `processFastRetransmission` -/
def fastRetransCheck (s : St) (cum : BitVec 32) (gaps : List (BitVec 16 × BitVec 16)) (htna : BitVec 32) (advanced : Bool) : St × Bool :=
  frPost (frLoop s cum gaps htna advanced) advanced

/-- RFC 3758 C2: advance `advancedPeerTSNAckPoint` over abandoned chunks -/
def advLoop : Nat → St → St
  | 0, s => s
  | fuel+1, s =>
    match get s.inflight (s.advPeerAck + 1) with
    | none => s
    | some (_, c) => if !s.abandoned c then s else advLoop fuel { s with advPeerAck := s.advPeerAck + 1 }

def advancePeerAck (s : St) : St :=
  let s1 := advLoop (s.inflight.length + 1) s
  if sna32GT s1.advPeerAck s1.cumAck then { s1 with willSendForwardTSN := true } else s1

/-- RACK / PTO loss marks (oracle): chunks that are neither acked nor abandoned -/
def applyMarks (s : St) (marks : List (BitVec 32)) : St :=
  { s with inflight := s.inflight.map fun c => if marks.contains c.tsn && !c.acked && !s.abandoned c then { c with retransmit := true } else c }

inductive SackRes | ok | stale | notEstablished | rejected | failedLate
  deriving BEq, Repr, Inhabited, DecidableEq

/-- the end of `processAcknowledgement`: queue and counters as left by the two loops, the cumulative point,
congestion control, then the per-stream releases -/
def ackApply (s : St) (cum : BitVec 32) (g : GapAcc) (inFR : Bool) : St :=
  let s1 := { s with inflight := g.q, infBytes := g.infBytes, inFastRecovery := inFR }
  releaseAll g.rel (if sna32LT s.cumAck cum then onCumAdvanced { s1 with cumAck := cum } (relTotal g.rel) else s1)

/-- `processAcknowledgement` after the validation: pops, gap marks, cumulative point, congestion control, releases.
`none`: an error after the state was already modified (unreachable when the in-flight TSNs are consecutive). -/
def ackPhase (s : St) (cum : BitVec 32) (gaps : List (BitVec 16 × BitVec 16)) : Option (St × BitVec 32 × Bool) :=
  match popCum s.fastRecoverExitPoint s.inflight (s.cumAck + 1) cum { infBytes := s.infBytes, rel := [], inFR := s.inFastRecovery } with
  | none => none
  | some r =>
    match markGaps cum gaps { q := r.1, infBytes := r.2.infBytes, rel := r.2.rel, htna := cum } with
    | none => none
    | some g => some (ackApply s cum g r.2.inFR, g.htna, sna32LT s.cumAck cum)

/-- RFC 4960 6.2.1 D ii): rwnd := a_rwnd − bytes still outstanding (not below zero) -/
def setPeerWindow (s : St) (arwnd : BitVec 32) : St :=
  let bo := BitVec.ofInt 32 s.infBytes
  { s with rwnd := (if sack_windowFull bo arwnd then 0 else sack_rwndArg arwnd bo), lastArwnd := arwnd,
           wrapWin := s.wrapWin || decide (s.infBytes < 0 ∨ s.infBytes ≥ 2^32) }

/-- the partial-reliability part of `finishAcknowledgement` -/
def prStep (s : St) : St :=
  if s.cfg.prEnabled then
    advancePeerAck (if sna32LT s.advPeerAck s.cumAck then { s with advPeerAck := s.cumAck } else s)
  else s

/-- `handleSack` (state established); `marks` = what `onRackAfterSACK` marked lost -/
def sack (s : St) (cum arwnd : BitVec 32) (gaps : List (BitVec 16 × BitVec 16)) (marks : List (BitVec 32)) : St × SackRes :=
  if !s.established then (s, .notEstablished)
  else if sna32GT s.cumAck cum then (s, .stale)
  else if !validate s cum gaps then (s, .rejected)
  else match ackPhase s cum gaps with
    | none => (s, .failedLate)                      -- unreachable from reachable states (`C15_sack_atomic`); the model does not describe the half-updated state
    | some r =>
      let f := fastRetransCheck (setPeerWindow r.1 arwnd) cum gaps r.2.1 r.2.2
      if !f.2 then (f.1, .failedLate)
      else (applyMarks (prStep f.1) marks, .ok)

/-! ## T3 -/

/-- `payloadQueue.markAllToRetrasmit` -/
def markAllToRetransmit (s : St) : List Chunk :=
  s.inflight.map fun c => if c.acked || s.abandoned c then c else { c with retransmit := true }

/-- `onRetransmissionTimeout(timerT3RTX, _)` (does not look at the association state) -/
def t3 (s : St) : St :=
  let s1 := { s with ssthresh := t3_ssthresh s.cwnd s.cfg.mtu, cwnd := setCwnd s (t3_cwndArg s.cfg.mtu) }
  let s2 := if s1.inFastRecovery then
      { s1 with inFastRecovery := false, willRetransmitFast := false, fastRecoverExitPoint := 0, partialBytesAcked := 0 }
    else s1
  let s3 := if s2.cfg.prEnabled then advancePeerAck s2 else s2
  { s3 with inflight := markAllToRetransmit s3 }

/-! ## streams -/

/-- `OpenStream` + `SetReliabilityParams` + `SetBufferedAmountLowThreshold` + `OnBufferedAmountLow` as the harness does:
an existing registered stream keeps its object, otherwise a new object is created and registered -/
def openStream (s : St) (si : BitVec 16) (unordered : Bool) (relType : BitVec 8) (relVal : BitVec 32) (th : BitVec 64) : St :=
  let base : Stream := match s.streams si with
    | some st => if st.registered then st else {}
    | none => {}
  setStream s si { base with unordered := unordered, relType := relType, relVal := relVal, threshold := th, hasCb := true }

/-- `delete(a.streams, si)` (peer reset its direction): the Stream object stays usable by the application -/
def unregister (s : St) (si : BitVec 16) : St :=
  match s.streams si with
  | none => s
  | some st => setStream s si { st with registered := false }

/-! ## operations -/

inductive Op where
  | openS (si : BitVec 16) (unordered : Bool) (relType : BitVec 8) (relVal : BitVec 32) (th : BitVec 64)
  | unreg (si : BitVec 16)
  | setEstablished (b : Bool)
  | write (si : BitVec 16) (ppi : BitVec 32) (len : Nat)
  | gather (orc : Oracle) (sel : List Nat)
  | sack (cum arwnd : BitVec 32) (gaps : List (BitVec 16 × BitVec 16)) (marks : List (BitVec 32))
  | t3
  | tick (ms : Nat) (nT3 : Nat) (marks : List (BitVec 32))

def iter (f : St → St) : Nat → St → St
  | 0, s => s
  | n+1, s => iter f n (f s)

def step (s : St) : Op → St
  | .openS si u rt rv th => openStream s si u rt rv th
  | .unreg si => unregister s si
  | .setEstablished b => { s with established := b }
  | .write si ppi len => (write s si ppi len).1
  | .gather orc sel => (gather s orc sel).1
  | .sack cum arwnd gaps marks => (sack s cum arwnd gaps marks).1
  | .t3 => t3 s
  | .tick ms n marks => applyMarks (iter t3 n { s with now := s.now + ms }) marks

def run (s : St) : List Op → St
  | [] => s
  | op :: ops => run (step s op) ops

end Sender
