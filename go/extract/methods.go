package main

// Method translation: a LISTED method `func (m *T) f(args) R` whose body stays in the
// straight-line subset of funcs.go becomes a Lean def over the receiver's FIELDS:
//
//	def T_f (m_a : A) (m_b : B) … (args) : T_f_Res      -- every field of basic type the body mentions,
//	                                                       in struct declaration order, as parameter `m_<field>`
//	structure T_f_Res where  ret : R;  m_a : A; …        -- the Go result (if any) and the new value of every
//	                                                       field the body assigns
//
// (a method that assigns nothing returns its plain result type). Callers in the models use
// named arguments `(m_a := …)`, and results are projected by field name, so a re-ordering
// of the Go struct cannot silently permute values of equal type. `m.mutex.Lock()`-style
// statements on a receiver field of type sync.Mutex / sync.RWMutex (plain or deferred) are
// skipped: the models are sequential. Anything else outside the subset is a hard error.

import (
	"fmt"
	"go/ast"
	"go/token"
	"go/types"
	"sort"
	"strings"
)

// listed methods ("Recv.name").
var listedMethods = []string{
	"rtoManager.getRTO",
	"rtoManager.setNewRTT",
	"rtoManager.reset",
	// sender half (C10/C15): window accessors and the cwnd clamp, DATA chunk sizes
	"Association.MTU",
	"Association.CWND",
	"Association.RWND",
	"Association.setCWND",
	"Association.setRWND",
	"chunkPayloadData.isIData",
	"chunkPayloadData.chunkSize",
	"chunkPayloadData.chunkSizeInPacket",
}

func (t *ftr) fsuffix() string {
	if t.float == "Float" {
		return "F"
	}
	return ""
}

func (t *ftr) recvIdentName() string { return t.recv.Name() }

// recvField: `m.f` with m the receiver and f a struct field → "m_f".
func (t *ftr) recvField(sel *ast.SelectorExpr) (string, bool) {
	if t.recv == nil {
		return "", false
	}
	id, ok := sel.X.(*ast.Ident)
	if !ok || t.c.info.Uses[id] != t.recv {
		return "", false
	}
	s, ok := t.c.info.Selections[sel]
	if !ok || s.Kind() != types.FieldVal {
		return "", false
	}
	return leanName(id.Name + "_" + sel.Sel.Name), true
}

// isRecvMutexCall: m.<field of type sync.Mutex|sync.RWMutex>.{Lock,Unlock,RLock,RUnlock}()
func (t *ftr) isRecvMutexCall(e ast.Expr) bool {
	call, ok := e.(*ast.CallExpr)
	if !ok || len(call.Args) != 0 || t.recv == nil {
		return false
	}
	meth, ok := call.Fun.(*ast.SelectorExpr)
	if !ok {
		return false
	}
	switch meth.Sel.Name {
	case "Lock", "Unlock", "RLock", "RUnlock":
	default:
		return false
	}
	fld, ok := meth.X.(*ast.SelectorExpr)
	if !ok {
		return false
	}
	id, ok := fld.X.(*ast.Ident)
	if !ok || t.c.info.Uses[id] != t.recv {
		return false
	}
	switch t.typeOf(fld).String() {
	case "sync.Mutex", "sync.RWMutex":
		return true
	}
	return false
}

type mfield struct {
	name    string // Go field name; "<f>#len" for the pseudo field len(m.<f>)
	lty     string // Lean type
	written bool
	order   int // position in the struct declaration (promoted fields after the direct ones)
}

func (f *mfield) lean(recv string) string {
	return leanName(recv + "_" + strings.ReplaceAll(f.name, "#", "_"))
}

// fields of the already translated listed methods (by key): a listed method may call them on its own receiver
var methodFieldCache = map[string][]*mfield{}
var methodRecvName = map[string]string{}
var methodWrites = map[string]bool{}

// atomicAccess: atomic.LoadUintN(&m.f) / atomic.StoreUintN(&m.f, v) on a receiver field → (selector, value or nil)
func (t *ftr) atomicAccess(call *ast.CallExpr) (sel *ast.SelectorExpr, val ast.Expr, store bool, ok bool) {
	fun, isSel := call.Fun.(*ast.SelectorExpr)
	if !isSel {
		return nil, nil, false, false
	}
	id, isID := fun.X.(*ast.Ident)
	if !isID {
		return nil, nil, false, false
	}
	pn, isPkg := t.c.info.Uses[id].(*types.PkgName)
	if !isPkg || pn.Imported().Path() != "sync/atomic" {
		return nil, nil, false, false
	}
	isLoad := strings.HasPrefix(fun.Sel.Name, "LoadUint") || strings.HasPrefix(fun.Sel.Name, "LoadInt")
	isStore := strings.HasPrefix(fun.Sel.Name, "StoreUint") || strings.HasPrefix(fun.Sel.Name, "StoreInt")
	if !(isLoad && len(call.Args) == 1) && !(isStore && len(call.Args) == 2) {
		return nil, nil, false, false
	}
	un, isUn := call.Args[0].(*ast.UnaryExpr)
	if !isUn || un.Op != token.AND {
		return nil, nil, false, false
	}
	s, isS := un.X.(*ast.SelectorExpr)
	if !isS {
		return nil, nil, false, false
	}
	if _, isField := t.recvField(s); !isField {
		return nil, nil, false, false
	}
	if isStore {
		return s, call.Args[1], true, true
	}
	return s, nil, false, true
}

// recvLen: len(m.f) with m the receiver → pseudo field "f#len"
func (t *ftr) recvLen(call *ast.CallExpr) (string, bool) {
	id, ok := call.Fun.(*ast.Ident)
	if !ok || id.Name != "len" || len(call.Args) != 1 {
		return "", false
	}
	if _, isBuiltin := t.c.info.Uses[id].(*types.Builtin); !isBuiltin {
		return "", false
	}
	sel, ok := call.Args[0].(*ast.SelectorExpr)
	if !ok {
		return "", false
	}
	if _, isField := t.recvField(sel); !isField {
		return "", false
	}
	return sel.Sel.Name + "#len", true
}

// recvMethodCall: m.g(args) with m the receiver and T.g an already translated listed method → its key
func (t *ftr) recvMethodCall(call *ast.CallExpr) (string, bool) {
	sel, ok := call.Fun.(*ast.SelectorExpr)
	if !ok || t.recv == nil {
		return "", false
	}
	id, ok := sel.X.(*ast.Ident)
	if !ok || t.c.info.Uses[id] != t.recv {
		return "", false
	}
	s, ok := t.c.info.Selections[sel]
	if !ok || s.Kind() != types.MethodVal {
		return "", false
	}
	rt := t.recv.Type()
	if p, isPtr := rt.(*types.Pointer); isPtr {
		rt = p.Elem()
	}
	nt, ok := rt.(*types.Named)
	if !ok {
		return "", false
	}
	key := nt.Obj().Name() + "." + sel.Sel.Name
	if _, done := methodFieldCache[key]; !done {
		return "", false
	}
	return key, true
}

// methodFields: the basic-typed receiver fields the body mentions (directly, through sync/atomic, as len(m.f),
// or through a call of another listed method on the same receiver), in declaration order.
func (t *ftr) methodFields(fd *ast.FuncDecl, st *types.Struct) []*mfield {
	used := map[string]*mfield{}
	pos := map[string]int{}
	for i := 0; i < st.NumFields(); i++ {
		pos[st.Field(i).Name()] = i
	}
	add := func(name, lty string, w bool) {
		f := used[name]
		if f == nil {
			base := strings.TrimSuffix(name, "#len")
			o, direct := pos[base]
			if !direct {
				o = 1 << 20 // promoted from an embedded struct
			}
			f = &mfield{name: name, lty: lty, order: o}
			used[name] = f
		}
		f.written = f.written || w
	}
	note := func(sel *ast.SelectorExpr, w bool) {
		if _, ok := t.recvField(sel); !ok {
			return
		}
		if _, basic := t.typeOf(sel).Underlying().(*types.Basic); !basic {
			return // mutexes, slices etc.: only legal inside skipped Lock/Unlock statements or len(...)
		}
		add(sel.Sel.Name, t.leanType(sel, t.typeOf(sel)), w)
	}
	ast.Inspect(fd.Body, func(n ast.Node) bool {
		switch x := n.(type) {
		case *ast.AssignStmt:
			for _, l := range x.Lhs {
				if sel, ok := l.(*ast.SelectorExpr); ok {
					note(sel, true)
				}
			}
		case *ast.IncDecStmt:
			t.fail(x, "++/-- not supported in translated methods")
		case *ast.CallExpr:
			if sel, _, store, ok := t.atomicAccess(x); ok {
				note(sel, store)
			}
			if name, ok := t.recvLen(x); ok {
				add(name, "Int", false)
			}
			if key, ok := t.recvMethodCall(x); ok {
				if methodWrites[key] {
					t.fail(x, "call of a listed method that assigns receiver fields")
				}
				for _, f := range methodFieldCache[key] {
					add(f.name, f.lty, false)
				}
			}
		case *ast.SelectorExpr:
			note(x, false)
		}
		return true
	})
	var out []*mfield
	for _, f := range used {
		out = append(out, f)
	}
	sort.Slice(out, func(i, j int) bool {
		if out[i].order != out[j].order {
			return out[i].order < out[j].order
		}
		return out[i].name < out[j].name
	})
	return out
}

func (t *ftr) method(key string, fd *ast.FuncDecl) string {
	if fd.Recv == nil || len(fd.Recv.List) != 1 || len(fd.Recv.List[0].Names) != 1 {
		t.fail(fd, "not a method with a named receiver")
	}
	rid := fd.Recv.List[0].Names[0]
	t.recv = t.c.info.Defs[rid]
	rt := t.recv.Type()
	if p, ok := rt.(*types.Pointer); ok {
		rt = p.Elem()
	}
	st, ok := rt.Underlying().(*types.Struct)
	if !ok {
		t.fail(fd, "receiver is not a struct")
	}
	fields := t.methodFields(fd, st)
	base := strings.ReplaceAll(key, ".", "_")

	var params []string
	for _, f := range fields {
		params = append(params, fmt.Sprintf("(%s : %s)", f.lean(rid.Name), f.lty))
	}
	methodFieldCache[key] = fields
	methodRecvName[key] = rid.Name
	for _, f := range fd.Type.Params.List {
		ty := t.leanType(f, t.typeOf(f.Type))
		for _, n := range f.Names {
			params = append(params, fmt.Sprintf("(%s : %s)", leanName(n.Name), ty))
		}
	}
	// result components: Go results, then written fields
	type comp struct{ name, ty string }
	var comps []comp
	nres := 0
	if fd.Type.Results != nil {
		for _, f := range fd.Type.Results.List {
			k := len(f.Names)
			if k == 0 {
				k = 1
			}
			for i := 0; i < k; i++ {
				name := "ret"
				if nres > 0 {
					name = fmt.Sprintf("ret%d", nres+1)
				}
				comps = append(comps, comp{name, t.leanType(f, t.typeOf(f.Type))})
				nres++
			}
		}
	}
	var written []string
	for _, f := range fields {
		if f.written {
			n := f.lean(rid.Name)
			written = append(written, n)
			comps = append(comps, comp{n, f.lty})
			methodWrites[key] = true
		}
	}
	if len(comps) == 0 {
		t.fail(fd, "method has no result and assigns no field")
	}
	render := func(rs []string) string {
		if len(rs) != nres {
			t.fail(fd, "return arity")
		}
		vals := append(append([]string{}, rs...), written...)
		if len(comps) == 1 {
			return vals[0]
		}
		var parts []string
		for i, c := range comps {
			parts = append(parts, fmt.Sprintf("%s := %s", c.name, vals[i]))
		}
		return "{ " + strings.Join(parts, ", ") + " }"
	}
	t.ret = render
	if nres == 0 {
		t.end = func() string { return render(nil) }
	}
	body := t.stmts(fd.Body.List, "  ")

	name := base
	if t.uses {
		name += "_" + t.float
	}
	var b strings.Builder
	resTy := comps[0].ty
	if len(comps) > 1 {
		resTy = leanName(name + "_Res")
		fmt.Fprintf(&b, "/-- result of `%s`: `ret` = the Go return value, `%s_<field>` = the field's value afterwards -/\nstructure %s where\n", name, rid.Name, resTy)
		for _, c := range comps {
			fmt.Fprintf(&b, "  %s : %s\n", c.name, c.ty)
		}
		b.WriteString("\n")
	}
	fmt.Fprintf(&b, "/-- Go: (%s).%s (%s); receiver fields as parameters -/\ndef %s %s : %s :=\n%s\n",
		recvName(fd.Recv.List[0].Type), fd.Name.Name, t.c.pos(fd), leanName(name), strings.Join(params, " "), resTy, body)
	return b.String()
}

// genMethods is appended to Gen/Funcs.lean.
func (c *ctx) genMethods(b *strings.Builder) {
	for _, key := range listedMethods {
		fd, ok := c.funcs[key]
		if !ok {
			die("listed method %s not found in the source (renamed or removed?)", key)
		}
		emit := func(fl string) (s string, uses bool) {
			t := &ftr{c: c, float: fl, fn: key}
			defer func() {
				if r := recover(); r != nil {
					if u, ok := r.(unsupported); ok {
						die("listed method left the translatable subset: %s", u.msg)
					}
					panic(r)
				}
			}()
			s = t.method(key, fd)
			return s, t.uses
		}
		s, uses := emit("Rat")
		b.WriteString(s + "\n")
		if uses {
			s2, _ := emit("Float")
			b.WriteString(s2 + "\n")
		}
	}
}

var _ = token.ASSIGN
