package main

// Structural facts about the code, emitted as Lean data into Gen/Facts.lean and compared
// with expectations in Props/* by `decide`.
//
// To add a fact kind: collect plain Go values, turn them into Lean terms with the small
// builders below (lstr / llist / ltuple), and register one `fact{name, type, doc, value}`
// in genFacts. Everything is text; the Lean side only ever sees String / Nat / List / ×.

import (
	"fmt"
	"go/ast"
	"go/types"
	"strings"
)

// ---- Lean term builders ----------------------------------------------------------------

func lstr(s string) string { // Lean string literal
	var b strings.Builder
	b.WriteByte('"')
	for _, r := range s {
		switch r {
		case '"':
			b.WriteString("\\\"")
		case '\\':
			b.WriteString("\\\\")
		case '\n':
			b.WriteString("\\n")
		case '\t':
			b.WriteString("\\t")
		default:
			b.WriteRune(r)
		}
	}
	b.WriteByte('"')
	return b.String()
}

func lstrs(xs []string) string {
	ys := make([]string, len(xs))
	for i, x := range xs {
		ys[i] = lstr(x)
	}
	return llist(ys, false)
}

func ltuple(xs ...string) string { return "(" + strings.Join(xs, ", ") + ")" }

// llist renders already-built Lean terms; multi puts one element per line.
func llist(xs []string, multi bool) string {
	if len(xs) == 0 {
		return "[]"
	}
	if !multi {
		return "[" + strings.Join(xs, ", ") + "]"
	}
	return "[\n    " + strings.Join(xs, ",\n    ") + "\n  ]"
}

type fact struct{ name, ty, doc, value string }

func (f fact) lean() string {
	return fmt.Sprintf("/-- %s -/\ndef %s : %s :=\n  %s\n", f.doc, leanName(f.name), f.ty, f.value)
}

// pairsFact: `def name : List (String × String) := [...]`
func pairsFact(name, doc string, ps [][2]string) fact {
	var xs []string
	for _, p := range ps {
		xs = append(xs, ltuple(lstr(p[0]), lstr(p[1])))
	}
	return fact{name, "List (String × String)", doc, llist(xs, true)}
}

// ---- call-site collection ----------------------------------------------------------------

// callSite: one call expression in non-test code with its syntactic context.
type callSite struct {
	fn     string   // enclosing declaration, "name" or "Recv.name"
	recv   string   // text of the receiver expression for method calls ("" for plain functions)
	args   []string // argument expression texts
	guards []string // conditions of the enclosing if / case arms, outermost first; "!(c)" for an else arm
	pos    string
}

func exprText(e ast.Expr) string { return types.ExprString(e) }

// guardsOf derives the guard list from the ancestor stack (outermost first) of a node.
func guardsOf(stack []ast.Node) []string {
	var gs []string
	for i, n := range stack {
		var child ast.Node
		if i+1 < len(stack) {
			child = stack[i+1]
		}
		switch x := n.(type) {
		case *ast.IfStmt:
			switch {
			case child == ast.Node(x.Body):
				gs = append(gs, exprText(x.Cond))
			case x.Else != nil && child == ast.Node(x.Else):
				gs = append(gs, "!("+exprText(x.Cond)+")")
			}
		case *ast.CaseClause:
			inBody := false
			for _, s := range x.Body {
				if child == ast.Node(s) {
					inBody = true
				}
			}
			if !inBody {
				continue
			}
			tag := ""
			if i >= 2 {
				switch sw := stack[i-2].(type) {
				case *ast.SwitchStmt:
					if sw.Tag != nil {
						tag = exprText(sw.Tag) + " == "
					}
				case *ast.TypeSwitchStmt:
					tag = "type "
				}
			}
			if x.List == nil {
				gs = append(gs, tag+"default")
			} else {
				var cs []string
				for _, e := range x.List {
					cs = append(cs, exprText(e))
				}
				gs = append(gs, tag+strings.Join(cs, " | "))
			}
		}
	}
	return gs
}

// callSites returns every call for which match reports true, in source order
// (files sorted by name, then position).
func (c *ctx) callSites(match func(call *ast.CallExpr) bool) []callSite {
	var out []callSite
	for _, f := range c.files {
		for _, d := range f.Decls {
			fd, ok := d.(*ast.FuncDecl)
			if !ok || fd.Body == nil {
				continue
			}
			name := fd.Name.Name
			if fd.Recv != nil && len(fd.Recv.List) == 1 {
				name = recvName(fd.Recv.List[0].Type) + "." + name
			}
			var stack []ast.Node
			ast.Inspect(fd.Body, func(n ast.Node) bool {
				if n == nil {
					stack = stack[:len(stack)-1]
					return true
				}
				if call, ok := n.(*ast.CallExpr); ok && match(call) {
					cs := callSite{fn: name, guards: guardsOf(append(stack, n)), pos: c.pos(call)}
					if sel, ok := call.Fun.(*ast.SelectorExpr); ok {
						cs.recv = exprText(sel.X)
					}
					for _, a := range call.Args {
						cs.args = append(cs.args, exprText(a))
					}
					out = append(out, cs)
				}
				stack = append(stack, n)
				return true
			})
		}
	}
	return out
}

// isFuncCall: call of the package-level function `name`.
func (c *ctx) isFuncCall(call *ast.CallExpr, name string) bool {
	id, ok := call.Fun.(*ast.Ident)
	if !ok {
		return false
	}
	fn, ok := c.info.Uses[id].(*types.Func)
	return ok && fn.Name() == name && fn.Pkg() == c.pkg && fn.Type().(*types.Signature).Recv() == nil
}

// isMethodCall: call of method `meth` declared on (pointer to) the package type `recvType`.
func (c *ctx) isMethodCall(call *ast.CallExpr, recvType, meth string) bool {
	sel, ok := call.Fun.(*ast.SelectorExpr)
	if !ok || sel.Sel.Name != meth {
		return false
	}
	s, ok := c.info.Selections[sel]
	if !ok || s.Kind() != types.MethodVal {
		return false
	}
	fn, ok := s.Obj().(*types.Func)
	if !ok {
		return false
	}
	r := fn.Type().(*types.Signature).Recv()
	if r == nil {
		return false
	}
	t := r.Type()
	if p, ok := t.(*types.Pointer); ok {
		t = p.Elem()
	}
	nt, ok := t.(*types.Named)
	return ok && nt.Obj().Name() == recvType && nt.Obj().Pkg() == c.pkg
}

// guardedSitesFact: `List (String × List String)` = (enclosing function, guards).
func guardedSitesFact(name, doc string, sites []callSite) fact {
	var xs []string
	for _, s := range sites {
		xs = append(xs, ltuple(lstr(s.fn), lstrs(s.guards)))
	}
	return fact{name, "List (String × List String)", doc, llist(xs, true)}
}

// ---- the facts ---------------------------------------------------------------------------

func (c *ctx) timerFacts() []fact {
	var fs []fact

	// 5. rtxTimerSites: which timer gets which retry budget
	var ps [][2]string
	for _, s := range c.callSites(func(call *ast.CallExpr) bool { return c.isFuncCall(call, "newRTXTimer") }) {
		if len(s.args) != 4 {
			die("newRTXTimer call at %s has %d arguments (signature changed?)", s.pos, len(s.args))
		}
		ps = append(ps, [2]string{s.args[0], s.args[2]})
	}
	fs = append(fs, pairsFact("rtxTimerSites",
		"every `newRTXTimer(id, observer, maxRetrans, rtoMax)` call in non-test code: (id argument, maxRetrans argument)", ps))

	// setNewRTT call sites with their guards (Karn's rule)
	fs = append(fs, guardedSitesFact("setNewRTTSites",
		"every `(*rtoManager).setNewRTT` call in non-test code: (enclosing function, conditions of the enclosing if/case arms, outermost first)",
		c.callSites(func(call *ast.CallExpr) bool { return c.isMethodCall(call, "rtoManager", "setNewRTT") })))

	// every start of a retransmission timer: which timer, with which rto argument
	var st []string
	for _, s := range c.callSites(func(call *ast.CallExpr) bool { return c.isMethodCall(call, "rtxTimer", "start") }) {
		st = append(st, ltuple(lstr(s.fn), lstr(s.recv), lstr(strings.Join(s.args, ", "))))
	}
	fs = append(fs, fact{"rtxTimerStartSites", "List (String × String × String)",
		"every `(*rtxTimer).start(rto)` call in non-test code: (enclosing function, receiver, rto argument)", llist(st, true)})

	// the configured maximum handed to the manager and to every timer
	var mx [][2]string
	for _, s := range c.callSites(func(call *ast.CallExpr) bool {
		return c.isFuncCall(call, "newRTOManager") || c.isFuncCall(call, "newRTXTimer")
	}) {
		callee := "newRTXTimer"
		if len(s.args) == 1 {
			callee = "newRTOManager"
		}
		mx = append(mx, [2]string{callee, s.args[len(s.args)-1]})
	}
	fs = append(fs, pairsFact("rtoMaxArgSites",
		"every `newRTOManager(rtoMax)` / `newRTXTimer(…, rtoMax)` call in non-test code: (callee, rtoMax argument)", mx))

	// ack timer start / stop sites with their guards
	fs = append(fs, guardedSitesFact("ackTimerStartSites",
		"every `(*ackTimer).start()` call in non-test code: (enclosing function, guards)",
		c.callSites(func(call *ast.CallExpr) bool { return c.isMethodCall(call, "ackTimer", "start") })))
	fs = append(fs, guardedSitesFact("ackTimerStopSites",
		"every `(*ackTimer).stop()` call in non-test code: (enclosing function, guards)",
		c.callSites(func(call *ast.CallExpr) bool { return c.isMethodCall(call, "ackTimer", "stop") })))

	// setRTO (test hook that can freeze the manager): must have no non-test caller
	fs = append(fs, guardedSitesFact("setRTOSites",
		"every `(*rtoManager).setRTO` call in non-test code (a test hook that can bypass the clamp)",
		c.callSites(func(call *ast.CallExpr) bool { return c.isMethodCall(call, "rtoManager", "setRTO") })))
	return fs
}

func (c *ctx) genFacts() string {
	var b strings.Builder
	b.WriteString("-- GENERATED by /verif/go/extract from /repo on every run. Do not edit; not committed.\n")
	b.WriteString("-- Structural facts about the Go source as Lean data (text of expressions as written in the source).\n")
	b.WriteString("namespace Gen\n\n")
	var facts []fact
	facts = append(facts, c.timerFacts()...)
	facts = append(facts, c.rawSeqCompareFact())
	facts = append(facts, c.stateTestsFact())
	facts = append(facts, c.lockFacts()...)
	facts = append(facts, c.concFacts()...)
	for _, f := range facts {
		b.WriteString(f.lean() + "\n")
	}
	b.WriteString("end Gen\n")
	return b.String()
}
