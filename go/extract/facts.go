package main

func (c *ctx) genFacts() string {
	return "-- GENERATED\nnamespace Gen\nend Gen\n"
}
