package main

// Structural fact: every test of the association state against the state constants, per function, in source order.
// The hand-written L0 models (Hs, Sd, Sender, Receiver …) mirror these guards; the Lean side pins the list for the
// handlers each property depends on, so that a changed guard breaks a proof obligation at once (the correspondence
// harnesses then look for a concrete input).

import (
	"go/ast"
	"go/token"
	"sort"
	"strings"
)

var assocStates = map[string]bool{"closed": true, "cookieWait": true, "cookieEchoed": true, "established": true,
	"shutdownAckSent": true, "shutdownPending": true, "shutdownReceived": true, "shutdownSent": true}

func isStateConst(e ast.Expr) (string, bool) {
	id, ok := e.(*ast.Ident)
	if !ok || !assocStates[id.Name] {
		return "", false
	}
	return id.Name, true
}

func (c *ctx) stateTestsFact() fact {
	type ent struct {
		fn    string
		tests []string
	}
	var ents []ent
	for i, f := range c.files {
		if strings.HasSuffix(c.names[i], "_test.go") {
			continue
		}
		for _, d := range f.Decls {
			fd, ok := d.(*ast.FuncDecl)
			if !ok || fd.Body == nil {
				continue
			}
			name := fd.Name.Name
			if fd.Recv != nil && len(fd.Recv.List) == 1 {
				name = recvName(fd.Recv.List[0].Type) + "." + name
			}
			if name == "getAssociationStateString" {
				continue
			}
			var tests []string
			ast.Inspect(fd.Body, func(n ast.Node) bool {
				switch v := n.(type) {
				case *ast.BinaryExpr:
					if v.Op != token.EQL && v.Op != token.NEQ {
						return true
					}
					if s, ok := isStateConst(v.Y); ok {
						tests = append(tests, exprText(v.X)+" "+v.Op.String()+" "+s)
					} else if s, ok := isStateConst(v.X); ok {
						tests = append(tests, s+" "+v.Op.String()+" "+exprText(v.Y))
					}
				case *ast.CaseClause:
					var names []string
					all := len(v.List) > 0
					for _, e := range v.List {
						s, ok := isStateConst(e)
						if !ok {
							all = false
							break
						}
						names = append(names, s)
					}
					if all {
						tests = append(tests, "case "+strings.Join(names, ","))
					}
				case *ast.CallExpr:
					// setState(x): state transitions are part of the fingerprint
					if c.isMethodCall(v, "Association", "setState") && len(v.Args) == 1 {
						tests = append(tests, "setState "+exprText(v.Args[0]))
					}
				}
				return true
			})
			if len(tests) > 0 {
				ents = append(ents, ent{name, tests})
			}
		}
	}
	sort.Slice(ents, func(i, j int) bool { return ents[i].fn < ents[j].fn })
	var items []string
	for _, e := range ents {
		items = append(items, ltuple(lstr(e.fn), lstrs(e.tests)))
	}
	return fact{"stateTests", "List (String × List String)",
		"per function: every comparison of the association state with a state constant, every `case` over state constants and every setState call, in source order",
		llist(items, true)}
}
