module verif/extract

go 1.24
