package main

// Expression sites: ONE expression inside a large function (an `if` condition, the right-hand
// side of an assignment, the argument of a call) translated into a Lean def of its own, so that
// the hand-written models use the code's arithmetic at that place instead of a re-typed copy.
//
// Inside the expression the operators, conversions, builtin min/max and the listed package
// functions are translated as in funcs.go. Everything else of basic type — a local variable, a
// field (`a.ssthresh`), a method call (`a.CWND()`, `a.inflightQueue.getNumBytes()`), `len(x)` —
// becomes a PARAMETER (a "leaf") named after its source text (`a_CWND`, `a_inflightQueue_getNumBytes`,
// `c_userData_len`), in order of first appearance; models pass them BY NAME. A comparison whose
// operands are not of basic type (`f != nil`) is a Bool leaf as a whole.
//
// time.Time values are `Int` here (nanoseconds on one monotonic clock, zero Time = 0): `t.Add(d)`, `t.Sub(u)`,
// `t.Before(u)`, `t.After(u)`, `t.IsZero()`, `time.Time{}`, `time.Since(t)` are translated to integer arithmetic;
// `time.Now()` is the leaf `time_Now`. `time.Duration(f)` of a float64 truncates toward zero (`Gen.truncR/truncF`),
// `d.Seconds()` is `Gen.durSeconds/durSecondsF`. A site that mentions float64 is emitted twice (`_Rat`, `_Float`).
// A dereferenced pointer of basic type (`*consumed`) is a leaf.
//
// A site is addressed by (function, kind, anchor text, ordinal among the matches, expected number
// of matches; anchors avoid comparison operators so that a changed operator changes the def, not the address): if the number of matches changes the translator fails (the code was restructured);
// if only the expression changes the def changes, and the theorems/models that use it notice.

import (
	"fmt"
	"go/ast"
	"go/token"
	"go/types"
	"strings"
)

type exprSite struct {
	name string // Lean def
	fn   string // "Recv.name" or "name"
	kind string // "cond": if-condition containing anchor; "assign": RHS of `anchor = …` / `anchor := …`; "arg": first argument of the call `anchor(…)`;
	// "kv": value of the composite-literal field `anchor: …`; "ret": the single result of a `return` whose text contains anchor;
	// "for": condition of a `for` containing anchor; "incr": RHS of `anchor += …`
	// "return": as "ret"; "opassign": the NEW value `anchor + …` / `anchor - …` of `anchor += …` / `anchor -= …` (the operator is part of the def)
	anchor string
	index  int // which of the matches (source order)
	count  int // how many matches the function must have
}

var exprSites = []exprSite{
	// admission of new DATA (popPendingDataChunksToSend)
	{"popPending_exceedsCwnd", "Association.popPendingDataChunksToSend", "cond", "a.CWND()", 0, 1},
	{"popPending_exceedsRwnd", "Association.popPendingDataChunksToSend", "cond", "a.RWND()", 0, 2},
	{"popPending_firstTooBig", "Association.popPendingDataChunksToSend", "cond", "addBytes", 0, 3},
	{"popPending_packetFull", "Association.popPendingDataChunksToSend", "cond", "bytesInPacket + chunkBytes", 0, 1},
	{"popPending_rwndAfterSend", "Association.popPendingDataChunksToSend", "arg", "a.setRWND", 0, 3},
	{"popPending_probeAllowedSize", "Association.popPendingDataChunksToSend", "cond", "addBytes", 2, 3},
	{"popPending_probeExhaustsRwnd", "Association.popPendingDataChunksToSend", "cond", "a.RWND()", 1, 2},
	{"popPending_rwndAfterProbe", "Association.popPendingDataChunksToSend", "arg", "a.setRWND", 2, 3},
	// bundling
	{"bundle_packetFull", "Association.bundleDataChunksIntoPackets", "cond", "int(a.MTU())", 0, 1},
	// T3 retransmission gather
	{"rtx_awnd", "Association.getDataPacketsToRetransmit", "assign", "awnd", 0, 1},
	{"rtx_isProbe", "Association.getDataPacketsToRetransmit", "cond", "i == 0", 0, 1},
	{"rtx_exceedsWindow", "Association.getDataPacketsToRetransmit", "cond", "int(awnd)", 0, 1},
	{"rtx_firstTooBig", "Association.getDataPacketsToRetransmit", "cond", "addBytes", 0, 2},
	{"rtx_packetFull", "Association.getDataPacketsToRetransmit", "cond", "bytesInPacket + chunkBytes", 0, 1},
	// fast retransmission gather
	{"fastRtx_wnd", "Association.gatherOutboundFastRetransmissionPackets", "assign", "fastRetransWnd", 0, 1},
	{"fastRtx_skip", "Association.gatherOutboundFastRetransmissionPackets", "cond", "chunkPayload.missIndicator", 0, 1},
	{"fastRtx_exceedsWnd", "Association.gatherOutboundFastRetransmissionPackets", "cond", "fastRetransSize + chunkBytes", 0, 1},
	{"fastRtx_firstTooBig", "Association.gatherOutboundFastRetransmissionPackets", "cond", "addBytes", 0, 2},
	{"fastRtx_packetFull", "Association.gatherOutboundFastRetransmissionPackets", "cond", "bytesInPacket + chunkBytes", 0, 1},
	// congestion control
	{"initialCwnd", "createAssociationFromConfigWithTsn", "arg", "assoc.setCWND", 0, 1},
	{"t3_ssthresh", "Association.onRetransmissionTimeout", "assign", "a.ssthresh", 0, 1},
	{"t3_cwndArg", "Association.onRetransmissionTimeout", "arg", "a.setCWND", 0, 1},
	{"fastRecovery_ssthresh", "Association.processFastRetransmission", "assign", "a.ssthresh", 0, 1},
	{"fastRecovery_cwndArg", "Association.processFastRetransmission", "arg", "a.setCWND", 0, 1},
	{"cumAck_inSlowStart", "Association.onCumulativeTSNAckPointAdvanced", "cond", "a.ssthresh", 0, 1},
	{"cumAck_slowStartGrows", "Association.onCumulativeTSNAckPointAdvanced", "cond", "!a.inFastRecovery", 0, 1},
	{"cumAck_slowStartCwndArg", "Association.onCumulativeTSNAckPointAdvanced", "arg", "a.setCWND", 0, 2},
	{"cumAck_caGrows", "Association.onCumulativeTSNAckPointAdvanced", "cond", "a.partialBytesAcked", 0, 1},
	{"cumAck_caStep", "Association.onCumulativeTSNAckPointAdvanced", "assign", "step", 0, 1},
	{"cumAck_caCwndArg", "Association.onCumulativeTSNAckPointAdvanced", "arg", "a.setCWND", 1, 2},
	// peer window after a SACK
	{"sack_windowFull", "Association.handleSack", "cond", "bytesOutstanding", 0, 1},
	{"sack_rwndArg", "Association.handleSack", "arg", "a.setRWND", 1, 2},
	// buffered amount release
	{"release_underflows", "Stream.onBufferReleased", "cond", "uint64(nBytesReleased)", 0, 1},
	{"release_crossesLow", "Stream.onBufferReleased", "cond", "s.onBufferedAmountLow", 0, 1},
	// stream API (C18 / C06, Model/StreamApi.lean): the tests of WriteSCTP, the decisions of packetize, the state gate and
	// the blocking-write gate of sendPayloadData, the release of blocked writers, the abandonment decision
	{"write_tooLarge", "Stream.WriteSCTP", "cond", "len(payload)", 0, 2},
	{"write_notOpen", "Stream.WriteSCTP", "cond", "s.State()", 0, 1},
	{"write_empty", "Stream.WriteSCTP", "cond", "len(payload)", 1, 2},
	{"packetize_unordered", "Stream.packetize", "assign", "unordered", 0, 1},
	{"packetize_fragmentSize", "Stream.packetize", "assign", "fragmentSize", 0, 1},
	{"packetize_beginning", "Stream.packetize", "kv", "beginningFragment", 0, 1},
	{"packetize_ending", "Stream.packetize", "kv", "endingFragment", 0, 1},
	{"packetize_ssnAdvances", "Stream.packetize", "cond", "!useInterleaving", 0, 1},
	{"send_notEstablished", "Association.sendPayloadData", "cond", "established", 0, 2},
	{"send_notEstablishedAfterWait", "Association.sendPayloadData", "cond", "established", 1, 2},
	{"send_gated", "Association.sendPayloadData", "cond", "a.blockWrite", 0, 1},
	{"send_waits", "Association.sendPayloadData", "for", "a.writePending", 0, 1},
	{"popPending_notifyWritable", "Association.popPendingDataChunksToSend", "cond", "a.blockWrite", 0, 1},
	{"checkPR_disabled", "Association.checkPartialReliabilityStatus", "cond", "a.partialReliabilityEnabled()", 0, 1},
	{"checkPR_isDCEP", "Association.checkPartialReliabilityStatus", "cond", "PayloadTypeWebRTCDCEP", 0, 1},
	{"checkPR_isRexmit", "Association.checkPartialReliabilityStatus", "cond", "ReliabilityTypeRexmit", 0, 1},
	{"checkPR_rexmitExhausted", "Association.checkPartialReliabilityStatus", "cond", "chunkPayload.nSent", 0, 1},
	{"checkPR_isTimed", "Association.checkPartialReliabilityStatus", "cond", "ReliabilityTypeTimed", 0, 1},
	{"checkPR_timedExpired", "Association.checkPartialReliabilityStatus", "cond", "elapsed", 0, 1},
	{"reset_notEstablished", "Association.sendResetRequest", "cond", "established", 0, 1},
	{"close_isOpen", "Stream.Close", "cond", "s.state", 0, 1},
	{"close_noReadErr", "Stream.Close", "cond", "s.readErr", 0, 1},
	{"abandoned_viaHead", "chunkPayloadData.abandoned", "ret", "p.head._abandoned", 0, 1},
	{"abandoned_self", "chunkPayloadData.abandoned", "ret", "p._abandoned", 0, 1},
	// every path that marks or picks chunks for retransmission, and the advance of the peer ack point, look at abandoned()
	{"markAll_skips", "payloadQueue.markAllToRetrasmit", "cond", "abandoned()", 0, 1},
	{"rtx_skipsAbandoned", "Association.getDataPacketsToRetransmit", "cond", "abandoned()", 0, 1},
	{"miss_eligible", "Association.processFastRetransmission", "cond", "abandoned()", 0, 1},
	{"fastRtx_skipsDone", "Association.gatherOutboundFastRetransmissionPackets", "cond", "abandoned()", 0, 1},
	{"rackSack_skips", "Association.onRackAfterSACK", "cond", "abandoned()", 0, 1},
	{"rackTimeout_skips", "Association.onRackTimeoutLocked", "cond", "abandoned()", 0, 1},
	{"pto_skips", "Association.onPTOTimerLocked", "cond", "abandoned()", 0, 1},
	{"advanceSack_stops", "Association.finishAcknowledgement", "cond", "abandoned()", 0, 1},
	{"advanceT3_stops", "Association.onRetransmissionTimeout", "cond", "abandoned()", 0, 1},
	// graceful shutdown (C08): the state gates and decisions the model Sd re-types (Props/C08: C08_sites_match_code)
	{"sd_shutdownRefused", "Association.Shutdown", "cond", "state", 0, 1},
	{"sd_writeRefused", "Association.sendPayloadData", "cond", "state", 0, 2},
	{"sd_sackIgnored", "Association.handleSack", "cond", "state", 0, 1},
	{"sd_shutdownInAckSent", "Association.handleShutdown", "cond", "state", 0, 5},
	{"sd_shutdownInSent", "Association.handleShutdown", "cond", "state", 1, 5},
	{"sd_shutdownNotHandled", "Association.handleShutdown", "cond", "state", 2, 5},
	{"sd_shutdownAckHandled", "Association.handleShutdownAck", "cond", "state", 0, 1},
	{"sd_shutdownCompleteHandled", "Association.handleShutdownComplete", "cond", "state", 0, 1},
	{"sd_prioShutdownAck", "Association.gatherOutboundPriorityPackets", "cond", "a.willSendShutdown", 1, 3},
	{"sd_prioShutdown", "Association.gatherOutboundPriorityPackets", "cond", "a.willSendShutdown", 2, 3},
	{"sd_dataGap", "Association.handleData", "assign", "gapDetected", 0, 1},
	{"sd_dataSackNow", "Association.handleData", "assign", "sackNow", 0, 2},
	// receive half: advertised credit (getMyReceiverWindowCredit), admission at a full buffer (acceptPayloadData),
	// gap / immediate-ack decisions (handleData, handlePeerLastTSNAndAcknowledgement), stale FORWARD-TSN, deferred reset
	{"rwnd_addStream", "Association.getMyReceiverWindowCredit", "incr", "bytesQueued", 0, 1},
	{"rwnd_exhausted", "Association.getMyReceiverWindowCredit", "cond", "bytesQueued", 0, 1},
	{"rwnd_credit", "Association.getMyReceiverWindowCredit", "ret", "bytesQueued", 0, 1},
	{"accept_hasCredit", "Association.acceptPayloadData", "cond", "a.getMyReceiverWindowCredit()", 0, 1},
	{"accept_dropAtFullBuffer", "Association.acceptPayloadData", "cond", "lastTSN", 0, 1},
	{"data_canHandle", "Association.canHandleData", "ret", "isDataReceiveState", 0, 1},
	{"data_wrongKind", "Association.handleData", "cond", "a.useInterleaving", 0, 1},
	{"data_expectedTSN", "Association.handleData", "assign", "expectedTSN", 0, 1},
	{"data_gapDetected", "Association.handleData", "assign", "gapDetected", 0, 1},
	{"data_sackNow", "Association.handleData", "assign", "sackNow", 0, 2},
	{"ack_hasPacketLoss", "Association.handlePeerLastTSNAndAcknowledgement", "assign", "hasPacketLoss", 0, 1},
	{"ack_immediate", "Association.handlePeerLastTSNAndAcknowledgement", "cond", "sackImmediately", 0, 1},
	{"ack_mayDelay", "Association.handlePeerLastTSNAndAcknowledgement", "cond", "ackModeAlwaysDelay", 0, 1},
	{"ack_wasIdle", "Association.handlePeerLastTSNAndAcknowledgement", "cond", "ackStateIdle", 0, 1},
	{"fwd_stale", "Association.handleForwardTSN", "cond", "sna32LTE", 0, 1},
	{"ifwd_stale", "Association.handleIForwardTSN", "cond", "sna32LTE", 0, 1},
	{"reset_due", "Association.resetStreamsIfAny", "cond", "resetRequest.senderLastTSN", 0, 1},
	{"sack_pending", "Association.gatherOutboundSackPackets", "cond", "a.ackState", 0, 1},

	// ---- RACK / PTO / TLR (Model/Rack.lean) ----
	// RTT sampling and "newest delivered" bookkeeping of processSelectiveAck (cumulative loop = 0, gap loop = 1)
	{"psa_cumMeasurable", "Association.processSelectiveAck", "cond", "a.minTSN2MeasureRTT", 0, 2},
	{"psa_gapMeasurable", "Association.processSelectiveAck", "cond", "a.minTSN2MeasureRTT", 1, 2},
	{"psa_cumOriginal", "Association.processSelectiveAck", "cond", "chunkPayload.nSent", 0, 2},
	{"psa_gapOriginal", "Association.processSelectiveAck", "cond", "chunkPayload.nSent", 1, 2},
	{"psa_cumRttMs", "Association.processSelectiveAck", "assign", "rtt", 0, 2},
	{"psa_gapRttMs", "Association.processSelectiveAck", "assign", "rtt", 1, 2},
	{"psa_cumNewer", "Association.processSelectiveAck", "cond", "chunkPayload.since.After", 0, 2},
	{"psa_gapNewer", "Association.processSelectiveAck", "cond", "chunkPayload.since.After", 1, 2},
	{"cumAck_allAcked", "Association.onCumulativeTSNAckPointAdvanced", "cond", "a.inflightQueue.size()", 0, 1},
	// windowedMin
	{"wmin_cutoff", "windowedMin.prune", "assign", "cutoff", 0, 1},
	// onRackAfterSACK
	{"rack_hwAdvances", "Association.onRackAfterSACK", "cond", "a.rackHighestDeliveredOrigTSN", 0, 1},
	{"rack_newerDelivered", "Association.onRackAfterSACK", "cond", "newestDeliveredSendTime.After", 0, 1},
	{"rack_minRTTValid", "Association.onRackAfterSACK", "cond", "minRTT", 0, 1},
	{"rack_haveMinRTT", "Association.onRackAfterSACK", "cond", "a.rackMinRTT", 0, 3},
	{"rack_reoBase", "Association.onRackAfterSACK", "assign", "base", 0, 1},
	{"rack_suppressReoWnd", "Association.onRackAfterSACK", "cond", "!a.rackReorderingSeen", 0, 1},
	{"rack_initReoWnd", "Association.onRackAfterSACK", "cond", "base", 0, 1},
	{"rack_dupInflates", "Association.onRackAfterSACK", "cond", "sack.duplicateTSN", 0, 1},
	{"rack_reoInflated", "Association.onRackAfterSACK", "opassign", "a.rackReoWnd", 0, 1},
	{"rack_keepInit", "Association.onRackAfterSACK", "assign", "a.rackKeepInflatedRecoveries", 0, 1},
	{"rack_keepDecrements", "Association.onRackAfterSACK", "cond", "a.rackKeepInflatedRecoveries", 0, 2},
	{"rack_keepExpired", "Association.onRackAfterSACK", "cond", "a.rackKeepInflatedRecoveries", 1, 2},
	{"rack_reoAfterKeep", "Association.onRackAfterSACK", "assign", "a.rackReoWnd", 2, 4},
	{"rack_srttValid", "Association.onRackAfterSACK", "cond", "srttMs", 0, 2},
	{"rack_srttDur", "Association.onRackAfterSACK", "assign", "srttDur", 0, 1},
	{"rack_reoAboveSrtt", "Association.onRackAfterSACK", "cond", "srttDur", 0, 1},
	{"rack_haveDelivered", "Association.onRackAfterSACK", "cond", "a.rackDeliveredTime.IsZero()", 0, 2},
	{"rack_skipDead", "Association.onRackAfterSACK", "cond", "chunk.acked", 0, 1},
	{"rack_skipResent", "Association.onRackAfterSACK", "cond", "chunk.retransmit", 0, 1},
	{"rack_tooNew", "Association.onRackAfterSACK", "cond", "chunk.since.Add", 0, 1},
	{"rack_armTimer", "Association.onRackAfterSACK", "cond", "a.rackDeliveredTime.IsZero()", 1, 2},
	{"rack_rtt", "Association.onRackAfterSACK", "assign", "rackRTT", 0, 1},
	{"rack_timerDur", "Association.onRackAfterSACK", "arg", "a.startRackTimer", 0, 1},
	{"rack_ptoIdle", "Association.onRackAfterSACK", "cond", "a.inflightQueue.size()", 0, 2},
	{"rack_ptoSrttValid", "Association.onRackAfterSACK", "cond", "srttMs", 1, 2},
	{"rack_ptoSrtt", "Association.onRackAfterSACK", "assign", "srtt", 0, 1},
	{"rack_ptoExtra", "Association.onRackAfterSACK", "assign", "extra", 0, 2},
	{"rack_ptoSingle", "Association.onRackAfterSACK", "cond", "a.inflightQueue.size()", 1, 2},
	{"rack_pto", "Association.onRackAfterSACK", "assign", "pto", 0, 2},
	{"rack_ptoNoRTT", "Association.onRackAfterSACK", "assign", "pto", 1, 2},
	// schedulePTOAfterSendLocked (the same computation, written a second time in the code)
	{"ptoSend_idle", "Association.schedulePTOAfterSendLocked", "cond", "a.inflightQueue.size()", 0, 2},
	{"ptoSend_srttValid", "Association.schedulePTOAfterSendLocked", "cond", "srttMs", 0, 1},
	{"ptoSend_srtt", "Association.schedulePTOAfterSendLocked", "assign", "srtt", 0, 1},
	{"ptoSend_extra", "Association.schedulePTOAfterSendLocked", "assign", "extra", 0, 2},
	{"ptoSend_single", "Association.schedulePTOAfterSendLocked", "cond", "a.inflightQueue.size()", 1, 2},
	{"ptoSend_pto", "Association.schedulePTOAfterSendLocked", "assign", "pto", 0, 2},
	{"ptoSend_noRTT", "Association.schedulePTOAfterSendLocked", "assign", "pto", 1, 2},
	// the two deadlines and the firing test of timerLoop
	{"rackTimer_disarms", "Association.startRackTimer", "cond", "dur", 0, 1},
	{"rackTimer_deadline", "Association.startRackTimer", "assign", "a.rackDeadline", 1, 2},
	{"ptoTimer_disarms", "Association.startPTOTimer", "cond", "dur", 0, 1},
	{"ptoTimer_deadline", "Association.startPTOTimer", "assign", "a.ptoDeadline", 1, 2},
	{"timerLoop_rackDue", "Association.timerLoop", "cond", "a.rackDeadline.IsZero()", 0, 1},
	{"timerLoop_ptoDue", "Association.timerLoop", "cond", "a.ptoDeadline.IsZero()", 0, 1},
	// onRackTimeoutLocked
	{"rackTimeout_noDelivered", "Association.onRackTimeoutLocked", "cond", "a.rackDeliveredTime.IsZero()", 0, 1},
	{"rackTimeout_skipDead", "Association.onRackTimeoutLocked", "cond", "chunk.acked", 0, 1},
	{"rackTimeout_skipResent", "Association.onRackTimeoutLocked", "cond", "chunk.retransmit", 0, 1},
	{"rackTimeout_tooNew", "Association.onRackTimeoutLocked", "cond", "chunk.since.Add", 0, 1},
	// onPTOTimerLocked
	{"pto_idle", "Association.onPTOTimerLocked", "cond", "a.inflightQueue.size()", 0, 1},
	{"pto_beginsTLR", "Association.onPTOTimerLocked", "cond", "a.tlrActive", 0, 1},
	{"pto_hasPending", "Association.onPTOTimerLocked", "cond", "a.pendingQueue.size()", 0, 1},
	{"pto_scanTSN", "Association.onPTOTimerLocked", "arg", "a.inflightQueue.get", 0, 1},
	{"pto_skipDead", "Association.onPTOTimerLocked", "cond", "c.acked", 0, 1},
	{"pto_marks", "Association.onPTOTimerLocked", "cond", "latest", 0, 1},
	// TLR
	{"tlr_srttValid", "Association.tlrFirstRTTDurationLocked", "cond", "srttMs", 0, 1},
	{"tlr_firstRTTDur", "Association.tlrFirstRTTDurationLocked", "return", "srttMs", 0, 1},
	{"tlr_firstRTTDefault", "Association.tlrFirstRTTDurationLocked", "return", "time.Second", 0, 1},
	{"tlrPhase_skip", "Association.tlrUpdatePhaseLocked", "cond", "a.tlrActive", 0, 1},
	{"tlrPhase_noStart", "Association.tlrUpdatePhaseLocked", "cond", "a.tlrStartTime.IsZero()", 0, 1},
	{"tlrPhase_firstOver", "Association.tlrUpdatePhaseLocked", "cond", "currTime.Sub", 0, 1},
	{"tlr_budgetScaled", "Association.tlrCurrentBurstBudgetScaledLocked", "return", "units", 0, 1},
	{"tlr_scanTSN", "Association.tlrHighestOutstandingTSNLocked", "assign", "tsn", 0, 1},
	{"tlrLoss_firstStepped", "Association.tlrApplyAdditionalLossLocked", "opassign", "a.tlrBurstFirstRTTUnits", 0, 1},
	{"tlrLoss_firstBelowMin", "Association.tlrApplyAdditionalLossLocked", "cond", "a.tlrBurstFirstRTTUnits", 0, 1},
	{"tlrLoss_firstMin", "Association.tlrApplyAdditionalLossLocked", "assign", "a.tlrBurstFirstRTTUnits", 0, 1},
	{"tlrLoss_laterStepped", "Association.tlrApplyAdditionalLossLocked", "opassign", "a.tlrBurstLaterRTTUnits", 0, 1},
	{"tlrLoss_laterBelowMin", "Association.tlrApplyAdditionalLossLocked", "cond", "a.tlrBurstLaterRTTUnits", 0, 1},
	{"tlrLoss_laterMin", "Association.tlrApplyAdditionalLossLocked", "assign", "a.tlrBurstLaterRTTUnits", 0, 1},
	{"tlrFinish_leavesFirst", "Association.tlrMaybeFinishLocked", "cond", "ackProgress", 0, 1},
	{"tlrFinish_done", "Association.tlrMaybeFinishLocked", "cond", "a.tlrEndTSN", 0, 1},
	{"tlrFinish_clean", "Association.tlrMaybeFinishLocked", "cond", "!a.tlrHadAdditionalLoss", 0, 1},
	{"tlrFinish_resetsBurst", "Association.tlrMaybeFinishLocked", "cond", "tlrGoodOpsResetThreshold", 0, 1},
	{"tlrFinish_firstDefault", "Association.tlrMaybeFinishLocked", "assign", "a.tlrBurstFirstRTTUnits", 0, 1},
	{"tlrFinish_laterDefault", "Association.tlrMaybeFinishLocked", "assign", "a.tlrBurstLaterRTTUnits", 0, 1},
	{"tlrAllow_inactive", "Association.tlrAllowSendLocked", "cond", "a.tlrActive", 0, 1},
	{"tlrAllow_free", "Association.tlrAllowSendLocked", "cond", "estBytes", 0, 1},
	{"tlrAllow_need", "Association.tlrAllowSendLocked", "assign", "needScaled", 0, 1},
	{"tlrAllow_refuses", "Association.tlrAllowSendLocked", "cond", "*consumed", 0, 1},
	{"tlrAllow_spent", "Association.tlrAllowSendLocked", "opassign", "*budgetScaled", 0, 1},
	{"tlrAllow_clamps", "Association.tlrAllowSendLocked", "cond", "*budgetScaled", 1, 2},
	// creation: defaults of the burst units and the RACK high-watermark (D20)
	{"init_tlrFirst", "createAssociationFromConfigWithTsn", "assign", "assoc.tlrBurstFirstRTTUnits", 0, 1},
	{"init_tlrLater", "createAssociationFromConfigWithTsn", "assign", "assoc.tlrBurstLaterRTTUnits", 0, 1},
	{"init_rackHighWatermark", "createAssociationFromConfigWithTsn", "assign", "assoc.rackHighestDeliveredOrigTSN", 0, 1},
	{"init_wcDelAckUnset", "createAssociationFromConfigWithTsn", "cond", "assoc.rack.rackWCDelAck", 0, 1},
	{"init_wcDelAckDefault", "createAssociationFromConfigWithTsn", "assign", "assoc.rack.rackWCDelAck", 1, 2},
}

type leaf struct{ name, lty string }

// sanitise turns Go expression text into a Lean identifier.
func sanitise(s string) string {
	r := strings.NewReplacer(" != ", "_ne_", " == ", "_eq_", " >= ", "_ge_", " <= ", "_le_", " > ", "_gt_", " < ", "_lt_",
		"()", "", ".", "_", "(", "_", ")", "", "[", "_", "]", "", " ", "", ",", "_", "*", "", "&", "")
	out := r.Replace(s)
	var b strings.Builder
	for _, c := range out {
		if c == '_' || (c >= '0' && c <= '9') || (c >= 'a' && c <= 'z') || (c >= 'A' && c <= 'Z') {
			b.WriteRune(c)
		} else {
			b.WriteRune('_')
		}
	}
	return b.String()
}

func (t *ftr) addLeaf(e ast.Expr, name string) string {
	lty := t.leanType(e, t.typeOf(e))
	name = leanName(name)
	for _, l := range *t.leaves {
		if l.name == name {
			if l.lty != lty {
				t.fail(e, "leaf %s used at two types", name)
			}
			return name
		}
	}
	*t.leaves = append(*t.leaves, leaf{name, lty})
	return name
}

func isBasic(ty types.Type) bool {
	if ty == nil {
		return false
	}
	b, ok := ty.Underlying().(*types.Basic)
	return ok && b.Kind() != types.UntypedNil && b.Kind() != types.String && b.Kind() != types.UnsafePointer
}

// leafFor: in expression-site mode, decides whether `e` is a leaf (a parameter) and returns its name.
func (t *ftr) leafFor(e ast.Expr) (string, bool) {
	switch x := e.(type) {
	case *ast.Ident:
		if _, ok := t.c.info.Uses[x].(*types.Var); ok {
			return t.addLeaf(x, x.Name), true
		}
	case *ast.SelectorExpr:
		if isBasic(t.typeOf(x)) || isTimeType(t.typeOf(x)) {
			return t.addLeaf(x, sanitise(exprText(x))), true
		}
	case *ast.StarExpr:
		if isBasic(t.typeOf(x)) {
			return t.addLeaf(x, sanitise(exprText(x))), true
		}
	case *ast.BinaryExpr:
		tx, okx := t.c.info.Types[x.X]
		ty, oky := t.c.info.Types[x.Y]
		if okx && oky && (!isBasic(tx.Type) || !isBasic(ty.Type)) && isBasic(t.typeOf(x)) {
			return t.addLeaf(x, sanitise(exprText(x))), true
		}
	case *ast.CallExpr:
		if tv, ok := t.c.info.Types[x.Fun]; ok && tv.IsType() {
			return "", false // conversion: translated
		}
		if id, ok := x.Fun.(*ast.Ident); ok {
			if _, isBuiltin := t.c.info.Uses[id].(*types.Builtin); isBuiltin {
				if id.Name == "len" && len(x.Args) == 1 {
					return t.addLeaf(x, sanitise(exprText(x.Args[0]))+"_len"), true
				}
				return "", false // min / max: translated
			}
			for _, l := range listed {
				if l == id.Name {
					return "", false
				}
			}
		}
		if sel, ok := x.Fun.(*ast.SelectorExpr); ok {
			if id, ok := sel.X.(*ast.Ident); ok {
				if _, isPkg := t.c.info.Uses[id].(*types.PkgName); isPkg {
					return "", false // math.Min, time.Now etc.: translated or rejected
				}
			}
			if t.isTimeMethod(sel) {
				return "", false // t.Add(d), t.Before(u), d.Seconds() …: translated
			}
		}
		if isBasic(t.typeOf(x)) {
			return t.addLeaf(x, sanitise(exprText(x))), true
		}
	}
	return "", false
}

func (c *ctx) findSite(s exprSite) (ast.Expr, string) {
	fd, ok := c.funcs[s.fn]
	if !ok {
		die("expression site %s: function %s not found (renamed or removed?)", s.name, s.fn)
	}
	var found []ast.Expr
	ast.Inspect(fd.Body, func(n ast.Node) bool {
		switch x := n.(type) {
		case *ast.IfStmt:
			if s.kind == "cond" && strings.Contains(exprText(x.Cond), s.anchor) {
				found = append(found, x.Cond)
			}
		case *ast.AssignStmt:
			if s.kind == "assign" && len(x.Lhs) == 1 && len(x.Rhs) == 1 && exprText(x.Lhs[0]) == s.anchor &&
				(x.Tok == token.ASSIGN || x.Tok == token.DEFINE) {
				found = append(found, x.Rhs[0])
			}
			if s.kind == "incr" && len(x.Lhs) == 1 && len(x.Rhs) == 1 && exprText(x.Lhs[0]) == s.anchor && x.Tok == token.ADD_ASSIGN {
				found = append(found, x.Rhs[0])
			}
			if s.kind == "opassign" && len(x.Lhs) == 1 && len(x.Rhs) == 1 && exprText(x.Lhs[0]) == s.anchor &&
				(x.Tok == token.ADD_ASSIGN || x.Tok == token.SUB_ASSIGN) {
				// the NEW value `lhs op rhs`, so that the operator is part of the def
				op := token.ADD
				if x.Tok == token.SUB_ASSIGN {
					op = token.SUB
				}
				bin := &ast.BinaryExpr{X: x.Lhs[0], OpPos: x.TokPos, Op: op, Y: x.Rhs[0]}
				if tv, ok := c.info.Types[x.Lhs[0]]; ok {
					c.info.Types[bin] = types.TypeAndValue{Type: tv.Type}
				}
				found = append(found, bin)
			}
		case *ast.ReturnStmt:
			if (s.kind == "ret" || s.kind == "return") && len(x.Results) == 1 && strings.Contains(exprText(x.Results[0]), s.anchor) {
				found = append(found, x.Results[0])
			}
		case *ast.CallExpr:
			if s.kind == "arg" && exprText(x.Fun) == s.anchor && len(x.Args) >= 1 {
				found = append(found, x.Args[0])
			}
		case *ast.KeyValueExpr:
			if s.kind == "kv" && exprText(x.Key) == s.anchor {
				found = append(found, x.Value)
			}
		case *ast.ForStmt:
			if s.kind == "for" && x.Cond != nil && strings.Contains(exprText(x.Cond), s.anchor) {
				found = append(found, x.Cond)
			}
		}
		return true
	})
	if len(found) != s.count {
		die("expression site %s: %d matches of %s `%s` in %s, expected %d (the function was restructured)", s.name, len(found), s.kind, s.anchor, s.fn, s.count)
	}
	return found[s.index], c.pos(found[s.index])
}

func (c *ctx) genExprSites(b *strings.Builder) {
	b.WriteString("/-! ## expression sites (see go/extract/exprs.go): one expression of a large function each; leaves are parameters -/\n\n")
	for _, s := range exprSites {
		e, pos := c.findSite(s)
		emit := func(fl, suffix string) bool {
			var leaves []leaf
			t := &ftr{c: c, float: fl, fn: s.name, leaves: &leaves}
			var body, rty string
			func() {
				defer func() {
					if r := recover(); r != nil {
						if u, ok := r.(unsupported); ok {
							die("expression site left the translatable subset: %s", u.msg)
						}
						panic(r)
					}
				}()
				body = t.expr(e)
				rty = t.leanType(e, t.typeOf(e))
			}()
			if t.uses && suffix == "" {
				return true // mentions float64: emitted as _Rat and _Float instead
			}
			var params []string
			for _, l := range leaves {
				params = append(params, fmt.Sprintf("(%s : %s)", l.name, l.lty))
			}
			fmt.Fprintf(b, "/-- Go: %s (%s), %s `%s` -/\ndef %s %s : %s :=\n  %s\n\n", s.fn, pos, s.kind, exprText(e), leanName(s.name+suffix), strings.Join(params, " "), rty, body)
			return false
		}
		if emit("Rat", "") {
			emit("Rat", "_Rat")
			emit("Float", "_Float")
		}
	}
}

// isTimeMethod: a method selected on a value of type time.Time or time.Duration
func (t *ftr) isTimeMethod(sel *ast.SelectorExpr) bool {
	s, ok := t.c.info.Selections[sel]
	if !ok || s.Kind() != types.MethodVal {
		return false
	}
	rt := s.Recv()
	return isTimeType(rt) || isDurationType(rt)
}

// timeCall translates the `time` package calls of the expression subset (see the file comment).
func (t *ftr) timeCall(x *ast.CallExpr) (string, bool) {
	if t.leaves == nil {
		return "", false
	}
	sel, ok := x.Fun.(*ast.SelectorExpr)
	if !ok {
		return "", false
	}
	now := func() string {
		lty := "Int"
		for _, l := range *t.leaves {
			if l.name == "time_Now" {
				return l.name
			}
		}
		*t.leaves = append(*t.leaves, leaf{"time_Now", lty})
		return "time_Now"
	}
	if id, ok := sel.X.(*ast.Ident); ok {
		if pn, ok := t.c.info.Uses[id].(*types.PkgName); ok && pn.Imported().Path() == "time" {
			switch sel.Sel.Name {
			case "Now":
				if len(x.Args) == 0 {
					return now(), true
				}
			case "Since":
				if len(x.Args) == 1 {
					a := t.expr(x.Args[0])
					return fmt.Sprintf("(%s - %s)", now(), a), true
				}
			case "Until":
				if len(x.Args) == 1 {
					a := t.expr(x.Args[0])
					return fmt.Sprintf("(%s - %s)", a, now()), true
				}
			}
			return "", false
		}
	}
	if !t.isTimeMethod(sel) {
		return "", false
	}
	recv := t.expr(sel.X)
	isT := isTimeType(t.c.info.Selections[sel].Recv())
	arg := func() string {
		if len(x.Args) != 1 {
			t.fail(x, "time method arity")
		}
		return t.expr(x.Args[0])
	}
	switch {
	case isT && sel.Sel.Name == "Add":
		return fmt.Sprintf("(%s + %s)", recv, arg()), true
	case isT && sel.Sel.Name == "Sub":
		return fmt.Sprintf("(%s - %s)", recv, arg()), true
	case isT && sel.Sel.Name == "Before":
		return fmt.Sprintf("(decide (%s < %s))", recv, arg()), true
	case isT && sel.Sel.Name == "After":
		return fmt.Sprintf("(decide (%s > %s))", recv, arg()), true
	case isT && sel.Sel.Name == "Equal":
		return fmt.Sprintf("(%s == %s)", recv, arg()), true
	case isT && sel.Sel.Name == "IsZero" && len(x.Args) == 0:
		return fmt.Sprintf("(%s == (0 : Int))", recv), true
	case !isT && sel.Sel.Name == "Seconds" && len(x.Args) == 0:
		t.uses = true
		return fmt.Sprintf("(Gen.durSeconds%s %s)", t.fsuffix(), recv), true
	}
	t.fail(x, "time method %s", sel.Sel.Name)
	return "", false
}

// ---- lock paths ---------------------------------------------------------------------------
//
// lockPaths: every control-flow path through a small loop-free function as a list of events:
// (kind, text) pairs:
//   ("Lock", x) / ("Unlock", x) / ("RLock", x) / ("RUnlock", x)   mutex operations (x = receiver text)
//   ("call", f)      call statement of a declared function or method (f = callee text)
//   ("dyncall", f)   call statement of a FUNCTION VALUE (local variable or field): a user callback
//   ("if", c) / ("else", c)   the branch taken at an `if`
//   ("assign", x)    assignment (left-hand sides)
//   ("return", "")
// Statements outside this subset (loops, switch, defer, go, select) are a hard error.

var lockPathFuncs = []string{"Stream.onBufferReleased"}

func (c *ctx) stmtEvents(fn string, list []ast.Stmt, prefix []string, out *[][]string) (open [][]string) {
	// returns the paths that fall off the end of `list`; finished (returned) paths go to *out
	paths := [][]string{prefix}
	for _, s := range list {
		var next [][]string
		for _, p := range paths {
			switch x := s.(type) {
			case *ast.ExprStmt:
				call, ok := x.X.(*ast.CallExpr)
				if !ok {
					die("lockPaths %s: unsupported expression statement at %s", fn, c.pos(s))
				}
				next = append(next, append(append([]string{}, p...), c.callEvent(call)))
			case *ast.AssignStmt, *ast.IncDecStmt:
				var lhs []string
				if as, ok := x.(*ast.AssignStmt); ok {
					for _, l := range as.Lhs {
						lhs = append(lhs, exprText(l))
					}
				} else {
					lhs = append(lhs, exprText(x.(*ast.IncDecStmt).X))
				}
				next = append(next, append(append([]string{}, p...), "assign\x00"+strings.Join(lhs, ", ")))
			case *ast.ReturnStmt:
				*out = append(*out, append(append([]string{}, p...), "return\x00"))
			case *ast.IfStmt:
				if x.Init != nil {
					die("lockPaths %s: if with init at %s", fn, c.pos(s))
				}
				cond := exprText(x.Cond)
				next = append(next, c.stmtEvents(fn, x.Body.List, append(append([]string{}, p...), "if\x00"+cond), out)...)
				el := append(append([]string{}, p...), "else\x00"+cond)
				switch e := x.Else.(type) {
				case nil:
					next = append(next, el)
				case *ast.BlockStmt:
					next = append(next, c.stmtEvents(fn, e.List, el, out)...)
				default:
					next = append(next, c.stmtEvents(fn, []ast.Stmt{e}, el, out)...)
				}
			default:
				die("lockPaths %s: unsupported statement %T at %s", fn, s, c.pos(s))
			}
		}
		paths = next
	}
	return paths
}

func (c *ctx) callEvent(call *ast.CallExpr) string {
	if sel, ok := call.Fun.(*ast.SelectorExpr); ok {
		switch sel.Sel.Name {
		case "Lock", "Unlock", "RLock", "RUnlock":
			if tv, ok := c.info.Types[sel.X]; ok {
				switch tv.Type.String() {
				case "sync.Mutex", "sync.RWMutex", "*sync.Mutex", "*sync.RWMutex":
					return sel.Sel.Name + "\x00" + exprText(sel.X)
				}
			}
		}
		if s, ok := c.info.Selections[sel]; ok && s.Kind() == types.FieldVal {
			return "dyncall\x00" + exprText(call.Fun) // calling a field of function type
		}
		return "call\x00" + exprText(call.Fun)
	}
	if id, ok := call.Fun.(*ast.Ident); ok {
		if _, isVar := c.info.Uses[id].(*types.Var); isVar {
			return "dyncall\x00" + id.Name
		}
		return "call\x00" + id.Name
	}
	return "dyncall\x00" + exprText(call.Fun)
}

func (c *ctx) lockFacts() []fact {
	var fs []fact
	var fns []string
	for _, fn := range lockPathFuncs {
		fd, ok := c.funcs[fn]
		if !ok {
			die("lockPaths: function %s not found (renamed or removed?)", fn)
		}
		var done [][]string
		open := c.stmtEvents(fn, fd.Body.List, nil, &done)
		for _, p := range open {
			done = append(done, append(p, "return\x00"))
		}
		var ps []string
		for _, p := range done {
			var evs []string
			for _, e := range p {
				kv := strings.SplitN(e, "\x00", 2)
				evs = append(evs, ltuple(lstr(kv[0]), lstr(kv[1])))
			}
			ps = append(ps, llist(evs, false))
		}
		fns = append(fns, ltuple(lstr(fn), llist(ps, true)))
	}
	fs = append(fs, fact{"lockPaths", "List (String × List (List (String × String)))",
		"per listed loop-free function: every control-flow path as a list of (kind, text) events: Lock / Unlock / RLock / RUnlock x, call f, dyncall f (= call of a function VALUE), if c / else c (branch taken), assign x, return",
		llist(fns, true)})

	// the statements directly around every call of (*Stream).onBufferReleased
	var xs []string
	for _, f := range c.files {
		for _, d := range f.Decls {
			fd, ok := d.(*ast.FuncDecl)
			if !ok || fd.Body == nil {
				continue
			}
			name := fd.Name.Name
			if fd.Recv != nil && len(fd.Recv.List) == 1 {
				name = recvName(fd.Recv.List[0].Type) + "." + name
			}
			ast.Inspect(fd.Body, func(n ast.Node) bool {
				blk, ok := n.(*ast.BlockStmt)
				if !ok {
					return true
				}
				for i, s := range blk.List {
					es, ok := s.(*ast.ExprStmt)
					if !ok {
						continue
					}
					call, ok := es.X.(*ast.CallExpr)
					if !ok || !c.isMethodCall(call, "Stream", "onBufferReleased") {
						continue
					}
					prev, next := "", ""
					if i > 0 {
						if e, ok := blk.List[i-1].(*ast.ExprStmt); ok {
							prev = exprText(e.X)
						}
					}
					if i+1 < len(blk.List) {
						if e, ok := blk.List[i+1].(*ast.ExprStmt); ok {
							next = exprText(e.X)
						}
					}
					xs = append(xs, ltuple(lstr(name), lstr(prev), lstr(exprText(call)), lstr(next)))
				}
				return true
			})
		}
	}
	fs = append(fs, fact{"onBufferReleasedSites", "List (String × String × String × String)",
		"every `(*Stream).onBufferReleased` call statement in non-test code: (enclosing function, statement before, the call, statement after)",
		llist(xs, true)})
	return fs
}
