// Translator T: regenerates SctpVerif/Gen/*.lean from /repo's current working tree.
//
//	extract <repo dir> <out dir>
//
// It emits (1) every package-level constant with a basic type as a Lean def,
// (2) a Lean def for each LISTED straight-line function (hard error if a listed
// function leaves the supported subset, so that a rewrite is noticed), and
// (3) structural facts about the code as Lean data (see facts.go).
// Only the standard library is used.
package main

import (
	"fmt"
	"go/ast"
	"go/importer"
	"go/parser"
	"go/token"
	"go/types"
	"os"
	"path/filepath"
	"sort"
	"strings"
)

type ctx struct {
	fset  *token.FileSet
	files []*ast.File
	names []string
	info  *types.Info
	pkg   *types.Package
	funcs map[string]*ast.FuncDecl // "name" or "Recv.name"
}

func die(f string, a ...any) {
	fmt.Fprintf(os.Stderr, "extract: "+f+"\n", a...)
	os.Exit(2)
}

func load(dir string) *ctx {
	c := &ctx{fset: token.NewFileSet(), funcs: map[string]*ast.FuncDecl{}}
	ents, err := os.ReadDir(dir)
	if err != nil {
		die("%v", err)
	}
	for _, e := range ents {
		n := e.Name()
		if e.IsDir() || !strings.HasSuffix(n, ".go") || strings.HasSuffix(n, "_test.go") {
			continue
		}
		f, err := parser.ParseFile(c.fset, filepath.Join(dir, n), nil, parser.ParseComments)
		if err != nil {
			die("parse %s: %v", n, err)
		}
		c.files = append(c.files, f)
		c.names = append(c.names, n)
	}
	c.info = &types.Info{
		Types:      map[ast.Expr]types.TypeAndValue{},
		Defs:       map[*ast.Ident]types.Object{},
		Uses:       map[*ast.Ident]types.Object{},
		Selections: map[*ast.SelectorExpr]*types.Selection{},
	}
	nerr := 0
	conf := types.Config{
		Importer: importer.ForCompiler(c.fset, "source", nil),
		Error: func(err error) {
			nerr++
			if nerr <= 5 {
				fmt.Fprintf(os.Stderr, "extract: type error: %v\n", err)
			}
		},
	}
	c.pkg, _ = conf.Check("github.com/pion/sctp", c.fset, c.files, c.info)
	if nerr > 0 {
		die("%d type errors in %s (does it compile?)", nerr, dir)
	}
	for _, f := range c.files {
		for _, d := range f.Decls {
			fd, ok := d.(*ast.FuncDecl)
			if !ok {
				continue
			}
			name := fd.Name.Name
			if fd.Recv != nil && len(fd.Recv.List) == 1 {
				name = recvName(fd.Recv.List[0].Type) + "." + name
			}
			c.funcs[name] = fd
		}
	}
	return c
}

func recvName(e ast.Expr) string {
	switch t := e.(type) {
	case *ast.StarExpr:
		return recvName(t.X)
	case *ast.Ident:
		return t.Name
	case *ast.IndexExpr:
		return recvName(t.X)
	}
	return "?"
}

func (c *ctx) pos(n ast.Node) string {
	p := c.fset.Position(n.Pos())
	return fmt.Sprintf("%s:%d", filepath.Base(p.Filename), p.Line)
}

func writeIfChanged(path, content string) {
	old, err := os.ReadFile(path)
	if err == nil && string(old) == content {
		return
	}
	if err := os.WriteFile(path, []byte(content), 0o644); err != nil {
		die("%v", err)
	}
}

func sortedKeys[V any](m map[string]V) []string {
	ks := make([]string, 0, len(m))
	for k := range m {
		ks = append(ks, k)
	}
	sort.Strings(ks)
	return ks
}

func main() {
	if len(os.Args) != 3 {
		die("usage: extract <repo> <outdir>")
	}
	out, err := filepath.Abs(os.Args[2])
	if err != nil {
		die("%v", err)
	}
	repo, _ := filepath.Abs(os.Args[1])
	if err := os.Chdir(repo); err != nil { // the source importer resolves modules from the cwd
		die("%v", err)
	}
	c := load(repo)
	if err := os.MkdirAll(out, 0o755); err != nil {
		die("%v", err)
	}
	writeIfChanged(filepath.Join(out, "Consts.lean"), c.genConsts())
	writeIfChanged(filepath.Join(out, "Funcs.lean"), c.genFuncs())
	writeIfChanged(filepath.Join(out, "Facts.lean"), c.genFacts())
	writeIfChanged(filepath.Join(out, "CodecFacts.lean"), c.genCodecFacts())
}
