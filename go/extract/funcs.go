package main

import (
	"fmt"
	"go/ast"
	"go/constant"
	"go/token"
	"go/types"
	"strings"
)

// listed functions, callee before caller. A listed function that is missing or
// leaves the supported subset is a hard error: a rewrite must be noticed.
var listed = []string{
	"getPadding",
	"sna32LT", "sna32LTE", "sna32GT", "sna32GTE", "sna32EQ",
	"sna16LT", "sna16LTE", "sna16GT", "sna16GTE", "sna16EQ",
	"payloadDataChunkHeaderSize", "maxPayloadSizeForMTU",
	"min16", "max32", "min32",
	"getMaxTSNOffset",
	"isDataReceiveState", "isShutdownHandleState", "entersShutdownReceived",
	"calculateNextTimeout",
	"getFirstNonZeroBit", "getFirstZeroBit",
	"tsnBitmaskWords",
	"isReassemblyQueueLimitReached",
}

type ftr struct {
	c     *ctx
	float string // "Rat" or "Float"
	fn    string
	uses  bool // function mentions float64
	// method translation (methods.go): receiver object and the value that ends a body
	recv types.Object
	end  func() string            // value of the function when control reaches the end of the body (nil: error)
	ret  func(rs []string) string // how a `return rs…` is rendered (nil: plain tuple)
	// expression-site translation (exprs.go): untranslatable sub-expressions of basic type become parameters
	leaves *[]leaf
}

type unsupported struct{ msg string }

func (t *ftr) fail(n ast.Node, f string, a ...any) {
	panic(unsupported{fmt.Sprintf("%s (%s): ", t.fn, t.c.pos(n)) + fmt.Sprintf(f, a...)})
}

// isTimeType: the named type time.Time. In expression sites (exprs.go) a time.Time is an `Int`: nanoseconds on one
// monotonic clock, the zero Time being 0 (every real reading is > 0), so that Add/Sub/Before/After/IsZero become
// integer arithmetic. time.Duration is an int64 already.
func isTimeType(ty types.Type) bool {
	if ty == nil {
		return false
	}
	n, ok := ty.(*types.Named)
	return ok && n.Obj().Pkg() != nil && n.Obj().Pkg().Path() == "time" && n.Obj().Name() == "Time"
}

func isDurationType(ty types.Type) bool {
	if ty == nil {
		return false
	}
	n, ok := ty.(*types.Named)
	return ok && n.Obj().Pkg() != nil && n.Obj().Pkg().Path() == "time" && n.Obj().Name() == "Duration"
}

func (t *ftr) leanType(n ast.Node, ty types.Type) string {
	if isTimeType(ty) && t.leaves != nil {
		return "Int"
	}
	switch u := ty.Underlying().(type) {
	case *types.Basic:
		switch u.Kind() {
		case types.Bool, types.UntypedBool:
			return "Bool"
		case types.Int, types.Int64, types.Int32, types.Int16, types.Int8, types.UntypedInt:
			return "Int"
		case types.Uint:
			return "Nat"
		case types.Uint8:
			return "BitVec 8"
		case types.Uint16:
			return "BitVec 16"
		case types.Uint32:
			return "BitVec 32"
		case types.Uint64:
			return "BitVec 64"
		case types.Float64, types.UntypedFloat:
			t.uses = true
			return t.float
		}
	case *types.Tuple:
		var parts []string
		for i := 0; i < u.Len(); i++ {
			parts = append(parts, t.leanType(n, u.At(i).Type()))
		}
		return "(" + strings.Join(parts, " × ") + ")"
	}
	t.fail(n, "unsupported type %s", ty)
	return ""
}

func bvWidth(lt string) (int, bool) {
	var w int
	if _, err := fmt.Sscanf(lt, "BitVec %d", &w); err == nil {
		return w, true
	}
	return 0, false
}

func (t *ftr) constLit(n ast.Node, v constant.Value, ty types.Type) string {
	lt := t.leanType(n, ty)
	switch {
	case lt == "Bool":
		if constant.BoolVal(v) {
			return "true"
		}
		return "false"
	case lt == "Int" || lt == "Nat":
		return fmt.Sprintf("(%s : %s)", constant.ToInt(v).ExactString(), lt)
	case lt == "Rat":
		r, ok := constRat(v)
		if !ok {
			t.fail(n, "bad float const")
		}
		return ratLit(r, "Rat")
	case lt == "Float":
		f, _ := constant.Float64Val(constant.ToFloat(v))
		return floatLit(f)
	}
	if w, ok := bvWidth(lt); ok {
		return fmt.Sprintf("(%s#%d)", constant.ToInt(v).ExactString(), w)
	}
	t.fail(n, "const of type %s", lt)
	return ""
}

func (t *ftr) typeOf(e ast.Expr) types.Type {
	tv, ok := t.c.info.Types[e]
	if !ok {
		t.fail(e, "no type info")
	}
	return tv.Type
}

func (t *ftr) toNat(e ast.Expr) string {
	lt := t.leanType(e, t.typeOf(e))
	s := t.expr(e)
	switch {
	case lt == "Nat":
		return s
	case lt == "Int":
		return "(" + s + ").toNat"
	}
	if _, ok := bvWidth(lt); ok {
		return "(" + s + ").toNat"
	}
	t.fail(e, "shift amount of type %s", lt)
	return ""
}

func (t *ftr) convert(n ast.Node, to types.Type, arg ast.Expr) string {
	dst := t.leanType(n, to)
	src := t.leanType(arg, t.typeOf(arg))
	s := t.expr(arg)
	if dst == src {
		return s
	}
	dw, dbv := bvWidth(dst)
	_, sbv := bvWidth(src)
	switch {
	case dbv && sbv:
		return fmt.Sprintf("(BitVec.setWidth %d %s)", dw, s)
	case dbv && src == "Int":
		return fmt.Sprintf("(BitVec.ofInt %d %s)", dw, s)
	case dbv && src == "Nat":
		return fmt.Sprintf("(BitVec.ofNat %d %s)", dw, s)
	case dst == "Int" && sbv:
		return fmt.Sprintf("((%s).toNat : Int)", s)
	case dst == "Int" && src == "Nat":
		return fmt.Sprintf("(%s : Int)", s)
	case dst == "Nat" && src == "Int":
		return fmt.Sprintf("(%s).toNat", s)
	case dst == "Nat" && sbv:
		return fmt.Sprintf("(%s).toNat", s)
	case dst == "Int" && src == "Rat":
		return fmt.Sprintf("(Gen.truncR %s)", s)
	case dst == "Int" && src == "Float":
		return fmt.Sprintf("(Gen.truncF %s)", s)
	case dst == "Rat" && src == "Int":
		return fmt.Sprintf("(%s : Rat)", s)
	case dst == "Float" && src == "Int":
		return fmt.Sprintf("(Float.ofInt %s)", s)
	case dst == "Rat" && (sbv || src == "Nat"):
		return fmt.Sprintf("((%s : Nat) : Rat)", t.toNat(arg))
	case dst == "Float" && (sbv || src == "Nat"):
		return fmt.Sprintf("(Float.ofNat %s)", t.toNat(arg))
	}
	t.fail(n, "conversion %s -> %s", src, dst)
	return ""
}

func (t *ftr) expr(e ast.Expr) string {
	tv, ok := t.c.info.Types[e]
	if ok && tv.Value != nil {
		return t.constLit(e, tv.Value, tv.Type)
	}
	if t.leaves != nil {
		if name, ok := t.leafFor(e); ok {
			return name
		}
	}
	switch x := e.(type) {
	case *ast.ParenExpr:
		return t.expr(x.X)
	case *ast.Ident:
		switch x.Name {
		case "true", "false":
			return x.Name
		}
		return leanName(x.Name)
	case *ast.UnaryExpr:
		s := t.expr(x.X)
		switch x.Op {
		case token.NOT:
			return "(!" + s + ")"
		case token.SUB:
			return "(-" + s + ")"
		case token.XOR:
			return "(~~~" + s + ")"
		}
		t.fail(e, "unary %s", x.Op)
	case *ast.BinaryExpr:
		return t.binary(x)
	case *ast.CallExpr:
		return t.call(x)
	case *ast.SelectorExpr:
		if f, ok := t.recvField(x); ok {
			t.leanType(x, t.typeOf(x)) // basic types only
			return f
		}
	case *ast.CompositeLit:
		if t.leaves != nil && isTimeType(t.typeOf(x)) && len(x.Elts) == 0 {
			return "(0 : Int)" // time.Time{}: the zero Time
		}
	}
	t.fail(e, "unsupported expression %T", e)
	return ""
}

func (t *ftr) binary(x *ast.BinaryExpr) string {
	a, b := t.expr(x.X), ""
	lt := t.leanType(x.X, t.typeOf(x.X))
	_, isbv := bvWidth(lt)
	switch x.Op {
	case token.SHL, token.SHR:
		n := t.toNat(x.Y)
		switch {
		case isbv && x.Op == token.SHL:
			return fmt.Sprintf("(%s <<< %s)", a, n)
		case isbv:
			return fmt.Sprintf("(%s >>> %s)", a, n)
		case lt == "Int" && x.Op == token.SHL:
			return fmt.Sprintf("(%s * (2 : Int) ^ %s)", a, n)
		case lt == "Int":
			return fmt.Sprintf("(%s / (2 : Int) ^ %s)", a, n)
		}
		t.fail(x, "shift on %s", lt)
	}
	b = t.expr(x.Y)
	switch x.Op {
	case token.LAND:
		return fmt.Sprintf("(%s && %s)", a, b)
	case token.LOR:
		return fmt.Sprintf("(%s || %s)", a, b)
	case token.EQL:
		return fmt.Sprintf("(%s == %s)", a, b)
	case token.NEQ:
		return fmt.Sprintf("(%s != %s)", a, b)
	case token.LSS:
		return fmt.Sprintf("(decide (%s < %s))", a, b)
	case token.LEQ:
		return fmt.Sprintf("(decide (%s ≤ %s))", a, b)
	case token.GTR:
		return fmt.Sprintf("(decide (%s > %s))", a, b)
	case token.GEQ:
		return fmt.Sprintf("(decide (%s ≥ %s))", a, b)
	case token.ADD:
		return fmt.Sprintf("(%s + %s)", a, b)
	case token.MUL:
		return fmt.Sprintf("(%s * %s)", a, b)
	case token.SUB:
		if lt == "Nat" {
			t.fail(x, "subtraction on Go uint (wraps) not supported")
		}
		return fmt.Sprintf("(%s - %s)", a, b)
	case token.QUO:
		if lt == "Int" {
			return fmt.Sprintf("(Int.tdiv %s %s)", a, b)
		}
		return fmt.Sprintf("(%s / %s)", a, b)
	case token.REM:
		if lt == "Int" {
			return fmt.Sprintf("(Int.tmod %s %s)", a, b)
		}
		return fmt.Sprintf("(%s %% %s)", a, b)
	}
	if isbv {
		switch x.Op {
		case token.AND:
			return fmt.Sprintf("(%s &&& %s)", a, b)
		case token.OR:
			return fmt.Sprintf("(%s ||| %s)", a, b)
		case token.XOR:
			return fmt.Sprintf("(%s ^^^ %s)", a, b)
		case token.AND_NOT:
			return fmt.Sprintf("(%s &&& ~~~%s)", a, b)
		}
	}
	t.fail(x, "binary %s on %s", x.Op, lt)
	return ""
}

func (t *ftr) call(x *ast.CallExpr) string {
	// receiver-field access of a translated method: atomic load, len(m.f), m.g() of a listed method
	if t.recv != nil {
		if sel, _, store, ok := t.atomicAccess(x); ok && !store {
			f, _ := t.recvField(sel)
			t.leanType(x, t.typeOf(x))
			return f
		}
		if name, ok := t.recvLen(x); ok {
			return (&mfield{name: name}).lean(t.recvIdentName())
		}
		if key, ok := t.recvMethodCall(x); ok {
			var parts []string
			for _, f := range methodFieldCache[key] {
				parts = append(parts, fmt.Sprintf("(%s := %s)", f.lean(methodRecvName[key]), f.lean(t.recvIdentName())))
			}
			for _, a := range x.Args {
				parts = append(parts, t.expr(a))
			}
			name := strings.ReplaceAll(key, ".", "_")
			return "(" + leanName(name) + " " + strings.Join(parts, " ") + ")"
		}
	}
	// conversion?
	if tv, ok := t.c.info.Types[x.Fun]; ok && tv.IsType() {
		if len(x.Args) != 1 {
			t.fail(x, "conversion arity")
		}
		return t.convert(x, tv.Type, x.Args[0])
	}
	if s, ok := t.timeCall(x); ok {
		return s
	}
	var args []string
	for _, a := range x.Args {
		args = append(args, t.expr(a))
	}
	fold := func(f string) string {
		s := args[0]
		for _, a := range args[1:] {
			s = fmt.Sprintf("(%s %s %s)", f, s, a)
		}
		return s
	}
	switch f := x.Fun.(type) {
	case *ast.Ident:
		if _, isBuiltin := t.c.info.Uses[f].(*types.Builtin); isBuiltin {
			switch f.Name {
			case "min":
				return fold("Gen.gmin")
			case "max":
				return fold("Gen.gmax")
			}
			t.fail(x, "builtin %s", f.Name)
		}
		for _, l := range listed {
			if l == f.Name {
				name := f.Name
				if floatFuncs[name] {
					name += "_" + t.float
				}
				return "(" + leanName(name) + " " + strings.Join(args, " ") + ")"
			}
		}
		t.fail(x, "call to unlisted function %s", f.Name)
	case *ast.SelectorExpr:
		if id, ok := f.X.(*ast.Ident); ok {
			if pn, ok := t.c.info.Uses[id].(*types.PkgName); ok {
				switch pn.Imported().Path() + "." + f.Sel.Name {
				case "math.Min":
					return fold("Gen.gmin" + t.fsuffix())
				case "math.Max":
					return fold("Gen.gmax" + t.fsuffix())
				case "math.Abs":
					return "(Gen.gabs" + t.fsuffix() + " " + args[0] + ")"
				case "math/bits.TrailingZeros64":
					return "(Gen.tz64 " + args[0] + ")"
				case "math/bits.Len32":
					return "(Gen.len32 " + args[0] + ")"
				case "math/bits.OnesCount64":
					return "(Gen.popcount64 " + args[0] + ")"
				}
			}
		}
	}
	t.fail(x, "unsupported call")
	return ""
}

func terminates(stmts []ast.Stmt) bool {
	if len(stmts) == 0 {
		return false
	}
	switch s := stmts[len(stmts)-1].(type) {
	case *ast.ReturnStmt:
		return true
	case *ast.IfStmt:
		if s.Else == nil {
			return false
		}
		eb, ok := s.Else.(*ast.BlockStmt)
		if !ok {
			return terminates(s.Body.List) && terminates([]ast.Stmt{s.Else})
		}
		return terminates(s.Body.List) && terminates(eb.List)
	case *ast.SwitchStmt:
		hasDefault := false
		for _, cl := range s.Body.List {
			cc := cl.(*ast.CaseClause)
			if cc.List == nil {
				hasDefault = true
			}
			if !terminates(cc.Body) {
				return false
			}
		}
		return hasDefault
	}
	return false
}

func (t *ftr) stmts(list []ast.Stmt, ind string) string {
	if len(list) == 0 {
		if t.end != nil {
			return ind + t.end()
		}
		panic(unsupported{t.fn + ": control reaches end without return"})
	}
	s, rest := list[0], list[1:]
	switch x := s.(type) {
	case *ast.ExprStmt:
		if t.isRecvMutexCall(x.X) {
			return t.stmts(rest, ind)
		}
		if call, ok := x.X.(*ast.CallExpr); ok && t.recv != nil {
			if sel, val, store, ok := t.atomicAccess(call); ok && store {
				f, _ := t.recvField(sel)
				return fmt.Sprintf("%slet %s : %s := %s\n", ind, f, t.leanType(sel, t.typeOf(sel)), t.expr(val)) + t.stmts(rest, ind)
			}
		}
	case *ast.DeferStmt:
		if t.isRecvMutexCall(x.Call) {
			return t.stmts(rest, ind)
		}
	case *ast.ReturnStmt:
		var rs []string
		for _, r := range x.Results {
			rs = append(rs, t.expr(r))
		}
		if t.ret != nil {
			return ind + t.ret(rs)
		}
		if len(rs) == 1 {
			return ind + rs[0]
		}
		return ind + "(" + strings.Join(rs, ", ") + ")"
	case *ast.AssignStmt:
		if len(x.Lhs) != len(x.Rhs) {
			t.fail(x, "tuple assignment")
		}
		out := ""
		for i := range x.Lhs {
			var id *ast.Ident
			var lhsName string
			if sel, ok := x.Lhs[i].(*ast.SelectorExpr); ok {
				f, ok := t.recvField(sel)
				if !ok || x.Tok != token.ASSIGN {
					t.fail(x, "assignment to a selector that is not a receiver field")
				}
				id, lhsName = sel.Sel, f
			} else if id, ok = x.Lhs[i].(*ast.Ident); ok {
				lhsName = leanName(id.Name)
			} else {
				t.fail(x, "assignment to non-identifier")
			}
			var rhs string
			switch x.Tok {
			case token.DEFINE, token.ASSIGN:
				rhs = t.expr(x.Rhs[i])
			default:
				t.fail(x, "assignment operator %s", x.Tok)
			}
			out += fmt.Sprintf("%slet %s : %s := %s\n", ind, lhsName, t.leanType(id, t.typeOf(x.Rhs[i])), rhs)
		}
		return out + t.stmts(rest, ind)
	case *ast.IfStmt:
		if x.Init != nil {
			t.fail(x, "if with init")
		}
		// a branch that does not end in return falls through to `rest`: the continuation is
		// duplicated into it (re-assignments become shadowing lets; a `:=` there is rejected
		// because flattening would widen its scope).
		join := func(br []ast.Stmt) string {
			if terminates(br) {
				return t.stmts(br, ind+"  ")
			}
			for _, b := range br {
				if as, ok := b.(*ast.AssignStmt); ok && as.Tok == token.DEFINE {
					t.fail(as, "`:=` inside a branch that falls through")
				}
			}
			return t.stmts(append(append([]ast.Stmt{}, br...), rest...), ind+"  ")
		}
		cond := t.expr(x.Cond)
		thenS := join(x.Body.List)
		var elseS string
		if x.Else != nil {
			var el []ast.Stmt
			if eb, ok := x.Else.(*ast.BlockStmt); ok {
				el = eb.List
			} else {
				el = []ast.Stmt{x.Else}
			}
			if terminates(x.Body.List) && terminates(el) && len(rest) != 0 {
				t.fail(x, "dead code after if/else")
			}
			elseS = join(el)
		} else {
			elseS = t.stmts(rest, ind+"  ")
		}
		return fmt.Sprintf("%sif %s then\n%s\n%selse\n%s", ind, cond, thenS, ind, elseS)
	case *ast.SwitchStmt:
		if x.Init != nil {
			t.fail(x, "switch with init")
		}
		tag := ""
		if x.Tag != nil {
			tag = t.expr(x.Tag)
		}
		var def []ast.Stmt
		type arm struct{ cond, body string }
		var arms []arm
		for _, cl := range x.Body.List {
			cc := cl.(*ast.CaseClause)
			if !terminates(cc.Body) {
				t.fail(cc, "switch case does not end in return")
			}
			if cc.List == nil {
				def = cc.Body
				continue
			}
			var conds []string
			for _, e := range cc.List {
				if x.Tag != nil {
					conds = append(conds, fmt.Sprintf("(%s == %s)", tag, t.expr(e)))
				} else {
					conds = append(conds, t.expr(e))
				}
			}
			arms = append(arms, arm{strings.Join(conds, " || "), t.stmts(cc.Body, ind+"  ")})
		}
		var tail string
		if def != nil {
			tail = t.stmts(def, ind+"  ")
		} else {
			tail = t.stmts(rest, ind+"  ")
		}
		out := ""
		for _, a := range arms {
			out += fmt.Sprintf("%sif %s then\n%s\n%selse\n", ind, a.cond, a.body, ind)
		}
		return out + tail
	}
	t.fail(s, "unsupported statement %T", s)
	return ""
}

var floatFuncs = map[string]bool{}

func (t *ftr) fun(fd *ast.FuncDecl) string {
	var params []string
	for _, f := range fd.Type.Params.List {
		ty := t.leanType(f, t.typeOf(f.Type))
		for _, n := range f.Names {
			params = append(params, fmt.Sprintf("(%s : %s)", leanName(n.Name), ty))
		}
	}
	if fd.Type.Results == nil {
		t.fail(fd, "no result")
	}
	var rts []string
	for _, f := range fd.Type.Results.List {
		k := len(f.Names)
		if k == 0 {
			k = 1
		}
		for i := 0; i < k; i++ {
			rts = append(rts, t.leanType(f, t.typeOf(f.Type)))
		}
	}
	rt := strings.Join(rts, " × ")
	body := t.stmts(fd.Body.List, "  ")
	name := fd.Name.Name
	if t.uses {
		name += "_" + t.float
	}
	return fmt.Sprintf("/-- Go: %s (%s) -/\ndef %s %s : %s :=\n%s\n", fd.Name.Name, t.c.pos(fd), leanName(name), strings.Join(params, " "), rt, body)
}

func (c *ctx) genFuncs() string {
	var b strings.Builder
	b.WriteString("-- GENERATED by /verif/go/extract from /repo on every run. Do not edit; not committed.\n")
	b.WriteString("-- Lean translations of the listed straight-line Go functions (uintN ↦ BitVec N, int ↦ Int, float64 ↦ Rat and Float).\n")
	b.WriteString("import SctpVerif.Gen.Consts\nimport SctpVerif.GenPrelude\n\nset_option linter.unusedVariables false\n\nnamespace Gen\n\n")
	for _, name := range listed {
		fd, ok := c.funcs[name]
		if !ok {
			die("listed function %s not found in the source (renamed or removed?)", name)
		}
		emit := func(fl string) (s string, uses bool) {
			t := &ftr{c: c, float: fl, fn: name}
			defer func() {
				if r := recover(); r != nil {
					if u, ok := r.(unsupported); ok {
						die("listed function left the translatable subset: %s", u.msg)
					}
					panic(r)
				}
			}()
			s = t.fun(fd)
			return s, t.uses
		}
		s, uses := emit("Rat")
		if uses {
			floatFuncs[name] = true
			s, _ = emit("Rat")
			b.WriteString(s + "\n")
			s2, _ := emit("Float")
			b.WriteString(s2 + "\n")
		} else {
			b.WriteString(s + "\n")
		}
	}
	c.genMethods(&b)
	c.genExprSites(&b)
	b.WriteString("end Gen\n")
	return b.String()
}
