package main

// C16 structural fact: every ordered comparison (< <= > >=) in non-test code, outside util.go,
// between unsigned 16/32-bit operands of which at least one is named like a protocol sequence
// number. Serial numbers must be compared with the sna16*/sna32* helpers; the Lean side compares
// this list with the (short) list of comparisons known to be legitimate.

import (
	"go/ast"
	"go/token"
	"go/types"
	"path/filepath"
	"regexp"
	"sort"
)

var seqNameRe = regexp.MustCompile(`TSN|tsn|SSN|ssn|MID|\bmid\b|RSN|rsn|[sS]equenceNumber|\bsequence\b|[cC]umulative|AckPoint|messageIdentifier|FSN|fsn|[eE]xitPoint|htna`)

func isSeqWidth(t types.Type) bool {
	b, ok := t.Underlying().(*types.Basic)
	return ok && (b.Kind() == types.Uint32 || b.Kind() == types.Uint16)
}

func (c *ctx) rawSeqCompareFact() fact {
	var out []string
	for i, f := range c.files {
		if c.names[i] == "util.go" {
			continue
		}
		for _, d := range f.Decls {
			fd, ok := d.(*ast.FuncDecl)
			if !ok || fd.Body == nil {
				continue
			}
			name := fd.Name.Name
			if fd.Recv != nil && len(fd.Recv.List) == 1 {
				name = recvName(fd.Recv.List[0].Type) + "." + name
			}
			ast.Inspect(fd.Body, func(n ast.Node) bool {
				be, ok := n.(*ast.BinaryExpr)
				if !ok {
					return true
				}
				switch be.Op {
				case token.LSS, token.LEQ, token.GTR, token.GEQ:
				default:
					return true
				}
				tx, okx := c.info.Types[be.X]
				ty, oky := c.info.Types[be.Y]
				if !okx || !oky || !isSeqWidth(tx.Type) || !isSeqWidth(ty.Type) {
					return true
				}
				// a constant operand is a range check on a counter/length, not a comparison of two positions
				if tx.Value != nil || ty.Value != nil {
					return true
				}
				xs, ys := exprText(be.X), exprText(be.Y)
				if !seqNameRe.MatchString(xs) && !seqNameRe.MatchString(ys) {
					return true
				}
				out = append(out, filepath.Base(c.names[i])+":"+name+": "+exprText(be))
				return true
			})
		}
	}
	sort.Strings(out)
	return fact{"rawSeqCompares", "List String",
		"ordered comparisons (< <= > >=) between uint16/uint32 operands named like sequence numbers, outside util.go (file:function: expression)",
		"[" + func() string {
			s := ""
			for i, o := range out {
				if i > 0 {
					s += ",\n   "
				}
				s += lstr(o)
			}
			return s
		}() + "]"}
}
