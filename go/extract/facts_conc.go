package main

// Concurrency facts (C09 / C20): lock events per function, the interprocedural lock-order graph,
// callback / observer sites with the lock set held, blocking operations under a lock, the
// ordered statement lists of the teardown choreography, and the shape of every entry point's
// critical sections. Everything is syntax + go/types; nothing is executed.
//
// Pipeline:
//   1. every function body (and every `go` / stored-closure body, as a pseudo function) becomes an
//      EVENT TREE (`cev`): mutex operations, calls (resolved; interface calls by method set), calls of
//      function values, channel operations, selects, goroutine starts, defers, control structure.
//   2. an abstract interpreter runs each tree over LOCAL lock states (plus = mutexes this function
//      acquired and still holds, minus = mutexes of the CALLER it has released for the moment —
//      the `a.lock.Unlock(); cb(); a.lock.Lock()` idiom — and the pending defers), path-sensitively,
//      loops to a fixpoint, and records the states seen at every event.
//   3. entry contexts (the lock sets a function can be entered with) are propagated over the call graph
//      to a fixpoint; roots (exported, started with `go`, timer callbacks, never called) start with {}.
//   4. held set at an event = (context \ minus) ∪ plus. Lock-order edges, callback sites, blocking
//      sites etc. are read off these.

import (
	"fmt"
	"go/ast"
	"go/token"
	"go/types"
	"sort"
	"strings"
)

// ---- event tree --------------------------------------------------------------------------------

type cev struct {
	kind string // Lock RLock Unlock RUnlock | deferUnlock deferRUnlock | call icall dyn ext funcref | send recv close |
	// wait signal broadcast | set delete | go defer inline closure once | if switch select loop | return break continue
	arg     string
	targets []string // call: [callee]; icall: implementers
	arms    []cevArm
	pos     string
	seen    map[string]lst // local states observed at this event (key without defers)
}

type cevArm struct {
	label string
	body  []*cev
}

type concFunc struct {
	name     string
	body     []*cev
	exported bool
	root     string // "" or why it is a root: go / closure / timer / exported / uncalled
	exits    map[string]lst
}

type concB struct {
	c      *ctx
	fn     string
	nGo    int
	pseudo []*concFunc
}

var concSetFields = map[string]bool{
	"Stream.readErr": true, "Association.willSendAbort": true, "Association.writeNotify": true, "Association.writePending": true,
}

var concKeepCalls = []string{"Association.setState"}

func unparen(e ast.Expr) ast.Expr {
	for {
		p, ok := e.(*ast.ParenExpr)
		if !ok {
			return e
		}
		e = p.X
	}
}

func namedOf(t types.Type) *types.Named {
	for {
		switch x := t.(type) {
		case *types.Pointer:
			t = x.Elem()
		case *types.Named:
			return x
		case *types.Alias:
			t = types.Unalias(x)
		default:
			return nil
		}
	}
}

// fieldName: canonical name `Type.field` of a field selector on a named type, otherwise the source text.
func (b *concB) fieldName(e ast.Expr) string {
	e = unparen(e)
	if u, ok := e.(*ast.UnaryExpr); ok && u.Op == token.AND {
		e = unparen(u.X)
	}
	if sel, ok := e.(*ast.SelectorExpr); ok {
		if s, ok := b.c.info.Selections[sel]; ok && s.Kind() == types.FieldVal {
			if n := namedOf(s.Recv()); n != nil {
				return n.Obj().Name() + "." + sel.Sel.Name
			}
		}
	}
	return exprText(e)
}

func (b *concB) ev(kind, arg string, n ast.Node) *cev {
	return &cev{kind: kind, arg: arg, pos: b.c.pos(n), seen: map[string]lst{}}
}

func isSyncType(t types.Type, name string) bool {
	n := namedOf(t)
	return n != nil && n.Obj().Pkg() != nil && n.Obj().Pkg().Path() == "sync" && n.Obj().Name() == name
}

// implementers of an interface method among the package's named types (declaring type of the selected method)
func (b *concB) implementers(iface *types.Interface, meth string) []string {
	var out []string
	scope := b.c.pkg.Scope()
	for _, n := range scope.Names() {
		tn, ok := scope.Lookup(n).(*types.TypeName)
		if !ok || tn.IsAlias() {
			continue
		}
		named, ok := tn.Type().(*types.Named)
		if !ok || types.IsInterface(named) || named.TypeParams().Len() > 0 {
			continue
		}
		pt := types.NewPointer(named)
		if !types.Implements(pt, iface) && !types.Implements(named, iface) {
			continue
		}
		ms := types.NewMethodSet(pt)
		if sel := ms.Lookup(b.c.pkg, meth); sel != nil {
			if fn, ok := sel.Obj().(*types.Func); ok {
				if r := fn.Type().(*types.Signature).Recv(); r != nil {
					if dn := namedOf(r.Type()); dn != nil {
						out = append(out, dn.Obj().Name()+"."+meth)
					}
				}
			}
		}
	}
	sort.Strings(out)
	return uniq(out)
}

func uniq(xs []string) []string {
	var out []string
	for i, x := range xs {
		if i == 0 || x != xs[i-1] {
			out = append(out, x)
		}
	}
	return out
}

func (b *concB) exprs(es []ast.Expr) []*cev {
	var out []*cev
	for _, e := range es {
		out = append(out, b.expr(e)...)
	}
	return out
}

// expr: events of an expression in evaluation order (operands before the operation).
func (b *concB) expr(e ast.Expr) []*cev {
	switch x := e.(type) {
	case nil:
		return nil
	case *ast.CallExpr:
		return b.call(x)
	case *ast.ParenExpr:
		return b.expr(x.X)
	case *ast.UnaryExpr:
		out := b.expr(x.X)
		if x.Op == token.ARROW {
			out = append(out, b.ev("recv", b.fieldName(x.X), x))
		}
		return out
	case *ast.BinaryExpr:
		return append(b.expr(x.X), b.expr(x.Y)...)
	case *ast.StarExpr:
		return b.expr(x.X)
	case *ast.SelectorExpr:
		if s, ok := b.c.info.Selections[x]; ok && s.Kind() == types.MethodVal {
			if fn, ok := s.Obj().(*types.Func); ok && fn.Pkg() == b.c.pkg {
				if dn := namedOf(fn.Type().(*types.Signature).Recv().Type()); dn != nil {
					ev := b.ev("funcref", dn.Obj().Name()+"."+fn.Name(), x)
					return append(b.expr(x.X), ev)
				}
			}
		}
		return b.expr(x.X)
	case *ast.Ident:
		if fn, ok := b.c.info.Uses[x].(*types.Func); ok && fn.Pkg() == b.c.pkg && fn.Type().(*types.Signature).Recv() == nil {
			return []*cev{b.ev("funcref", fn.Name(), x)}
		}
		return nil
	case *ast.IndexExpr:
		return append(b.expr(x.X), b.expr(x.Index)...)
	case *ast.IndexListExpr:
		return b.expr(x.X)
	case *ast.SliceExpr:
		return append(append(append(b.expr(x.X), b.expr(x.Low)...), b.expr(x.High)...), b.expr(x.Max)...)
	case *ast.TypeAssertExpr:
		return b.expr(x.X)
	case *ast.KeyValueExpr:
		return b.expr(x.Value)
	case *ast.CompositeLit:
		return b.exprs(x.Elts)
	case *ast.FuncLit:
		// a function value that is stored or handed to somebody: it may run here (e.g. sort.Slice) and later
		b.nGo++
		name := fmt.Sprintf("%s·closure%d", b.fn, b.nGo)
		body := b.stmts(x.Body.List)
		b.pseudo = append(b.pseudo, &concFunc{name: name, body: body, root: "closure"})
		ev := b.ev("closure", name, x)
		ev.arms = []cevArm{{"", body}}
		return []*cev{ev}
	}
	return nil
}

func (b *concB) call(x *ast.CallExpr) []*cev {
	c := b.c
	fun := unparen(x.Fun)
	if tv, ok := c.info.Types[fun]; ok && tv.IsType() {
		return b.exprs(x.Args) // conversion
	}
	switch f := fun.(type) {
	case *ast.FuncLit:
		out := b.exprs(x.Args)
		ev := b.ev("inline", "", x)
		ev.arms = []cevArm{{"", b.stmts(f.Body.List)}}
		return append(out, ev)
	case *ast.Ident:
		switch o := c.info.Uses[f].(type) {
		case *types.Builtin:
			switch o.Name() {
			case "close":
				return append(b.exprs(x.Args), b.ev("close", b.fieldName(x.Args[0]), x))
			case "delete":
				return append(b.exprs(x.Args), b.ev("delete", b.fieldName(x.Args[0]), x))
			}
			return b.exprs(x.Args)
		case *types.Func:
			out := b.exprs(x.Args)
			if o.Pkg() == c.pkg {
				ev := b.ev("call", o.Name()+b.constArgs(x), x)
				ev.targets = []string{o.Name()}
				out = append(out, ev)
			}
			return out
		case *types.Var:
			return append(b.exprs(x.Args), b.ev("dyn", f.Name, x))
		}
		return b.exprs(x.Args)
	case *ast.SelectorExpr:
		s, ok := c.info.Selections[f]
		if !ok {
			// qualified identifier pkg.F
			out := b.exprs(x.Args)
			if id, ok := f.X.(*ast.Ident); ok {
				if pn, ok := c.info.Uses[id].(*types.PkgName); ok {
					q := pn.Imported().Path() + "." + f.Sel.Name
					switch q {
					case "time.AfterFunc":
						// the function runs later on a goroutine of its own
						ev := b.ev("go", "time.AfterFunc", x)
						var body []*cev
						for _, e := range out {
							if e.kind == "funcref" {
								ce := b.ev("call", e.arg, x)
								ce.targets = []string{e.arg}
								body = append(body, ce)
							}
						}
						b.nGo++
						name := fmt.Sprintf("%s·go%d", b.fn, b.nGo)
						b.pseudo = append(b.pseudo, &concFunc{name: name, body: body, root: "timer"})
						ev.arms = []cevArm{{name, body}}
						var rest []*cev
						for _, e := range out {
							if e.kind != "funcref" {
								rest = append(rest, e)
							}
						}
						return append(rest, ev)
					case "time.Sleep":
						return append(out, b.ev("ext", q, x))
					}
				}
			}
			return out
		}
		switch s.Kind() {
		case types.FieldVal:
			// field of function type: a stored callback
			return append(append(b.expr(f.X), b.exprs(x.Args)...), b.ev("dyn", b.fieldName(f), x))
		case types.MethodVal:
			fn := s.Obj().(*types.Func)
			recvT := s.Recv()
			out := b.expr(f.X)
			// sync primitives
			switch {
			case isSyncType(recvT, "Mutex") || isSyncType(recvT, "RWMutex"):
				switch fn.Name() {
				case "Lock", "RLock", "Unlock", "RUnlock":
					return append(out, b.ev(fn.Name(), b.fieldName(f.X), x))
				}
				die("conc facts: %s uses sync mutex method %s at %s (TryLock is not modelled)", b.fn, fn.Name(), c.pos(x))
			case isSyncType(recvT, "Once"):
				ev := b.ev("once", b.fieldName(f.X), x)
				var body []*cev
				if len(x.Args) == 1 {
					if fl, ok := unparen(x.Args[0]).(*ast.FuncLit); ok {
						body = b.stmts(fl.Body.List)
					} else {
						for _, e := range b.expr(x.Args[0]) {
							if e.kind == "funcref" {
								ce := b.ev("call", e.arg, x)
								ce.targets = []string{e.arg}
								body = append(body, ce)
							}
						}
					}
				}
				ev.arms = []cevArm{{"", body}}
				return append(out, ev)
			case isSyncType(recvT, "Cond"):
				switch fn.Name() {
				case "Wait":
					return append(out, b.ev("wait", b.fieldName(f.X), x))
				case "Signal":
					return append(out, b.ev("signal", b.fieldName(f.X), x))
				case "Broadcast":
					return append(out, b.ev("broadcast", b.fieldName(f.X), x))
				}
			case isSyncType(recvT, "WaitGroup"):
				if fn.Name() == "Wait" {
					return append(out, b.ev("ext", "sync.WaitGroup.Wait", x))
				}
			}
			out = append(out, b.exprs(x.Args)...)
			if types.IsInterface(recvT) {
				iface := recvT.Underlying().(*types.Interface)
				n := namedOf(recvT)
				iname := exprText(f.X)
				if n != nil {
					iname = n.Obj().Name()
					if n.Obj().Pkg() != nil && n.Obj().Pkg() != c.pkg {
						iname = n.Obj().Pkg().Name() + "." + iname
					}
				}
				if n != nil && n.Obj().Pkg() == c.pkg {
					ev := b.ev("icall", iname+"."+fn.Name(), x)
					ev.targets = b.implementers(iface, fn.Name())
					return append(out, ev)
				}
				// interface of another package: only the transport and context matter here
				switch iname {
				case "net.Conn":
					return append(out, b.ev("ext", iname+"."+fn.Name(), x))
				}
				return out
			}
			if fn.Pkg() != c.pkg {
				return out
			}
			dn := namedOf(fn.Type().(*types.Signature).Recv().Type())
			if dn == nil {
				return out
			}
			name := dn.Obj().Name() + "." + fn.Name()
			ev := b.ev("call", name+b.constArgs(x), x)
			ev.targets = []string{name}
			return append(out, ev)
		}
		return b.exprs(x.Args)
	}
	// call of a call result, of an indexed function value, …
	return append(append(b.expr(fun), b.exprs(x.Args)...), b.ev("dyn", exprText(fun), x))
}

// constArgs: "(c1, c2)" when every argument is a named package constant (e.g. setState(closed)), else "".
func (b *concB) constArgs(x *ast.CallExpr) string {
	if len(x.Args) == 0 {
		return ""
	}
	var names []string
	for _, a := range x.Args {
		id, ok := unparen(a).(*ast.Ident)
		if !ok {
			return ""
		}
		if _, ok := b.c.info.Uses[id].(*types.Const); !ok {
			return ""
		}
		names = append(names, id.Name)
	}
	return "(" + strings.Join(names, ", ") + ")"
}

func (b *concB) stmts(list []ast.Stmt) []*cev {
	var out []*cev
	for _, s := range list {
		out = append(out, b.stmt(s, "")...)
	}
	return out
}

func (b *concB) block(s ast.Stmt) []*cev {
	if s == nil {
		return nil
	}
	return b.stmt(s, "")
}

func (b *concB) commLabel(s ast.Stmt) string {
	switch x := s.(type) {
	case nil:
		return "default"
	case *ast.SendStmt:
		return "send " + b.fieldName(x.Chan)
	case *ast.ExprStmt:
		if u, ok := unparen(x.X).(*ast.UnaryExpr); ok && u.Op == token.ARROW {
			return "recv " + b.fieldName(u.X)
		}
	case *ast.AssignStmt:
		if len(x.Rhs) == 1 {
			if u, ok := unparen(x.Rhs[0]).(*ast.UnaryExpr); ok && u.Op == token.ARROW {
				return "recv " + b.fieldName(u.X)
			}
		}
	}
	return "?"
}

func (b *concB) stmt(s ast.Stmt, label string) []*cev {
	c := b.c
	switch x := s.(type) {
	case nil, *ast.EmptyStmt:
		return nil
	case *ast.ExprStmt:
		return b.expr(x.X)
	case *ast.AssignStmt:
		out := b.exprs(x.Rhs)
		for _, l := range x.Lhs {
			out = append(out, b.expr(l)...)
			if n := b.fieldName(l); concSetFields[n] {
				out = append(out, b.ev("set", n, x))
			}
		}
		return out
	case *ast.IncDecStmt:
		return b.expr(x.X)
	case *ast.DeclStmt:
		var out []*cev
		if gd, ok := x.Decl.(*ast.GenDecl); ok {
			for _, sp := range gd.Specs {
				if vs, ok := sp.(*ast.ValueSpec); ok {
					out = append(out, b.exprs(vs.Values)...)
				}
			}
		}
		return out
	case *ast.SendStmt:
		return append(append(b.expr(x.Value), b.expr(x.Chan)...), b.ev("send", b.fieldName(x.Chan), x))
	case *ast.GoStmt:
		out := b.exprs(x.Call.Args)
		var body []*cev
		if fl, ok := unparen(x.Call.Fun).(*ast.FuncLit); ok {
			body = b.stmts(fl.Body.List)
		} else {
			inner := *x.Call
			inner.Args = nil
			body = b.call(&inner)
		}
		b.nGo++
		name := fmt.Sprintf("%s·go%d", b.fn, b.nGo)
		b.pseudo = append(b.pseudo, &concFunc{name: name, body: body, root: "go"})
		ev := b.ev("go", "go", x)
		ev.arms = []cevArm{{name, body}}
		return append(out, ev)
	case *ast.DeferStmt:
		if sel, ok := unparen(x.Call.Fun).(*ast.SelectorExpr); ok {
			if s, ok := c.info.Selections[sel]; ok && s.Kind() == types.MethodVal &&
				(isSyncType(s.Recv(), "Mutex") || isSyncType(s.Recv(), "RWMutex")) {
				switch sel.Sel.Name {
				case "Unlock", "RUnlock":
					ev := b.ev("defer"+sel.Sel.Name, b.fieldName(sel.X), x)
					ev.arms = []cevArm{{"", []*cev{b.ev(sel.Sel.Name, b.fieldName(sel.X), x)}}}
					return []*cev{ev}
				}
			}
		}
		out := b.exprs(x.Call.Args) // arguments are evaluated now
		var body []*cev
		if fl, ok := unparen(x.Call.Fun).(*ast.FuncLit); ok {
			body = b.stmts(fl.Body.List)
		} else {
			inner := *x.Call
			inner.Args = nil
			body = b.call(&inner)
		}
		ev := b.ev("defer", "", x)
		ev.arms = []cevArm{{"", body}}
		return append(out, ev)
	case *ast.ReturnStmt:
		return append(b.exprs(x.Results), b.ev("return", "", x))
	case *ast.BranchStmt:
		l := ""
		if x.Label != nil {
			l = x.Label.Name
		}
		switch x.Tok {
		case token.BREAK:
			return []*cev{b.ev("break", l, x)}
		case token.CONTINUE:
			return []*cev{b.ev("continue", l, x)}
		}
		die("conc facts: %s uses %s at %s (not modelled)", b.fn, x.Tok, c.pos(x))
	case *ast.BlockStmt:
		return b.stmts(x.List)
	case *ast.LabeledStmt:
		return b.stmt(x.Stmt, x.Label.Name)
	case *ast.IfStmt:
		out := append(b.block(x.Init), b.expr(x.Cond)...)
		ev := b.ev("if", exprText(x.Cond), x)
		ev.arms = []cevArm{{"then", b.stmts(x.Body.List)}, {"else", b.block(x.Else)}}
		return append(out, ev)
	case *ast.SwitchStmt:
		out := append(b.block(x.Init), b.expr(x.Tag)...)
		tag := ""
		if x.Tag != nil {
			tag = exprText(x.Tag)
		}
		ev := b.ev("switch", tag, x)
		ev.arms = b.caseArms(x.Body)
		if label != "" {
			ev.arg = label + ": " + ev.arg
		}
		return append(out, ev)
	case *ast.TypeSwitchStmt:
		out := b.block(x.Init)
		ev := b.ev("switch", "type", x)
		ev.arms = b.caseArms(x.Body)
		return append(out, ev)
	case *ast.SelectStmt:
		ev := b.ev("select", label, x)
		for _, cl := range x.Body.List {
			cc := cl.(*ast.CommClause)
			ev.arms = append(ev.arms, cevArm{b.commLabel(cc.Comm), b.stmts(cc.Body)})
		}
		return []*cev{ev}
	case *ast.ForStmt:
		out := b.block(x.Init)
		ev := b.ev("loop", label, x)
		body := b.expr(x.Cond)
		body = append(body, b.stmts(x.Body.List)...)
		body = append(body, b.block(x.Post)...)
		kind := "for"
		if x.Cond == nil {
			kind = "inf"
		}
		ev.arms = []cevArm{{kind, body}}
		return append(out, ev)
	case *ast.RangeStmt:
		out := b.expr(x.X)
		if tv, ok := c.info.Types[x.X]; ok {
			if _, isChan := tv.Type.Underlying().(*types.Chan); isChan {
				die("conc facts: %s ranges over a channel at %s (not modelled)", b.fn, c.pos(x))
			}
		}
		ev := b.ev("loop", label, x)
		ev.arms = []cevArm{{"for", b.stmts(x.Body.List)}}
		return append(out, ev)
	}
	die("conc facts: %s: unsupported statement %T at %s", b.fn, s, c.pos(s))
	return nil
}

func (b *concB) caseArms(body *ast.BlockStmt) []cevArm {
	arms := make([]cevArm, len(body.List))
	hasDefault := false
	// from the last clause backwards: a clause ending in `fallthrough` continues with the next clause's body
	for i := len(body.List) - 1; i >= 0; i-- {
		cc := body.List[i].(*ast.CaseClause)
		lab := "default"
		if cc.List != nil {
			var cs []string
			for _, e := range cc.List {
				cs = append(cs, exprText(e))
			}
			lab = strings.Join(cs, " | ")
		} else {
			hasDefault = true
		}
		stmts := cc.Body
		falls := false
		if n := len(stmts); n > 0 {
			if br, ok := stmts[n-1].(*ast.BranchStmt); ok && br.Tok == token.FALLTHROUGH {
				falls = true
				stmts = stmts[:n-1]
			}
		}
		evs := b.stmts(stmts)
		if falls && i+1 < len(arms) {
			evs = append(evs, arms[i+1].body...)
		}
		arms[i] = cevArm{lab, evs}
	}
	if !hasDefault {
		arms = append(arms, cevArm{"(no case)", nil})
	}
	return arms
}

// ---- local lock states ---------------------------------------------------------------------------

type lst struct {
	plus, minus []string
	defers      []int
}

func (s lst) key() string { return strings.Join(s.plus, ",") + "|" + strings.Join(s.minus, ",") }
func (s lst) fullKey() string {
	return s.key() + "|" + fmt.Sprint(s.defers)
}

type lset map[string]lst

func (a lset) addAll(b lset) bool {
	ch := false
	for k, v := range b {
		if _, ok := a[k]; !ok {
			a[k] = v
			ch = true
		}
	}
	return ch
}

func has(xs []string, x string) bool {
	for _, y := range xs {
		if y == x {
			return true
		}
	}
	return false
}

func with(xs []string, x string) []string {
	if has(xs, x) {
		return xs
	}
	out := append(append([]string{}, xs...), x)
	sort.Strings(out)
	return out
}

func without(xs []string, x string) []string {
	var out []string
	for _, y := range xs {
		if y != x {
			out = append(out, y)
		}
	}
	return out
}

type cframe struct {
	kind, label string // loop | switch | select
	brk, cont   lset
}

type canalyzer struct {
	all       *concAll
	fn        *concFunc
	frames    []*cframe
	rets      *lset
	deferTab  [][]*cev
	deferIdx  map[*cev]int
	relocked  []string // "fn: m" acquired while already in the local plus set
	condMutex map[string]string
}

func (a *canalyzer) record(e *cev, in lset) {
	for _, s := range in {
		e.seen[s.key()] = lst{plus: s.plus, minus: s.minus}
	}
}

func mapStates(in lset, f func(lst) lst) lset {
	out := lset{}
	for _, s := range in {
		n := f(s)
		out[n.fullKey()] = n
	}
	return out
}

func (a *canalyzer) lock(s lst, m string) lst {
	if has(s.minus, m) {
		return lst{plus: s.plus, minus: without(s.minus, m), defers: s.defers}
	}
	if has(s.plus, m) {
		a.relocked = append(a.relocked, a.fn.name+": "+m)
	}
	return lst{plus: with(s.plus, m), minus: s.minus, defers: s.defers}
}

func (a *canalyzer) unlock(s lst, m string) lst {
	if has(s.plus, m) {
		return lst{plus: without(s.plus, m), minus: s.minus, defers: s.defers}
	}
	return lst{plus: s.plus, minus: with(s.minus, m), defers: s.defers}
}

func (a *canalyzer) findFrame(label string, wantLoop bool) *cframe {
	for i := len(a.frames) - 1; i >= 0; i-- {
		f := a.frames[i]
		if label != "" {
			if f.label == label {
				return f
			}
			continue
		}
		if !wantLoop || f.kind == "loop" {
			return f
		}
	}
	return nil
}

// scope: a function-like body with its own defers and returns; returns the states after its defers ran.
func (a *canalyzer) scope(body []*cev, in lset) lset {
	out := lset{}
	for _, s0 := range in {
		saveFrames, saveRets := a.frames, a.rets
		a.frames = nil
		rets := lset{}
		a.rets = &rets
		start := lst{plus: s0.plus, minus: s0.minus}
		normal := a.exec(body, lset{start.fullKey(): start})
		rets.addAll(normal)
		a.frames, a.rets = saveFrames, saveRets
		for _, r := range rets {
			cur := lset{}
			st := lst{plus: r.plus, minus: r.minus}
			cur[st.fullKey()] = st
			for i := len(r.defers) - 1; i >= 0; i-- {
				cur = a.scope(a.deferTab[r.defers[i]], cur)
			}
			for _, e := range cur {
				n := lst{plus: e.plus, minus: e.minus, defers: s0.defers}
				out[n.fullKey()] = n
			}
		}
	}
	return out
}

func (a *canalyzer) exec(list []*cev, in lset) lset {
	cur := in
	for _, e := range list {
		if len(cur) == 0 {
			return cur
		}
		cur = a.step(e, cur)
	}
	return cur
}

func (a *canalyzer) step(e *cev, in lset) lset {
	a.record(e, in)
	switch e.kind {
	case "Lock", "RLock":
		return mapStates(in, func(s lst) lst { return a.lock(s, e.arg) })
	case "Unlock", "RUnlock":
		return mapStates(in, func(s lst) lst { return a.unlock(s, e.arg) })
	case "deferUnlock", "deferRUnlock", "defer":
		body := e.arms[0].body
		if len(body) == 0 {
			return in
		}
		idx, ok := a.deferIdx[e]
		if !ok {
			a.deferTab = append(a.deferTab, body)
			idx = len(a.deferTab) - 1
			a.deferIdx[e] = idx
		}
		return mapStates(in, func(s lst) lst {
			if len(s.defers) > 12 {
				die("conc facts: %s defers inside a loop at %s (not modelled)", a.fn.name, e.pos)
			}
			return lst{plus: s.plus, minus: s.minus, defers: append(append([]int{}, s.defers...), idx)}
		})
	case "inline":
		return a.scope(e.arms[0].body, in)
	case "once", "closure":
		out := lset{}
		out.addAll(in) // not run (already done / stored for later)
		out.addAll(a.scope(e.arms[0].body, in))
		return out
	case "go":
		return in // analysed as a function of its own, entered with nothing held
	case "wait":
		return in // releases and re-acquires its mutex; handled where held sets are read off
	case "if":
		out := lset{}
		for _, arm := range e.arms {
			out.addAll(a.exec(arm.body, in))
		}
		return out
	case "switch", "select":
		fr := &cframe{kind: e.kind, brk: lset{}, cont: lset{}}
		if e.kind == "select" {
			fr.label = e.arg
		} else if i := strings.Index(e.arg, ": "); i > 0 {
			fr.label = e.arg[:i]
		}
		a.frames = append(a.frames, fr)
		out := lset{}
		for _, arm := range e.arms {
			out.addAll(a.exec(arm.body, in))
		}
		a.frames = a.frames[:len(a.frames)-1]
		out.addAll(fr.brk)
		return out
	case "loop":
		fr := &cframe{kind: "loop", label: e.arg, brk: lset{}, cont: lset{}}
		a.frames = append(a.frames, fr)
		head := lset{}
		head.addAll(in)
		for {
			out := a.exec(e.arms[0].body, head)
			ch := head.addAll(out)
			if head.addAll(fr.cont) {
				ch = true
			}
			if !ch {
				break
			}
		}
		a.frames = a.frames[:len(a.frames)-1]
		res := lset{}
		if e.arms[0].label != "inf" {
			res.addAll(head)
		}
		res.addAll(fr.brk)
		return res
	case "return":
		a.rets.addAll(in)
		return lset{}
	case "break":
		fr := a.findFrame(e.arg, false)
		if fr == nil {
			die("conc facts: %s: break without target at %s", a.fn.name, e.pos)
		}
		fr.brk.addAll(in)
		return lset{}
	case "continue":
		fr := a.findFrame(e.arg, true)
		if fr == nil {
			die("conc facts: %s: continue without target at %s", a.fn.name, e.pos)
		}
		fr.cont.addAll(in)
		return lset{}
	}
	return in // call icall dyn ext funcref send recv close signal broadcast set delete: no effect on the local lock state
}

// ---- whole-package analysis ---------------------------------------------------------------------------

type concAll struct {
	c         *ctx
	funcs     map[string]*concFunc
	names     []string
	ctxs      map[string]map[string][]string // function -> key -> held set it can be entered with
	callers   map[string]int
	relocked  []string
	condMutex map[string]string
	relevant  map[string]bool
}

func walkEvents(list []*cev, f func(*cev)) {
	for _, e := range list {
		f(e)
		if e.kind == "go" {
			continue // body belongs to the pseudo function
		}
		for _, arm := range e.arms {
			walkEvents(arm.body, f)
		}
	}
}

func keyOf(xs []string) string { return strings.Join(xs, ",") }

func heldAt(ctxHeld []string, s lst) []string {
	var out []string
	for _, m := range ctxHeld {
		if !has(s.minus, m) {
			out = append(out, m)
		}
	}
	for _, m := range s.plus {
		if !has(out, m) {
			out = append(out, m)
		}
	}
	sort.Strings(out)
	return out
}

func (c *ctx) concAnalyse() *concAll {
	all := &concAll{c: c, funcs: map[string]*concFunc{}, ctxs: map[string]map[string][]string{}, callers: map[string]int{}, condMutex: map[string]string{}}
	for _, name := range sortedKeys(c.funcs) {
		fd := c.funcs[name]
		if fd.Body == nil {
			continue
		}
		b := &concB{c: c, fn: name}
		f := &concFunc{name: name, exported: fd.Name.IsExported()}
		if fd.Recv != nil && len(fd.Recv.List) == 1 && !ast.IsExported(recvName(fd.Recv.List[0].Type)) {
			f.exported = false
		}
		f.body = b.stmts(fd.Body.List)
		all.funcs[name] = f
		for _, p := range b.pseudo {
			all.funcs[p.name] = p
		}
		// sync.NewCond(&x.m) assigned to a field: which mutex a condition variable releases in Wait
		ast.Inspect(fd.Body, func(n ast.Node) bool {
			as, ok := n.(*ast.AssignStmt)
			if !ok || len(as.Lhs) != 1 || len(as.Rhs) != 1 {
				return true
			}
			call, ok := as.Rhs[0].(*ast.CallExpr)
			if !ok || exprText(call.Fun) != "sync.NewCond" || len(call.Args) != 1 {
				return true
			}
			all.condMutex[b.fieldName(as.Lhs[0])] = b.fieldName(call.Args[0])
			return true
		})
	}
	all.names = sortedKeys(all.funcs)
	// local analysis
	for _, n := range all.names {
		f := all.funcs[n]
		a := &canalyzer{all: all, fn: f, deferIdx: map[*cev]int{}}
		start := lst{}
		f.exits = a.scope(f.body, lset{start.fullKey(): start})
		all.relocked = append(all.relocked, a.relocked...)
	}
	// call counts, roots
	for _, n := range all.names {
		walkEvents(all.funcs[n].body, func(e *cev) {
			switch e.kind {
			case "call", "icall":
				for _, t := range e.targets {
					all.callers[t]++
				}
			case "funcref":
				if f, ok := all.funcs[e.arg]; ok && f.root == "" {
					f.root = "funcref"
				}
			}
		})
	}
	for _, n := range all.names {
		f := all.funcs[n]
		if f.root == "" {
			if f.exported {
				f.root = "exported"
			} else if all.callers[n] == 0 {
				f.root = "uncalled"
			}
		}
		all.ctxs[n] = map[string][]string{}
		if f.root != "" {
			all.ctxs[n][""] = nil
		}
	}
	// context propagation
	for changed := true; changed; {
		changed = false
		for _, n := range all.names {
			f := all.funcs[n]
			walkEvents(f.body, func(e *cev) {
				if e.kind != "call" && e.kind != "icall" {
					return
				}
				for _, h := range all.ctxs[n] {
					for _, s := range e.seen {
						t := heldAt(h, s)
						for _, g := range e.targets {
							if m, ok := all.ctxs[g]; ok {
								if _, ok := m[keyOf(t)]; !ok {
									m[keyOf(t)] = t
									changed = true
								}
							}
						}
					}
				}
			})
		}
	}
	// relevance: functions whose tree (transitively) contains anything but plain calls and control structure
	all.relevant = map[string]bool{}
	for _, n := range concKeepCalls { // atomic state writes: no lock, no channel, but part of the choreography
		if _, ok := all.funcs[n]; ok {
			all.relevant[n] = true
		}
	}
	for _, n := range all.names {
		walkEvents(all.funcs[n].body, func(e *cev) {
			switch e.kind {
			case "call", "icall", "if", "switch", "loop", "return", "break", "continue", "inline", "funcref", "closure", "defer":
			default:
				all.relevant[n] = true
			}
		})
	}
	for changed := true; changed; {
		changed = false
		for _, n := range all.names {
			if all.relevant[n] {
				continue
			}
			walkEvents(all.funcs[n].body, func(e *cev) {
				for _, t := range e.targets {
					if all.relevant[t] && !all.relevant[n] {
						all.relevant[n] = true
						changed = true
					}
				}
				if e.kind == "go" || e.kind == "closure" {
					if len(e.arms) > 0 && all.relevant[e.arms[0].label] || all.relevant[e.arg] {
						if !all.relevant[n] {
							all.relevant[n] = true
							changed = true
						}
					}
				}
			})
		}
	}
	return all
}

// ---- flattening ------------------------------------------------------------------------------------------

type tok [2]string

func (all *concAll) pruned(list []*cev, top bool) []*cev {
	var out []*cev
	for _, e := range list {
		switch e.kind {
		case "call":
			if !all.relevant[e.targets[0]] {
				continue
			}
		case "icall":
			any := false
			for _, t := range e.targets {
				if all.relevant[t] {
					any = true
				}
			}
			if !any {
				continue
			}
		case "funcref":
			if !all.relevant[e.arg] {
				continue
			}
		}
		out = append(out, e)
	}
	return out
}

func (all *concAll) flat(list []*cev) []tok {
	var out []tok
	for _, e := range all.pruned(list, false) {
		switch e.kind {
		case "icall":
			var ts []string
			for _, t := range e.targets {
				if all.relevant[t] {
					ts = append(ts, t)
				}
			}
			out = append(out, tok{"icall", e.arg + "=>" + strings.Join(ts, "|")})
		case "deferUnlock":
			out = append(out, tok{"defer Unlock", e.arg})
		case "deferRUnlock":
			out = append(out, tok{"defer RUnlock", e.arg})
		case "go", "defer", "inline", "closure", "once":
			body := all.flat(e.arms[0].body)
			if len(body) == 0 && e.kind != "go" {
				continue
			}
			arg := e.arg
			if e.kind == "go" {
				arg = e.arms[0].label
			}
			out = append(out, tok{e.kind + "{", arg})
			out = append(out, body...)
			out = append(out, tok{"}", ""})
		case "if":
			th, el := all.flat(e.arms[0].body), all.flat(e.arms[1].body)
			if len(th) == 0 && len(el) == 0 {
				continue
			}
			out = append(out, tok{"if{", e.arg})
			out = append(out, th...)
			out = append(out, tok{"}", ""})
			if len(el) > 0 {
				out = append(out, tok{"else{", ""})
				out = append(out, el...)
				out = append(out, tok{"}", ""})
			}
		case "switch", "select":
			var arms [][]tok
			any := e.kind == "select"
			for _, arm := range e.arms {
				f := all.flat(arm.body)
				arms = append(arms, f)
				if len(f) > 0 {
					any = true
				}
			}
			if !any {
				continue
			}
			out = append(out, tok{e.kind + "{", e.arg})
			for i, arm := range e.arms {
				if e.kind == "switch" && len(arms[i]) == 0 {
					continue
				}
				out = append(out, tok{"arm{", arm.label})
				out = append(out, arms[i]...)
				out = append(out, tok{"}", ""})
			}
			out = append(out, tok{"}", ""})
		case "loop":
			body := all.flat(e.arms[0].body)
			if len(body) == 0 {
				continue
			}
			out = append(out, tok{"loop{", e.arms[0].label})
			out = append(out, body...)
			out = append(out, tok{"}", ""})
		default:
			out = append(out, tok{e.kind, e.arg})
		}
	}
	return out
}

// flatFunc: flattened body without the returns/breaks that carry no information (those in bodies that hold nothing else)
func (all *concAll) flatFunc(list []*cev) []tok {
	ts := all.flat(list)
	// drop control-only structure: repeat removing `return`/`break`/`continue` tokens directly enclosed by an
	// otherwise empty block is not needed for soundness; keep the list as it is but cut a trailing return
	for len(ts) > 0 && ts[len(ts)-1][0] == "return" {
		ts = ts[:len(ts)-1]
	}
	return ts
}

func toksLean(ts []tok) string {
	var xs []string
	for _, t := range ts {
		xs = append(xs, ltuple(lstr(t[0]), lstr(t[1])))
	}
	return llist(xs, false)
}

func onlyControl(ts []tok) bool {
	for _, t := range ts {
		switch t[0] {
		case "return", "break", "continue", "}", "if{", "else{", "switch{", "arm{", "loop{", "inline{", "defer{":
		default:
			return false
		}
	}
	return true
}

// ---- the facts ---------------------------------------------------------------------------------------------

const tokListTy = "List (String × String)"

func (all *concAll) find(list []*cev, pred func(*cev) bool) *cev {
	var hit *cev
	walkEvents(list, func(e *cev) {
		if hit == nil && pred(e) {
			hit = e
		}
	})
	return hit
}

func (all *concAll) mustFunc(name string) *concFunc {
	f, ok := all.funcs[name]
	if !ok {
		die("conc facts: function %s not found (renamed or removed?)", name)
	}
	return f
}

func (all *concAll) selectArms(fn string) string {
	f := all.mustFunc(fn)
	var xs []string
	walkEvents(f.body, func(e *cev) {
		if e.kind != "select" {
			return
		}
		for _, arm := range e.arms {
			xs = append(xs, ltuple(lstr(arm.label), toksLean(all.flat(arm.body))))
		}
	})
	return llist(xs, true)
}

type edge struct{ held, acq, where string }

func (c *ctx) concFacts() []fact {
	all := c.concAnalyse()
	var fs []fact

	// 1a. lockEvents
	var evs []string
	for _, n := range all.names {
		if !all.relevant[n] || strings.Contains(n, "·") {
			continue
		}
		ts := all.flatFunc(all.funcs[n].body)
		if len(ts) == 0 || onlyControl(ts) {
			continue
		}
		evs = append(evs, ltuple(lstr(n), toksLean(ts)))
	}
	fs = append(fs, fact{"lockEvents", "List (String × List (String × String))",
		"per function of the package (non-test) that takes part in synchronisation, directly or through callees: its event tree, flattened " +
			"(`x{` … `}` brackets): Lock/RLock/Unlock/RUnlock/defer Unlock m (mutex = receiver TYPE.field), call f (resolved callee; constant arguments kept), " +
			"icall I.m=>implementers (interface call resolved by method set), dyn f (call of a function VALUE), ext (transport / sleep), send/recv/close ch, " +
			"wait/signal/broadcast cond, set/delete of listed fields, go{ defer{ inline{ closure{ once{ if{ else{ switch{ select{ arm{ loop{, return/break/continue. " +
			"Calls of functions that (transitively) contain none of these are left out.",
		llist(evs, true)})

	// condition variables and their mutexes
	var cm [][2]string
	for _, k := range sortedKeys(all.condMutex) {
		cm = append(cm, [2]string{k, all.condMutex[k]})
	}
	fs = append(fs, pairsFact("condMutexes", "`x.c = sync.NewCond(&x.m)`: (condition variable, the mutex its Wait releases and re-acquires)", cm))

	// 1b. lock-order edges; 1e. callback sites; observer sites; blocking under lock; unlock of an unheld mutex
	edges := map[string]edge{}
	addEdge := func(h, m, w string) {
		k := h + "\x00" + m
		if old, ok := edges[k]; !ok || w < old.where {
			edges[k] = edge{h, m, w}
		}
	}
	type site struct {
		fn, what string
		held     []string
	}
	var cbs, obs, blocking, unheld, stw, plug []site
	seenSite := map[string]bool{}
	addSite := func(dst *[]site, fn, what string, held []string) {
		k := fmt.Sprintf("%p|%s|%s|%s", dst, fn, what, keyOf(held))
		if !seenSite[k] {
			seenSite[k] = true
			*dst = append(*dst, site{fn, what, held})
		}
	}
	dropSites := map[string]bool{} // function in which a caller's mutex is released for a while: "fn: mutex"
	for _, n := range all.names {
		f := all.funcs[n]
		base := n
		if i := strings.Index(n, "·"); i > 0 {
			base = n[:i]
		}
		var selDefault func(e *cev) bool = func(e *cev) bool {
			for _, arm := range e.arms {
				if arm.label == "default" {
					return true
				}
			}
			return false
		}
		inSelect := map[*cev]bool{}
		_ = inSelect
		walkEvents(f.body, func(e *cev) {
			for _, h := range all.ctxs[n] {
				for _, s := range e.seen {
					t := heldAt(h, s)
					for _, m := range s.minus {
						if has(h, m) {
							dropSites[base+": "+m] = true
						}
					}
					switch e.kind {
					case "Lock", "RLock":
						for _, x := range t {
							addEdge(x, e.arg, base)
						}
					case "Unlock", "RUnlock":
						if !has(t, e.arg) {
							addSite(&unheld, base, e.kind+" "+e.arg, t)
						}
					case "wait":
						m := all.condMutex[e.arg]
						if !has(t, m) {
							addSite(&unheld, base, "wait "+e.arg, t)
						}
						rest := without(t, m)
						for _, x := range rest {
							addEdge(x, m, base)
						}
						if len(rest) > 0 {
							addSite(&blocking, base, "wait "+e.arg, rest)
						}
					case "dyn":
						addSite(&cbs, base, e.arg, t)
					case "icall":
						if strings.Contains(e.arg, "Observer.") {
							addSite(&obs, base, e.arg, t)
						}
						if i := strings.Index(e.arg, "."); i > 0 && ast.IsExported(e.arg[:i]) && len(t) > 0 {
							addSite(&plug, "", e.arg, t)
						}
					case "call":
						if e.targets[0] == "Association.setState" {
							addSite(&stw, base, e.arg, t)
						}
					case "select":
						if !selDefault(e) && len(t) > 0 {
							var ls []string
							for _, arm := range e.arms {
								ls = append(ls, arm.label)
							}
							addSite(&blocking, base, "select "+strings.Join(ls, " / "), t)
						}
					case "send", "recv":
						if len(t) > 0 {
							addSite(&blocking, base, e.kind+" "+e.arg, t)
						}
					case "ext":
						if len(t) > 0 && (strings.HasPrefix(e.arg, "net.Conn.") || e.arg == "time.Sleep" || e.arg == "sync.WaitGroup.Wait") {
							addSite(&blocking, base, e.arg, t)
						}
					}
				}
			}
		})
	}
	var es []edge
	for _, e := range edges {
		es = append(es, e)
	}
	sort.Slice(es, func(i, j int) bool {
		if es[i].held != es[j].held {
			return es[i].held < es[j].held
		}
		return es[i].acq < es[j].acq
	})
	var el []string
	for _, e := range es {
		el = append(el, ltuple(lstr(e.held), lstr(e.acq), lstr(e.where)))
	}
	fs = append(fs, fact{"lockOrderEdges", "List (String × String × String)",
		"(held, acquired, a function where it happens): some path acquires `acquired` while `held` is held, computed over the call graph " +
			"(entry contexts of every function × the lock state at each Lock/RLock/Cond.Wait inside it). A mutex released for a while inside a callee " +
			"(`a.lock.Unlock(); cb(); a.lock.Lock()`) is NOT held during that window. Mutexes are identified by receiver type and field, so two streams' locks are one node.",
		llist(el, true)})

	sitesLean := func(ss []site) string {
		sort.Slice(ss, func(i, j int) bool {
			if ss[i].fn != ss[j].fn {
				return ss[i].fn < ss[j].fn
			}
			if ss[i].what != ss[j].what {
				return ss[i].what < ss[j].what
			}
			return keyOf(ss[i].held) < keyOf(ss[j].held)
		})
		var xs []string
		for _, s := range ss {
			xs = append(xs, ltuple(lstr(s.fn), lstr(s.what), lstrs(s.held)))
		}
		return llist(xs, true)
	}
	const siteTy = "List (String × String × List String)"
	fs = append(fs, fact{"callbackSites", siteTy,
		"every call of a function VALUE (variable, parameter or field of function type: user callbacks, option functions, factories) in non-test code: " +
			"(enclosing function, callee text, mutexes held there in some calling context)", sitesLean(cbs)})
	fs = append(fs, fact{"observerSites", siteTy,
		"every call through a timer observer interface: (enclosing function, interface.method, mutexes held there)", sitesLean(obs)})
	fs = append(fs, fact{"pluginSites", siteTy,
		"every call through an EXPORTED interface of this package (an application may supply the implementation) made with a mutex held: " +
			"(\"\", interface.method, mutexes held)", sitesLean(plug)})
	fs = append(fs, fact{"stateWriteSites", siteTy,
		"every `setState` call (atomic store of the association state): (enclosing function, call with constant argument if any, mutexes held there)", sitesLean(stw)})
	fs = append(fs, fact{"blockingUnderLock", siteTy,
		"every operation that can block (channel send/receive, select without default, Cond.Wait, transport call, sleep) reached with a mutex held: " +
			"(enclosing function, operation, mutexes held; for Cond.Wait the mutexes held besides its own)", sitesLean(blocking)})
	fs = append(fs, fact{"unlockUnheld", siteTy,
		"Unlock/RUnlock/Cond.Wait of a mutex that is not held in some calling context (expected: none)", sitesLean(unheld)})
	var unb []string
	for _, n := range all.names {
		for _, s := range all.funcs[n].exits {
			if len(s.plus) > 0 || len(s.minus) > 0 {
				unb = append(unb, lstr(fmt.Sprintf("%s returns with +[%s] -[%s]", n, keyOf(s.plus), keyOf(s.minus))))
			}
		}
	}
	sort.Strings(unb)
	fs = append(fs, fact{"unbalancedFuncs", "List String",
		"functions with a path that returns holding a mutex it acquired, or without a caller's mutex it released (expected: none; the call-graph analysis relies on it)",
		llist(uniq(unb), true)})
	sort.Strings(all.relocked)
	fs = append(fs, fact{"relockedLocally", "List String",
		"function: mutex acquired while the same function already holds it (expected: none)", lstrs(uniq(all.relocked))})
	var ds []string
	for k := range dropSites {
		ds = append(ds, k)
	}
	sort.Strings(ds)
	fs = append(fs, fact{"lockDropSites", "List String",
		"`function: mutex` — the function releases a mutex held by its CALLER for a while and re-acquires it (drop-and-reacquire)", lstrs(ds)})

	// 1c. choreography of teardown
	rl := all.mustFunc("Association.readLoop")
	def := all.find(rl.body, func(e *cev) bool { return e.kind == "defer" })
	if def == nil {
		die("conc facts: Association.readLoop has no deferred block any more")
	}
	fs = append(fs, fact{"readLoopDefer", tokListTy, "ordered events of the deferred block of `Association.readLoop`", toksLean(all.flat(def.arms[0].body))})
	bodies := []struct{ name, fn, doc string }{
		{"closeBody", "Association.close", "ordered events of `Association.close`"},
		{"abortBody", "Association.Abort", "ordered events of `Association.Abort`"},
		{"closeExportedBody", "Association.Close", "ordered events of `Association.Close`"},
		{"closeNetConnBody", "Association.closeNetConn", "ordered events of `Association.closeNetConn`"},
		{"closeAllTimersBody", "Association.closeAllTimers", "ordered events of `Association.closeAllTimers`"},
		{"unregisterStreamBody", "Association.unregisterStream", "ordered events of `Association.unregisterStream`"},
		{"unblockPendingWritesBody", "Association.unblockPendingWrites", "ordered events of `Association.unblockPendingWrites`"},
		{"readLoopBody", "Association.readLoop", "ordered events of `Association.readLoop` (deferred block first)"},
		{"writeLoopBody", "Association.writeLoop", "ordered events of `Association.writeLoop`"},
		{"timerLoopBody", "Association.timerLoop", "ordered events of `Association.timerLoop`"},
		{"shutdownBody", "Association.Shutdown", "ordered events of `Association.Shutdown`"},
		{"acceptStreamBody", "Association.AcceptStream", "ordered events of `Association.AcceptStream`"},
		{"sendPayloadDataBody", "Association.sendPayloadData", "ordered events of `Association.sendPayloadData` (blocking-write gate)"},
		{"readSCTPBody", "Stream.ReadSCTP", "ordered events of `Stream.ReadSCTP`"},
		{"streamCloseBody", "Stream.Close", "ordered events of `Stream.Close`"},
		{"onInboundStreamResetBody", "Stream.onInboundStreamReset", "ordered events of `Stream.onInboundStreamReset`"},
		{"handleAbortBody", "Association.handleAbort", "ordered events of `Association.handleAbort`"},
		{"rtxTimeoutBody", "rtxTimer.timeout", "ordered events of `rtxTimer.timeout`"},
		{"ackTimeoutBody", "ackTimer.timeout", "ordered events of `ackTimer.timeout`"},
	}
	for _, bd := range bodies {
		fs = append(fs, fact{bd.name, tokListTy, bd.doc, toksLean(all.flatFunc(all.mustFunc(bd.fn).body))})
	}
	armTy := "List (String × List (String × String))"
	fs = append(fs, fact{"writeLoopSelectArms", armTy, "arms of the select in `Association.writeLoop`: (communication, events of the arm body)", all.selectArms("Association.writeLoop")})
	fs = append(fs, fact{"timerLoopSelectArms", armTy, "arms of the select in `Association.timerLoop`", all.selectArms("Association.timerLoop")})
	fs = append(fs, fact{"completeHandshakeArms", armTy, "arms of the select in `Association.completeHandshake`", all.selectArms("Association.completeHandshake")})
	fs = append(fs, fact{"shutdownSelectArms", armTy, "arms of the select in `Association.Shutdown`", all.selectArms("Association.Shutdown")})
	fs = append(fs, fact{"clientServerSelectArms", "List (String × " + armTy + ")",
		"arms of the selects in which the constructors wait for the handshake: (function, arms)",
		llist([]string{
			ltuple(lstr("ServerWithOptions"), all.selectArms("ServerWithOptions")),
			ltuple(lstr("createClientWithOptionsWithContext"), all.selectArms("createClientWithOptionsWithContext")),
		}, true)})

	// 1d. entry points
	fs = append(fs, all.entryPoints())
	return fs
}

// shape of the critical sections of function f on mutex m, read off its own statements
func (all *concAll) shape(f *concFunc, m string) string {
	var top []*cev
	for _, e := range all.pruned(f.body, true) {
		top = append(top, e)
	}
	n := 0
	walkEvents(f.body, func(e *cev) {
		if (e.kind == "Lock" || e.kind == "RLock") && e.arg == m {
			n++
		}
	})
	if n == 0 {
		return "none"
	}
	if n == 1 && len(top) >= 2 && (top[0].kind == "Lock" || top[0].kind == "RLock") && top[0].arg == m &&
		(top[1].kind == "deferUnlock" || top[1].kind == "deferRUnlock") && top[1].arg == m {
		// nothing may release it in between
		rel := false
		walkEvents(f.body, func(e *cev) {
			if (e.kind == "Unlock" || e.kind == "RUnlock") && e.arg == m && e != top[1].arms[0].body[0] {
				rel = true // (the Unlock inside top[1] is the deferred one)
			}
		})
		if !rel {
			return "whole"
		}
	}
	return fmt.Sprintf("sections:%d", n)
}

func (all *concAll) entryPoints() fact {
	type row struct{ name, class, mutex string }
	var rows []row
	hc := all.mustFunc("Association.handleChunk")
	seen := map[string]bool{}
	walkEvents(hc.body, func(e *cev) {
		if e.kind == "call" && strings.HasPrefix(e.targets[0], "Association.handle") && !seen[e.targets[0]] {
			seen[e.targets[0]] = true
			rows = append(rows, row{e.targets[0], "handler", "Association.lock"})
		}
	})
	rows = append(rows, row{"Association.handleChunk", "dispatch", "Association.lock"},
		row{"Association.handleChunksStart", "dispatch", "Association.lock"}, row{"Association.handleChunksEnd", "dispatch", "Association.lock"},
		row{"Association.gatherOutbound", "dispatch", "Association.lock"})
	// timer callbacks: implementers of the observer interfaces + the two deadline callbacks of timerLoop
	timers := map[string]bool{}
	for _, n := range all.names {
		walkEvents(all.funcs[n].body, func(e *cev) {
			if e.kind == "icall" && strings.Contains(e.arg, "Observer.") {
				for _, t := range e.targets {
					timers[t] = true
				}
			}
		})
	}
	walkEvents(all.mustFunc("Association.timerLoop").body, func(e *cev) {
		if e.kind == "call" && strings.HasPrefix(e.targets[0], "Association.on") {
			timers[e.targets[0]] = true
		}
	})
	for _, t := range sortedKeys(timers) {
		rows = append(rows, row{t, "timer", "Association.lock"})
	}
	for _, n := range all.names {
		f := all.funcs[n]
		if !f.exported || strings.Contains(n, "·") {
			continue
		}
		switch {
		case strings.HasPrefix(n, "Association."):
			rows = append(rows, row{n, "api", "Association.lock"})
		case strings.HasPrefix(n, "Stream."):
			rows = append(rows, row{n, "api", "Association.lock"}, row{n, "api", "Stream.lock"})
		}
	}
	var xs []string
	for _, r := range rows {
		f := all.mustFunc(r.name)
		m := r.mutex
		holds := "never"
		nAll, nHold := 0, 0
		for _, h := range all.ctxs[r.name] {
			nAll++
			if has(h, m) {
				nHold++
			}
		}
		switch {
		case nAll > 0 && nHold == nAll:
			holds = "always"
		case nHold > 0:
			holds = "mixed"
		}
		// reachability with "m held?" : critical sections entered from outside, and drop sites inside
		type st struct {
			fn   string
			held bool
		}
		acq, drops := map[string]bool{}, map[string]bool{}
		visited := map[st]bool{}
		var visit func(s st)
		visit = func(s st) {
			if visited[s] {
				return
			}
			visited[s] = true
			g, ok := all.funcs[s.fn]
			if !ok {
				return
			}
			if !s.held {
				if sh := all.shape(g, m); sh != "none" {
					acq[s.fn+":"+sh] = true
				}
			}
			walkEvents(g.body, func(e *cev) {
				for _, ls := range e.seen {
					if s.held && has(ls.minus, m) {
						drops[s.fn] = true
					}
					if e.kind == "call" || e.kind == "icall" {
						h := (s.held && !has(ls.minus, m)) || has(ls.plus, m)
						for _, t := range e.targets {
							visit(st{t, h})
						}
					}
				}
			})
		}
		// entry points are looked at as called from outside, except handlers (always under the lock)
		visit(st{r.name, holds == "always"})
		xs = append(xs, ltuple(lstr(r.name), lstr(r.class), lstr(m), lstr(all.shape(f, m)), lstr(holds), lstrs(sortedKeys(acq)), lstrs(sortedKeys(drops))))
	}
	return fact{"entryPointsLocked", "List (String × String × String × String × String × List String × List String)",
		"(entry point, class, mutex, shape, caller holds it, critical sections, drop sites). class: handler (called from handleChunk's type switch), dispatch, " +
			"timer (observer methods and the RACK/PTO callbacks), api (exported methods of Association and Stream). shape of the function's own statements on that mutex: " +
			"`whole` = first statement Lock/RLock, second `defer Unlock`, never released in between; `none` = does not touch it; `sections:n` = n explicit Lock sites. " +
			"caller holds it: always / never / mixed over all calling contexts. critical sections: `function:shape` of every function reached (through calls made " +
			"WITHOUT the mutex held) that takes it — the atomic steps this entry point is made of. drop sites: functions reached with the mutex held that release it for a while.",
		llist(xs, true)}
}
