//go:build verif

// Correspondence harness X: white-box drivers injected into package sctp with
// `go test -overlay` (nothing is written to /repo). Each TestVerif* either generates
// operations from VERIF_SEED (feedback from the live implementation state is allowed,
// every random choice comes from one PRNG) or replays the op lines of VERIF_OPS_IN, runs
// them on the REAL code and writes `<op line> -> <implementation result>` lines to
// VERIF_LOG_OUT. The Lean driver replays the same lines through the L0 model.
package sctp

import (
	"bufio"
	"fmt"
	"os"
	"strconv"
	"strings"
	"testing"
)

type vrand struct{ s uint64 }

func (r *vrand) u64() uint64 {
	r.s += 0x9e3779b97f4a7c15
	z := r.s
	z = (z ^ (z >> 30)) * 0xbf58476d1ce4e5b9
	z = (z ^ (z >> 27)) * 0x94d049bb133111eb
	return z ^ (z >> 31)
}
func (r *vrand) n(n int) int {
	if n <= 0 {
		return 0
	}
	return int(r.u64() % uint64(n))
}
func (r *vrand) u32() uint32     { return uint32(r.u64()) }
func (r *vrand) chance(p int) bool { return r.n(100) < p }
func (r *vrand) pick(xs ...int) int { return xs[r.n(len(xs))] }
func (r *vrand) pickS(xs ...string) string { return xs[r.n(len(xs))] }

func vEnvInt(name string, def int) int {
	if s := os.Getenv(name); s != "" {
		if v, err := strconv.Atoi(s); err == nil {
			return v
		}
	}
	return def
}

type vlog struct {
	w     *bufio.Writer
	f     *os.File
	lines int
	stats map[string]int
}

func vOpenLog(t *testing.T) *vlog {
	t.Helper()
	path := os.Getenv("VERIF_LOG_OUT")
	if path == "" {
		t.Skip("VERIF_LOG_OUT not set")
	}
	f, err := os.Create(path)
	if err != nil {
		t.Fatal(err)
	}
	return &vlog{w: bufio.NewWriterSize(f, 1<<20), f: f, stats: map[string]int{}}
}

func (l *vlog) line(op string, res string) {
	l.lines++
	if res == "" {
		fmt.Fprintln(l.w, op)
	} else {
		fmt.Fprintf(l.w, "%s -> %s\n", op, res)
	}
}
func (l *vlog) stat(k string) { l.stats[k]++ }
func (l *vlog) close() {
	// distribution lines start with '#'; the driver ignores them, ./check puts them in evidence
	keys := make([]string, 0, len(l.stats))
	for k := range l.stats {
		keys = append(keys, k)
	}
	sortStrings(keys)
	for _, k := range keys {
		fmt.Fprintf(l.w, "#stat %s %d\n", k, l.stats[k])
	}
	l.w.Flush()
	l.f.Close()
}

func sortStrings(a []string) {
	for i := 1; i < len(a); i++ {
		for j := i; j > 0 && a[j] < a[j-1]; j-- {
			a[j], a[j-1] = a[j-1], a[j]
		}
	}
}

// vReadOps returns the op part (left of " -> ") of every non-comment line of VERIF_OPS_IN.
func vReadOps(t *testing.T) [][]string {
	t.Helper()
	path := os.Getenv("VERIF_OPS_IN")
	if path == "" {
		return nil
	}
	f, err := os.Open(path)
	if err != nil {
		t.Fatal(err)
	}
	defer f.Close()
	var out [][]string
	sc := bufio.NewScanner(f)
	sc.Buffer(make([]byte, 1<<20), 1<<26)
	for sc.Scan() {
		s := strings.TrimSpace(sc.Text())
		if s == "" || s[0] == '#' {
			continue
		}
		if i := strings.Index(s, " -> "); i >= 0 {
			s = s[:i]
		}
		out = append(out, strings.Fields(s))
	}
	return out
}

func vb(b bool) string {
	if b {
		return "1"
	}
	return "0"
}

func vAtoU32(t *testing.T, s string) uint32 {
	v, err := strconv.ParseUint(s, 10, 32)
	if err != nil {
		t.Fatalf("bad u32 %q", s)
	}
	return uint32(v)
}
