//go:build verif

package sctp

// X-assoc: ONE real Association driven single-threaded (no read/write loops): writes, gathers,
// SACKs with arbitrary contents, T3 expiries. After every op the sender-side observables are
// logged so that the window/accounting predicates (C10, C15) are evaluated at every step.

import (
	"fmt"
	"io"
	"sort"
	"strings"
	"sync/atomic"
	"testing"
	"testing/synctest"
	"time"

	"github.com/pion/logging"
)

type vAS struct {
	t       *testing.T
	l       *vlog
	a       *Association
	streams map[uint16]*Stream
	cb      map[uint16]*atomic.Int32 // low-threshold callback invocations per stream
	cbLock  atomic.Int32             // callbacks that could NOT take the association and stream locks
}

func (h *vAS) state() string {
	a := h.a
	a.lock.RLock()
	infB, infN := a.inflightQueue.getNumBytes(), a.inflightQueue.size()
	penB, penN := a.pendingQueue.getNumBytes(), a.pendingQueue.size()
	ss := a.ssthresh
	fr := 0
	if a.inFastRecovery {
		fr = 1
	}
	cum := a.cumulativeTSNAckPoint
	next := a.myNextTSN
	a.lock.RUnlock()
	ids := make([]int, 0, len(h.streams))
	for id := range h.streams {
		ids = append(ids, int(id))
	}
	sort.Ints(ids)
	var sb strings.Builder
	for _, id := range ids {
		fmt.Fprintf(&sb, " %d:%d:%d", id, h.streams[uint16(id)].BufferedAmount(), h.cb[uint16(id)].Load())
	}
	return fmt.Sprintf("cwnd=%d ssthresh=%d rwnd=%d infB=%d infN=%d penB=%d penN=%d buf=%d cum=%d next=%d cblocked=%d fr=%d |%s",
		a.CWND(), ss, a.RWND(), infB, infN, penB, penN, a.BufferedAmount(), cum, next, h.cbLock.Load(), fr, sb.String())
}

func (h *vAS) logState() { h.l.line("as st", h.state()) }

func (h *vAS) closeAssoc() {
	if h.a == nil {
		return
	}
	h.a.closeWriteLoopOnce.Do(func() { close(h.a.closeWriteLoopCh) })
	h.a.closeAllTimers()
	h.a = nil
}

func vParseGaps(t *testing.T, s string) []gapAckBlock {
	if s == "none" {
		return nil
	}
	var out []gapAckBlock
	for _, g := range strings.Split(s, "+") {
		var a, b int
		if _, err := fmt.Sscanf(g, "%d-%d", &a, &b); err != nil {
			t.Fatalf("bad gap %q", g)
		}
		out = append(out, gapAckBlock{start: uint16(a), end: uint16(b)})
	}
	return out
}

func (h *vAS) exec(op []string) {
	t := h.t
	line := strings.Join(op, " ")
	u := func(i int) uint32 { return vAtoU32(t, op[i]) }
	switch op[1] {
	case "new":
		h.closeAssoc()
		cfg := &Config{
			NetConn:              &vEnd{},
			LoggerFactory:        &logging.DefaultLoggerFactory{DefaultLogLevel: logging.LogLevelDisabled, ScopeLevels: map[string]logging.LogLevel{}, Writer: io.Discard},
			MTU:                  u(2),
			MaxReceiveBufferSize: u(3),
			MinCwnd:              u(4),
			FastRtxWnd:           u(8),
			CwndCAStep:           u(9),
		}
		a := createAssociationFromConfigWithTsn(cfg, u(6))
		a.lock.Lock()
		a.useInterleaving = op[5] == "1"
		a.useForwardTSN = true
		a.peerVerificationTag = 1
		a.sourcePort, a.destinationPort = 5000, 5000
		a.setState(established)
		a.setRWND(u(7))
		a.ssthresh = u(7)
		a.maxPayloadSize = maxPayloadSizeForMTU(a.MTU(), a.useInterleaving)
		a.lock.Unlock()
		h.a = a
		h.streams = map[uint16]*Stream{}
		h.cb = map[uint16]*atomic.Int32{}
		h.cbLock.Store(0)
		h.l.line(line, fmt.Sprintf("%d %d", a.MTU(), a.maxPayloadSize))
	case "open":
		si := uint16(u(2))
		s, err := h.a.OpenStream(si, PayloadTypeWebRTCBinary)
		if err != nil {
			t.Fatal(err)
		}
		s.SetReliabilityParams(op[3] == "1", byte(u(4)), u(5))
		s.SetBufferedAmountLowThreshold(uint64(u(6)))
		cnt := &atomic.Int32{}
		a := h.a
		s.OnBufferedAmountLow(func() {
			cnt.Add(1)
			// the callback must run without internal locks: it may call back into the API
			if a.lock.TryLock() {
				a.lock.Unlock()
			} else {
				h.cbLock.Add(1)
			}
			if s.lock.TryLock() {
				s.lock.Unlock()
			} else {
				h.cbLock.Add(1)
			}
			_ = s.BufferedAmount()
		})
		h.streams[si], h.cb[si] = s, cnt
		h.l.line(line, "ok")
	case "write":
		s := h.streams[uint16(u(2))]
		p := vPayload(uint64(u(4))*31+uint64(u(2)), int(u(4)))
		n, err := s.WriteSCTP(p, PayloadProtocolIdentifier(u(3)))
		h.l.line(line, fmt.Sprintf("%d %s", n, vErrClass(err)))
	case "gather":
		raws, ok := h.a.gatherOutbound()
		var sb strings.Builder
		for i, raw := range raws {
			if i > 0 {
				sb.WriteString(" ; ")
			}
			fmt.Fprintf(&sb, "%d %s", len(raw), vPacketSummary(raw))
		}
		if len(raws) == 0 {
			sb.WriteString("nothing")
		}
		h.l.line(line, fmt.Sprintf("%v | %s", ok, sb.String()))
	case "sack":
		sack := &chunkSelectiveAck{cumulativeTSNAck: u(2), advertisedReceiverWindowCredit: u(3), gapAckBlocks: vParseGaps(t, op[4])}
		for i := uint32(0); i < u(5); i++ {
			sack.duplicateTSN = append(sack.duplicateTSN, u(2))
		}
		h.a.lock.Lock()
		err := h.a.handleSack(sack)
		h.a.lock.Unlock()
		h.l.line(line, vErrClass(err))
	case "t3":
		h.a.onRetransmissionTimeout(timerT3RTX, uint(u(2)))
		h.l.line(line, "")
	case "tick": // advance the virtual clock
		time.Sleep(time.Duration(u(2)) * time.Millisecond)
		h.l.line(line, "")
	default:
		t.Fatalf("as: unknown op %v", op)
	}
	// let timer-driven goroutines (RACK/PTO loop, rtx timers) that became runnable at this virtual instant finish:
	// otherwise their order relative to the next op is up to the Go scheduler
	synctest.Wait()
	if op[1] != "new" {
		h.logState()
	}
}

func (h *vAS) do(f string, a ...any) { h.exec(strings.Fields(fmt.Sprintf(f, a...))) }

// a plausible-to-hostile peer for the generator: knows what was sent
type vPeerView struct {
	sent    []uint32 // TSNs put on the wire, ascending from first
	first   uint32
	cum     uint32 // last cumulative ack we generated
	lastArw uint32
}

func vASGenerate(t *testing.T, h *vAS, r *vrand, nseq, nops int) {
	var saved vrand
	for s := 0; s < 2*nseq; s++ {
		// every sequence is run twice with the same random choices: once from a TSN base in the middle of the
		// number space (pair 0) and once from a base just below 2^32 (pair 1); the driver compares the two
		// logs after normalising TSNs (C16: behaviour must not depend on absolute sequence numbers)
		pair := s % 2
		if pair == 0 {
			saved = *r
		} else {
			*r = saved
		}
		mtu := r.pick(1200, 1200, 1228, 576, 1500, 256, 8192)
		rcv := r.pick(0, 65536, 1<<20)
		minCwnd := r.pick(0, 0, 0, 3000, 20000)
		il := r.n(2)
		tsn := uint32(0) - uint32(r.n(300)) - 1 // the shifted run wraps within the first few hundred TSNs
		if pair == 0 {
			tsn += 1 << 31
		}
		peerRwnd := uint32(r.pick(0, 1, 500, 1500, 10000, 65536, 1<<20, int(^uint32(0)>>1)))
		h.do("as new %d %d %d %d %d %d %d %d %d", mtu, rcv, minCwnd, il, tsn, peerRwnd, r.pick(0, 0, 4000), r.pick(0, 0, 2000), pair)
		ns := 1 + r.n(3)
		for i := 0; i < ns; i++ {
			h.do("as open %d %d 0 0 %d", i+1, r.pick(0, 0, 1), r.pick(0, 0, 100, 5000))
		}
		pv := &vPeerView{first: tsn, cum: tsn - 1, lastArw: peerRwnd}
		for i := 0; i < nops; i++ {
			switch x := r.n(100); {
			case x < 30:
				var size int
				switch y := r.n(10); {
				case y < 4:
					size = 1 + r.n(100)
				case y < 7:
					size = 1 + r.n(3000)
				case y < 9:
					size = 1 + r.n(30000)
				default:
					size = 65536
				}
				h.do("as write %d 53 %d", 1+r.n(ns), size)
				h.l.stat("as.write")
			case x < 60:
				before := h.a.myNextTSN
				h.do("as gather")
				for tsn := before; tsn != h.a.myNextTSN; tsn++ {
					pv.sent = append(pv.sent, tsn)
				}
				if h.a.myNextTSN != before {
					h.l.stat("as.gather.newdata")
				}
			case x < 92:
				// SACK: cumulative point somewhere in what was sent, gaps above it
				nsent := int(h.a.myNextTSN - pv.first)
				acked := int(pv.cum + 1 - pv.first)
				cum := pv.cum
				if nsent > acked && r.chance(80) {
					cum = pv.cum + uint32(r.n(nsent-acked+1))
				}
				gaps := "none"
				if room := int(h.a.myNextTSN - cum - 1); room > 2 && r.chance(50) {
					var gs []string
					pos := 2
					for len(gs) < 3 && pos < room && pos < 60000 {
						st := pos + r.n(3)
						en := st + r.n(4)
						if en > room {
							en = room
						}
						if st > en {
							break
						}
						gs = append(gs, fmt.Sprintf("%d-%d", st, en))
						pos = en + 2 + r.n(3)
					}
					if len(gs) > 0 {
						gaps = strings.Join(gs, "+")
					}
				}
				arw := uint32(r.pick(0, 0, 1, 300, 1500, 20000, 65536, 1<<20, int(pv.lastArw)))
				switch r.n(20) {
				case 0: // invalid: acknowledges data never sent
					cum = h.a.myNextTSN + uint32(r.n(5))
					h.l.stat("as.sack.invalid")
				case 1: // invalid gap beyond what was sent
					gaps = fmt.Sprintf("%d-%d", int(h.a.myNextTSN-cum)+1, int(h.a.myNextTSN-cum)+3)
					h.l.stat("as.sack.invalid")
				case 2: // stale
					cum = pv.cum - uint32(r.n(3))
				}
				h.do("as sack %d %d %s %d", cum, arw, gaps, r.pick(0, 0, 0, 1, 2))
				if sna32LT(pv.cum, h.a.cumulativeTSNAckPoint) || pv.cum != h.a.cumulativeTSNAckPoint {
					pv.cum = h.a.cumulativeTSNAckPoint
				}
				pv.lastArw = arw
				h.l.stat("as.sack")
			case x < 97:
				h.do("as t3 %d", 1+r.n(3))
				h.l.stat("as.t3")
			default:
				h.do("as tick %d", r.pick(1, 50, 300, 1500))
			}
		}
		// drain: everything gets acknowledged
		for k := 0; k < 200 && (h.a.pendingQueue.size() > 0 || h.a.inflightQueue.size() > 0); k++ {
			h.do("as gather")
			h.do("as sack %d %d none 0", h.a.myNextTSN-1, 1<<20)
		}
	}
}

func TestVerifAssocSender(t *testing.T) {
	l := vOpenLog(t)
	defer l.close()
	old := globalMathRandomGenerator
	defer func() { globalMathRandomGenerator = old }()
	globalMathRandomGenerator = &vRandGen{r: &vrand{s: 5}}
	synctest.Test(t, func(t *testing.T) {
		h := &vAS{t: t, l: l}
		defer h.closeAssoc()
		if ops := vReadOps(t); ops != nil {
			for _, op := range ops {
				if op[0] == "as" && op[1] != "st" {
					h.exec(op)
				}
			}
			return
		}
		r := &vrand{s: uint64(vEnvInt("VERIF_SEED", 1))*0x9E3779B1 + 13}
		vASGenerate(t, h, r, vEnvInt("VERIF_N", 60), vEnvInt("VERIF_OPS", 150))
	})
}
