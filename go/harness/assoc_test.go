//go:build verif

package sctp

// X-assoc: ONE real Association driven single-threaded (no read/write loops): writes, gathers,
// SACKs with arbitrary contents, T3 expiries. After every op the sender-side observables are
// logged so that the window/accounting predicates (C10, C15) are evaluated at every step.

import (
	"fmt"
	"io"
	"sort"
	"strings"
	"sync/atomic"
	"testing"
	"testing/synctest"
	"time"

	"github.com/pion/logging"
)

type vAS struct {
	t       *testing.T
	l       *vlog
	a       *Association
	streams map[uint16]*Stream
	cb      map[uint16]*atomic.Int32 // low-threshold callback invocations per stream
	cbLock  atomic.Int32             // callbacks that could NOT take the association and stream locks
	// white-box shadow of the pending queue, in push order: the index of a chunk in this slice is what
	// the L0 model is told when the real queue hands that chunk out (`sel` oracle)
	pend  []*chunkPayloadData
	known map[*chunkPayloadData]bool
}

// notePending appends the chunks a write just pushed (not yet known) to the shadow list.
func (h *vAS) notePending() {
	pol, ok := h.a.pendingQueue.policy.(*messagePendingQueuePolicy)
	if !ok {
		h.t.Fatalf("as: pending queue policy %T not supported by the harness", h.a.pendingQueue.policy)
	}
	for _, q := range []*pendingBaseQueue{pol.orderedQueue, pol.unorderedQueue} {
		for _, c := range q.queue {
			if c != nil && !h.known[c] {
				h.known[c] = true
				h.pend = append(h.pend, c)
			}
		}
	}
}

func (h *vAS) pendIndex(c *chunkPayloadData) int {
	for i, x := range h.pend {
		if x == c {
			return i
		}
	}
	return -1
}

func vJoinU32(xs []uint32) string {
	if len(xs) == 0 {
		return "-"
	}
	var sb strings.Builder
	for i, x := range xs {
		if i > 0 {
			sb.WriteByte(',')
		}
		fmt.Fprintf(&sb, "%d", x)
	}
	return sb.String()
}

// rtxMarks: TSNs of the in-flight chunks currently flagged for retransmission (RACK/PTO/T3 marks)
func (h *vAS) rtxMarks() string {
	a := h.a
	var out []uint32
	for i := 0; i < a.inflightQueue.chunks.Len(); i++ {
		if c := a.inflightQueue.chunks.At(i); c.retransmit {
			out = append(out, c.tsn)
		}
	}
	return vJoinU32(out)
}

func (h *vAS) state() string {
	a := h.a
	a.lock.RLock()
	infB, infN := a.inflightQueue.getNumBytes(), a.inflightQueue.size()
	penB, penN := a.pendingQueue.getNumBytes(), a.pendingQueue.size()
	ss := a.ssthresh
	fr := 0
	if a.inFastRecovery {
		fr = 1
	}
	cum := a.cumulativeTSNAckPoint
	next := a.myNextTSN
	a.lock.RUnlock()
	ids := make([]int, 0, len(h.streams))
	for id := range h.streams {
		ids = append(ids, int(id))
	}
	sort.Ints(ids)
	var sb strings.Builder
	for _, id := range ids {
		fmt.Fprintf(&sb, " %d:%d:%d", id, h.streams[uint16(id)].BufferedAmount(), h.cb[uint16(id)].Load())
	}
	return fmt.Sprintf("cwnd=%d ssthresh=%d rwnd=%d infB=%d infN=%d penB=%d penN=%d buf=%d cum=%d next=%d cblocked=%d fr=%d |%s",
		a.CWND(), ss, a.RWND(), infB, infN, penB, penN, a.BufferedAmount(), cum, next, h.cbLock.Load(), fr, sb.String())
}

func (h *vAS) logState() { h.l.line("as st", h.state()) }

func (h *vAS) closeAssoc() {
	if h.a == nil {
		return
	}
	h.a.closeWriteLoopOnce.Do(func() { close(h.a.closeWriteLoopCh) })
	h.a.closeAllTimers()
	h.a = nil
}

func vParseGaps(t *testing.T, s string) []gapAckBlock {
	if s == "none" {
		return nil
	}
	var out []gapAckBlock
	for _, g := range strings.Split(s, "+") {
		var a, b int
		if _, err := fmt.Sscanf(g, "%d-%d", &a, &b); err != nil {
			t.Fatalf("bad gap %q", g)
		}
		out = append(out, gapAckBlock{start: uint16(a), end: uint16(b)})
	}
	return out
}

func (h *vAS) exec(op []string) {
	t := h.t
	line := strings.Join(op, " ")
	u := func(i int) uint32 { return vAtoU32(t, op[i]) }
	switch op[1] {
	case "new":
		h.closeAssoc()
		cfg := &Config{
			NetConn:              &vEnd{},
			LoggerFactory:        &logging.DefaultLoggerFactory{DefaultLogLevel: logging.LogLevelDisabled, ScopeLevels: map[string]logging.LogLevel{}, Writer: io.Discard},
			MTU:                  u(2),
			MaxReceiveBufferSize: u(3),
			MinCwnd:              u(4),
			FastRtxWnd:           u(8),
			CwndCAStep:           u(9),
		}
		if len(op) >= 14 { // optional RACK settings (ns; 0 = default): reordering-window floor, worst-case delayed ack, min-RTT window
			var opts []AssociationRACKOption
			if v := vAtoU64(t, op[10]); v > 0 {
				opts = append(opts, WithRackReoWndFloor(time.Duration(v)))
			}
			if v := vAtoU64(t, op[11]); v > 0 {
				opts = append(opts, WithRackWCDelAck(time.Duration(v)))
			}
			if v := vAtoU64(t, op[12]); v > 0 {
				opts = append(opts, WithRackMinRTTWnd(time.Duration(v)))
			}
			if err := WithRACKOptions(opts...).applyClient(cfg); err != nil {
				t.Fatal(err)
			}
		}
		a := createAssociationFromConfigWithTsn(cfg, u(6))
		vRackNew(u(6))
		a.lock.Lock()
		a.useInterleaving = op[5] == "1"
		a.useForwardTSN = true
		// optional token before the trailing pair number: 1 = I-FORWARD-TSN negotiated (only ever together with interleaving)
		if len(op) >= 12 && op[10] == "1" {
			a.useIForwardTSN, a.useForwardTSN = true, false
		}
		a.peerVerificationTag = 1
		a.sourcePort, a.destinationPort = 5000, 5000
		a.setState(established)
		a.setRWND(u(7))
		a.ssthresh = u(7)
		a.maxPayloadSize = maxPayloadSizeForMTU(a.MTU(), a.useInterleaving)
		a.lock.Unlock()
		h.a = a
		h.streams = map[uint16]*Stream{}
		h.cb = map[uint16]*atomic.Int32{}
		h.cbLock.Store(0)
		h.pend, h.known = nil, map[*chunkPayloadData]bool{}
		h.l.line(line, fmt.Sprintf("%d %d", a.MTU(), a.maxPayloadSize))
	case "open":
		si := uint16(u(2))
		h.a.lock.RLock()
		old, registered := h.a.streams[si]
		h.a.lock.RUnlock()
		s, err := h.a.OpenStream(si, PayloadTypeWebRTCBinary)
		if err != nil {
			t.Fatal(err)
		}
		s.SetReliabilityParams(op[3] == "1", byte(u(4)), u(5))
		s.SetBufferedAmountLowThreshold(uint64(u(6)))
		cnt := h.cb[si]
		if !registered || old != s || cnt == nil {
			cnt = &atomic.Int32{} // a new Stream object: its callback count starts at zero
		}
		a := h.a
		s.OnBufferedAmountLow(func() {
			cnt.Add(1)
			// the callback must run without internal locks: it may call back into the API
			if a.lock.TryLock() {
				a.lock.Unlock()
			} else {
				h.cbLock.Add(1)
			}
			if s.lock.TryLock() {
				s.lock.Unlock()
			} else {
				h.cbLock.Add(1)
			}
			_ = s.BufferedAmount()
		})
		h.streams[si], h.cb[si] = s, cnt
		h.l.line(line, "ok")
	case "unreg": // what resetStreamsIfAny does when the peer resets its direction of the stream
		si := uint16(u(2))
		if s, ok := h.streams[si]; ok {
			s.onInboundStreamReset()
			h.a.lock.Lock()
			delete(h.a.streams, si)
			h.a.lock.Unlock()
		}
		h.l.line(line, "ok")
	case "setstate": // 1 = established, 0 = a state in which nothing is sent and SACKs are ignored (cookieWait)
		h.a.lock.Lock()
		if u(2) == 1 {
			h.a.setState(established)
		} else {
			h.a.setState(cookieWait)
		}
		h.a.lock.Unlock()
		h.l.line(line, "ok")
	case "write":
		s := h.streams[uint16(u(2))]
		if s == nil {
			h.l.line(line, "0 nostream")
			break
		}
		p := vPayload(uint64(u(4))*31+uint64(u(2)), int(u(4)))
		n, err := s.WriteSCTP(p, PayloadProtocolIdentifier(u(3)))
		h.a.lock.Lock()
		h.notePending()
		h.a.lock.Unlock()
		h.l.line(line, fmt.Sprintf("%d %s", n, vErrClass(err)))
	case "gather":
		a := h.a
		a.lock.Lock()
		tlr := a.tlrActive
		budget := a.tlrCurrentBurstBudgetScaledLocked() // what gatherOutbound itself computes first (idempotent at one instant)
		before := a.myNextTSN
		a.lock.Unlock()
		raws, ok := a.gatherOutbound()
		// which pending chunks did the queue hand out, in order, and which one is at its head now
		var sel []uint32
		a.lock.Lock()
		for tsn := before; tsn != a.myNextTSN; tsn++ {
			c, found := a.inflightQueue.get(tsn)
			i := -1
			if found {
				i = h.pendIndex(c)
			}
			if i < 0 {
				t.Fatalf("as: chunk tsn=%d moved to in-flight is not in the shadow pending list", tsn)
			}
			sel = append(sel, uint32(i))
			h.pend = append(h.pend[:i:i], h.pend[i+1:]...)
		}
		if c := a.pendingQueue.peek(); c != nil {
			if i := h.pendIndex(c); i >= 0 {
				sel = append(sel, uint32(i))
			}
		}
		a.lock.Unlock()
		h.l.line(fmt.Sprintf("as ora tlr=%s bud=%d sel=%s", vb(tlr), budget, vJoinU32(sel)), "")
		var sb strings.Builder
		for i, raw := range raws {
			if i > 0 {
				sb.WriteString(" ; ")
			}
			fmt.Fprintf(&sb, "%d %s", len(raw), vPacketSummary(raw))
		}
		if len(raws) == 0 {
			sb.WriteString("nothing")
		}
		h.l.line(line, fmt.Sprintf("%v | %s", ok, sb.String()))
	case "sack":
		sack := &chunkSelectiveAck{cumulativeTSNAck: u(2), advertisedReceiverWindowCredit: u(3), gapAckBlocks: vParseGaps(t, op[4])}
		for i := uint32(0); i < u(5); i++ {
			sack.duplicateTSN = append(sack.duplicateTSN, u(2))
		}
		h.a.lock.Lock()
		err := h.a.handleSack(sack)
		marks := h.rtxMarks()
		h.a.lock.Unlock()
		h.l.line("as ora rtx="+marks, "")
		h.l.line(line, vErrClass(err))
	case "t3":
		h.a.onRetransmissionTimeout(timerT3RTX, uint(u(2)))
		h.l.line(line, "")
	case "tick": // advance the virtual clock: the association's own timers (T3, RACK, PTO) may fire
		n0 := h.a.stats.getNumT3Timeouts()
		h.vRackSleep(time.Duration(u(2)) * time.Millisecond) // the same sleep, in sub-steps that end at the RACK / PTO deadlines
		synctest.Wait()
		h.a.lock.Lock()
		marks := h.rtxMarks()
		h.a.lock.Unlock()
		k := h.a.stats.getNumT3Timeouts() - n0
		if k > 0 {
			h.l.stat("as.tick.t3fired")
		}
		h.l.line(fmt.Sprintf("as ora t3=%d rtx=%s", k, marks), "")
		h.l.line(line, "")
	default:
		t.Fatalf("as: unknown op %v", op)
	}
	// let timer-driven goroutines (RACK/PTO loop, rtx timers) that became runnable at this virtual instant finish:
	// otherwise their order relative to the next op is up to the Go scheduler
	synctest.Wait()
	if op[1] != "new" {
		h.logState()
	}
	h.vRackLog() // white-box RACK / PTO / TLR state after every op (rack_test.go)
}

func (h *vAS) do(f string, a ...any) { h.exec(strings.Fields(fmt.Sprintf(f, a...))) }

// a plausible-to-hostile peer for the generator: knows what was sent
type vPeerView struct {
	sent    []uint32 // TSNs put on the wire, ascending from first
	first   uint32
	cum     uint32 // last cumulative ack we generated
	lastArw uint32
}

func vASGenerate(t *testing.T, h *vAS, r *vrand, nseq, nops int) {
	var saved vrand
	for s := 0; s < 2*nseq; s++ {
		// every sequence is run twice with the same random choices: once from a TSN base in the middle of the
		// number space (pair 0) and once from a base just below 2^32 (pair 1); the driver compares the two
		// logs after normalising TSNs (C16: behaviour must not depend on absolute sequence numbers)
		pair := s % 2
		if pair == 0 {
			saved = *r
		} else {
			*r = saved
		}
		mtu := r.pick(1200, 1200, 1228, 576, 1500, 256, 8192)
		rcv := r.pick(0, 65536, 1<<20)
		minCwnd := r.pick(0, 0, 0, 3000, 20000)
		il := r.n(2)
		tsn := uint32(0) - uint32(r.n(300)) - 1 // the shifted run wraps within the first few hundred TSNs
		if pair == 0 {
			tsn += 1 << 31
		}
		peerRwnd := uint32(r.pick(0, 1, 500, 1500, 10000, 65536, 1<<20, int(^uint32(0)>>1)))
		// with interleaving the association negotiates I-FORWARD-TSN (useIForwardTSN); the old combination (I-DATA with
		// FORWARD-TSN) is kept in the mix because corpus files use it
		ifwd := 0
		if il == 1 && r.chance(70) {
			ifwd = 1
			h.l.stat("as.new.ifwd")
		}
		h.do("as new %d %d %d %d %d %d %d %d %d %d", mtu, rcv, minCwnd, il, tsn, peerRwnd, r.pick(0, 0, 4000), r.pick(0, 0, 2000), ifwd, pair)
		ns := 1 + r.n(3)
		openStream := func(i int) {
			relType, relVal := 0, 0
			switch r.n(6) {
			case 0, 1: // limited retransmissions
				relType, relVal = int(ReliabilityTypeRexmit), r.pick(0, 0, 1, 2)
				h.l.stat("as.open.rexmit")
			case 2: // timed
				relType, relVal = int(ReliabilityTypeTimed), r.pick(0, 100, 1000)
				h.l.stat("as.open.timed")
			}
			h.do("as open %d %d %d %d %d", i, r.pick(0, 0, 1), relType, relVal, r.pick(0, 0, 100, 5000, 40000))
		}
		for i := 0; i < ns; i++ {
			openStream(i + 1)
		}
		unregd := map[int]bool{}
		established := true
		pv := &vPeerView{first: tsn, cum: tsn - 1, lastArw: peerRwnd}
		dupBurst := 0 // remaining SACKs of a "same hole reported again" burst
		for i := 0; i < nops; i++ {
			x := r.n(100)
			if !established && r.chance(35) {
				x = 28 // do not stay outside the established state for long
			}
			if dupBurst > 0 {
				x = 70
				if r.chance(30) {
					x = 40 // a gather in between: more data above the hole
				}
			}
			switch {
			case x < 28:
				si := 1 + r.n(ns)
				if unregd[si] {
					continue // never write to a stream the association no longer knows (known deviation D9, see corpus/C15/known)
				}
				var size int
				switch y := r.n(20); {
				case y < 8:
					size = 1 + r.n(100)
				case y < 13:
					size = 1 + r.n(3000)
				case y < 17:
					size = 1 + r.n(30000)
				case y < 18:
					size = 65536
				case y < 19:
					size = 0
					h.l.stat("as.write.empty")
				default:
					size = 65537 + r.n(100)
					h.l.stat("as.write.toolarge")
				}
				if th := int(h.streams[uint16(si)].BufferedAmountLowThreshold()); th > 0 && th <= 65536 && r.chance(12) {
					size = th // buffered amount lands exactly on the threshold: the boundary of the crossing test
					h.l.stat("as.write.atthreshold")
				}
				ppi := 53
				if r.chance(8) {
					ppi = int(PayloadTypeWebRTCDCEP)
					h.l.stat("as.write.dcep")
				}
				h.do("as write %d %d %d", si, ppi, size)
				h.l.stat("as.write")
				if !established {
					h.l.stat("as.write.notestablished")
				}
			case x < 30:
				// leave / re-enter the established state: writes in between must be rolled back
				established = !established
				h.do("as setstate %d", map[bool]int{true: 1, false: 0}[established])
				h.l.stat("as.setstate")
			case x < 32:
				// the peer resets its direction of a stream that has nothing outstanding; later it is opened again
				si := 1 + r.n(ns)
				if unregd[si] {
					openStream(si)
					delete(unregd, si)
					h.l.stat("as.reopen")
				} else if h.streams[uint16(si)].BufferedAmount() == 0 {
					h.do("as unreg %d", si)
					unregd[si] = true
					h.l.stat("as.unreg")
				}
			case x < 60:
				before := h.a.myNextTSN
				nfast := h.a.stats.getNumFastRetrans()
				if established && h.a.willSendForwardTSN && sna32GT(h.a.advancedPeerTSNAckPoint, h.a.cumulativeTSNAckPoint) {
					h.l.stat("as.gather.fwdtsn")
				}
				h.do("as gather")
				for tsn := before; tsn != h.a.myNextTSN; tsn++ {
					pv.sent = append(pv.sent, tsn)
				}
				if h.a.myNextTSN != before {
					h.l.stat("as.gather.newdata")
				}
				if h.a.stats.getNumFastRetrans() != nfast {
					h.l.stat("as.gather.fastrtx")
				}
				if h.a.tlrActive {
					h.l.stat("as.gather.tlr")
				}
			case x < 92:
				// SACK: cumulative point somewhere in what was sent, gaps above it
				nsent := int(h.a.myNextTSN - pv.first)
				acked := int(pv.cum + 1 - pv.first)
				cum := pv.cum
				if dupBurst == 0 && nsent > acked && r.chance(70) {
					cum = pv.cum + uint32(r.n(nsent-acked+1))
				}
				room := int(h.a.myNextTSN - cum - 1)
				gaps := "none"
				switch {
				case dupBurst > 0 && room >= 2:
					// the same hole (cum+1) again, everything above it received: drives miss indications to 3
					gaps = fmt.Sprintf("2-%d", room)
					dupBurst--
				case dupBurst > 0:
					dupBurst = 0
				case room > 2 && r.chance(15):
					dupBurst = 2 + r.n(3)
					gaps = fmt.Sprintf("2-%d", 2+r.n(room-1))
					h.l.stat("as.sack.dupburst")
				case room > 2 && r.chance(50):
					var gs []string
					pos := 2
					for len(gs) < 3 && pos < room && pos < 60000 {
						st := pos + r.n(3)
						en := st + r.n(4)
						if en > room {
							en = room
						}
						if st > en {
							break
						}
						gs = append(gs, fmt.Sprintf("%d-%d", st, en))
						pos = en + 2 + r.n(3)
					}
					if len(gs) > 0 {
						gaps = strings.Join(gs, "+")
					}
				}
				arw := uint32(r.pick(0, 0, 1, 300, 1500, 20000, 65536, 1<<20, int(pv.lastArw)))
				if dupBurst == 0 {
					switch r.n(24) {
					case 0: // invalid: acknowledges data never sent
						cum = h.a.myNextTSN + uint32(r.n(5))
						h.l.stat("as.sack.invalid")
					case 1: // invalid gap beyond what was sent
						gaps = fmt.Sprintf("%d-%d", int(h.a.myNextTSN-cum)+1, int(h.a.myNextTSN-cum)+3)
						h.l.stat("as.sack.invalid")
					case 2: // stale
						cum = pv.cum - uint32(r.n(3))
					case 3: // malformed block
						gaps = r.pickS("0-1", "3-2")
						h.l.stat("as.sack.invalid")
					case 6, 7: // a malformed / out-of-order / overlapping block BEHIND a well-formed one (the cumulative point may advance too)
						if room > 4 {
							good := fmt.Sprintf("%d-%d", 3+r.n(room-3), room)
							if room > 6 && r.chance(50) {
								good = fmt.Sprintf("3-%d", room)
							}
							bad := r.pickS("0-1", "0-2", "4-3", "2-2", fmt.Sprintf("0-%d", 1+r.n(room)), fmt.Sprintf("%d-%d", room+2, room+3))
							gaps = good + "+" + bad
							if r.chance(30) {
								gaps = good + "+" + bad + "+" + good
							}
							h.l.stat("as.sack.invalid.later_block")
						}
					case 4, 5: // the peer acknowledges a FORWARD-TSN: cumulative point jumps over the abandoned chunks
						if sna32GT(h.a.advancedPeerTSNAckPoint, h.a.cumulativeTSNAckPoint) {
							cum, gaps = h.a.advancedPeerTSNAckPoint, "none"
							h.l.stat("as.sack.fwdtsn")
						}
					}
				}
				fr := h.a.inFastRecovery
				h.do("as sack %d %d %s %d", cum, arw, gaps, r.pick(0, 0, 0, 1, 2))
				if !fr && h.a.inFastRecovery {
					h.l.stat("as.sack.enterFR")
				}
				if gaps != "none" {
					h.l.stat("as.sack.gaps")
				}
				if pv.cum != h.a.cumulativeTSNAckPoint {
					pv.cum = h.a.cumulativeTSNAckPoint
				}
				pv.lastArw = arw
				h.l.stat("as.sack")
			case x < 97:
				h.do("as t3 %d", 1+r.n(3))
				h.l.stat("as.t3")
			default:
				h.do("as tick %d", r.pick(1, 50, 300, 1500))
			}
			if n := vASAbandoned(h.a); n > 0 {
				h.l.stat("as.abandoned.steps")
			}
		}
		// drain: everything gets acknowledged
		if !established {
			h.do("as setstate 1")
		}
		for k := 0; k < 200 && (h.a.pendingQueue.size() > 0 || h.a.inflightQueue.size() > 0); k++ {
			h.do("as gather")
			h.do("as sack %d %d none 0", h.a.myNextTSN-1, 1<<20)
		}
	}
}

// vASAbandoned: number of in-flight chunks currently abandoned (for the distribution only)
func vASAbandoned(a *Association) int {
	n := 0
	for i := 0; i < a.inflightQueue.chunks.Len(); i++ {
		if a.inflightQueue.chunks.At(i).abandoned() {
			n++
		}
	}
	return n
}

func TestVerifAssocSender(t *testing.T) {
	l := vOpenLog(t)
	defer l.close()
	old := globalMathRandomGenerator
	defer func() { globalMathRandomGenerator = old }()
	globalMathRandomGenerator = &vRandGen{r: &vrand{s: 5}}
	synctest.Test(t, func(t *testing.T) {
		h := &vAS{t: t, l: l}
		defer h.closeAssoc()
		if ops := vReadOps(t); ops != nil {
			for _, op := range ops {
				if op[0] == "as" && op[1] != "st" && op[1] != "ora" && op[1] != "rk" && op[1] != "rke" {
					h.exec(op)
				}
			}
			return
		}
		r := &vrand{s: uint64(vEnvInt("VERIF_SEED", 1))*0x9E3779B1 + 13}
		vASGenerate(t, h, r, vEnvInt("VERIF_N", 60), vEnvInt("VERIF_OPS", 150))
	})
}
