//go:build verif

package sctp

import (
	"fmt"
	"math"
	"strconv"
	"strings"
	"sync"
	"testing"
	"testing/synctest"
	"time"
)

// ---- float64 <-> log tokens: 16 hex digits of the IEEE-754 bits, every NaN as "nan" ------------

func vF(f float64) string {
	if f != f {
		return "nan"
	}
	return fmt.Sprintf("%016x", math.Float64bits(f))
}

func vAtoF(t *testing.T, s string) float64 {
	if s == "nan" {
		return math.NaN()
	}
	v, err := strconv.ParseUint(s, 16, 64)
	if err != nil {
		t.Fatalf("bad float bits %q", s)
	}
	return math.Float64frombits(v)
}

// ---- rtoManager ----------------------------------------------------------------------------------

type vRto struct {
	m *rtoManager
	l *vlog
}

func (h *vRto) exec(t *testing.T, op []string) {
	line := strings.Join(op, " ")
	switch op[1] {
	case "new":
		h.m = newRTOManager(vAtoF(t, op[2]))
		h.l.line(line, vF(h.m.getRTO())+" "+vF(h.m.rtoMax))
	case "rtt":
		ret := h.m.setNewRTT(vAtoF(t, op[2]))
		h.l.line(line, vF(ret)+" "+vF(h.m.getRTO()))
	case "get":
		h.l.line(line, vF(h.m.getRTO()))
	case "reset":
		h.m.reset()
		h.l.line(line, vF(h.m.getRTO()))
	case "setrto": // test hook of the implementation (freezes the manager when noUpdate)
		h.m.setRTO(vAtoF(t, op[2]), op[3] == "1")
		h.l.line(line, vF(h.m.getRTO()))
	case "next":
		n, err := strconv.ParseUint(op[3], 10, 64)
		if err != nil {
			t.Fatalf("bad n %q", op[3])
		}
		h.l.line(line, vF(calculateNextTimeout(vAtoF(t, op[2]), uint(n), vAtoF(t, op[4]))))
	default:
		t.Fatalf("rto: unknown op %v", op)
	}
}

func (h *vRto) do(t *testing.T, f string, a ...any) { h.exec(t, strings.Fields(fmt.Sprintf(f, a...))) }

// hostile: also values no clock difference can produce (negative, ±Inf, NaN); they only tie model branches.
func vRtoSample(r *vrand, l *vlog, hostile bool) float64 {
	u := func() float64 { return float64(r.u64()>>11) / (1 << 53) } // [0,1)
	x := r.n(90)
	if hostile {
		x = r.n(100)
	}
	switch {
	case x < 4:
		l.stat("rto.sample.zero")
		return 0
	case x < 8:
		l.stat("rto.sample.denormal")
		return []float64{5e-324, 1e-310, 2.2250738585072014e-308}[r.n(3)]
	case x < 16:
		l.stat("rto.sample.sub_ms")
		return u()
	case x < 50:
		l.stat("rto.sample.typical")
		return 1 + 499*u()
	case x < 62:
		l.stat("rto.sample.around_min")
		return 600 + 800*u()
	case x < 74:
		l.stat("rto.sample.seconds")
		return 1000 + 99000*u()
	case x < 82:
		l.stat("rto.sample.integral")
		return float64(r.pick(1, 2, 10, 100, 125, 250, 500, 1000, 8000, 60000, 480000))
	case x < 86:
		l.stat("rto.sample.huge")
		return []float64{1e15, 1e100, 1e300, 8.98e307, math.MaxFloat64}[r.n(5)]
	case x < 90:
		l.stat("rto.sample.random_bits_positive")
		return math.Float64frombits((r.u64() >> 1) % 0x7ff0000000000000)
	case x < 94:
		l.stat("rto.sample.negative") // not producible by a monotonic clock; ties the model's branch only
		return -[]float64{0, 1e-3, 1, 250, 1e300}[r.n(5)]
	default:
		l.stat("rto.sample.nonfinite") // ditto
		return []float64{math.Inf(1), math.Inf(-1), math.NaN(), math.Copysign(0, -1)}[r.n(4)]
	}
}

func vRtoGenerate(t *testing.T, h *vRto, r *vrand, nseq, nops int) {
	maxes := []float64{0, 0, 60000, 60000, 1000, 1500, 3000.5, 10000, 1e9, 500 /* below RTO.Min */, 999.999}
	for s := 0; s < nseq; s++ {
		h.do(t, "rto new %s", vF(maxes[r.n(len(maxes))]))
		hostile := r.chance(12)
		if hostile {
			h.l.stat("rto.seq.hostile")
		}
		hooks := r.chance(10) // sequences that also use the implementation's setRTO test hook
		for i := 0; i < nops; i++ {
			switch x := r.n(100); {
			case x < 70:
				h.do(t, "rto rtt %s", vF(vRtoSample(r, h.l, hostile)))
			case x < 82:
				h.do(t, "rto get")
			case x < 86:
				h.do(t, "rto reset")
				h.l.stat("rto.reset")
			case x < 88 && hooks:
				h.do(t, "rto setrto %s %d", vF(float64(r.pick(1, 500, 1000, 3000, 70000))), r.n(2))
				h.l.stat("rto.setrto")
			default:
				rto := h.m.getRTO()
				if r.chance(30) {
					rto = vRtoSample(r, h.l, hostile)
				}
				n := r.pick(0, 1, 2, 3, 5, 6, 7, 10, 29, 30, 31, 32, 33, 62, 63, 64, 65, 1000)
				h.do(t, "rto next %s %d %s", vF(rto), n, vF(maxes[2+r.n(len(maxes)-2)]))
				h.l.stat("rto.next")
			}
		}
	}
}

func TestVerifRto(t *testing.T) {
	l := vOpenLog(t)
	defer l.close()
	h := &vRto{l: l}
	if ops := vReadOps(t); ops != nil {
		for _, op := range ops {
			if op[0] == "rto" {
				h.exec(t, op)
			}
		}
		return
	}
	r := &vrand{s: uint64(vEnvInt("VERIF_SEED", 1))*0x2545f491 + 19}
	vRtoGenerate(t, h, r, vEnvInt("VERIF_N", 100), vEnvInt("VERIF_OPS", 60))
}

// ---- rtxTimer / ackTimer under virtual time --------------------------------------------------------
//
// One sequence (`timer new …` up to the next `new`) runs in one synctest bubble on a REAL
// rtxTimer / ackTimer with a recording observer. After every op the harness waits until every
// goroutine of the bubble is idle, so all callbacks due at the current virtual instant have run.
//
// The window "runtime timer has fired, its callback has not yet taken the mutex" cannot be held
// open with real goroutines deterministically. The harness therefore wraps the function the
// runtime calls: the real AfterFunc of the timer under test is replaced by one whose function is
// `timeout()` behind a gate. While the gate is shut (`hold 1`) a fire happens at its true virtual
// instant, `timer.Stop()` reports false from then on exactly as in production, but the callback
// body is delayed until op `run` — which is what a slow goroutine start looks like to the code.

type vTimerEv struct {
	at   time.Duration
	what string
}

type vTimerObs struct {
	mu sync.Mutex
	t0 time.Time
	ev []vTimerEv
}

func (o *vTimerObs) add(s string) {
	o.mu.Lock()
	o.ev = append(o.ev, vTimerEv{time.Since(o.t0), s})
	o.mu.Unlock()
}
func (o *vTimerObs) onRetransmissionTimeout(id int, n uint) { o.add(fmt.Sprintf("T%d.%d", id, n)) }
func (o *vTimerObs) onRetransmissionFailure(id int)         { o.add(fmt.Sprintf("F%d", id)) }
func (o *vTimerObs) onAckTimeout()                          { o.add("A") }
func (o *vTimerObs) drain() string {
	o.mu.Lock()
	defer o.mu.Unlock()
	if len(o.ev) == 0 {
		return "none"
	}
	var parts []string
	for _, e := range o.ev {
		parts = append(parts, fmt.Sprintf("%d:%s", int64(e.at), e.what))
	}
	o.ev = nil
	return strings.Join(parts, ",")
}

type vTimer struct {
	l       *vlog
	obs     *vTimerObs
	rtx     *rtxTimer
	ack     *ackTimer
	mu      sync.Mutex
	holding bool // gate shut: fired callbacks are held back
	held    int  // callbacks fired and not yet run
}

// gate is what the runtime timer calls instead of timeout().
func (h *vTimer) gate(timeout func()) func() {
	return func() {
		h.mu.Lock()
		if h.holding {
			h.held++
			h.mu.Unlock()
			return
		}
		h.mu.Unlock()
		timeout()
	}
}

func (h *vTimer) running() bool {
	if h.rtx != nil {
		return h.rtx.isRunning()
	}
	return h.ack.isRunning()
}

func (h *vTimer) exec(t *testing.T, op []string) {
	line := strings.Join(op, " ")
	ret := "-"
	switch op[1] {
	case "new":
		h.obs = &vTimerObs{t0: time.Now()}
		h.rtx, h.ack, h.held, h.holding = nil, nil, 0, false
		switch op[2] {
		case "rtx":
			id, _ := strconv.Atoi(op[3])
			mr, _ := strconv.ParseUint(op[4], 10, 64)
			h.rtx = newRTXTimer(id, h.obs, uint(mr), vAtoF(t, op[5]))
			h.rtx.timer = time.AfterFunc(math.MaxInt64, h.gate(h.rtx.timeout))
			h.rtx.timer.Stop()
		case "ack":
			h.ack = newAckTimer(h.obs)
			h.ack.timer = time.AfterFunc(math.MaxInt64, h.gate(h.ack.timeout))
			h.ack.timer.Stop()
		default:
			t.Fatalf("timer: unknown kind %v", op)
		}
	case "start":
		if h.rtx != nil {
			ret = vb(h.rtx.start(vAtoF(t, op[2])))
		} else {
			ret = vb(h.ack.start())
		}
	case "stop":
		if h.rtx != nil {
			h.rtx.stop()
		} else {
			h.ack.stop()
		}
	case "close":
		if h.rtx != nil {
			h.rtx.close()
		} else {
			h.ack.close()
		}
	case "sleep":
		d, err := strconv.ParseInt(op[2], 10, 64)
		if err != nil || d < 0 {
			t.Fatalf("bad duration %q", op[2])
		}
		time.Sleep(time.Duration(d))
	case "hold":
		h.mu.Lock()
		h.holding = op[2] == "1"
		h.mu.Unlock()
	case "run":
		h.mu.Lock()
		ok := h.held > 0
		if ok {
			h.held--
		}
		h.mu.Unlock()
		if ok {
			if h.rtx != nil {
				h.rtx.timeout()
			} else {
				h.ack.timeout()
			}
			ret = "1"
		} else {
			ret = "0"
		}
	default:
		t.Fatalf("timer: unknown op %v", op)
	}
	synctest.Wait()
	h.mu.Lock()
	held := h.held
	h.mu.Unlock()
	h.l.line(line, fmt.Sprintf("now=%d ret=%s run=%s held=%d ev=%s", int64(time.Since(h.obs.t0)), ret, vb(h.running()), held, h.obs.drain()))
}

// runSeq executes one sequence inside its own bubble.
func (h *vTimer) runSeq(t *testing.T, ops [][]string) {
	synctest.Test(t, func(t *testing.T) {
		for _, op := range ops {
			h.exec(t, op)
		}
		// leave nothing armed behind (not logged)
		if h.rtx != nil {
			h.rtx.close()
		}
		if h.ack != nil {
			h.ack.close()
		}
		synctest.Wait()
	})
}

const vMs = int64(time.Millisecond)

func vTimerScript(r *vrand, l *vlog, nops int) [][]string {
	var ops [][]string
	add := func(f string, a ...any) { ops = append(ops, strings.Fields(fmt.Sprintf(f, a...))) }
	isAck := r.chance(25)
	var rtoMaxMs float64 = 60000
	if isAck {
		add("timer new ack")
		l.stat("timer.kind.ack")
	} else {
		maxRetrans := r.pick(0, 0, 0, 1, 2, 3, 8)
		rtoMax := []float64{0, 60000, 3000, 1000, 2500.5, 8000}[r.n(6)]
		if rtoMax != 0 {
			rtoMaxMs = rtoMax
		}
		add("timer new rtx %d %d %s", r.n(5), maxRetrans, vF(rtoMax))
		l.stat(fmt.Sprintf("timer.kind.rtx.maxRetrans=%d", maxRetrans))
	}
	// rto >= 1 ms only: with a zero interval the next callback goroutine starts at the same virtual
	// instant while the previous one is still between releasing the timer mutex and calling the
	// observer (the observer call is deferred past the unlock), so the ORDER in which the observer
	// sees them is up to the Go scheduler (seen: "T2.2, F2, T2.1"). Non-test code never starts a
	// timer below RTO.Min.
	rtos := []float64{1000, 1000, 1000.9, 1500.7, 200, 3000, 1.5, 61000, 2000, 1}
	sleeps := func() int64 {
		base := []int64{1, vMs, 100 * vMs, 200*vMs - 1, 200 * vMs, 200*vMs + 1, 999 * vMs, 1000*vMs - 1, 1000 * vMs, 1000*vMs + 1,
			1500 * vMs, 2000 * vMs, 3000 * vMs, 7000 * vMs, 15000 * vMs, 31000 * vMs, 63000 * vMs, 130000 * vMs, 600000 * vMs,
			int64(rtoMaxMs) * vMs, 2 * int64(rtoMaxMs) * vMs}
		return base[r.n(len(base))]
	}
	start := func() {
		if isAck {
			add("timer start")
		} else {
			add("timer start %s", vF(rtos[r.n(len(rtos))]))
		}
	}
	// scripted openings around the "fired but not yet run" window, then random ops
	switch r.n(10) {
	case 0, 1: // stale callback meets a restarted timer
		l.stat("timer.opening.stale_after_restart")
		start()
		add("timer hold 1")
		add("timer sleep %d", 63000*vMs)
		add("timer stop")
		add("timer hold %d", r.n(2))
		start()
		if r.chance(50) {
			add("timer run")
		}
	case 2: // the stale callback runs after the fresh one
		l.stat("timer.opening.out_of_order")
		start()
		add("timer hold 1")
		add("timer sleep %d", 63000*vMs)
		add("timer stop")
		start()
		add("timer hold 0")
		add("timer sleep %d", 63000*vMs)
		add("timer run")
	case 3: // close while a callback is outstanding
		l.stat("timer.opening.close_outstanding")
		start()
		add("timer hold 1")
		add("timer sleep %d", 63000*vMs)
		add("timer close")
		add("timer run")
		start()
	case 4: // uninterrupted run long enough for the whole retry budget
		l.stat("timer.opening.long_run")
		start()
		add("timer sleep %d", 600000*vMs)
		add("timer sleep %d", 600000*vMs)
	}
	for i := 0; i < nops; i++ {
		switch x := r.n(100); {
		case x < 22:
			if isAck {
				add("timer start")
			} else {
				add("timer start %s", vF(rtos[r.n(len(rtos))]))
			}
			l.stat("timer.start")
		case x < 32:
			add("timer stop")
			l.stat("timer.stop")
		case x < 35:
			add("timer close")
			l.stat("timer.close")
		case x < 75:
			add("timer sleep %d", sleeps())
			l.stat("timer.sleep")
		case x < 88:
			b := r.n(2)
			add("timer hold %d", b)
			l.stat(fmt.Sprintf("timer.hold%d", b))
		default:
			add("timer run")
			l.stat("timer.run")
		}
	}
	return ops
}

func TestVerifTimer(t *testing.T) {
	l := vOpenLog(t)
	defer l.close()
	h := &vTimer{l: l}
	if ops := vReadOps(t); ops != nil {
		var cur [][]string
		flush := func() {
			if len(cur) > 0 && cur[0][1] == "new" {
				h.runSeq(t, cur)
			}
			cur = nil
		}
		for _, op := range ops {
			if op[0] != "timer" {
				continue
			}
			if op[1] == "new" {
				flush()
			}
			cur = append(cur, op)
		}
		flush()
		return
	}
	r := &vrand{s: uint64(vEnvInt("VERIF_SEED", 1))*0x9e3779b1 + 23}
	nseq, nops := vEnvInt("VERIF_N", 150), vEnvInt("VERIF_OPS", 24)
	for s := 0; s < nseq; s++ {
		h.runSeq(t, vTimerScript(r, l, 4+r.n(nops)))
	}
}
