//go:build verif

package sctp

// X-assoc for the handshake (C04, C13, C17): two REAL associations driven single-threaded by a
// scripted packet shuffler. `hs deliver X i` hands the i-th packet ever sent by X to the other
// side (never choosing it = loss, choosing it twice = duplication, any order = reordering).
// After every step the negotiation-relevant state of both endpoints is logged.

import (
	"fmt"
	"hash/crc32"
	"io"
	"strings"
	"testing"
	"testing/synctest"

	"github.com/pion/logging"
)

type vHS struct {
	t    *testing.T
	l    *vlog
	as   [2]*Association
	hist [2][][]byte // packets ever sent by each side
	stop chan struct{}
}

func vExtSummary(params []param) string {
	ext, zc := "-", "-"
	for _, p := range params {
		switch v := p.(type) {
		case *paramSupportedExtensions:
			var names []string
			for _, ct := range v.ChunkTypes {
				names = append(names, fmt.Sprintf("%d", ct))
			}
			ext = strings.Join(names, ",")
			if ext == "" {
				ext = "none"
			}
		case *paramZeroChecksumAcceptable:
			zc = fmt.Sprintf("%d", v.edmid)
		}
	}
	return "ext=" + ext + ",zc=" + zc
}

// chunk kinds + the negotiation parameters of INIT / INIT-ACK + checksum kind
func vHsPacketSummary(raw []byte) string {
	s := vPacketSummary(raw)
	p := &packet{}
	if err := p.unmarshal(false, raw); err != nil {
		fixed := append([]byte(nil), raw...)
		if len(fixed) >= 12 {
			fixed[8], fixed[9], fixed[10], fixed[11] = 0, 0, 0, 0
			c := crc32.Checksum(fixed, crc32.MakeTable(crc32.Castagnoli))
			fixed[8], fixed[9], fixed[10], fixed[11] = byte(c), byte(c>>8), byte(c>>16), byte(c>>24)
		}
		p = &packet{}
		if err2 := p.unmarshal(false, fixed); err2 != nil {
			return s
		}
	}
	for _, c := range p.chunks {
		switch v := c.(type) {
		case *chunkInit:
			s += " [" + vExtSummary(v.params) + "]"
		case *chunkInitAck:
			s += " [" + vExtSummary(v.params) + "]"
		}
	}
	return strings.ReplaceAll(s, " ", "_")
}

func (h *vHS) dump(x int) string {
	a := h.as[x]
	a.lock.RLock()
	defer a.lock.RUnlock()
	b := func(v bool) int {
		if v {
			return 1
		}
		return 0
	}
	return fmt.Sprintf("st=%d pil=%d pfwd=%d pifwd=%d sz=%d uil=%d ufwd=%d uifwd=%d t1i=%d t1c=%d", a.getState(), b(a.peerInterleaving), b(a.peerForwardTSN),
		b(a.peerIForwardTSN), b(a.sendZeroChecksum), b(a.useInterleaving), b(a.useForwardTSN), b(a.useIForwardTSN),
		b(a.t1Init.isRunning()), b(a.t1Cookie.isRunning()))
}

func (h *vHS) collect(x int) string {
	raws, _ := h.as[x].gatherOutbound()
	var parts []string
	for _, r := range raws {
		h.hist[x] = append(h.hist[x], append([]byte(nil), r...))
		parts = append(parts, vHsPacketSummary(r))
	}
	if len(parts) == 0 {
		return "nothing"
	}
	return strings.Join(parts, ";")
}

// one inbound packet through the real handler; a panic of the implementation is reported, not propagated
func (h *vHS) inbound(y int, raw []byte) (r string) {
	defer synctest.Wait()
	defer func() {
		if p := recover(); p != nil {
			r = "PANIC"
		}
	}()
	_ = h.as[y].handleInbound(raw)

	return "ok"
}

func (h *vHS) closeAll() {
	if h.stop != nil {
		close(h.stop)
		h.stop = nil
	}
	for i := range h.as {
		if a := h.as[i]; a != nil {
			a.closeWriteLoopOnce.Do(func() { close(a.closeWriteLoopCh) })
			a.closeAllTimers()
			h.as[i] = nil
		}
	}
	synctest.Wait()
}

func (h *vHS) exec(op []string) {
	t := h.t
	line := strings.Join(op, " ")
	switch op[1] {
	case "new":
		h.closeAll()
		h.stop = make(chan struct{})
		h.hist = [2][][]byte{}
		for x := 0; x < 2; x++ {
			cfg := &Config{
				NetConn:            &vEnd{},
				LoggerFactory:      &logging.DefaultLoggerFactory{DefaultLogLevel: logging.LogLevelDisabled, ScopeLevels: map[string]logging.LogLevel{}, Writer: io.Discard},
				EnableZeroChecksum: op[3+2*x] == "1",
				Name:               fmt.Sprintf("%c", 'A'+x),
			}
			cfg.enableInterleaving = op[2+2*x] == "1"
			cfg.enableInterleavingSet = true
			a := createAssociationFromConfigWithTsn(cfg, uint32(1000*(x+1)))
			h.as[x] = a
			stop := h.stop
			go func() { // stands in for the Client()/Server() caller waiting for the handshake result
				select {
				case <-a.handshakeCompletedCh:
				case <-stop:
				}
			}()
		}
		h.l.line(line, h.dump(0)+" | "+h.dump(1))
	case "start": // what initClient does, without the loops
		x := int(vAtoU32(t, op[2]))
		a := h.as[x]
		a.lock.Lock()
		init := &chunkInit{}
		init.initialTSN = a.myNextTSN
		init.numOutboundStreams = a.myMaxNumOutboundStreams
		init.numInboundStreams = a.myMaxNumInboundStreams
		init.initiateTag = a.myVerificationTag
		init.advertisedReceiverWindowCredit = a.maxReceiveBufferSize
		setSupportedExtensions(&init.chunkInitCommon, a.localInterleaving)
		if a.recvZeroChecksum {
			init.params = append(init.params, &paramZeroChecksumAcceptable{edmid: dtlsErrorDetectionMethod})
		}
		a.storedInit = init
		_ = a.sendInit()
		a.setState(cookieWait)
		a.t1Init.start(a.rtoMgr.getRTO()) // as initClient does (the timer never fires by itself here: virtual time does not advance)
		a.lock.Unlock()
		out := h.collect(x)
		h.l.line(line, out+" | "+h.dump(x))
	case "deliver":
		x := int(vAtoU32(t, op[2]))
		i := int(vAtoU32(t, op[3]))
		if i >= len(h.hist[x]) {
			h.l.line(line, "nopacket")
			return
		}
		y := 1 - x
		if h.inbound(y, append([]byte(nil), h.hist[x][i]...)) == "PANIC" {
			h.l.line(line, "PANIC")
			h.l.stat("hs.deliver.panic")
			return
		}
		out := h.collect(y)
		h.l.line(line, vHsPacketSummary(h.hist[x][i])+" => "+out+" | "+h.dump(y))
	case "forge": // a packet no honest run of the two endpoints produces (peer restarted with other options, misplaced or hostile chunk) handed to endpoint y
		y := int(vAtoU32(t, op[2]))
		a := h.as[y]
		pkt := &packet{sourcePort: 5000, destinationPort: 5000}
		a.lock.RLock()
		pkt.verificationTag = a.myVerificationTag
		var own []byte
		if a.myCookie != nil {
			own = append([]byte(nil), a.myCookie.cookie...)
		}
		a.lock.RUnlock()
		mkParams := func(ext, zc string) []param {
			var ps []param
			if ext != "none" {
				se := &paramSupportedExtensions{}
				for _, f := range strings.Split(ext, ",") {
					if f != "" && f != "empty" {
						se.ChunkTypes = append(se.ChunkTypes, chunkType(vAtoU32(t, f)))
					}
				}
				ps = append(ps, se)
			}
			if zc != "none" {
				ps = append(ps, &paramZeroChecksumAcceptable{edmid: vAtoU32(t, zc)})
			}
			return ps
		}
		common := chunkInitCommon{initiateTag: 777, advertisedReceiverWindowCredit: 100000, numOutboundStreams: 10, numInboundStreams: 10, initialTSN: 5555}
		switch op[3] {
		case "init":
			pkt.verificationTag = 0
			c := &chunkInit{}
			c.chunkInitCommon = common
			c.params = mkParams(op[4], op[5])
			pkt.chunks = []chunk{c}
		case "initack":
			c := &chunkInitAck{}
			c.chunkInitCommon = common
			c.params = append(mkParams(op[4], op[5]), &paramStateCookie{cookie: []byte{7, 7, 7, 7}})
			pkt.chunks = []chunk{c}
		case "cookieecho":
			ck := []byte{9, 9, 9, 9}
			if op[4] == "own" && own != nil {
				ck = own
			}
			pkt.chunks = []chunk{&chunkCookieEcho{cookie: ck}}
		case "cookieack":
			pkt.chunks = []chunk{&chunkCookieAck{}}
		default:
			t.Fatalf("hs forge: unknown kind %v", op)
		}
		raw, err := pkt.marshal(true)
		if err != nil {
			h.l.line(line, "marshalerr")
			return
		}
		if h.inbound(y, raw) == "PANIC" {
			h.l.line(line, "PANIC")
			h.l.stat("hs.forge.panic")
			return
		}
		out := h.collect(y)
		h.l.line(line, out+" | "+h.dump(y))
		h.l.stat("hs.forge." + op[3])
	case "t1q": // the timer fires and queues the retransmission; the write loop has not marshalled it yet
		x := int(vAtoU32(t, op[2]))
		id := timerT1Init
		if op[3] == "cookie" {
			id = timerT1Cookie
		}
		h.as[x].onRetransmissionTimeout(id, 1)
		h.l.line(line, h.dump(x))
	case "gather": // the write loop runs: everything queued is marshalled NOW, with the flags of NOW
		x := int(vAtoU32(t, op[2]))
		out := h.collect(x)
		h.l.line(line, out+" | "+h.dump(x))
	case "t1":
		x := int(vAtoU32(t, op[2]))
		id := timerT1Init
		if op[3] == "cookie" {
			id = timerT1Cookie
		}
		h.as[x].onRetransmissionTimeout(id, 1)
		out := h.collect(x)
		h.l.line(line, out+" | "+h.dump(x))
	default:
		t.Fatalf("hs: unknown op %v", op)
	}
}

func (h *vHS) do(f string, a ...any) { h.exec(strings.Fields(fmt.Sprintf(f, a...))) }

func vHSGenerate(h *vHS, r *vrand, nseq int) {
	for s := 0; s < nseq; s++ {
		h.do("hs new %d %d %d %d", s&1, (s>>1)&1, (s>>2)&1, (s>>3)&1)
		role := (s >> 4) % 3 // 0: A client, 1: both, 2: both, B first
		switch role {
		case 0:
			h.do("hs start 0")
		case 1:
			h.do("hs start 0")
			h.do("hs start 1")
		default:
			h.do("hs start 1")
			h.do("hs start 0")
		}
		if s%4 == 3 && role == 0 {
			// scripted: a retransmission is queued while the reply that completes the handshake is already on its way;
			// the write loop marshals the queued chunk AFTER that reply was processed
			h.do("hs deliver 0 0")                   // INIT reaches B
			h.do("hs deliver 1 %d", len(h.hist[1])-1) // INIT-ACK reaches A -> COOKIE-ECHO
			if r.chance(50) {
				h.do("hs t1q 0 init") // nothing stored any more
			}
			h.do("hs deliver 0 %d", len(h.hist[0])-1) // COOKIE-ECHO reaches B -> COOKIE-ACK
			h.do("hs t1q 0 cookie")                   // T1-cookie fires at A: COOKIE-ECHO queued
			if r.chance(30) {
				h.do("hs t1q 0 cookie")
			}
			h.do("hs deliver 1 %d", len(h.hist[1])-1) // COOKIE-ACK processed by A, then its write loop runs
			h.do("hs gather 0")
			h.l.stat("hs.scripted_queued_rtx")
		}
		if s%5 == 4 {
			// packets no honest pair produces: a peer that restarts with other options between two attempts, misplaced
			// handshake chunks in every state, junk cookies
			y := r.n(2)
			exts := []string{"none", "empty", "130,192", "130,192,64,194", "64", "192,194", "130"}
			zcs := []string{"none", "1", "2"}
			for k := 0; k < 2+r.n(5); k++ {
				switch r.n(8) {
				case 0, 1, 2:
					h.do("hs forge %d init %s %s", y, r.pickS(exts...), r.pickS(zcs...))
				case 3:
					h.do("hs forge %d initack %s %s", y, r.pickS(exts...), r.pickS(zcs...))
				case 4:
					h.do("hs forge %d cookieecho %s", y, r.pickS("own", "junk"))
				case 5:
					h.do("hs forge %d cookieack", y)
				default:
					if n := len(h.hist[1-y]); n > 0 {
						h.do("hs deliver %d %d", 1-y, n-1-r.n(min(n, 2)))
					}
				}
			}
			h.l.stat("hs.forged_sequences")
		}
		nops := 6 + r.n(30)
		for i := 0; i < nops; i++ {
			x := r.n(2)
			n := len(h.hist[x])
			switch k := r.n(100); {
			case k < 75 && n > 0:
				// mostly the newest packets (progress), sometimes any old one (duplicate / stale)
				idx := n - 1 - r.n(min(n, 2))
				if r.chance(25) {
					idx = r.n(n)
				}
				h.do("hs deliver %d %d", x, idx)
			case k < 80:
				h.do("hs t1 %d init", x)
			case k < 85:
				// a retransmission is queued, other packets are processed first, then the write loop runs
				h.do("hs t1q %d %s", x, []string{"init", "cookie"}[r.n(2)])
				for j := 0; j < 1+r.n(3); j++ {
					y := r.n(2)
					if m := len(h.hist[y]); m > 0 {
						h.do("hs deliver %d %d", y, m-1-r.n(min(m, 3)))
					}
				}
				h.do("hs gather %d", x)
			case k < 95:
				h.do("hs t1 %d cookie", x)
			default:
				if n > 0 {
					h.do("hs deliver %d %d", x, r.n(n))
				}
			}
		}
		// finish: keep delivering the newest packets of both sides, then replay every packet once more (stale)
		for k := 0; k < 12; k++ {
			for x := 0; x < 2; x++ {
				if n := len(h.hist[x]); n > 0 {
					h.do("hs deliver %d %d", x, n-1)
				}
			}
		}
		for x := 0; x < 2; x++ {
			for i := range h.hist[x] {
				if r.chance(50) {
					h.do("hs deliver %d %d", x, i)
				}
			}
		}
		if s%4 == 1 {
			// misplaced handshake chunks after the handshake is over (or stuck), at both endpoints
			for y := 0; y < 2; y++ {
				h.do("hs forge %d cookieecho junk", y)
				h.do("hs forge %d cookieecho own", y)
				h.do("hs forge %d cookieack", y)
				h.do("hs forge %d initack %s none", y, r.pickS("none", "130,192", "130,192,64,194"))
				h.do("hs forge %d init %s %s", y, r.pickS("none", "130,192", "130,192,64,194"), r.pickS("none", "1"))
			}
			h.l.stat("hs.misplaced_after_handshake")
		}
		h.l.stat("hs.sequences")
		if h.as[0].getState() == established && h.as[1].getState() == established {
			h.l.stat("hs.both_established")
		}
	}
}

func TestVerifHandshake(t *testing.T) {
	l := vOpenLog(t)
	defer l.close()
	old := globalMathRandomGenerator
	defer func() { globalMathRandomGenerator = old }()
	globalMathRandomGenerator = &vRandGen{r: &vrand{s: 9}}
	synctest.Test(t, func(t *testing.T) {
		h := &vHS{t: t, l: l}
		defer h.closeAll()
		if ops := vReadOps(t); ops != nil {
			for _, op := range ops {
				if op[0] == "hs" {
					h.exec(op)
				}
			}
			return
		}
		r := &vrand{s: uint64(vEnvInt("VERIF_SEED", 1))*0x2545F491 + 3}
		vHSGenerate(h, r, vEnvInt("VERIF_N", 96))
	})
}
