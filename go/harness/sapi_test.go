//go:build verif

package sctp

// X-sapi: the STREAM API layer (C18, API half of C06) on ONE real Association driven single-threaded under
// testing/synctest (no read/write loops; `synctest.Wait()` after every op). Real `Stream.WriteSCTP` /
// `SetReliabilityParams` / `Close` / `ReadSCTP` / `SetReadDeadline` calls, real `gatherOutbound`, `handleSack`,
// T3 expiries and clock ticks. A call that does not return at once (blocking-write mode with `writePending` set,
// a read with nothing readable) stays parked in its goroutine inside the bubble; the op that releases it is
// followed by a `sa wret` / `sa rret` line with what the call returned.
//
// Line protocol (comp token `sa`; `->` separates the op from the IMPLEMENTATION's result):
//   sa new <il> <blocking> <maxMessageSize> <mtu> <useFwd> [<tsn> <peerRwnd>]   -> <mtu> <maxPayloadSize> <maxMessageSize>
//   sa setstate <n>                                  -> ok          (0 closed 1 cookieWait 2 cookieEchoed 3 established 4 shutdownAckSent 7 shutdownSent)
//   sa open <sid> <ordered> <reltype> <relval>       -> ok | closed (OpenStream refused)
//   sa setrel <sid> <ordered> <reltype> <relval>     -> ok | nostream
//   sa write <sid> <len> <ppi> [deadline-ms]         -> <n> <errclass> | blocked <wid> | busy | nostream
//   sa wret <wid>                                    -> <n> <errclass>      (a parked WriteSCTP returned during the op just logged)
//   sa ora k=v …                                     (oracle values for the NEXT op line: tlr, bud, sel, woke | rtx | t3, rtx)
//   sa gather                                        -> <ok> | <len> <ck> <chunk summaries> ; …      (as `as gather`)
//   sa tx                                            -> <tsn>:<nSent>:<ppi>:<abandoned> …|-          (every DATA chunk of that gather, wire order)
//   sa sack <cum> <arwnd> <gaps>                     -> <errclass>
//   sa t3                                            ->
//   sa tick <ms>                                     ->
//   sa closestream <sid>                             -> <errclass> | nostream
//   sa rpush <sid> <d|i> <tsn> <ssn> <mid> <fsn> <UBE> <ppi> <len> <seed>   -> <errclass>           (Stream.handleData)
//   sa read <sid> <buflen>                           -> <n> <ppi> <errclass> <hash|-> | blocked <rid> | busy | nostream
//   sa rret <rid>                                    -> <n> <ppi> <errclass> <hash|->
//   sa rdeadline <sid> <ms|none>                     -> ok          (SetReadDeadline(now+ms) / SetReadDeadline(zero))
//   sa reof <sid>                                    -> ok          (onInboundStreamReset: the peer reset its direction)
//   sa st   -> wp=<0|1> as=<state> cwnd= rwnd= infN= penN= next= cum= adv= | <sid>:<ssn>:<omid>:<umid>:<buffered>:<state> … |
//              pend=<sid>/<ssn|mid>/<fsn>/<flags>/<len>/<ppi>,… | ab=<abandoned in-flight TSNs>       (after EVERY op)
//   sa rst  -> <sid>:<readErr>:<deadline armed>:<readable>:<reassembly state as `reasm`, '/'-joined> …  (after read-side ops and ticks)

import (
	"bytes"
	"errors"
	"fmt"
	"io"
	"sort"
	"strings"
	"testing"
	"testing/synctest"
	"time"

	"github.com/pion/logging"
)

// vSapiRecPolicy wraps the pending queue's policy: shadow of the queue in push order (what the L0 model keeps) and, for
// every pop, the index the popped chunk had in that shadow (the model's `sel` oracle, reset markers included).
type vSapiRecPolicy struct {
	inner  pendingQueuePolicy
	shadow []*chunkPayloadData
	popped []uint32
	all    []*chunkPayloadData // every chunk ever pushed, in push order
}

func (p *vSapiRecPolicy) push(c *chunkPayloadData) {
	p.inner.push(c)
	p.shadow = append(p.shadow, c)
	p.all = append(p.all, c)
}

func (p *vSapiRecPolicy) peek() *chunkPayloadData { return p.inner.peek() }

func (p *vSapiRecPolicy) index(c *chunkPayloadData) int {
	for i, x := range p.shadow {
		if x == c {
			return i
		}
	}
	return -1
}

func (p *vSapiRecPolicy) pop(c *chunkPayloadData) error {
	if err := p.inner.pop(c); err != nil {
		return err
	}
	if i := p.index(c); i >= 0 {
		p.popped = append(p.popped, uint32(i))
		p.shadow = append(p.shadow[:i:i], p.shadow[i+1:]...)
	}
	return nil
}

// vSapiCall: one WriteSCTP / ReadSCTP call running in its own goroutine inside the bubble
type vSapiCall struct {
	id   int
	sid  uint16
	done chan struct{}
	n    int
	ppi  PayloadProtocolIdentifier
	err  error
	buf  []byte
}

type vSapi struct {
	t        *testing.T
	l        *vlog
	a        *Association
	rec      *vSapiRecPolicy
	blocking bool
	streams  map[uint16]*Stream
	writers  []*vSapiCall // parked WriteSCTP calls
	readers  []*vSapiCall // parked ReadSCTP calls
	nextWid  int
	nextRid  int
	lastRes  string // result of the last op (generator feedback)
}

func vSapiFlags(c *chunkPayloadData) string {
	fl := ""
	if c.unordered {
		fl += "U"
	}
	if c.beginningFragment {
		fl += "B"
	}
	if c.endingFragment {
		fl += "E"
	}
	if fl == "" {
		fl = "-"
	}
	return fl
}

func (h *vSapi) sids() []int {
	ids := make([]int, 0, len(h.streams))
	for id := range h.streams {
		ids = append(ids, int(id))
	}
	sort.Ints(ids)
	return ids
}

func (h *vSapi) abandonedTSNs() []uint32 {
	var out []uint32
	for i := 0; i < h.a.inflightQueue.chunks.Len(); i++ {
		if c := h.a.inflightQueue.chunks.At(i); c.abandoned() {
			out = append(out, c.tsn)
		}
	}
	return out
}

func (h *vSapi) state() string {
	a := h.a
	a.lock.RLock()
	wp := a.writePending
	st := a.getState()
	infN, penN := a.inflightQueue.size(), a.pendingQueue.size()
	next, cum, adv := a.myNextTSN, a.cumulativeTSNAckPoint, a.advancedPeerTSNAckPoint
	var pb strings.Builder
	for i, c := range h.rec.shadow {
		if i > 0 {
			pb.WriteByte(',')
		}
		key := uint32(c.streamSequenceNumber)
		if c.iData {
			key = c.messageIdentifier
		}
		fmt.Fprintf(&pb, "%d/%d/%d/%s/%d/%d", c.streamIdentifier, key, c.fragmentSequenceNumber, vSapiFlags(c), len(c.userData), uint32(c.payloadType))
	}
	if pb.Len() == 0 {
		pb.WriteByte('-')
	}
	ab := vJoinU32(h.abandonedTSNs())
	a.lock.RUnlock()
	var sb strings.Builder
	for _, id := range h.sids() {
		s := h.streams[uint16(id)]
		s.lock.RLock()
		fmt.Fprintf(&sb, " %d:%d:%d:%d:%d:%d", id, s.sequenceNumber, s.nextOrderedMID, s.nextUnorderedMID, s.bufferedAmount, int(s.state))
		s.lock.RUnlock()
	}
	return fmt.Sprintf("wp=%s as=%d cwnd=%d rwnd=%d infN=%d penN=%d next=%d cum=%d adv=%d |%s | pend=%s | ab=%s",
		vb(wp), st, a.CWND(), a.RWND(), infN, penN, next, cum, adv, sb.String(), pb.String(), ab)
}

func vSapiReadErrClass(err error) string {
	switch {
	case err == nil:
		return "nil"
	case errors.Is(err, ErrReadDeadlineExceeded):
		return "deadline"
	}
	return vErrClass(err)
}

func (h *vSapi) rstate() string {
	var sb strings.Builder
	for i, id := range h.sids() {
		s := h.streams[uint16(id)]
		s.lock.Lock()
		rq := strings.ReplaceAll((&vReasm{q: s.reassemblyQueue}).state(), " ", "/")
		if i > 0 {
			sb.WriteByte(' ')
		}
		fmt.Fprintf(&sb, "%d:%s:%s:%s:%s", id, vSapiReadErrClass(s.readErr), vb(s.readTimeoutCancel != nil), vb(s.reassemblyQueue.isReadable()), rq)
		s.lock.Unlock()
	}
	if sb.Len() == 0 {
		return "-"
	}
	return sb.String()
}

// release: make every parked call return (not logged): used before the association is dropped
func (h *vSapi) release() {
	for _, w := range h.writers {
		_ = h.streams[w.sid].SetWriteDeadline(time.Now())
	}
	for _, r := range h.readers {
		_ = h.streams[r.sid].SetReadDeadline(time.Now())
	}
	synctest.Wait()
	for _, c := range append(append([]*vSapiCall{}, h.writers...), h.readers...) {
		select {
		case <-c.done:
		default:
			h.t.Fatalf("VERIF-FAIL sa: parked call %d on stream %d did not return when its deadline was moved to now", c.id, c.sid)
		}
	}
	h.writers, h.readers = nil, nil
}

func (h *vSapi) closeAssoc() {
	if h.a == nil {
		return
	}
	h.release()
	for _, s := range h.streams {
		_ = s.SetReadDeadline(time.Time{}) // stop a read-deadline goroutine that is still waiting for its timer
	}
	synctest.Wait()
	h.a.closeWriteLoopOnce.Do(func() { close(h.a.closeWriteLoopCh) })
	h.a.closeAllTimers()
	h.a = nil
}

func (h *vSapi) parkedWriter(sid uint16) bool {
	for _, w := range h.writers {
		if w.sid == sid {
			return true
		}
	}
	return false
}

func (h *vSapi) parkedReader(sid uint16) bool {
	for _, r := range h.readers {
		if r.sid == sid {
			return true
		}
	}
	return false
}

func vSapiReadRes(c *vSapiCall) string {
	hash := "-"
	if c.err == nil {
		if c.n <= len(c.buf) {
			hash = vRsmHash(c.buf[:c.n])
		} else {
			hash = "overrun"
		}
	}
	return fmt.Sprintf("%d %d %s %s", c.n, uint32(c.ppi), vSapiReadErrClass(c.err), hash)
}

// collect: parked calls that have returned since the last look, in call order
func (h *vSapi) collect() {
	var keepW, keepR []*vSapiCall
	for _, w := range h.writers {
		select {
		case <-w.done:
			h.l.line(fmt.Sprintf("sa wret %d", w.id), fmt.Sprintf("%d %s", w.n, vErrClass(w.err)))
			h.l.stat("sa.wret." + vSapiStatClass(vErrClass(w.err)))
		default:
			keepW = append(keepW, w)
		}
	}
	for _, r := range h.readers {
		select {
		case <-r.done:
			h.l.line(fmt.Sprintf("sa rret %d", r.id), vSapiReadRes(r))
			h.l.stat("sa.rret." + vSapiStatClass(vSapiReadErrClass(r.err)))
		default:
			keepR = append(keepR, r)
		}
	}
	h.writers, h.readers = keepW, keepR
}

func vSapiStatClass(e string) string {
	if i := strings.IndexByte(e, ':'); i >= 0 {
		return e[:i]
	}
	return e
}

// woken: ids of the parked writers that have returned (without consuming them)
func (h *vSapi) woken() string {
	var ids []uint32
	for _, w := range h.writers {
		select {
		case <-w.done:
			ids = append(ids, uint32(w.id))
		default:
		}
	}
	return vJoinU32(ids)
}

func (h *vSapi) exec(op []string) {
	t := h.t
	line := strings.Join(op, " ")
	u := func(i int) uint32 { return vAtoU32(t, op[i]) }
	rside := false
	res := func(r string) {
		h.lastRes = r
		h.l.line(line, r)
	}
	switch op[1] {
	case "new":
		h.closeAssoc()
		cfg := &Config{
			NetConn:        &vEnd{},
			LoggerFactory:  &logging.DefaultLoggerFactory{DefaultLogLevel: logging.LogLevelDisabled, ScopeLevels: map[string]logging.LogLevel{}, Writer: io.Discard},
			MTU:            u(5),
			BlockWrite:     op[3] == "1",
			MaxMessageSize: u(4),
		}
		tsn, peerRwnd := uint32(1000), uint32(1<<20)
		if len(op) >= 9 {
			tsn, peerRwnd = u(7), u(8)
		}
		a := createAssociationFromConfigWithTsn(cfg, tsn)
		a.lock.Lock()
		a.useInterleaving = op[2] == "1"
		fwd := op[6] == "1"
		a.useForwardTSN, a.useIForwardTSN = fwd && !a.useInterleaving, fwd && a.useInterleaving
		a.peerVerificationTag = 1
		a.sourcePort, a.destinationPort = 5000, 5000
		a.setState(established)
		a.setRWND(peerRwnd)
		a.ssthresh = peerRwnd
		a.maxPayloadSize = maxPayloadSizeForMTU(a.MTU(), a.useInterleaving)
		h.rec = &vSapiRecPolicy{inner: a.pendingQueue.policy}
		a.pendingQueue.policy = h.rec
		a.lock.Unlock()
		h.a, h.blocking = a, cfg.BlockWrite
		h.streams = map[uint16]*Stream{}
		h.nextWid, h.nextRid = 0, 0
		res(fmt.Sprintf("%d %d %d", a.MTU(), a.maxPayloadSize, a.MaxMessageSize()))
	case "setstate":
		n := u(2)
		if n == shutdownPending || n == shutdownReceived || n > shutdownSent {
			t.Fatalf("sa: state %d is not driven by this harness", n)
		}
		h.a.lock.Lock()
		h.a.setState(n)
		h.a.lock.Unlock()
		res("ok")
	case "open":
		s, err := h.a.OpenStream(uint16(u(2)), PayloadTypeWebRTCBinary)
		if err != nil {
			res("closed")
			break
		}
		s.SetReliabilityParams(op[3] != "1", byte(u(4)), u(5))
		h.streams[uint16(u(2))] = s
		rside = true
		res("ok")
	case "setrel":
		s := h.streams[uint16(u(2))]
		if s == nil {
			res("nostream")
			break
		}
		s.SetReliabilityParams(op[3] != "1", byte(u(4)), u(5))
		res("ok")
	case "write":
		sid := uint16(u(2))
		s := h.streams[sid]
		if s == nil {
			res("nostream")
			break
		}
		if h.parkedWriter(sid) && int(u(3)) <= int(h.a.MaxMessageSize()) && s.State() == StreamStateOpen && u(3) != 0 {
			// blocking mode: the parked call holds the stream's write lock; a second WriteSCTP that gets past the size,
			// stream-state and empty-payload tests would wait for that lock (a sync.Mutex: no deadline) — not issued
			res("busy")
			break
		}
		// the write deadline belongs to the stream: it is left alone while a parked call is waiting on it (the call
		// issued now returns before it would look at the deadline)
		if !h.parkedWriter(sid) {
			if len(op) > 5 {
				_ = s.SetWriteDeadline(time.Now().Add(time.Duration(u(5)) * time.Millisecond))
			} else {
				_ = s.SetWriteDeadline(time.Time{})
			}
		}
		p := vPayload(uint64(u(3))*31+uint64(sid), int(u(3)))
		mark := len(h.rec.all)
		w := &vSapiCall{id: h.nextWid, sid: sid, done: make(chan struct{})}
		go func() {
			w.n, w.err = s.WriteSCTP(p, PayloadProtocolIdentifier(u(4)))
			close(w.done)
		}()
		synctest.Wait()
		select {
		case <-w.done:
			res(fmt.Sprintf("%d %s", w.n, vErrClass(w.err)))
			h.l.stat("sa.write." + vSapiStatClass(vErrClass(w.err)))
			if w.err == nil && w.n > 0 {
				// the chunks this write queued carry, in order, exactly the bytes of the buffer (the models carry lengths and
				// identities only; this is the byte-copy of packetize)
				var got []byte
				for _, c := range h.rec.all[mark:] {
					got = append(got, c.userData...)
				}
				verdict := "ok"
				if !bytes.Equal(got, p) {
					verdict = fmt.Sprintf("BAD %d_chunks_%d_bytes_for_%d", len(h.rec.all)-mark, len(got), len(p))
				}
				h.l.line(fmt.Sprintf("sa bytes %d", sid), verdict)
			}
		default:
			h.nextWid++
			h.writers = append(h.writers, w)
			res(fmt.Sprintf("blocked %d", w.id))
			h.l.stat("sa.write.blocked")
		}
	case "gather":
		a := h.a
		a.lock.Lock()
		tlr := a.tlrActive
		budget := a.tlrCurrentBurstBudgetScaledLocked()
		h.rec.popped = nil
		a.lock.Unlock()
		raws, ok := a.gatherOutbound()
		synctest.Wait() // a parked writer released by this gather runs now
		a.lock.Lock()
		sel := append([]uint32(nil), h.rec.popped...)
		if c := a.pendingQueue.peek(); c != nil {
			if i := h.rec.index(c); i >= 0 {
				sel = append(sel, uint32(i))
			}
		}
		// NOTE: a writer woken by this gather has pushed its chunks behind everything that was pending: the index of
		// the chunk at the head is the same before and after, unless the queue was empty (then the model does not ask)
		var tx []string
		for _, raw := range raws {
			p := &packet{}
			if err := p.unmarshal(false, raw); err != nil {
				continue
			}
			for _, c := range p.chunks {
				if d, isData := c.(*chunkPayloadData); isData {
					nSent, ab, ppi := uint32(0), false, uint32(0)
					if q, found := a.inflightQueue.get(d.tsn); found {
						nSent, ab, ppi = q.nSent, q.abandoned(), uint32(q.payloadType)
					}
					tx = append(tx, fmt.Sprintf("%d:%d:%d:%s", d.tsn, nSent, ppi, vb(ab)))
				}
			}
		}
		a.lock.Unlock()
		h.l.line(fmt.Sprintf("sa ora tlr=%s bud=%d sel=%s woke=%s", vb(tlr), budget, vJoinU32(sel), h.woken()), "")
		var sb strings.Builder
		for i, raw := range raws {
			if i > 0 {
				sb.WriteString(" ; ")
			}
			fmt.Fprintf(&sb, "%d %s", len(raw), vPacketSummary(raw))
		}
		if len(raws) == 0 {
			sb.WriteString("nothing")
		}
		res(fmt.Sprintf("%v | %s", ok, sb.String()))
		if len(tx) == 0 {
			tx = []string{"-"}
		}
		h.l.line("sa tx", strings.Join(tx, " "))
	case "sack":
		sack := &chunkSelectiveAck{cumulativeTSNAck: u(2), advertisedReceiverWindowCredit: u(3), gapAckBlocks: vParseGaps(t, op[4])}
		h.a.lock.Lock()
		err := h.a.handleSack(sack)
		marks := (&vAS{a: h.a}).rtxMarks()
		h.a.lock.Unlock()
		h.l.line("sa ora rtx="+marks, "")
		res(vErrClass(err))
	case "t3":
		h.a.onRetransmissionTimeout(timerT3RTX, 1)
		res("")
	case "tick":
		n0 := h.a.stats.getNumT3Timeouts()
		time.Sleep(time.Duration(u(2)) * time.Millisecond)
		synctest.Wait()
		h.a.lock.Lock()
		marks := (&vAS{a: h.a}).rtxMarks()
		h.a.lock.Unlock()
		k := h.a.stats.getNumT3Timeouts() - n0
		if k > 0 {
			h.l.stat("sa.tick.t3fired")
		}
		h.l.line(fmt.Sprintf("sa ora t3=%d rtx=%s", k, marks), "")
		rside = true
		res("")
	case "closestream":
		s := h.streams[uint16(u(2))]
		if s == nil {
			res("nostream")
			break
		}
		err := s.Close()
		rside = true
		if errors.Is(err, ErrResetPacketInStateNotExist) {
			res("notestablished")
		} else {
			res(vErrClass(err))
		}
	case "rpush":
		s := h.streams[uint16(u(2))]
		if s == nil {
			res("nostream")
			break
		}
		if len(op) < 12 || len(op[8]) != 3 {
			t.Fatalf("sa: bad rpush %v", op)
		}
		c := &chunkPayloadData{
			tsn:                    u(4),
			streamIdentifier:       uint16(u(2)),
			streamSequenceNumber:   uint16(u(5)),
			messageIdentifier:      u(6),
			fragmentSequenceNumber: u(7),
			unordered:              op[8][0] == '1',
			beginningFragment:      op[8][1] == '1',
			endingFragment:         op[8][2] == '1',
			payloadType:            PayloadProtocolIdentifier(u(9)),
			userData:               vRsmPayload(u(11), int(u(10))),
			iData:                  op[3] == "i",
		}
		err := s.handleData(c)
		rside = true
		e := "nil"
		switch {
		case err == nil:
		case errors.Is(err, errReassemblyQueueLimitExceeded):
			e = "datalimit"
		case errors.Is(err, errReassemblyQueueMIDLimitExceeded):
			e = "midlimit"
		default:
			e = "other"
		}
		res(e)
	case "read":
		sid := uint16(u(2))
		s := h.streams[sid]
		if s == nil {
			res("nostream")
			break
		}
		if h.parkedReader(sid) {
			res("busy") // one reader per stream: which of two waiting readers a Signal wakes is up to the runtime
			break
		}
		rside = true
		c := &vSapiCall{id: h.nextRid, sid: sid, done: make(chan struct{}), buf: make([]byte, int(u(3)))}
		go func() {
			c.n, c.ppi, c.err = s.ReadSCTP(c.buf)
			close(c.done)
		}()
		synctest.Wait()
		select {
		case <-c.done:
			res(vSapiReadRes(c))
			h.l.stat("sa.read." + vSapiStatClass(vSapiReadErrClass(c.err)))
		default:
			h.nextRid++
			h.readers = append(h.readers, c)
			res(fmt.Sprintf("blocked %d", c.id))
			h.l.stat("sa.read.blocked")
		}
	case "rdeadline":
		s := h.streams[uint16(u(2))]
		if s == nil {
			res("nostream")
			break
		}
		if op[3] == "none" {
			_ = s.SetReadDeadline(time.Time{})
		} else {
			_ = s.SetReadDeadline(time.Now().Add(time.Duration(u(3)) * time.Millisecond))
		}
		rside = true
		res("ok")
	case "reof":
		s := h.streams[uint16(u(2))]
		if s == nil {
			res("nostream")
			break
		}
		s.onInboundStreamReset()
		rside = true
		res("ok")
	default:
		t.Fatalf("sa: unknown op %v", op)
	}
	// everything that became runnable at this virtual instant (released callers, timer goroutines) finishes here
	synctest.Wait()
	h.collect()
	h.l.line("sa st", h.state())
	if rside && op[1] != "new" {
		h.l.line("sa rst", h.rstate())
	}
}

func (h *vSapi) do(f string, a ...any) { h.exec(strings.Fields(fmt.Sprintf(f, a...))) }

// ---- generator ---------------------------------------------------------------------------------

type vSapiPolicy struct {
	ordered bool
	relType int
	relVal  int
}

func vSapiPickPolicy(r *vrand, i int) vSapiPolicy {
	// all policies x ordered/unordered; the index makes sure every sequence has a spread
	p := vSapiPolicy{ordered: r.chance(55)}
	switch (r.n(7) + i) % 7 {
	case 0, 1:
	case 2:
		p.relType, p.relVal = int(ReliabilityTypeRexmit), 0
	case 3:
		p.relType, p.relVal = int(ReliabilityTypeRexmit), 1
	case 4:
		p.relType, p.relVal = int(ReliabilityTypeRexmit), r.pick(2, 3, 3)
	case 5:
		p.relType, p.relVal = int(ReliabilityTypeTimed), r.pick(0, 50)
	default:
		p.relType, p.relVal = int(ReliabilityTypeTimed), r.pick(50, 500)
	}
	return p
}

func vSapiGenerate(t *testing.T, h *vSapi, r *vrand, nseq, nops int) {
	l := h.l
	for s := 0; s < nseq; s++ {
		il := r.n(2)
		blocking := r.chance(50)
		mms := r.pick(65536, 65536, 1200, 5000, 100000)
		mtu := r.pick(1200, 1200, 576, 1500)
		useFwd := !r.chance(12)
		tsn := r.u32()
		if r.chance(30) {
			tsn = uint32(0) - uint32(r.n(200)) - 1
		}
		peerRwnd := uint32(r.pick(0, 1500, 10000, 65536, 1<<20, 1<<20))
		h.do("sa new %d %s %d %d %s %d %d", il, vb(blocking), mms, mtu, vb(useFwd), tsn, peerRwnd)
		l.stat("sa.new")
		if blocking {
			l.stat("sa.new.blocking")
		}
		if il == 1 {
			l.stat("sa.new.interleaving")
		}
		if !useFwd {
			l.stat("sa.new.nofwdtsn")
		}
		mp := int(h.a.maxPayloadSize)
		ns := 2 + r.n(3)
		pol := map[int]vSapiPolicy{}
		openStream := func(i int) {
			p := vSapiPickPolicy(r, i)
			pol[i] = p
			h.do("sa open %d %s %d %d", i, vb(p.ordered), p.relType, p.relVal)
			l.stat(fmt.Sprintf("sa.policy.%d.%d.%s", p.relType, p.relVal, map[bool]string{true: "ordered", false: "unordered"}[p.ordered]))
		}
		for i := 1; i <= ns; i++ {
			openStream(i)
		}
		closed := map[int]bool{}
		state := uint32(established)
		pv := &vPeerView{first: tsn, cum: tsn - 1, lastArw: peerRwnd}
		dupBurst := 0
		// read side: one honest remote sender per stream
		rs := map[int]*vSender{}
		rtsn := r.u32()
		for i := 1; i <= ns; i++ {
			rs[i] = &vSender{idata: il == 1, si: uint16(i), mp: r.pick(3, 16, 64, 1200)}
		}
		var rq [][3]int // undelivered fragments: stream, message index, fragment index
		openSid := func() int {
			for k := 0; k < 8; k++ {
				if i := 1 + r.n(ns); !closed[i] {
					return i
				}
			}
			return 1
		}
		validSize := func() int {
			switch y := r.n(20); {
			case y < 8:
				return 1 + r.n(100)
			case y < 12:
				return 1 + r.n(mp)
			case y < 14:
				return mp // exactly one full fragment
			case y < 15:
				return mp + 1
			case y < 19:
				return min(mms, 1+r.n(6*mp)) // several fragments
			default:
				return mms // the largest accepted message
			}
		}
		write := func(sid, size, ppi int, dl int) {
			if size > mp {
				l.stat("sa.write.fragmented")
			}
			if ppi == int(PayloadTypeWebRTCDCEP) {
				l.stat("sa.write.dcep")
			}
			if dl >= 0 {
				h.do("sa write %d %d %d %d", sid, size, ppi, dl)
				l.stat("sa.write.withdeadline")
			} else {
				h.do("sa write %d %d %d", sid, size, ppi)
			}
		}
		gather := func() {
			before := h.a.myNextTSN
			nfast, nrtx := h.a.stats.getNumFastRetrans(), 0
			for i := 0; i < h.a.inflightQueue.chunks.Len(); i++ {
				if h.a.inflightQueue.chunks.At(i).retransmit {
					nrtx++
				}
			}
			h.do("sa gather")
			for tsn := before; tsn != h.a.myNextTSN; tsn++ {
				pv.sent = append(pv.sent, tsn)
			}
			if h.a.myNextTSN != before {
				l.stat("sa.gather.newdata")
			}
			if h.a.stats.getNumFastRetrans() != nfast {
				l.stat("sa.gather.fastrtx")
			}
			if nrtx > 0 {
				l.stat("sa.gather.rtxmarked")
			}
			if strings.Contains(h.lastRes, "FWD:") {
				l.stat("sa.gather.fwdtsn")
			}
		}
		for i := 0; i < nops; i++ {
			x := r.n(100)
			if dupBurst > 0 {
				x = 65
				if r.chance(30) {
					x = 45
				}
			}
			switch {
			case x < 28: // mostly valid writes
				ppi := r.pick(51, 53, 53)
				if r.chance(12) {
					ppi = int(PayloadTypeWebRTCDCEP)
				}
				dl := -1
				if blocking && r.chance(35) {
					dl = r.pick(0, 20, 200, 2000)
				}
				write(openSid(), validSize(), ppi, dl)
			case x < 40: // the separate stream of invalid calls
				sid := openSid()
				switch r.n(7) {
				case 0:
					write(sid, mms+1, 53, -1) // oversize by one
					l.stat("sa.invalid.oversize1")
				case 1:
					write(sid, mms+1+r.n(5000), 53, -1)
					l.stat("sa.invalid.oversize")
				case 2:
					write(sid, 0, r.pick(53, 50), -1)
					l.stat("sa.invalid.empty")
				case 3: // closed stream
					if len(closed) == 0 && ns > 2 {
						c := 1 + r.n(ns)
						h.do("sa closestream %d", c)
						closed[c] = true
						l.stat("sa.closestream")
					}
					for c := range closed {
						sid = c
					}
					if closed[sid] {
						write(sid, validSize(), 53, -1)
						l.stat("sa.invalid.closedstream")
					}
				case 4: // non-established association
					st := r.pick(int(vSapiClosedState()), int(cookieWait), int(cookieEchoed), int(shutdownSent), int(shutdownAckSent))
					h.do("sa setstate %d", st)
					state = uint32(st)
					write(sid, validSize(), r.pick(53, 50), -1)
					l.stat("sa.invalid.notestablished")
					if r.chance(70) {
						h.do("sa setstate %d", established)
						state = established
					}
				case 5: // blocking mode: deadline already passed while an earlier message is still pending
					if blocking {
						if !h.a.writePending {
							write(sid, validSize(), 53, -1)
						}
						write(openSid(), validSize(), 53, 0)
						l.stat("sa.invalid.deadlinepassed")
					}
				default: // blocking mode: the deadline is hit while the window stays closed
					if blocking {
						if !h.a.writePending {
							write(sid, 1+r.n(3*mp), 53, -1)
						}
						o := openSid()
						write(o, validSize(), r.pick(53, 50), r.pick(20, 100))
						h.do("sa tick %d", r.pick(20, 100, 150))
						l.stat("sa.invalid.deadlinehit")
					}
				}
			case x < 58:
				gather()
			case x < 80: // SACK (as in the `as` generator)
				nsent := int(h.a.myNextTSN - pv.first)
				acked := int(pv.cum + 1 - pv.first)
				cum := pv.cum
				if dupBurst == 0 && nsent > acked && r.chance(70) {
					cum = pv.cum + uint32(r.n(nsent-acked+1))
				}
				room := int(h.a.myNextTSN - cum - 1)
				gaps := "none"
				switch {
				case dupBurst > 0 && room >= 2:
					gaps = fmt.Sprintf("2-%d", room)
					dupBurst--
				case dupBurst > 0:
					dupBurst = 0
				case room > 2 && r.chance(40):
					dupBurst = 2 + r.n(3)
					gaps = fmt.Sprintf("2-%d", 2+r.n(room-1))
					l.stat("sa.sack.dupburst")
				case room > 2 && r.chance(50):
					var gs []string
					pos := 2
					for len(gs) < 3 && pos < room && pos < 60000 {
						st := pos + r.n(3)
						en := st + r.n(4)
						if en > room {
							en = room
						}
						if st > en {
							break
						}
						gs = append(gs, fmt.Sprintf("%d-%d", st, en))
						pos = en + 2 + r.n(3)
					}
					if len(gs) > 0 {
						gaps = strings.Join(gs, "+")
					}
				}
				arw := uint32(r.pick(0, 0, 300, 1500, 20000, 65536, 1<<20, 1<<20, int(pv.lastArw)))
				if dupBurst == 0 {
					switch r.n(20) {
					case 0:
						cum = h.a.myNextTSN + uint32(r.n(5))
						l.stat("sa.sack.invalid")
					case 1:
						cum = pv.cum - uint32(r.n(3))
					case 2, 3, 4:
						if sna32GT(h.a.advancedPeerTSNAckPoint, h.a.cumulativeTSNAckPoint) {
							cum, gaps = h.a.advancedPeerTSNAckPoint, "none"
							l.stat("sa.sack.fwdtsn")
						}
					}
				}
				fr := h.a.inFastRecovery
				h.do("sa sack %d %d %s", cum, arw, gaps)
				if !fr && h.a.inFastRecovery {
					l.stat("sa.sack.enterFR")
				}
				if gaps != "none" {
					l.stat("sa.sack.gaps")
				}
				pv.cum = h.a.cumulativeTSNAckPoint
				pv.lastArw = arw
				l.stat("sa.sack")
			case x < 84:
				h.do("sa t3")
				l.stat("sa.t3")
			case x < 89:
				h.do("sa tick %d", r.pick(1, 20, 60, 300, 1500))
				l.stat("sa.tick")
			case x < 91: // change the policy of a stream: mostly when nothing of it is outstanding
				sid := openSid()
				if h.streams[uint16(sid)].BufferedAmount() == 0 || r.chance(15) {
					p := vSapiPickPolicy(r, r.n(7))
					pol[sid] = p
					h.do("sa setrel %d %s %d %d", sid, vb(p.ordered), p.relType, p.relVal)
					l.stat("sa.setrel")
				}
			case x < 92:
				if state != established {
					h.do("sa setstate %d", established)
					state = established
				}
			default: // read side
				sid := 1 + r.n(ns)
				if r.chance(70) { // prefer a stream that has something to read
					for k := 1; k <= ns; k++ {
						if h.streams[uint16(k)].reassemblyQueue.isReadable() {
							sid = k
						}
					}
				}
				snd := rs[sid]
				switch y := r.n(12); {
				case y < 6: // the peer sends a message / the network delivers a fragment (any order)
					if len(rq) < 6 || r.chance(30) {
						snd.nextTSN = rtsn
						m := snd.newMsg(r.pick(1, 2, 5, 40, 200, 3000), r.chance(30), r.u32())
						rtsn = snd.nextTSN
						for j := range m.frags {
							rq = append(rq, [3]int{sid, m.id, j})
						}
						l.stat("sa.rmsg")
					}
					if len(rq) > 0 {
						k := 0
						if r.chance(35) {
							k = r.n(len(rq))
						}
						e := rq[k]
						rq = append(rq[:k:k], rq[k+1:]...)
						sn := rs[e[0]]
						m := sn.msgs[e[1]]
						f := m.frags[e[2]]
						kind, ssn, mid, fsn, ppi := "d", m.key, uint32(0), uint32(0), m.ppi
						if sn.idata {
							kind, ssn, mid, fsn = "i", uint32(uint16(m.key)), m.key, f.fsn
							if !f.b {
								ppi = 0
							}
						}
						h.do("sa rpush %d %s %d %d %d %d %s%s%s %d %d %d", e[0], kind, f.tsn, ssn, mid, fsn,
							vb(m.unordered), vb(f.b), vb(f.e), ppi, f.n, m.seed+uint32(f.off))
						l.stat("sa.rpush")
					}
				case y < 9:
					h.do("sa read %d %d", sid, r.pick(0, 1, 4, 39, 40, 199, 200, 2999, 3000, 70000, 70000))
				case y < 11:
					if r.chance(20) {
						h.do("sa rdeadline %d none", sid)
					} else {
						h.do("sa rdeadline %d %d", sid, r.pick(0, 10, 50, 400))
					}
					l.stat("sa.rdeadline")
					if r.chance(60) {
						h.do("sa read %d %d", sid, r.pick(1, 200, 70000))
						if r.chance(50) {
							h.do("sa tick %d", r.pick(10, 50, 400))
						}
					}
				default:
					if r.chance(25) {
						h.do("sa reof %d", sid)
						l.stat("sa.reof")
					}
				}
			}
			if len(h.abandonedTSNs()) > 0 {
				l.stat("sa.abandoned.steps")
			}
			if len(h.writers) > 0 {
				l.stat("sa.parkedwriter.steps")
			}
			if len(h.writers) > 1 {
				l.stat("sa.parkedwriter2.steps")
			}
		}
		// drain: everything gets acknowledged, every parked writer gets through
		if state != established {
			h.do("sa setstate %d", established)
		}
		for k := 0; k < 300 && (h.a.pendingQueue.size() > 0 || h.a.inflightQueue.size() > 0 || len(h.writers) > 0); k++ {
			h.do("sa gather")
			h.do("sa sack %d %d none", h.a.myNextTSN-1, 1<<20)
		}
		if len(h.writers) > 0 {
			t.Fatalf("VERIF-FAIL sa: %d writer(s) still parked after the queues were drained (writePending=%v)", len(h.writers), h.a.writePending)
		}
	}
}

func vSapiClosedState() uint32 { return closed }

func TestVerifStreamAPI(t *testing.T) {
	l := vOpenLog(t)
	defer l.close()
	old := globalMathRandomGenerator
	defer func() { globalMathRandomGenerator = old }()
	globalMathRandomGenerator = &vRandGen{r: &vrand{s: 5}}
	synctest.Test(t, func(t *testing.T) {
		h := &vSapi{t: t, l: l}
		defer h.closeAssoc()
		if ops := vReadOps(t); ops != nil {
			for _, op := range ops {
				if op[0] != "sa" || len(op) < 2 {
					continue
				}
				switch op[1] {
				case "st", "rst", "ora", "tx", "wret", "rret":
				default:
					h.exec(op)
				}
			}
			return
		}
		r := &vrand{s: uint64(vEnvInt("VERIF_SEED", 1))*0x9E3779B1 + 29}
		vSapiGenerate(t, h, r, vEnvInt("VERIF_N", 60), vEnvInt("VERIF_OPS", 150))
	})
}
