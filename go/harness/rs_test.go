//go:build verif

package sctp

// X-assoc for stream reset (C14): two REAL, established associations driven single-threaded by a
// scripted application and packet shuffler (no read/write loops, no timers firing by themselves).
// `rs deliver X i` hands the i-th packet ever sent by X (since the handshake) to the other side:
// never choosing it = loss, twice = duplication, any order = reordering, an old index = stale replay.
// Stream objects are addressed by HANDLE (index into the list of every *Stream ever created at that
// endpoint, by OpenStream or by inbound DATA), because the application keeps its pointer after the
// association has dropped the stream from its table.
// After every op both endpoints' reset-relevant state is logged and compared with the L0 model `Rs`.

import (
	"encoding/binary"
	"fmt"
	"io"
	"sort"
	"strings"
	"testing"
	"testing/synctest"

	"github.com/pion/logging"
)

type vRsReq struct {
	rsn  uint32
	sids []uint16
}

type vRsEnd struct {
	a      *Association
	objs   []*Stream           // every stream object ever seen here; handle = index
	hist   [][]byte            // packets sent since the handshake
	shadow []*chunkPayloadData // pending queue in push order (white box)
	known  map[*chunkPayloadData]bool
	reqs   []vRsReq // outgoing reset requests this side ever created
}

type vRs struct {
	t    *testing.T
	l    *vlog
	il   bool
	e    [2]*vRsEnd
	stop chan struct{}
	msg  int // message id counter of the generator
}

// ---- wire summaries ---------------------------------------------------------------------------

func vRsMsgID(c *chunkPayloadData) uint32 {
	if len(c.userData) >= 4 {
		return binary.BigEndian.Uint32(c.userData)
	}
	return 0
}

func vRsChunkSummary(c chunk) string {
	switch x := c.(type) {
	case *chunkPayloadData:
		seq := uint32(x.streamSequenceNumber)
		if x.isIData() {
			seq = x.messageIdentifier
		}
		return fmt.Sprintf("D:%d:%d:%s:%d:%d:%d", x.tsn, x.streamIdentifier, vb(x.unordered), seq, vRsMsgID(x), len(x.userData))
	case *chunkSelectiveAck:
		return fmt.Sprintf("S:%d", x.cumulativeTSNAck)
	case *chunkReconfig:
		var parts []string
		for _, p := range []param{x.paramA, x.paramB} {
			switch v := p.(type) {
			case *paramOutgoingResetRequest:
				var ids []string
				for _, id := range v.streamIdentifiers {
					ids = append(ids, fmt.Sprintf("%d", id))
				}
				parts = append(parts, fmt.Sprintf("Q:%d:%d:%d:%s", v.reconfigRequestSequenceNumber, v.reconfigResponseSequenceNumber,
					v.senderLastTSN, strings.Join(ids, "+")))
			case *paramReconfigResponse:
				parts = append(parts, fmt.Sprintf("P:%d:%d", v.reconfigResponseSequenceNumber, uint32(v.result)))
			case nil:
			default:
				parts = append(parts, "R?")
			}
		}
		return strings.Join(parts, "&")
	default:
		return "X:" + strings.SplitN(vChunkSummary(c), ":", 2)[0]
	}
}

func vRsParse(raw []byte) *packet {
	p := &packet{}
	if err := p.unmarshal(false, raw); err != nil {
		return nil
	}
	return p
}

func vRsPktSummary(raw []byte) string {
	p := vRsParse(raw)
	if p == nil {
		return "UNPARSABLE"
	}
	var parts []string
	for _, c := range p.chunks {
		parts = append(parts, vRsChunkSummary(c))
	}
	return strings.Join(parts, ",")
}

// the request of a packet that carries exactly one outgoing reset request, else nil
func vRsAsRequest(raw []byte) *paramOutgoingResetRequest {
	p := vRsParse(raw)
	if p == nil || len(p.chunks) != 1 {
		return nil
	}
	rc, ok := p.chunks[0].(*chunkReconfig)
	if !ok || rc.paramB != nil {
		return nil
	}
	q, _ := rc.paramA.(*paramOutgoingResetRequest)
	return q
}

func vRsAsResponse(p *packet) *paramReconfigResponse {
	if p == nil || len(p.chunks) != 1 {
		return nil
	}
	rc, ok := p.chunks[0].(*chunkReconfig)
	if !ok || rc.paramB != nil {
		return nil
	}
	q, _ := rc.paramA.(*paramReconfigResponse)
	return q
}

func vRsDataTSNs(raw []byte) []uint32 {
	p := vRsParse(raw)
	if p == nil {
		return nil
	}
	var out []uint32
	for _, c := range p.chunks {
		if d, ok := c.(*chunkPayloadData); ok {
			out = append(out, d.tsn)
		}
	}
	return out
}

// ---- white-box views --------------------------------------------------------------------------

// every chunk currently in the pending queue (any policy)
func vRsPendingChunks(t *testing.T, a *Association) map[*chunkPayloadData]bool {
	out := map[*chunkPayloadData]bool{}
	add := func(q *pendingBaseQueue) {
		if q == nil {
			return
		}
		for _, c := range q.queue {
			if c != nil {
				out[c] = true
			}
		}
	}
	switch pol := a.pendingQueue.policy.(type) {
	case *messagePendingQueuePolicy:
		add(pol.orderedQueue)
		add(pol.unorderedQueue)
	case *interleavingStreamSchedulerPolicy:
		switch sch := pol.scheduler.(type) {
		case *weightedFairQueueingPendingQueuePolicy:
			for _, q := range sch.streamQueues {
				add(q)
			}
		case *roundRobinPendingQueuePolicy:
			for _, q := range sch.streamQueues {
				add(q)
			}
		default:
			t.Fatalf("rs: scheduler %T not supported by the harness", pol.scheduler)
		}
	default:
		t.Fatalf("rs: pending queue policy %T not supported by the harness", a.pendingQueue.policy)
	}
	return out
}

// push order of what one write / close appended (at most one chunk per op: messages are unfragmented)
func (h *vRs) noteShadow(x int) {
	e := h.e[x]
	e.a.lock.Lock()
	cur := vRsPendingChunks(h.t, e.a)
	e.a.lock.Unlock()
	n := 0
	for c := range cur {
		if !e.known[c] {
			e.known[c] = true
			e.shadow = append(e.shadow, c)
			n++
		}
	}
	if n > 1 {
		h.t.Fatalf("rs: %d chunks were queued by one operation (messages must be unfragmented)", n)
	}
}

func (h *vRs) handleOf(x int, s *Stream) (int, bool) {
	e := h.e[x]
	for i, o := range e.objs {
		if o == s {
			return i, false
		}
	}
	e.objs = append(e.objs, s)
	return len(e.objs) - 1, true
}

// streams created by inbound DATA get their handle in creation order (= order in the accept channel)
func (h *vRs) noteAccepted(x int) {
	e := h.e[x]
	var held []*Stream
	for {
		select {
		case s := <-e.a.acceptCh:
			held = append(held, s)
			continue
		default:
		}
		break
	}
	for _, s := range held {
		h.handleOf(x, s)
		e.a.acceptCh <- s
	}
}

func vRsJoinU32(xs []uint32) string {
	if len(xs) == 0 {
		return "-"
	}
	sort.Slice(xs, func(i, j int) bool { return xs[i] < xs[j] })
	var parts []string
	for _, x := range xs {
		parts = append(parts, fmt.Sprintf("%d", x))
	}
	return strings.Join(parts, "+")
}

func (h *vRs) dump(x int) string {
	e := h.e[x]
	a := e.a
	a.lock.Lock()
	defer a.lock.Unlock()
	cum := a.peerLastTSN()
	var rcv []uint32
	for d := uint32(1); d <= 2048; d++ {
		if a.payloadQueue.hasChunk(cum + d) {
			rcv = append(rcv, cum+d)
		}
	}
	if len(rcv) != a.payloadQueue.size() {
		h.t.Fatalf("rs: receive queue holds %d TSNs, %d found within 2048 of the cumulative point", a.payloadQueue.size(), len(rcv))
	}
	var rq, rc, perf []uint32
	for k := range a.reconfigRequests {
		rq = append(rq, k)
	}
	for k := range a.reconfigs {
		rc = append(rc, k)
	}
	for k := range a.performedResetRSNs {
		perf = append(perf, k)
	}
	var reg []string
	var sids []int
	for sid := range a.streams {
		sids = append(sids, int(sid))
	}
	sort.Ints(sids)
	for _, sid := range sids {
		hd, isNew := h.handleOf(x, a.streams[uint16(sid)])
		if isNew {
			h.t.Fatalf("rs: stream %d registered at %d without a handle", sid, x)
		}
		reg = append(reg, fmt.Sprintf("%d:%d", sid, hd))
	}
	if len(reg) == 0 {
		reg = []string{"-"}
	}
	var objs []string
	for i, s := range e.objs {
		s.lock.RLock()
		re := 0
		if s.readErr != nil {
			re = 2
			if s.readErr == io.EOF {
				re = 1
			}
		}
		q := s.reassemblyQueue
		ns := uint32(q.nextSSN)
		if a.useInterleaving {
			ns = q.nextMID
		}
		objs = append(objs, fmt.Sprintf("%d:%d:%d:%d:%d:%d:%d:%d:%d:%d:%s", i, s.streamIdentifier, int(s.state), s.sequenceNumber,
			s.nextOrderedMID, s.nextUnorderedMID, re, len(q.unordered)+len(q.unorderedMID), len(q.ordered)+len(q.orderedMID), ns, vb(q.isReadable())))
		s.lock.RUnlock()
	}
	if len(objs) == 0 {
		objs = []string{"-"}
	}
	return fmt.Sprintf("next=%d rsn=%d cum=%d rcv=%s pen=%d ctl=%d rq=%s rc=%s perf=%s wr=%s acq=%d cr=%d reg=%s objs=%s",
		a.myNextTSN, a.myNextRSN, cum, vRsJoinU32(rcv), a.pendingQueue.size(), a.controlQueue.size(), vRsJoinU32(rq), vRsJoinU32(rc),
		vRsJoinU32(perf), vb(a.willRetransmitReconfig), len(a.acceptCh), a.getMyReceiverWindowCredit(), strings.Join(reg, ","), strings.Join(objs, ","))
}

// sender-side figures the model does not carry (logged for the reader of a replay, not compared)
func (h *vRs) info(x int) string {
	a := h.e[x].a
	a.lock.Lock()
	defer a.lock.Unlock()
	return fmt.Sprintf("ack=%d inf=%d cwnd=%d rwnd=%d ackst=%d", a.cumulativeTSNAckPoint, a.inflightQueue.size(), a.CWND(), a.RWND(), a.ackState)
}

func (h *vRs) both() string { return h.dump(0) + " | " + h.dump(1) }

// "both directions of sid have been reset" on the REAL state: the identifier is in neither stream table, no object
// with that identifier is still open for writing, no end-of-stream marker for it is still queued, and every reset
// request that names it has been performed by the peer.
func (h *vRs) quiet(sid uint16) bool { return h.notQuietWhy(sid) == "" }

// why the identifier does not count as reset in both directions ("" = it does)
func (h *vRs) notQuietWhy(sid uint16) string {
	for x := 0; x < 2; x++ {
		e := h.e[x]
		a := e.a
		a.lock.Lock()
		_, reg := a.streams[sid]
		a.lock.Unlock()
		if reg {
			return "registered"
		}
		for _, s := range e.objs {
			if s.streamIdentifier == sid && s.State() == StreamStateOpen {
				return "open_object"
			}
		}
		for _, c := range e.shadow {
			if c.streamIdentifier == sid && len(c.userData) == 0 {
				return "marker_queued"
			}
		}
		peer := h.e[1-x].a
		peer.lock.Lock()
		for _, r := range e.reqs {
			names := false
			for _, id := range r.sids {
				names = names || id == sid
			}
			if _, done := peer.performedResetRSNs[r.rsn]; names && !done {
				peer.lock.Unlock()
				return "request_not_performed"
			}
		}
		peer.lock.Unlock()
	}
	return ""
}

func (h *vRs) closeAll() {
	if h.stop != nil {
		close(h.stop)
		h.stop = nil
	}
	for i := range h.e {
		if e := h.e[i]; e != nil && e.a != nil {
			a := e.a
			a.closeWriteLoopOnce.Do(func() { close(a.closeWriteLoopCh) })
			a.closeAllTimers()
			h.e[i] = nil
		}
	}
	synctest.Wait()
}

func (h *vRs) rawGather(x int) [][]byte {
	raws, _ := h.e[x].a.gatherOutbound()
	out := make([][]byte, len(raws))
	for i, r := range raws {
		out[i] = append([]byte(nil), r...)
	}
	return out
}

// fault-free handshake, exactly what initClient / the read loop would do, without the loops
func (h *vRs) establish() {
	t := h.t
	a := h.e[0].a
	a.lock.Lock()
	init := &chunkInit{}
	init.initialTSN = a.myNextTSN
	init.numOutboundStreams = a.myMaxNumOutboundStreams
	init.numInboundStreams = a.myMaxNumInboundStreams
	init.initiateTag = a.myVerificationTag
	init.advertisedReceiverWindowCredit = a.maxReceiveBufferSize
	setSupportedExtensions(&init.chunkInitCommon, a.localInterleaving)
	a.storedInit = init
	_ = a.sendInit()
	a.setState(cookieWait)
	a.lock.Unlock()
	from := 0
	for round := 0; round < 6; round++ {
		raws := h.rawGather(from)
		for _, r := range raws {
			if err := h.e[1-from].a.handleInbound(r); err != nil {
				t.Fatalf("rs: handshake packet rejected: %v", err)
			}
			synctest.Wait()
		}
		from = 1 - from
	}
	for x := 0; x < 2; x++ {
		if st := h.e[x].a.getState(); st != established {
			t.Fatalf("rs: side %d not established after the handshake (state %d)", x, st)
		}
		if raws := h.rawGather(x); len(raws) != 0 {
			t.Fatalf("rs: side %d still has %d packets to send after the handshake", x, len(raws))
		}
	}
}

func vRsErr(err error) string { return vErrClass(err) }

// indices (into the shrinking shadow list) of the pending entries one gatherOutbound call removed, in an order the
// queue discipline allows and that agrees with the TSNs the real code assigned
func (h *vRs) selection(x int, before uint32, reqSids []uint16) []uint32 {
	e := h.e[x]
	a := e.a
	a.lock.Lock()
	left := vRsPendingChunks(h.t, a)
	a.lock.Unlock()
	var popped []*chunkPayloadData
	for _, c := range e.shadow {
		if !left[c] {
			popped = append(popped, c)
		}
	}
	isMarker := func(c *chunkPayloadData) bool { return len(c.userData) == 0 }
	var order []*chunkPayloadData
	if !h.il {
		// messagePendingQueuePolicy without fragments: every unordered chunk first, then the ordered queue, both FIFO
		for _, c := range popped {
			if c.unordered {
				order = append(order, c)
			}
		}
		for _, c := range popped {
			if !c.unordered {
				order = append(order, c)
			}
		}
	} else {
		// per-stream FIFO; streams interleave as the scheduler chose: data in TSN order, markers in the order the new
		// request lists them, merged so that every entry leaves as the oldest of its stream
		var data, markers []*chunkPayloadData
		for _, c := range popped {
			if !isMarker(c) {
				data = append(data, c)
			}
		}
		sort.Slice(data, func(i, j int) bool { return data[i].tsn-before < data[j].tsn-before })
		used := map[*chunkPayloadData]bool{}
		for _, sid := range reqSids {
			for _, m := range popped {
				if isMarker(m) && !used[m] && m.streamIdentifier == sid {
					used[m] = true
					markers = append(markers, m)
					break
				}
			}
		}
		done := map[*chunkPayloadData]bool{}
		oldest := func(c *chunkPayloadData) bool {
			for _, o := range popped {
				if o.streamIdentifier == c.streamIdentifier && !done[o] {
					return o == c
				}
			}
			return false
		}
		di, mi := 0, 0
		for di < len(data) || mi < len(markers) {
			switch {
			case mi < len(markers) && oldest(markers[mi]):
				order = append(order, markers[mi])
				done[markers[mi]] = true
				mi++
			case di < len(data) && oldest(data[di]):
				order = append(order, data[di])
				done[data[di]] = true
				di++
			default:
				h.t.Fatalf("rs: no per-stream FIFO order explains what left the pending queue")
			}
		}
		if len(order) != len(popped) {
			h.t.Fatalf("rs: %d entries left the pending queue, %d explained (markers in the request: %v)", len(popped), len(order), reqSids)
		}
	}
	want := before
	for _, c := range order {
		if isMarker(c) {
			continue
		}
		if c.tsn != want {
			h.t.Fatalf("rs: pending chunks left the queue in an order the harness cannot explain (tsn %d, expected %d)", c.tsn, want)
		}
		want++
	}
	if want != a.myNextTSN {
		h.t.Fatalf("rs: %d new TSNs but %d data chunks left the pending queue", a.myNextTSN-before, want-before)
	}
	var sel []uint32
	for _, c := range order {
		for i, s := range e.shadow {
			if s == c {
				sel = append(sel, uint32(i))
				e.shadow = append(e.shadow[:i:i], e.shadow[i+1:]...)
				break
			}
		}
	}
	return sel
}

func vRsJoinPlain(xs []uint32, sep string) string {
	if len(xs) == 0 {
		return "-"
	}
	var parts []string
	for _, x := range xs {
		parts = append(parts, fmt.Sprintf("%d", x))
	}
	return strings.Join(parts, sep)
}

func (h *vRs) exec(op []string) {
	t := h.t
	line := strings.Join(op, " ")
	u := func(i int) uint32 {
		if i >= len(op) {
			t.Fatalf("rs: too few arguments in %q", line)
		}
		return vAtoU32(t, op[i])
	}
	obj := func(x int, i int) *Stream {
		hd := int(u(i))
		if hd >= len(h.e[x].objs) {
			return nil
		}
		return h.e[x].objs[hd]
	}
	res := ""
	switch op[1] {
	case "new":
		h.closeAll()
		h.stop = make(chan struct{})
		h.il = op[2] == "1"
		for x := 0; x < 2; x++ {
			cfg := &Config{
				NetConn:       &vEnd{},
				LoggerFactory: &logging.DefaultLoggerFactory{DefaultLogLevel: logging.LogLevelDisabled, ScopeLevels: map[string]logging.LogLevel{}, Writer: io.Discard},
				Name:          fmt.Sprintf("%c", 'A'+x),
			}
			cfg.enableInterleaving = h.il
			cfg.enableInterleavingSet = true
			a := createAssociationFromConfigWithTsn(cfg, u(3+x))
			h.e[x] = &vRsEnd{a: a, known: map[*chunkPayloadData]bool{}}
			stop := h.stop
			go func() { // stands in for the Client()/Server() caller waiting for the handshake result
				select {
				case <-a.handshakeCompletedCh:
				case <-stop:
				}
			}()
		}
		h.establish()
		if h.e[0].a.useInterleaving != h.il || h.e[1].a.useInterleaving != h.il {
			t.Fatalf("rs: interleaving not negotiated as configured")
		}
		a := h.e[0].a
		res = fmt.Sprintf("maxoff=%d acc=%d maxreq=%d buf=%d", a.payloadQueue.maxTSNOffset, cap(a.acceptCh), maxReconfigRequests, a.maxReceiveBufferSize)
	case "open":
		x := int(u(2))
		sid := uint16(u(3))
		q := h.quiet(sid)
		s, err := h.e[x].a.OpenStream(sid, PayloadTypeWebRTCBinary)
		if err != nil {
			res = "err:" + vRsErr(err)
			break
		}
		hd, isNew := h.handleOf(x, s)
		res = fmt.Sprintf("h=%d new=%s q=%s", hd, vb(isNew), vb(q))
	case "write": // rs write x h len unordered msgid
		x := int(u(2))
		s := obj(x, 3)
		if s == nil {
			res = "0 nohandle"
			break
		}
		n := int(u(4))
		if n < 4 {
			n = 4
		}
		p := vPayload(uint64(u(6))*977+13, n)
		binary.BigEndian.PutUint32(p, u(6))
		s.SetReliabilityParams(op[5] == "1", ReliabilityTypeReliable, 0)
		w, err := s.WriteSCTP(p, PayloadTypeWebRTCBinary)
		h.noteShadow(x)
		res = fmt.Sprintf("%d %s", w, vRsErr(err))
	case "close":
		x := int(u(2))
		s := obj(x, 3)
		if s == nil {
			res = "nohandle"
			break
		}
		err := s.Close()
		h.noteShadow(x)
		res = vRsErr(err)
	case "read": // drain without blocking: message ids, then EOF / error / empty
		x := int(u(2))
		s := obj(x, 3)
		if s == nil {
			res = "nohandle"
			break
		}
		var got []string
		buf := make([]byte, 70000)
		for {
			s.lock.RLock()
			readable := s.reassemblyQueue.isReadable()
			re := s.readErr
			s.lock.RUnlock()
			if !readable && re == nil {
				got = append(got, "empty")
				break
			}
			n, _, err := s.ReadSCTP(buf)
			if err != nil {
				got = append(got, vRsErr(err))
				break
			}
			id := uint32(0)
			if n >= 4 {
				id = binary.BigEndian.Uint32(buf)
			}
			got = append(got, fmt.Sprintf("%d", id))
		}
		res = strings.Join(got, ",")
	case "accept":
		x := int(u(2))
		select {
		case s := <-h.e[x].a.acceptCh:
			hd, _ := h.handleOf(x, s)
			res = fmt.Sprintf("h=%d sid=%d", hd, s.streamIdentifier)
		default:
			res = "none"
		}
	case "gather":
		x := int(u(2))
		e := h.e[x]
		e.a.lock.Lock()
		before := e.a.myNextTSN
		e.a.lock.Unlock()
		raws := h.rawGather(x)
		var reqSids []uint16 // identifiers of the request created in this pass, in the order their markers were popped
		for _, r := range raws {
			if q := vRsAsRequest(r); q != nil {
				known := false
				for _, old := range e.reqs {
					known = known || old.rsn == q.reconfigRequestSequenceNumber
				}
				if !known {
					reqSids = q.streamIdentifiers
				}
			}
		}
		sel := h.selection(x, before, reqSids)
		// RECONFIG requests retransmitted in one pass leave in Go map order: canonical order is by request number
		for i := 0; i < len(raws); {
			j := i
			for j < len(raws) && vRsAsRequest(raws[j]) != nil {
				j++
			}
			if j-i > 1 {
				run := raws[i:j]
				sort.SliceStable(run, func(p, q int) bool {
					return vRsAsRequest(run[p]).reconfigRequestSequenceNumber < vRsAsRequest(run[q]).reconfigRequestSequenceNumber
				})
			}
			if j == i {
				j++
			}
			i = j
		}
		var pre, post, parts []string
		seenReq, sack := false, 0
		for _, r := range raws {
			e.hist = append(e.hist, r)
			parts = append(parts, vRsPktSummary(r))
			if q := vRsAsRequest(r); q != nil {
				seenReq = true
				known := false
				for _, old := range e.reqs {
					known = known || old.rsn == q.reconfigRequestSequenceNumber
				}
				if !known {
					e.reqs = append(e.reqs, vRsReq{rsn: q.reconfigRequestSequenceNumber, sids: append([]uint16(nil), q.streamIdentifiers...)})
				}
				continue
			}
			if tsns := vRsDataTSNs(r); len(tsns) > 0 {
				if seenReq {
					post = append(post, vRsJoinPlain(tsns, ","))
				} else {
					pre = append(pre, vRsJoinPlain(tsns, ","))
				}
				continue
			}
			if p := vRsParse(r); p != nil && len(p.chunks) == 1 {
				if _, ok := p.chunks[0].(*chunkSelectiveAck); ok {
					sack++
				}
			}
		}
		orNone := func(xs []string) string {
			if len(xs) == 0 {
				return "-"
			}
			return strings.Join(xs, ";")
		}
		h.l.line(fmt.Sprintf("rs ora sel=%s pre=%s post=%s sack=%d", vRsJoinPlain(sel, ","), orNone(pre), orNone(post), sack), "")
		if len(parts) == 0 {
			res = "nothing"
		} else {
			res = strings.Join(parts, ";")
		}
	case "deliver":
		x := int(u(2))
		i := int(u(3))
		if i >= len(h.e[x].hist) {
			res = "nopacket"
			break
		}
		y := 1 - x
		a := h.e[y].a
		a.lock.Lock()
		nctl := a.controlQueue.size()
		a.lock.Unlock()
		err := a.handleInbound(append([]byte(nil), h.e[x].hist[i]...))
		synctest.Wait()
		// responses produced while the cumulative point advanced come out in Go map order: canonical = by (rsn, result)
		a.lock.Lock()
		if q := a.controlQueue.queue; len(q) > nctl+1 {
			batch := q[nctl:]
			all := true
			for _, p := range batch {
				all = all && vRsAsResponse(p) != nil
			}
			if all {
				sort.SliceStable(batch, func(p, q int) bool {
					a, b := vRsAsResponse(batch[p]), vRsAsResponse(batch[q])
					if a.reconfigResponseSequenceNumber != b.reconfigResponseSequenceNumber {
						return a.reconfigResponseSequenceNumber < b.reconfigResponseSequenceNumber
					}
					return a.result < b.result
				})
			}
		}
		a.lock.Unlock()
		h.noteAccepted(y)
		res = vRsPktSummary(h.e[x].hist[i]) + " => " + vRsErr(err)
	case "remember": // white box, in bulk: rs remember x rsn query -> the D10 bookkeeping after the REAL rememberPerformedReset(rsn)
		a := h.e[int(u(2))].a
		a.lock.Lock()
		a.rememberPerformedReset(u(3))
		_, has := a.performedResetRSNs[u(4)]
		res = fmt.Sprintf("newest=%d size=%d has=%s", a.newestPerformedReset, len(a.performedResetRSNs), vb(has))
		a.lock.Unlock()
		h.l.line(line, res)
		return
	case "shift": // the remember ops that follow are issued to endpoint 1 with every number shifted by this constant
		h.l.line(line, "")
		return
	case "trc": // T-reconfig expires
		h.e[int(u(2))].a.onRetransmissionTimeout(timerReconfig, 1)
		res = "ok"
	case "t3": // T3-rtx expires
		h.e[int(u(2))].a.onRetransmissionTimeout(timerT3RTX, 1)
		res = "ok"
	default:
		t.Fatalf("rs: unknown op %v", op)
	}
	synctest.Wait()
	h.l.line(line, res+" | "+h.both())
	h.l.line("rs st", h.info(0)+" | "+h.info(1))
}

func (h *vRs) do(f string, a ...any) { h.exec(strings.Fields(fmt.Sprintf(f, a...))) }

// ---- generator: honest applications on both sides, adversarial network in between ---------------

type vRsGen struct {
	h     *vRs
	r     *vrand
	seen  [2]map[int]bool // packets delivered at least once
	eof   [2]map[int]bool // handles on which the application has read EOF
	shut  [2]map[int]bool // handles the application has closed
	peerH map[[2]int]bool
}

func (g *vRsGen) st(k string) { g.h.l.stat("rs." + k) }

func (g *vRsGen) gather(x int) {
	g.h.do("rs gather %d", x)
}

func (g *vRsGen) deliver(x, i int) {
	if g.seen[x][i] {
		g.st("deliver.again")
	} else {
		g.st("deliver.first")
	}
	g.seen[x][i] = true
	g.h.do("rs deliver %d %d", x, i)
}

func (g *vRsGen) undelivered(x int) []int {
	var out []int
	for i := range g.h.e[x].hist {
		if !g.seen[x][i] {
			out = append(out, i)
		}
	}
	return out
}

// the application side of one endpoint: accept what arrived, read everything readable, close a stream whose peer
// direction has ended (like pion/datachannel does)
func (g *vRsGen) app(x int, closeOnEOF bool) {
	h := g.h
	for len(h.e[x].a.acceptCh) > 0 {
		h.do("rs accept %d", x)
		g.st("accept")
	}
	for hd, s := range h.e[x].objs {
		if g.eof[x][hd] {
			if closeOnEOF && !g.shut[x][hd] { // saw EOF earlier and left the stream half-open for a while
				h.do("rs close %d %d", x, hd)
				g.shut[x][hd] = true
				g.st("close.after_eof.late")
			}
			continue
		}
		s.lock.RLock()
		readable := s.reassemblyQueue.isReadable()
		re := s.readErr
		s.lock.RUnlock()
		if !readable && re == nil {
			continue
		}
		if readable && re != nil {
			g.st("read.data_after_reset")
		}
		h.do("rs read %d %d", x, hd)
		if re != nil {
			g.eof[x][hd] = true
			g.st("read.eof")
			if closeOnEOF && !g.shut[x][hd] {
				h.do("rs close %d %d", x, hd)
				g.shut[x][hd] = true
				g.st("close.after_eof")
			}
		}
	}
}

// n random network / timer events with loss, duplication, reordering and stale replays
func (g *vRsGen) net(n int, stale int) {
	h, r := g.h, g.r
	for k := 0; k < n; k++ {
		x := r.n(2)
		switch c := r.n(100); {
		case c < 55:
			if und := g.undelivered(x); len(und) > 0 {
				i := und[0]
				if r.chance(40) {
					i = und[r.n(len(und))] // reordering
				}
				if r.chance(12) {
					g.seen[x][i] = true // lost for good (only a retransmission can repair it)
					g.st("net.lost")
					continue
				}
				g.deliver(x, i)
				if r.chance(70) {
					g.gather(1 - x)
				}
			}
		case c < 55+stale:
			if m := len(h.e[x].hist); m > 0 {
				g.deliver(x, r.n(m)) // duplicate or stale replay of any old packet
				g.st("net.replay")
				if r.chance(50) {
					g.gather(1 - x)
				}
			}
		case c < 80:
			g.gather(x)
		case c < 86:
			if len(h.e[x].a.reconfigs) > 0 {
				h.do("rs trc %d", x)
				g.st("timer.reconfig")
				g.gather(x)
			}
		case c < 92:
			if h.e[x].a.inflightQueue.size() > 0 {
				h.do("rs t3 %d", x)
				g.st("timer.t3")
				g.gather(x)
			}
		default:
			g.app(x, r.chance(80))
		}
	}
}

// a healed network: everything outstanding is delivered, timers fire when nothing else moves
func (g *vRsGen) settle(rounds int, closeOnEOF bool) { g.settleT(rounds, closeOnEOF, true) }

func (g *vRsGen) settleT(rounds int, closeOnEOF bool, timers bool) {
	h := g.h
	for k := 0; k < rounds; k++ {
		moved := false
		for x := 0; x < 2; x++ {
			n0 := len(h.e[x].hist)
			g.gather(x)
			if len(h.e[x].hist) != n0 {
				moved = true
			}
			for _, i := range g.undelivered(x) {
				g.deliver(x, i)
				moved = true
			}
			g.app(1-x, closeOnEOF)
		}
		if !moved && !timers {
			return
		}
		if !moved {
			fired := false
			for x := 0; x < 2; x++ {
				a := h.e[x].a
				if a.inflightQueue.size() > 0 {
					h.do("rs t3 %d", x)
					fired = true
				}
				if len(a.reconfigs) > 0 {
					h.do("rs trc %d", x)
					fired = true
				}
				if a.pendingQueue.size() > 0 || a.controlQueue.size() > 0 {
					fired = true
				}
			}
			if !fired {
				return
			}
		}
	}
}

func (g *vRsGen) write(x, hd int, ordered bool) {
	g.h.msg++
	n := 4 + g.r.n(40)
	if g.r.chance(25) {
		n = 900 + g.r.n(250) // a few of these fill the congestion window: the marker waits behind the data
	}
	u := 0
	if !ordered {
		u = 1
		g.st("write.unordered")
	} else {
		g.st("write.ordered")
	}
	g.h.do("rs write %d %d %d %d %d", x, hd, n, u, g.h.msg)
}

func (g *vRsGen) handle(x int, sid uint16) int {
	a := g.h.e[x].a
	a.lock.Lock()
	s, ok := a.streams[sid]
	a.lock.Unlock()
	if !ok {
		return -1
	}
	hd, _ := g.h.handleOf(x, s)
	return hd
}

func (g *vRsGen) open(x int, sid uint16) int {
	g.h.do("rs open %d %d", x, sid)
	return g.handle(x, sid)
}

// one life of stream `sid`: opened by x, written, closed (possibly from both ends at once)
func (g *vRsGen) incarnation(x int, sid uint16, kind int) {
	h, r := g.h, g.r
	hd := g.open(x, sid)
	if hd < 0 {
		return
	}
	g.st("incarnation")
	nmsg := 1 + r.n(6)
	for i := 0; i < nmsg; i++ {
		g.write(x, hd, i == 0 || !r.chance(25)) // the first message is ordered
		if r.chance(40) {
			g.net(1+r.n(4), 5)
		}
	}
	switch kind {
	case 1: // both ends close at once
		g.settle(3, false)
		if yh := g.handle(1-x, sid); yh >= 0 && !g.shut[1-x][yh] {
			if r.chance(50) {
				g.write(1-x, yh, true)
			}
			h.do("rs close %d %d", 1-x, yh)
			g.shut[1-x][yh] = true
			g.st("close.both_at_once")
		}
	case 2: // the reader answers with data of its own before the close
		g.net(6, 5)
		if yh := g.handle(1-x, sid); yh >= 0 && !g.shut[1-x][yh] {
			g.write(1-x, yh, true)
			g.write(1-x, yh, r.chance(70))
			g.st("reverse_data")
		}
	}
	h.do("rs close %d %d", x, hd)
	g.shut[x][hd] = true
	g.st("close.writer")
	if r.chance(15) {
		h.do("rs write %d %d 8 0 %d", x, hd, 900000+h.msg) // refused: the stream is closed for writing
		g.st("write.after_close")
	}
	if r.chance(10) {
		h.do("rs close %d %d", x, hd) // second Close is a no-op
		g.st("close.twice")
	}
}

func (g *vRsGen) finalReads() {
	for x := 0; x < 2; x++ {
		for hd := range g.h.e[x].objs {
			g.h.do("rs read %d %d", x, hd)
		}
	}
}

func vRsGenerate(h *vRs, r *vrand, nseq int) {
	for s := 0; s < nseq; s++ {
		g := &vRsGen{h: h, r: r}
		for x := 0; x < 2; x++ {
			g.seen[x], g.eof[x], g.shut[x] = map[int]bool{}, map[int]bool{}, map[int]bool{}
		}
		tsn := [2]uint32{1000 + uint32(r.n(5000)), 100000 + uint32(r.n(1<<30))}
		h.do("rs new %d %d %d", s&1, tsn[0], tsn[1])
		h.l.stat("rs.sequences")
		switch s % 8 {
		case 2:
			vRsScriptDeferral(g)
		case 3:
			vRsScriptLostResponse(g)
		case 5:
			vRsScriptD10(g)
		case 6:
			vRsScriptD16(g)
		case 7:
			vRsScriptRemember(g, s/8)
		default:
			sids := []uint16{1, 2, 7}[:1+r.n(3)]
			cycles := 1 + r.n(3)
			for c := 0; c < cycles; c++ {
				for _, sid := range sids {
					if !h.quiet(sid) {
						g.st("reopen.skipped_not_quiet")
						if !r.chance(8) {
							continue
						}
						g.st("reopen.early") // a dishonest application: re-opens before both resets are complete
					} else if c > 0 {
						g.st("reopen.after_both_reset")
					}
					g.incarnation(r.n(2), sid, r.n(4))
					if r.chance(50) {
						g.net(3+r.n(10), 10)
					}
					if r.chance(12) {
						// an application that does not wait: OpenStream on the identifier while its reset is still in progress
						// (returns the registered object, or creates a second one next to a half-closed one)
						x2 := r.n(2)
						n0 := len(h.e[x2].objs)
						hd := g.open(x2, sid)
						if len(h.e[x2].objs) > n0 {
							g.st("reopen.early")
						} else {
							g.st("reopen.midway_same_object")
						}
						if hd >= 0 && r.chance(60) {
							g.write(x2, hd, true)
						}
					}
				}
				g.net(10+r.n(30), 12)
				g.settle(12, true)
				allQuiet := true
				for _, sid := range sids {
					if why := h.notQuietWhy(sid); why != "" {
						allQuiet = false
						g.st("cycle.not_reset." + why)
						h.l.line(fmt.Sprintf("#note cycle %d ends with stream %d not reset in both directions: %s", c, sid, why), "")
					}
				}
				if allQuiet {
					g.st("cycle.all_reset")
				} else {
					g.st("cycle.not_all_reset")
				}
				// stale replays of anything ever sent, into whatever comes next
				for k := 0; k < 6+r.n(10); k++ {
					x := r.n(2)
					if m := len(h.e[x].hist); m > 0 {
						g.deliver(x, r.n(m))
						g.st("net.replay")
					}
				}
				g.settle(4, true)
			}
		}
		g.finalReads()
	}
}

// the reset request overtakes the data it closes: it is deferred (in progress) until the cumulative point arrives
func vRsScriptDeferral(g *vRsGen) {
	h := g.h
	g.st("script.deferral")
	hd := g.open(0, 1)
	for i := 0; i < 3; i++ {
		g.write(0, hd, true)
	}
	h.do("rs close 0 %d", hd)
	g.gather(0)
	n := len(h.e[0].hist)
	g.deliver(0, n-1) // the request first
	g.gather(1)       // "in progress"
	g.deliver(1, len(h.e[1].hist)-1)
	h.do("rs trc 0")
	g.gather(0) // the request again, still deferred
	g.deliver(0, len(h.e[0].hist)-1)
	for i := n - 2; i >= 0; i-- { // the data, newest first
		g.deliver(0, i)
	}
	g.app(1, true)
	g.settle(8, true)
	g.net(10, 40)
	g.settle(4, true)
}

// the response is lost: T-reconfig retransmits the request, which must be answered but not performed again
func vRsScriptLostResponse(g *vRsGen) {
	h := g.h
	g.st("script.lost_response")
	hd := g.open(1, 3)
	g.write(1, hd, true)
	g.write(1, hd, false)
	h.do("rs close 1 %d", hd)
	g.gather(1)
	for _, i := range g.undelivered(1) {
		g.deliver(1, i)
	}
	g.gather(0) // SACK + response: both lost
	for _, i := range g.undelivered(0) {
		g.seen[0][i] = true
	}
	g.app(0, true) // the reader sees EOF and closes its side
	h.do("rs trc 1")
	g.gather(1)
	g.deliver(1, len(h.e[1].hist)-1) // the retransmitted request
	g.gather(0)
	g.settle(8, true)
	g.net(10, 40)
	g.settle(4, true)
}

// D10: a duplicate of the OLD reset request arrives after the identifier was re-opened
func vRsScriptD10(g *vRsGen) {
	h := g.h
	g.st("script.d10")
	hd := g.open(0, 1)
	g.write(0, hd, true)
	h.do("rs close 0 %d", hd)
	g.gather(0)
	oldReq := len(h.e[0].hist) - 1
	g.settle(10, true)
	if !h.quiet(1) {
		g.st("script.d10.not_quiet")
		return
	}
	hd2 := g.open(0, 1)
	g.write(0, hd2, true) // NEW-0
	g.gather(0)
	for _, i := range g.undelivered(0) {
		g.deliver(0, i)
	}
	g.app(1, false)
	g.deliver(0, oldReq) // the delayed duplicate of the old request
	g.gather(1)
	g.write(0, hd2, true) // NEW-1
	g.settle(6, false)
	g.app(1, false)
	h.do("rs close 0 %d", hd2)
	g.settle(10, true)
}

// D16: the response to the old request arrives after the identifier was re-opened and written to
func vRsScriptD16(g *vRsGen) {
	h := g.h
	g.st("script.d16")
	hd := g.open(0, 1)
	g.write(0, hd, true)
	g.write(0, hd, true)
	h.do("rs close 0 %d", hd)
	g.gather(0)
	for _, i := range g.undelivered(0) {
		g.deliver(0, i)
	}
	g.gather(1) // SACK and the response: the response is held back
	held := -1
	for _, i := range g.undelivered(1) {
		if p := vRsParse(h.e[1].hist[i]); vRsAsResponse(p) != nil {
			held = i
			g.seen[1][i] = true
			continue
		}
		g.deliver(1, i)
	}
	g.app(1, true) // EOF at the reader, which closes its side
	g.settleT(10, true, false) // no timer expiry: the held response stays the only answer to the request
	if held < 0 || !h.quiet(1) {
		g.st("script.d16.not_quiet")
		return
	}
	hd2 := g.open(0, 1)
	g.write(0, hd2, true)
	g.write(0, hd2, true)
	g.deliver(1, held) // the late response
	g.write(0, hd2, true)
	g.settle(8, false)
	g.app(1, false)
	h.do("rs close 0 %d", hd2)
	g.settle(10, true)
}

// the performed-request set of the D10 fix, driven directly: thousands of consecutive request numbers (the trim at
// 2048 entries runs), from start values in the lower half, the upper half, at 0 and just below the wrap; endpoint 1
// gets the same calls shifted by a constant (shift pair); queries for recent, old and never-remembered numbers
func vRsScriptRemember(g *vRsGen, k int) {
	h, r := g.h, g.r
	g.st("script.remember")
	starts := []uint32{5000, 0x80000001, 0xFFFFFFFF - 1500, 0, 0x7FFFFFFF - 1000, 0xFFFFFFFF, r.u32()}
	start := starts[k%len(starts)]
	shifts := []uint32{0x80000000, 1, 0xFFFFF000, r.u32(), 0x7FFFFFFF}
	d := shifts[(k/len(starts)+k)%len(shifts)]
	h.do("rs shift %d", d)
	n := 2100 + r.n(300)
	for i := 0; i < n; i++ {
		rsn := start + uint32(i)
		var q uint32
		switch c := r.n(10); {
		case c < 4:
			q = rsn - uint32(r.n(1025)) // within the window that must be remembered
		case c < 6:
			q = rsn - 1025 - uint32(r.n(1200)) // older: may have been trimmed
		case c < 7:
			q = start
		case c < 8:
			q = rsn + 1 + uint32(r.n(5)) // never remembered
		default:
			q = rsn
		}
		if r.chance(3) && i > 10 { // a duplicate of an older number: must not move the watermark back
			rsn = start + uint32(i-1-r.n(10))
			g.st("remember.duplicate")
		}
		h.do("rs remember 0 %d %d", rsn, q)
		h.do("rs remember 1 %d %d", rsn+d, q+d)
		g.st("remember.calls")
	}
}

func TestVerifReset(t *testing.T) {
	l := vOpenLog(t)
	defer l.close()
	old := globalMathRandomGenerator
	defer func() { globalMathRandomGenerator = old }()
	globalMathRandomGenerator = &vRandGen{r: &vrand{s: 9}}
	synctest.Test(t, func(t *testing.T) {
		h := &vRs{t: t, l: l}
		defer h.closeAll()
		if ops := vReadOps(t); ops != nil {
			for _, op := range ops {
				if op[0] == "rs" && len(op) > 1 && op[1] != "ora" && op[1] != "st" {
					h.exec(op)
				}
			}
			return
		}
		r := &vrand{s: uint64(vEnvInt("VERIF_SEED", 1))*0x2545F491 + 14}
		vRsGenerate(h, r, vEnvInt("VERIF_N", 64))
	})
}
