//go:build verif

package sctp

import (
	"fmt"
	"strconv"
	"strings"
	"testing"
)

// ---- queue[T] (queue.go), instantiated at int; 0 is the zero value, pushed values are >= 1 ----
//
//   ringq new <capacity>   -> <len(buf)>
//   ringq push <v>         -> <Len()> <len(buf)>
//   ringq pop              -> <value> <Len()>      (also on an empty queue: misuse, no panic in Go)
//   ringq front | back     -> <value>
//   ringq at <i>           -> <value> | panic
//   ringq len              -> <Len()>

type vRingQ struct {
	q    *queue[int]
	l    *vlog
	dead bool
}

func (h *vRingQ) exec(t *testing.T, op []string) {
	line := strings.Join(op, " ")
	if op[1] != "new" && h.dead {
		return
	}
	switch op[1] {
	case "new":
		c, _ := strconv.Atoi(op[2])
		h.q = newQueue[int](c)
		h.dead = false
		h.l.line(line, strconv.Itoa(len(h.q.buf)))
	case "push":
		v, _ := strconv.Atoi(op[2])
		if vGuard(func() { h.q.PushBack(v) }) {
			h.dead = true
			h.l.line(line, "panic")
			return
		}
		h.l.line(line, fmt.Sprintf("%d %d", h.q.Len(), len(h.q.buf)))
	case "pop":
		var v int
		if vGuard(func() { v = h.q.PopFront() }) {
			h.dead = true
			h.l.line(line, "panic")
			return
		}
		h.l.line(line, fmt.Sprintf("%d %d", v, h.q.Len()))
	case "front", "back", "at":
		var v int
		p := vGuard(func() {
			switch op[1] {
			case "front":
				v = h.q.Front()
			case "back":
				v = h.q.Back()
			default:
				i, _ := strconv.Atoi(op[2])
				v = h.q.At(i)
			}
		})
		if p {
			h.dead = true
			h.l.line(line, "panic")
			return
		}
		h.l.line(line, strconv.Itoa(v))
	case "len":
		h.l.line(line, strconv.Itoa(h.q.Len()))
	default:
		t.Fatalf("ringq: unknown op %v", op)
	}
}

func (h *vRingQ) do(t *testing.T, f string, a ...any) {
	h.exec(t, strings.Fields(fmt.Sprintf(f, a...)))
}

func TestVerifRingQ(t *testing.T) {
	l := vOpenLog(t)
	defer l.close()
	h := &vRingQ{l: l}
	if ops := vReadOps(t); ops != nil {
		for _, op := range ops {
			if op[0] == "ringq" {
				h.exec(t, op)
			}
		}
		return
	}
	r := &vrand{s: uint64(vEnvInt("VERIF_SEED", 1))*0x1000193 + 23}
	nseq, nops := vEnvInt("VERIF_N", 100), vEnvInt("VERIF_OPS", 300)
	for s := 0; s < nseq; s++ {
		h.do(t, "ringq new %d", r.pick(0, -3, 1, 16, 17, 33, 128, 129, 1000))
		misuse := r.chance(15)
		next := 1
		growBias := r.pick(40, 55, 70) // share of pushes: above 50 the buffer fills up and grows
		for i := 0; i < nops && !h.dead; i++ {
			switch x := r.n(100); {
			case x < growBias:
				h.do(t, "ringq push %d", next)
				next++
				l.stat("ringq.push")
				if h.q.count == len(h.q.buf) {
					l.stat("ringq.full")
				}
			case x < 85:
				if h.q.Len() > 0 || misuse && r.chance(20) {
					if h.q.Len() <= 0 {
						l.stat("ringq.misuse.pop.empty")
					}
					h.do(t, "ringq pop")
					l.stat("ringq.pop")
				}
			case x < 90:
				if h.q.Len() > 0 {
					h.do(t, "ringq front")
					h.do(t, "ringq back")
				}
			case x < 97:
				if n := h.q.Len(); n > 0 {
					h.do(t, "ringq at %d", r.n(n))
					l.stat("ringq.at")
				} else if misuse {
					h.do(t, "ringq at %d", r.pick(-1, -40, 0, 5, 100000))
					l.stat("ringq.misuse.at")
				}
			default:
				h.do(t, "ringq len")
			}
		}
	}
}
