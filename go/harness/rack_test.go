//go:build verif

package sctp

// White-box view of the loss-recovery machinery (RACK, PTO tail-loss probe, TLR burst budget) for the direct-drive
// sender harness of assoc_test.go, and a generator that drives it.
//
// After EVERY `as` op a line `as rk -> <snapshot>` is written: the RACK/PTO/TLR fields of the real Association, both
// timer deadlines, the RTT readings they depend on, the send-time ordered RACK list and, per in-flight chunk, send
// time / transmission count / flags. The Lean driver (Driver/Rack.lean) computes the same snapshot from Model/Rack.lean
// (fed by the sender model, NOT by this log) and reports a DIFF when they differ; what used to be an oracle of the
// sender replay (`rtx=`, `tlr=`, `bud=`) is thereby checked.
//
// `as tick` advances the virtual clock in sub-steps that end exactly at the next RACK/PTO deadline; each sub-step
// writes `as rke <elapsed ns> <T3 expiries> -> <snapshot>` so that the model fires the timers at the same instants.
//
// Times are nanoseconds since (start of the sequence, i.e. its `as new`, - 1 s): always > 0; the zero Time is printed as 0.
// TSNs are printed relative to the initial TSN of the sequence.

import (
	"fmt"
	"strings"
	"testing"
	"testing/synctest"
	"time"
)

var vRackEpoch time.Time // start of the current sequence - 1 s
var vRackBase uint32     // initial TSN of the current sequence: TSNs are logged relative to it

// vRackNew: a new sequence starts. Times and TSNs of the `rk` lines are relative to its start, so that the two runs
// of a shift pair must produce identical lines (ShiftSpec compares them verbatim).
func vRackNew(tsn uint32) {
	vRackEpoch = time.Now().Add(-time.Second)
	vRackBase = tsn
}

func vRackT(t time.Time) int64 {
	if t.IsZero() {
		return 0
	}
	if vRackEpoch.IsZero() {
		vRackEpoch = time.Now().Add(-time.Second)
	}
	return int64(t.Sub(vRackEpoch))
}

func vRackFNV(s string) uint64 {
	h := uint64(14695981039346656037)
	for i := 0; i < len(s); i++ {
		h ^= uint64(s[i])
		h *= 1099511628211
	}
	return h
}

// long lists are logged as `#<n>:<fnv-1a 64 of the full rendering>` (VERIF_RK_FULL=1: always in full)
func vRackList(items []string, full bool) string {
	if len(items) == 0 {
		return "-"
	}
	s := strings.Join(items, ",")
	if len(items) <= 12 || full {
		return s
	}
	return fmt.Sprintf("#%d:%016x", len(items), vRackFNV(s))
}

// vRackDeadlines returns the two deadlines of the unified RACK/PTO timer.
func vRackDeadlines(a *Association) (time.Time, time.Time) {
	a.timerMu.Lock()
	defer a.timerMu.Unlock()
	return a.rackDeadline, a.ptoDeadline
}

// vRackSnapshot renders the RACK / PTO / TLR state of the association. The caller must not hold a.lock.
func vRackSnapshot(a *Association) string {
	full := vEnvInt("VERIF_RK_FULL", 0) == 1
	rd, pd := vRackDeadlines(a)
	t3run := a.t3RTX.isRunning()
	a.lock.Lock()
	defer a.lock.Unlock()
	var sb strings.Builder
	fmt.Fprintf(&sb, "now=%d reo=%d minrtt=%d dt=%d hw=%d seen=%s keep=%d rd=%d pd=%d",
		vRackT(time.Now()), int64(a.rackReoWnd), int64(a.rackMinRTT), vRackT(a.rackDeliveredTime),
		a.rackHighestDeliveredOrigTSN-vRackBase, vb(a.rackReorderingSeen), a.rackKeepInflatedRecoveries, vRackT(rd), vRackT(pd))
	end := "-"
	if a.tlrActive {
		end = fmt.Sprintf("%d", a.tlrEndTSN-vRackBase)
	}
	fmt.Fprintf(&sb, " tlr=%s%s%s end=%s bf=%d bl=%d good=%d ts=%d",
		vb(a.tlrActive), vb(a.tlrFirstRTT), vb(a.tlrHadAdditionalLoss), end, a.tlrBurstFirstRTTUnits, a.tlrBurstLaterRTTUnits,
		a.tlrGoodOps, vRackT(a.tlrStartTime))
	srtt := a.SRTT()
	fmt.Fprintf(&sb, " srtt=%s:%d t3=%s mt=%d", vb(srtt > 0), int64(time.Duration(srtt*1e6)), vb(t3run), a.minTSN2MeasureRTT-vRackBase)
	var mw []string
	for _, e := range a.rack.rackMinRTTWnd.deque {
		mw = append(mw, fmt.Sprintf("%d:%d", vRackT(e.t), int64(e.v)))
	}
	fmt.Fprintf(&sb, " mw=%s", vRackList(mw, true))
	var rl []string
	n := 0
	for c := a.rackHead; c != nil; c = c.rackNext {
		rl = append(rl, fmt.Sprintf("%d", c.tsn-vRackBase))
		if n++; n > 1<<20 {
			rl = append(rl, "CYCLE")
			break
		}
	}
	fmt.Fprintf(&sb, " rl=%s", vRackList(rl, full))
	var ch []string
	for i := 0; i < a.inflightQueue.chunks.Len(); i++ {
		c := a.inflightQueue.chunks.At(i)
		fl := ""
		if c.acked {
			fl += "a"
		}
		if c.abandoned() {
			fl += "b"
		}
		if c.retransmit {
			fl += "r"
		}
		if c.rackInList {
			fl += "l"
		}
		if fl == "" {
			fl = "-"
		}
		ch = append(ch, fmt.Sprintf("%d:%d:%d:%s", c.tsn-vRackBase, vRackT(c.since), c.nSent, fl))
	}
	fmt.Fprintf(&sb, " ch=%s", vRackList(ch, full))
	return sb.String()
}

func (h *vAS) vRackLog() {
	if h.a == nil {
		return
	}
	h.l.line("as rk", vRackSnapshot(h.a))
}

// vRackSleep advances the virtual clock by d, stopping at every RACK / PTO deadline on the way so that the state right
// after each expiry is logged. T3 expiries that happen during a sub-step are counted (they are ordered before the
// RACK/PTO expiry that ends the sub-step unless they fall on the very same instant, where the Go scheduler decides).
func (h *vAS) vRackSleep(d time.Duration) {
	a := h.a
	end := time.Now().Add(d)
	for guard := 0; guard < 1000; guard++ {
		now := time.Now()
		if !now.Before(end) {
			return
		}
		next := end
		rd, pd := vRackDeadlines(a)
		for _, dl := range []time.Time{rd, pd} {
			if !dl.IsZero() && dl.After(now) && dl.Before(next) {
				next = dl
			}
		}
		n0 := a.stats.getNumT3Timeouts()
		time.Sleep(next.Sub(now))
		synctest.Wait()
		k := a.stats.getNumT3Timeouts() - n0
		rd2, pd2 := vRackDeadlines(a)
		if next.Before(end) {
			if (rd.Equal(next) && rd2 != rd) || (pd.Equal(next) && pd2 != pd) {
				h.l.stat("rk.tick.deadline")
			}
		}
		h.l.line(fmt.Sprintf("as rke %d %d", int64(next.Sub(now)), k), vRackSnapshot(a))
	}
	h.t.Fatalf("as: tick did not finish")
}

// ---- branch statistics (distribution of what the generator exercised) ---------------------------------------

type vRackObs struct {
	reo, minrtt, dt            int64
	seen, tlr, first, had      bool
	keep                       int
	rd, pd                     int64
	bf, bl                     int64
	nRetx                      int
}

func vRackObserve(a *Association) vRackObs {
	rd, pd := vRackDeadlines(a)
	a.lock.Lock()
	defer a.lock.Unlock()
	o := vRackObs{reo: int64(a.rackReoWnd), minrtt: int64(a.rackMinRTT), dt: vRackT(a.rackDeliveredTime), seen: a.rackReorderingSeen,
		tlr: a.tlrActive, first: a.tlrFirstRTT, had: a.tlrHadAdditionalLoss, keep: a.rackKeepInflatedRecoveries, rd: vRackT(rd), pd: vRackT(pd),
		bf: a.tlrBurstFirstRTTUnits, bl: a.tlrBurstLaterRTTUnits}
	for i := 0; i < a.inflightQueue.chunks.Len(); i++ {
		if a.inflightQueue.chunks.At(i).retransmit {
			o.nRetx++
		}
	}
	return o
}

// vRackStats classifies one op by the branches of onRackAfterSACK / the timers / TLR it went through (before/after view).
func (h *vAS) vRackStats(kind string, b, a vRackObs) {
	st := func(k string) { h.l.stat("rk." + kind + "." + k) }
	if a.dt != b.dt {
		st("deliveredTimeAdvanced")
	}
	if !b.seen && a.seen {
		st("reorderingFirstSeen")
	}
	if a.minrtt != b.minrtt {
		st("minRTTChanged")
	}
	switch {
	case a.reo > b.reo:
		st("reoWndGrew")
	case a.reo < b.reo && a.reo == 0:
		st("reoWndZeroed")
	case a.reo < b.reo:
		st("reoWndShrank")
	}
	if a.reo > 0 {
		st("reoWndPositive")
	}
	if a.keep == 16 && b.keep != 16 {
		st("dupInflated")
	}
	if a.keep < b.keep {
		st("keepDecremented")
	}
	if a.nRetx > b.nRetx {
		st("marked")
	}
	if a.rd != 0 && a.rd != b.rd {
		st("rackTimerArmed")
	}
	if a.rd == 0 && b.rd != 0 {
		st("rackTimerCleared")
	}
	if a.pd != 0 && a.pd != b.pd {
		st("ptoArmed")
	}
	if a.pd == 0 && b.pd != 0 {
		st("ptoCleared")
	}
	if !b.tlr && a.tlr {
		st("tlrBegan")
	}
	if b.tlr && !a.tlr {
		st("tlrFinished")
	}
	if b.tlr && b.first && a.tlr && !a.first {
		st("tlrLeftFirstRTT")
	}
	if a.bf < b.bf {
		st("tlrFirstBurstCut")
	}
	if a.bl < b.bl {
		st("tlrLaterBurstCut")
	}
	if a.bf > b.bf || a.bl > b.bl {
		st("tlrBurstReset")
	}
}

// ---- generator ------------------------------------------------------------------------------------------------

// the peer as the generator imagines it: which TSNs have arrived, and what is still travelling
type vRackPeer struct {
	rcv     map[uint32]bool
	cum     uint32
	flying  []vRackFlight
	dups    int // duplicate arrivals since the last SACK
	highest uint32
}

type vRackFlight struct {
	tsn    uint32
	arrive time.Time
}

func (p *vRackPeer) deliver(now time.Time) {
	rest := p.flying[:0]
	for _, f := range p.flying {
		if f.arrive.After(now) {
			rest = append(rest, f)
			continue
		}
		if p.rcv[f.tsn] || sna32LTE(f.tsn, p.cum) {
			p.dups++
			continue
		}
		p.rcv[f.tsn] = true
		if sna32GT(f.tsn, p.highest) {
			p.highest = f.tsn
		}
	}
	p.flying = rest
	for p.rcv[p.cum+1] {
		delete(p.rcv, p.cum+1)
		p.cum++
	}
}

// gaps above the cumulative point as `s-e+s-e` offsets
func (p *vRackPeer) gaps() string {
	if len(p.rcv) == 0 {
		return "none"
	}
	var gs []string
	span := int(p.highest - p.cum)
	for i := 2; i <= span && i < 60000 && len(gs) < 8; {
		if !p.rcv[p.cum+uint32(i)] {
			i++
			continue
		}
		j := i
		for j+1 <= span && p.rcv[p.cum+uint32(j+1)] {
			j++
		}
		gs = append(gs, fmt.Sprintf("%d-%d", i, j))
		i = j + 1
	}
	if len(gs) == 0 {
		return "none"
	}
	return strings.Join(gs, "+")
}

func vRackGenerate(t *testing.T, h *vAS, r *vrand, nseq, nops int) {
	var saved vrand
	for s := 0; s < 2*nseq; s++ {
		pair := s % 2
		if pair == 0 {
			saved = *r
		} else {
			*r = saved
		}
		mtu := r.pick(1200, 1200, 1500, 576)
		minCwnd := r.pick(0, 0, 8000, 30000)
		il := r.n(2)
		tsn := uint32(0) - uint32(r.n(120)) - 1
		if pair == 0 {
			tsn += 1 << 31
		}
		peerRwnd := uint32(r.pick(1<<20, 1<<20, 65536, 4000))
		floor := r.pick(0, 0, 0, 3000000)          // rackReoWndFloor (ns)
		wcDelAck := r.pick(0, 0, 200000000, 50000000) // 0: default
		wnd := r.pick(0, 0, 30000000000, 2000000000)  // min-RTT window; 0: default
		h.do("as new %d %d %d %d %d %d %d %d %d %d %d %d", mtu, 1<<20, minCwnd, il, tsn, peerRwnd, r.pick(0, 0, 4000), r.pick(0, 0, 2000), floor, wcDelAck, wnd, pair)
		ns := 1 + r.n(2)
		for i := 1; i <= ns; i++ {
			relType, relVal := 0, 0
			switch r.n(10) {
			case 0, 1:
				relType, relVal = int(ReliabilityTypeRexmit), r.pick(0, 1, 2, 3)
				h.l.stat("rk.open.rexmit")
			case 2:
				relType, relVal = int(ReliabilityTypeTimed), r.pick(50, 300, 2000)
				h.l.stat("rk.open.timed")
			}
			h.do("as open %d %d %d %d %d", i, r.pick(0, 0, 1), relType, relVal, 0)
		}
		peer := &vRackPeer{rcv: map[uint32]bool{}, cum: tsn - 1, highest: tsn - 1}
		rtt := time.Duration(r.pick(4, 20, 60, 150, 400)) * time.Millisecond
		// the network's mood changes a few times per sequence
		mood, moodLeft := "clean", 0
		for i := 0; i < nops; i++ {
			if moodLeft == 0 {
				mood = r.pickS("clean", "clean", "loss", "tail", "blackout", "reorderNear", "reorderFar", "dup")
				moodLeft = 6 + r.n(20)
				if r.chance(30) {
					rtt = time.Duration(r.pick(4, 20, 60, 150, 400)) * time.Millisecond // the path changes
					h.l.stat("rk.gen.rttChange")
				}
				h.l.stat("rk.gen.mood." + mood)
			}
			moodLeft--
			before := vRackObserve(h.a)
			kind := ""
			switch x := r.n(100); {
			case x < 22:
				size := 1 + r.n(400)
				if r.chance(15) {
					size = 1 + r.n(4000) // fragmented
				}
				h.do("as write %d %d %d", 1+r.n(ns), 53, size)
				h.l.stat("rk.write")
			case x < 50:
				kind = "gather"
				now := time.Now()
				h.do("as gather")
				// everything (re)transmitted at this instant gets a fate
				var sent []uint32
				for k := 0; k < h.a.inflightQueue.chunks.Len(); k++ {
					if c := h.a.inflightQueue.chunks.At(k); c.since.Equal(now) && !c.acked {
						sent = append(sent, c.tsn)
					}
				}
				for k, tsn := range sent {
					d := rtt / 2
					lost := false
					switch mood {
					case "loss":
						lost = r.chance(25)
					case "tail":
						lost = k >= len(sent)-1-r.n(2)
					case "blackout":
						lost = true
					case "reorderNear": // held back by less than a quarter RTT
						if r.chance(30) {
							d += time.Duration(r.n(int(rtt/8) + 1))
							h.l.stat("rk.gen.delayNear")
						}
					case "reorderFar": // held back by more than the reordering window
						if r.chance(25) {
							d += rtt/2 + time.Duration(r.n(int(rtt)))
							h.l.stat("rk.gen.delayFar")
						}
					case "dup":
						if r.chance(30) {
							peer.flying = append(peer.flying, vRackFlight{tsn, now.Add(d + time.Millisecond)})
						}
					}
					if lost {
						h.l.stat("rk.gen.lost")
						continue
					}
					peer.flying = append(peer.flying, vRackFlight{tsn, now.Add(d)})
				}
				if len(sent) > 0 {
					h.l.stat("rk.gather.sent")
				}
				if h.a.tlrActive {
					h.l.stat("rk.gather.underTLR")
				}
			case x < 78:
				kind = "sack"
				peer.deliver(time.Now().Add(-rtt / 2)) // what had arrived half an RTT ago is what this SACK reports
				nd := peer.dups
				if nd > 2 {
					nd = 2
				}
				peer.dups = 0
				h.do("as sack %d %d %s %d", peer.cum, 1<<20, peer.gaps(), nd)
				if peer.gaps() != "none" {
					h.l.stat("rk.sack.gaps")
				}
				if nd > 0 {
					h.l.stat("rk.sack.dups")
				}
				h.l.stat("rk.sack")
			case x < 80:
				kind = "t3"
				h.do("as t3 1")
			default:
				kind = "tick"
				var d int
				switch y := r.n(20); {
				case y < 8:
					d = 1 + r.n(10)
				case y < 14:
					d = int(rtt/time.Millisecond)/2 + r.n(int(rtt/time.Millisecond)+1)
				case y < 17:
					d = 250 + r.n(400)
				case y < 19:
					d = 1000 + r.n(3000) // past the PTO without RTT and the first T3
					h.l.stat("rk.tick.long")
				default:
					d = 31000 + r.n(5000) // idle: the min-RTT window empties
					h.l.stat("rk.tick.idle")
				}
				n0 := h.a.stats.getNumT3Timeouts()
				h.do("as tick %d", d)
				if h.a.stats.getNumT3Timeouts() != n0 {
					h.l.stat("rk.tick.t3fired")
				}
			}
			if kind != "" {
				h.vRackStats(kind, before, vRackObserve(h.a))
			}
			if vASAbandoned(h.a) > 0 {
				h.l.stat("rk.abandoned.steps")
			}
		}
		// drain
		for k := 0; k < 200 && (h.a.pendingQueue.size() > 0 || h.a.inflightQueue.size() > 0); k++ {
			h.do("as gather")
			h.do("as tick %d", 1+r.n(30))
			h.do("as sack %d %d none 0", h.a.myNextTSN-1, 1<<20)
		}
	}
}

func TestVerifAssocRack(t *testing.T) {
	l := vOpenLog(t)
	defer l.close()
	old := globalMathRandomGenerator
	defer func() { globalMathRandomGenerator = old }()
	globalMathRandomGenerator = &vRandGen{r: &vrand{s: 5}}
	synctest.Test(t, func(t *testing.T) {
		h := &vAS{t: t, l: l}
		defer h.closeAssoc()
		if ops := vReadOps(t); ops != nil {
			for _, op := range ops {
				if op[0] == "as" && op[1] != "st" && op[1] != "ora" && op[1] != "rk" && op[1] != "rke" {
					h.exec(op)
				}
			}
			return
		}
		r := &vrand{s: uint64(vEnvInt("VERIF_SEED", 1))*0x9E3779B1 + 29}
		vRackGenerate(t, h, r, vEnvInt("VERIF_N", 60), vEnvInt("VERIF_OPS", 150))
	})
}

func vAtoU64(t *testing.T, s string) uint64 {
	var v uint64
	if _, err := fmt.Sscanf(s, "%d", &v); err != nil {
		t.Fatalf("bad u64 %q", s)
	}
	return v
}
