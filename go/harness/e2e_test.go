//go:build verif

package sctp

// X-e2e: whole association pairs under testing/synctest virtual time behind a
// fault-injecting in-memory packet conn. Every API call/return and every wire packet is
// logged; the Lean driver evaluates the executable property predicates on the log.
//
// A scenario is fully determined by (mode, seed, index): `e2e new <mode> <seed> <idx>` is
// both the log header and the replay op.

import (
	"context"
	"errors"
	"fmt"
	"hash/crc32"
	"io"
	"net"
	"os"
	"runtime"
	"sort"
	"strings"
	"sync"
	"sync/atomic"
	"testing"
	"testing/synctest"
	"time"

	"github.com/pion/logging"
)

// ---- deterministic replacement for the package random source --------------------------

type vRandGen struct {
	mu   sync.Mutex
	r    *vrand
	tsns []uint32 // values handed out by Uint32, in order (initial TSNs and tags)
	next int
}

func (g *vRandGen) Intn(n int) int {
	g.mu.Lock()
	defer g.mu.Unlock()
	return g.r.n(n)
}
func (g *vRandGen) Uint32() uint32 {
	g.mu.Lock()
	defer g.mu.Unlock()
	if g.next < len(g.tsns) {
		v := g.tsns[g.next]
		g.next++
		return v
	}
	return g.r.u32() | 1
}
func (g *vRandGen) Uint64() uint64 {
	g.mu.Lock()
	defer g.mu.Unlock()
	return g.r.u64()
}
func (g *vRandGen) GenerateString(n int, runes string) string {
	g.mu.Lock()
	defer g.mu.Unlock()
	b := make([]byte, n)
	for i := range b {
		b[i] = runes[g.r.n(len(runes))]
	}
	return string(b)
}

// ---- fault-injecting packet link ----------------------------------------------------------

type vFate struct {
	drop   bool
	delays []time.Duration // one delivery per entry (2 entries = duplicate)
}

type vLink struct {
	mu      sync.Mutex
	start   time.Time
	ends    [2]*vEnd
	fate    func(from int, idx int, pkt []byte, now time.Duration) vFate
	sent    [2]int
	wg      sync.WaitGroup
	log     func(from int, idx int, now time.Duration, pkt []byte, f vFate)
	logRx   func(to int, from int, idx int, now time.Duration)
	stopped atomic.Bool
	native  bool // real time: a write that races with the close cannot be told from one issued after it
}

type vEnd struct {
	link      *vLink
	side      int
	inbox     chan []byte
	closed    chan struct{}
	closeOnce sync.Once
	wrAfterCl atomic.Int32
	selfClose atomic.Bool // Close() was called by the endpoint that owns this conn
	closedAt  atomic.Int64
	failWrite atomic.Bool
	dlMu      sync.Mutex
	dlCh      chan struct{}
	dlTimer   *time.Timer
}

func newVLink(fate func(int, int, []byte, time.Duration) vFate) *vLink {
	l := &vLink{start: time.Now(), fate: fate}
	for i := range l.ends {
		l.ends[i] = &vEnd{link: l, side: i, inbox: make(chan []byte, 4096), closed: make(chan struct{}), dlCh: make(chan struct{})}
	}
	return l
}

func (e *vEnd) Read(b []byte) (int, error) {
	e.dlMu.Lock()
	dl := e.dlCh
	e.dlMu.Unlock()
	select {
	case p := <-e.inbox:
		return copy(b, p), nil
	case <-e.closed:
		return 0, io.EOF
	case <-dl:
		return 0, os.ErrDeadlineExceeded
	}
}

// SetReadDeadline: Abort() relies on it to unblock the read loop.
func (e *vEnd) SetReadDeadline(t time.Time) error {
	e.dlMu.Lock()
	defer e.dlMu.Unlock()
	if e.dlTimer != nil {
		e.dlTimer.Stop()
		e.dlTimer = nil
	}
	select {
	case <-e.dlCh:
		e.dlCh = make(chan struct{})
	default:
	}
	if t.IsZero() {
		return nil
	}
	ch := e.dlCh
	fire := func() {
		e.dlMu.Lock()
		defer e.dlMu.Unlock()
		select {
		case <-ch:
		default:
			close(ch)
		}
	}
	if d := time.Until(t); d <= 0 {
		close(ch)
	} else {
		e.dlTimer = time.AfterFunc(d, fire)
	}
	return nil
}

func (e *vEnd) Write(b []byte) (int, error) {
	select {
	case <-e.closed:
		// the endpoint wrote to a connection it had closed itself at an earlier (virtual) instant; a write
		// racing with the close at the same instant just fails and is tolerated
		if e.selfClose.Load() && !e.link.native && time.Since(e.link.start).Nanoseconds() > e.closedAt.Load() {
			e.wrAfterCl.Add(1)
		}
		return 0, io.ErrClosedPipe
	default:
	}
	if e.failWrite.Load() {
		return 0, errors.New("verif: injected write failure")
	}
	l := e.link
	pkt := append([]byte(nil), b...)
	l.mu.Lock()
	idx := l.sent[e.side]
	l.sent[e.side]++
	now := time.Since(l.start)
	f := vFate{delays: []time.Duration{0}}
	if l.fate != nil {
		f = l.fate(e.side, idx, pkt, now)
	}
	if l.log != nil {
		l.log(e.side, idx, now, pkt, f)
	}
	l.mu.Unlock()
	if f.drop || l.stopped.Load() {
		return len(b), nil
	}
	peer := l.ends[1-e.side]
	for _, d := range f.delays {
		if d <= 0 {
			peer.deliver(pkt, e.side, idx)
			continue
		}
		l.wg.Add(1)
		time.AfterFunc(d, func() {
			defer l.wg.Done()
			if !l.stopped.Load() {
				peer.deliver(pkt, e.side, idx)
			}
		})
	}
	return len(b), nil
}

func (e *vEnd) deliver(pkt []byte, from, idx int) {
	select {
	case <-e.closed:
	case e.inbox <- pkt:
		if e.link.logRx != nil {
			e.link.logRx(e.side, from, idx, time.Since(e.link.start))
		}
	default: // receive queue overflow = loss
	}
}

// Close closes this end; like a DTLS close_notify the other end's Read fails shortly after.
func (e *vEnd) Close() error {
	if !e.selfClose.Load() {
		e.closedAt.Store(time.Since(e.link.start).Nanoseconds())
	}
	e.selfClose.Store(true)
	e.fail()
	return nil
}

// fail makes the transport fail without the endpoint having asked for it (harness use).
func (e *vEnd) fail() {
	e.closeOnce.Do(func() {
		close(e.closed)
		peer := e.link.ends[1-e.side]
		time.AfterFunc(100*time.Millisecond, func() {
			peer.closeOnce.Do(func() { close(peer.closed) })
		})
	})
}
func (e *vEnd) LocalAddr() net.Addr                { return nil }
func (e *vEnd) RemoteAddr() net.Addr               { return nil }
func (e *vEnd) SetDeadline(t time.Time) error      { return nil }
func (e *vEnd) SetWriteDeadline(t time.Time) error { return nil }

// ---- packet summary for the log ---------------------------------------------------------------

func vChunkSummary(c chunk) string {
	switch x := c.(type) {
	case *chunkPayloadData:
		fl := ""
		if x.unordered {
			fl += "U"
		}
		if x.beginningFragment {
			fl += "B"
		}
		if x.endingFragment {
			fl += "E"
		}
		if fl == "" {
			fl = "-"
		}
		if x.isIData() {
			return fmt.Sprintf("IDATA:%d:%d:%d:%d:%d:%s", x.tsn, x.streamIdentifier, x.messageIdentifier, x.fragmentSequenceNumber, len(x.userData), fl)
		}
		return fmt.Sprintf("DATA:%d:%d:%d:%d:%s", x.tsn, x.streamIdentifier, x.streamSequenceNumber, len(x.userData), fl)
	case *chunkSelectiveAck:
		var gb strings.Builder
		for i, g := range x.gapAckBlocks {
			if i > 0 {
				gb.WriteByte('+')
			}
			fmt.Fprintf(&gb, "%d-%d", g.start, g.end)
		}
		if gb.Len() == 0 {
			gb.WriteString("none")
		}
		return fmt.Sprintf("SACK:%d:%d:%s:%d", x.cumulativeTSNAck, x.advertisedReceiverWindowCredit, gb.String(), len(x.duplicateTSN))
	case *chunkForwardTSN:
		var sb strings.Builder
		ss := append([]chunkForwardTSNStream(nil), x.streams...)
		sort.Slice(ss, func(i, j int) bool { return ss[i].identifier < ss[j].identifier })
		for i, s := range ss {
			if i > 0 {
				sb.WriteByte('+')
			}
			fmt.Fprintf(&sb, "%d/%d", s.identifier, s.sequence)
		}
		if sb.Len() == 0 {
			sb.WriteString("none")
		}
		return fmt.Sprintf("FWD:%d:%s", x.newCumulativeTSN, sb.String())
	case *chunkIForwardTSN:
		var sb strings.Builder
		ss := append([]chunkIForwardTSNStream(nil), x.streams...)
		sort.Slice(ss, func(i, j int) bool {
			if ss[i].identifier != ss[j].identifier {
				return ss[i].identifier < ss[j].identifier
			}
			return !ss[i].unordered && ss[j].unordered
		})
		for i, s := range ss {
			if i > 0 {
				sb.WriteByte('+')
			}
			u := "o"
			if s.unordered {
				u = "u"
			}
			fmt.Fprintf(&sb, "%d/%s/%d", s.identifier, u, s.messageIdentifier)
		}
		if sb.Len() == 0 {
			sb.WriteString("none")
		}
		return fmt.Sprintf("IFWD:%d:%s", x.newCumulativeTSN, sb.String())
	case *chunkInit:
		return "INIT"
	case *chunkInitAck:
		return "INITACK"
	case *chunkCookieEcho:
		return "COOKIEECHO"
	case *chunkCookieAck:
		return "COOKIEACK"
	case *chunkHeartbeat:
		return "HB"
	case *chunkHeartbeatAck:
		return "HBACK"
	case *chunkAbort:
		return "ABORT"
	case *chunkError:
		return "ERROR"
	case *chunkShutdown:
		return fmt.Sprintf("SHUTDOWN:%d", x.cumulativeTSNAck)
	case *chunkShutdownAck:
		return "SHUTDOWNACK"
	case *chunkShutdownComplete:
		return "SHUTDOWNCOMPLETE"
	case *chunkReconfig:
		s := "RECONFIG"
		for _, p := range []param{x.paramA, x.paramB} {
			switch q := p.(type) {
			case *paramOutgoingResetRequest:
				s += fmt.Sprintf(":req/%d/%d/%d", q.reconfigRequestSequenceNumber, q.senderLastTSN, len(q.streamIdentifiers))
			case *paramReconfigResponse:
				s += fmt.Sprintf(":resp/%d/%d", q.reconfigResponseSequenceNumber, q.result)
			}
		}
		return s
	}
	return fmt.Sprintf("OTHER:%T", c)
}

// returns "cksum chunk chunk …" for a raw packet (decoded with the real decoder, checksum not enforced)
func vPacketSummary(raw []byte) string {
	ck := "bad"
	if len(raw) >= 12 {
		field := uint32(raw[8]) | uint32(raw[9])<<8 | uint32(raw[10])<<16 | uint32(raw[11])<<24
		tmp := append([]byte(nil), raw...)
		tmp[8], tmp[9], tmp[10], tmp[11] = 0, 0, 0, 0
		want := crc32.Checksum(tmp, crc32.MakeTable(crc32.Castagnoli))
		switch {
		case field == want:
			ck = "ok"
		case field == 0:
			ck = "zero"
		}
	}
	p := &packet{}
	if err := p.unmarshal(false, raw); err != nil {
		// the decoder insists on a CRC for INIT / COOKIE-ECHO: to still SEE what was emitted, decode a copy
		// that carries the right checksum (the verdict on the emitted checksum field is already in `ck`)
		fixed := append([]byte(nil), raw...)
		if len(fixed) >= 12 {
			fixed[8], fixed[9], fixed[10], fixed[11] = 0, 0, 0, 0
			c := crc32.Checksum(fixed, crc32.MakeTable(crc32.Castagnoli))
			fixed[8], fixed[9], fixed[10], fixed[11] = byte(c), byte(c>>8), byte(c>>16), byte(c>>24)
		}
		p = &packet{}
		if err2 := p.unmarshal(false, fixed); err2 != nil {
			return ck + " UNPARSABLE"
		}
	}
	parts := []string{ck}
	for _, c := range p.chunks {
		parts = append(parts, vChunkSummary(c))
	}
	return strings.Join(parts, " ")
}

// ---- scenario description -------------------------------------------------------------------

type vStreamSpec struct {
	id        uint16
	unordered bool
	relType   byte
	relVal    uint32
	dir       int // which side writes (0 = A, 1 = B)
}

type vMsg struct {
	stream int // index into streams
	size   int
	ppi    PayloadProtocolIdentifier
	gapUs  int // virtual pause before this write
}

type vScenario struct {
	mode            string
	seed, idx       int
	il, zc          [2]bool
	mtu             uint32
	rcvBuf          uint32
	blockWrite      bool
	tsn             [2]uint32
	streams         []vStreamSpec
	msgs            []vMsg
	dropPct, dupPct int
	maxDelayMs      int
	healMs          int
	blackoutFromMs  int // total blackout window (0 = none)
	blackoutToMs    int
	readerPauseMs   int // reader sleeps this long before starting to read (zero-window episodes)
	bothClients     bool
	lazyAccept bool // the application does not call AcceptStream for a while
	// handshake mode
	hsRole   int // 0 client/server, 1 both clients, 2 out-of-band tokens
	hsFaults []vHsFault
	hsSilent int
	readers  int // teardown: goroutines reading the same stream
}

type vStale struct {
	to   int
	pkt  []byte
	kind string
}

func vHash(b []byte) uint32 { return crc32.ChecksumIEEE(b) }

func vPayload(seed uint64, n int) []byte {
	r := &vrand{s: seed}
	b := make([]byte, n)
	for i := 0; i < n; i += 8 {
		v := r.u64()
		for j := 0; j < 8 && i+j < n; j++ {
			b[i+j] = byte(v >> (8 * j))
		}
	}
	return b
}

func vGenScenario(mode string, seed, idx int) *vScenario {
	r := &vrand{s: uint64(seed)*1000003 + uint64(idx)*7919 + 11}
	sc := &vScenario{mode: mode, seed: seed, idx: idx}
	sc.il = [2]bool{r.chance(50), r.chance(50)}
	if r.chance(40) {
		sc.il = [2]bool{true, true}
	}
	sc.zc = [2]bool{r.chance(40), r.chance(40)}
	sc.mtu = uint32(r.pick(1200, 1200, 1228, 576, 1500, 8192, 256)) // receiveMTU is 8192: larger packets cannot be received by pion itself
	sc.rcvBuf = uint32(r.pick(0, 0, 1<<20, 65536, 32768, 16384))
	sc.blockWrite = r.chance(15) || (mode == "api" && r.chance(50))
	sc.bothClients = r.chance(20)
	for i := range sc.tsn {
		switch r.n(4) {
		case 0:
			sc.tsn[i] = uint32(0) - uint32(r.n(9000)) - 1 // just below the wrap
		case 1:
			sc.tsn[i] = uint32(r.n(100))
		default:
			sc.tsn[i] = r.u32() | 1
		}
	}
	ns := 1 + r.n(3)
	if mode == "pr" && r.chance(12) {
		ns = 17 + r.n(4) // more streams than the accept backlog holds
		sc.lazyAccept = true
	}
	for i := 0; i < ns; i++ {
		st := vStreamSpec{id: uint16(1 + i*2 + r.n(2)), dir: r.n(2)}
		if sc.lazyAccept {
			st.dir = 0
		}
		if mode == "transfer" || mode == "shutdown" || mode == "reset" || mode == "api" {
			// reliable streams; ordering varies
			st.unordered = r.chance(30)
		}
		if mode == "pr" {
			st.unordered = r.chance(50)
			switch r.n(3) {
			case 0:
				st.relType, st.relVal = ReliabilityTypeRexmit, uint32(r.pick(0, 0, 1, 2, 5))
			case 1:
				st.relType, st.relVal = ReliabilityTypeTimed, uint32(r.pick(0, 50, 500))
			}
		}
		sc.streams = append(sc.streams, st)
	}
	nm := 1 + r.n(30)
	maxMsg := 65536
	if sc.rcvBuf != 0 && int(sc.rcvBuf)/(2*ns) < maxMsg {
		// the in-progress messages (one per stream when interleaving) must fit the receive buffer together,
		// otherwise the receiver can be full of incomplete messages: outside what C02 quantifies over
		maxMsg = int(sc.rcvBuf) / (2 * ns)
	}
	for i := 0; i < nm; i++ {
		var size int
		switch x := r.n(100); {
		case x < 25:
			size = 1 + r.n(16)
		case x < 55:
			size = 1 + r.n(1200)
		case x < 75:
			size = int(sc.mtu) - 40 + r.n(80) - 40
		case x < 92:
			size = 1 + r.n(20000)
		default:
			size = maxMsg - r.n(4)
		}
		if size < 1 {
			size = 1
		}
		if size > maxMsg {
			size = maxMsg
		}
		m := vMsg{stream: r.n(len(sc.streams)), size: size, ppi: PayloadTypeWebRTCBinary}
		if r.chance(10) {
			m.ppi = PayloadTypeWebRTCString
		}
		if (mode == "pr" || mode == "api") && r.chance(10) {
			m.ppi = PayloadTypeWebRTCDCEP
		}
		if r.chance(30) {
			m.gapUs = r.n(300000)
		}
		sc.msgs = append(sc.msgs, m)
	}
	if r.chance(75) {
		sc.dropPct = r.n(41)
		sc.dupPct = r.n(31)
		sc.maxDelayMs = r.pick(0, 5, 50, 300)
		sc.healMs = r.pick(500, 2000, 8000, 30000, 65000)
		if r.chance(20) {
			sc.blackoutFromMs = r.n(3000)
			sc.blackoutToMs = sc.blackoutFromMs + r.pick(1000, 10000, 70000)
			if sc.healMs < sc.blackoutToMs {
				sc.healMs = sc.blackoutToMs
			}
		}
	}
	if r.chance(20) {
		sc.readerPauseMs = r.pick(100, 1000, 5000)
	}
	if mode == "handshake" {
		vGenHandshake(sc)
	}
	sc.readers = 1
	if mode == "teardown" {
		sc.readers = 1 + (&vrand{s: uint64(seed)*7 + uint64(idx)*13 + 3}).n(4) // 1..4, its own stream: earlier choices stay as they were
	}
	return sc
}

func (sc *vScenario) header() string {
	b := func(x bool) int {
		if x {
			return 1
		}
		return 0
	}
	var ss []string
	for _, s := range sc.streams {
		ss = append(ss, fmt.Sprintf("%d/%d/%d/%d/%d", s.id, b(s.unordered), s.relType, s.relVal, s.dir))
	}
	var hf []string
	for _, f := range sc.hsFaults {
		hf = append(hf, fmt.Sprintf("%d/%d", f.pos, f.kind))
	}
	if len(hf) == 0 {
		hf = []string{"none"}
	}
	return fmt.Sprintf("ilA=%d ilB=%d zcA=%d zcB=%d mtu=%d rcvbuf=%d block=%d tsnA=%d tsnB=%d streams=%s nmsg=%d drop=%d dup=%d delay=%d heal=%d blackout=%d-%d pause=%d both=%d role=%d hsfaults=%s silent=%d readers=%d",
		b(sc.il[0]), b(sc.il[1]), b(sc.zc[0]), b(sc.zc[1]), sc.mtu, sc.rcvBuf, b(sc.blockWrite), sc.tsn[0], sc.tsn[1],
		strings.Join(ss, ","), len(sc.msgs), sc.dropPct, sc.dupPct, sc.maxDelayMs, sc.healMs, sc.blackoutFromMs, sc.blackoutToMs, sc.readerPauseMs, b(sc.bothClients),
		sc.hsRole, strings.Join(hf, ","), sc.hsSilent, sc.readers)
}

// ---- running one scenario -------------------------------------------------------------------

type vRun struct {
	t    *testing.T
	l    *vlog
	sc   *vScenario
	mu   sync.Mutex
	link *vLink
	as   [2]*Association
	stale []vStale
	// teardown mode: closed when the k-th wire event has been logged
	trigAt  int
	trigCh  chan struct{}
	nEvents int
	wireLines int
	// teardown / storm extensions
	native  bool            // running outside a synctest bubble (race-detector runs): real time, no synctest.Wait
	ctx0    context.Context // side 0 connects with createClientWithContext(ctx0, …)
	holdCA  bool            // keep the first COOKIE-ACK back (teardown ctxcancel): it is handed over together with the cancel
	heldCA  []byte
	heldIdx int
	heldCh  chan struct{}
	readers int // readers per accepted stream
	// teardown: one accepted stream per side is NOT read while the run lasts: a long read deadline is armed on it, the reader
	// comes back only after the teardown AND after that deadline has expired (idleGo), sets a new deadline and reads
	idleSide [2]bool
	idleGo   chan struct{}
	idleWG   sync.WaitGroup
}

// assoc / setAssoc: the association of a side is stored by the goroutine that runs the constructor and read by the
// goroutine that injects the teardown; outside the bubble the two really run in parallel
func (r *vRun) assoc(side int) *Association {
	r.mu.Lock()
	defer r.mu.Unlock()
	return r.as[side]
}

func (r *vRun) setAssoc(side int, a *Association) {
	r.mu.Lock()
	r.as[side] = a
	r.mu.Unlock()
}

func (r *vRun) assocStreams(side int) map[uint16]*Stream {
	a := r.assoc(side)
	out := map[uint16]*Stream{}
	if a == nil {
		return out
	}
	a.lock.RLock()
	for k, v := range a.streams {
		out[k] = v
	}
	a.lock.RUnlock()
	return out
}

// settle: let every goroutine of the run reach its next blocking point
func (r *vRun) settle() {
	if r.native {
		time.Sleep(2 * time.Millisecond)
		return
	}
	synctest.Wait()
}

const vMaxWireLines = 40000 // per scenario: a livelocked run must not produce an unbounded log

func (r *vRun) logf(format string, a ...any) {
	r.mu.Lock()
	defer r.mu.Unlock()
	if strings.HasPrefix(format, "e2e tx ") || strings.HasPrefix(format, "e2e rx ") {
		r.wireLines++
		if r.wireLines == vMaxWireLines {
			r.l.line("e2e truncated", fmt.Sprintf("%d", vMaxWireLines))
		}
		if r.wireLines >= vMaxWireLines {
			return
		}
	}
	s := fmt.Sprintf(format, a...)
	if i := strings.Index(s, " -> "); i >= 0 {
		r.l.line(s[:i], s[i+4:])
	} else {
		r.l.line(s, "")
	}
}

func vErrClass(err error) string {
	switch {
	case err == nil:
		return "nil"
	case errors.Is(err, io.EOF):
		return "EOF"
	case errors.Is(err, io.ErrShortBuffer):
		return "short"
	case errors.Is(err, ErrStreamClosed):
		return "streamclosed"
	case errors.Is(err, ErrOutboundPacketTooLarge):
		return "toolarge"
	case errors.Is(err, ErrPayloadDataStateNotExist):
		return "notestablished"
	case errors.Is(err, context.DeadlineExceeded), errors.Is(err, os.ErrDeadlineExceeded):
		return "deadline"
	case errors.Is(err, ErrShutdownNonEstablished):
		return "shutdown-nonestablished"
	case strings.Contains(err.Error(), "before the shutdown sequence completed"): // ErrShutdownIncomplete (by text: the harness must also build against a tree without it)
		return "shutdown-incomplete"
	case errors.Is(err, ErrAssociationClosedBeforeConn):
		return "closed-before-conn"
	case errors.Is(err, ErrHandshakeInitAck), errors.Is(err, ErrHandshakeCookieEcho):
		return "handshake-failed"
	}
	s := err.Error()
	if strings.Contains(s, "abort") || strings.Contains(s, "Abort") || strings.Contains(s, "ABORT") {
		return "abort:" + strings.ReplaceAll(s, " ", "_")
	}
	return "other:" + strings.ReplaceAll(s, " ", "_")
}

func (r *vRun) config(side int) Config {
	sc := r.sc
	cfg := Config{
		Name:                 fmt.Sprintf("%c", 'A'+side),
		NetConn:              r.link.ends[side],
		LoggerFactory:        &logging.DefaultLoggerFactory{DefaultLogLevel: logging.LogLevelDisabled, ScopeLevels: map[string]logging.LogLevel{}, Writer: io.Discard},
		EnableZeroChecksum:   sc.zc[side],
		MTU:                  sc.mtu,
		MaxReceiveBufferSize: sc.rcvBuf,
		BlockWrite:           sc.blockWrite,
	}
	cfg.enableInterleaving = sc.il[side]
	cfg.enableInterleavingSet = true
	return cfg
}

// connect establishes both associations (A = client, B = server unless bothClients).
func (r *vRun) connect(timeout time.Duration) bool {
	type res struct {
		a   *Association
		err error
	}
	chs := [2]chan res{make(chan res, 1), make(chan res, 1)}
	order := []int{0, 1}
	if r.sc.seed%2 == 1 && r.sc.idx%3 == 0 {
		order = []int{1, 0}
	}
	for _, side := range order {
		side := side
		// per association the constructor draws [initial TSN, verification tag] in this order
		gen := globalMathRandomGenerator.(*vRandGen)
		gen.mu.Lock()
		gen.tsns = append(gen.tsns[:gen.next], r.sc.tsn[side], gen.r.u32()|1)
		gen.mu.Unlock()
		go func() {
			var a *Association
			var err error
			if side == 0 && r.ctx0 != nil {
				a, err = createClientWithContext(r.ctx0, r.config(side))
			} else if side == 0 || r.sc.bothClients {
				a, err = Client(r.config(side))
			} else {
				a, err = Server(r.config(side))
			}
			chs[side] <- res{a, err}
		}()
		r.settle() // the constructor has drawn its numbers and is parked (or done)
	}
	ok := true
	deadline := time.After(timeout)
	for side := 0; side < 2; side++ {
		select {
		case x := <-chs[side]:
			r.setAssoc(side, x.a)
			r.logf("e2e connect %d -> %s %d", side, vErrClass(x.err), time.Since(r.link.start).Milliseconds())
			if x.err != nil {
				ok = false
			}
		case <-deadline:
			r.logf("e2e connect %d -> timeout %d", side, time.Since(r.link.start).Milliseconds())
			ok = false
			// unblock the constructor so the goroutine can finish
			r.link.ends[side].fail()
			x := <-chs[side]
			r.setAssoc(side, x.a)
		}
	}
	return ok
}

func (r *vRun) logMeta(side int) {
	a := r.as[side]
	if a == nil {
		return
	}
	md, ok := a.Metadata()
	b := func(x bool) int {
		if x {
			return 1
		}
		return 0
	}
	r.logf("e2e meta %d -> %d il=%d pr=%d zcsend=%d zcrecv=%d", side, b(ok), b(md.MessageInterleavingEnabled), int(md.PartialReliabilityMode), b(md.ZeroChecksumSendingEnabled), b(md.ZeroChecksumReceivingEnabled))
}

func (r *vRun) fate() func(int, int, []byte, time.Duration) vFate {
	sc := r.sc
	fr := &vrand{s: uint64(sc.seed)*31337 + uint64(sc.idx)*131 + 5}
	return func(from, idx int, pkt []byte, now time.Duration) vFate {
		if r.holdCA && from == 1 && r.heldCA == nil && strings.HasSuffix(vPacketSummary(pkt), " COOKIEACK") {
			r.heldCA, r.heldIdx = append([]byte(nil), pkt...), idx
			close(r.heldCh)
			return vFate{drop: true}
		}
		ms := int(now / time.Millisecond)
		if sc.blackoutToMs > 0 && ms >= sc.blackoutFromMs && ms < sc.blackoutToMs {
			return vFate{drop: true}
		}
		if ms >= sc.healMs {
			return vFate{delays: []time.Duration{0}}
		}
		if fr.n(100) < sc.dropPct {
			return vFate{drop: true}
		}
		d := func() time.Duration {
			if sc.maxDelayMs == 0 {
				return 0
			}
			return time.Duration(fr.n(sc.maxDelayMs*1000)) * time.Microsecond
		}
		f := vFate{delays: []time.Duration{d()}}
		if fr.n(100) < sc.dupPct {
			f.delays = append(f.delays, d())
		}
		return f
	}
}

func (r *vRun) wireLog() func(int, int, time.Duration, []byte, vFate) {
	return func(from int, idx int, now time.Duration, pkt []byte, f vFate) {
		fs := "pass"
		if f.drop {
			fs = "drop"
		} else if len(f.delays) > 1 {
			fs = "dup"
		} else if f.delays[0] > 0 {
			fs = "delay"
		}
		r.mu.Lock()
		r.nEvents++
		if r.trigCh != nil && r.nEvents == r.trigAt {
			close(r.trigCh)
		}
		r.mu.Unlock()
		sum := vPacketSummary(pkt)
		r.logf("e2e tx %d %d %d %d %s -> %s", from, idx, now.Microseconds(), len(pkt), fs, sum)
		if r.sc.mode == "handshake" {
			for _, k := range []string{"INIT", "INITACK", "COOKIEECHO", "COOKIEACK"} {
				if strings.HasSuffix(sum, " "+k) {
					r.mu.Lock()
					r.stale = append(r.stale, vStale{to: 1 - from, pkt: append([]byte(nil), pkt...), kind: k})
					r.mu.Unlock()
				}
			}
		}
	}
}

// teardown closes everything and reports goroutines of package sctp that are still alive.
func (r *vRun) teardown() {
	for side := 0; side < 2; side++ {
		if a := r.assoc(side); a != nil {
			_ = a.Close()
		}
		r.link.ends[side].fail()
	}
	r.link.stopped.Store(true)
	r.link.wg.Wait()
	r.settle()
	if r.native {
		time.Sleep(300 * time.Millisecond)
	} else {
		time.Sleep(time.Second)
	}
	r.settle()
	leaks := vLeakedGoroutines()
	r.logf("e2e fin -> leaks=%d wrAfterClose=%d %s", len(leaks), r.link.ends[0].wrAfterCl.Load()+r.link.ends[1].wrAfterCl.Load(), strings.Join(leaks, ","))
	r.mu.Lock()
	r.l.w.Flush()
	r.mu.Unlock()
	// a read-deadline helper goroutine only ends at its deadline (known finding): let it, so that the bubble can end.
	// Any other survivor makes the bubble panic, which is the intention.
	for _, g := range leaks {
		if strings.Contains(g, "SetReadDeadline") && !r.native {
			time.Sleep(3 * time.Hour)
			synctest.Wait()
			break
		}
	}
}

func vLeakedGoroutines() []string {
	buf := make([]byte, 1<<20)
	n := runtime.Stack(buf, true)
	var out []string
	for _, g := range strings.Split(string(buf[:n]), "\n\n") {
		if strings.Contains(g, "TestVerif") || strings.Contains(g, "vRun") || strings.Contains(g, "vWatchdog") {
			continue
		}
		for _, line := range strings.Split(g, "\n") {
			if i := strings.Index(line, "pion/sctp."); i >= 0 && !strings.HasPrefix(line, "\t") {
				f := line[i+len("pion/sctp."):]
				if j := strings.LastIndex(f, "("); j > 0 {
					f = f[:j]
				}
				out = append(out, strings.NewReplacer(",", ";", " ", "").Replace(f))
				break
			}
		}
	}
	sort.Strings(out)
	return out
}

// reader drains one stream until EOF/error, logging every message. In api mode it starts with a
// buffer that is too small and arms read deadlines that expire while no data is available.
func (r *vRun) reader(side int, s *Stream, wg *sync.WaitGroup, bufSize int) {
	defer wg.Done()
	api := r.sc.mode == "api" || (r.sc.mode == "teardown" && r.sc.idx%3 == 0) || r.sc.mode == "storm"
	ar := &vrand{s: uint64(r.sc.seed)*17 + uint64(r.sc.idx)*5 + uint64(s.StreamIdentifier())}
	if api {
		bufSize = 1 + ar.n(64)
	}
	buf := make([]byte, bufSize)
	ndl := 0
	for {
		if api && ar.chance(40) {
			_ = s.SetReadDeadline(time.Now().Add(time.Duration(ar.pick(0, 1, 1000, 200000, 5000000)) * time.Microsecond))
		}
		n, ppi, err := s.ReadSCTP(buf)
		if err != nil {
			if errors.Is(err, io.ErrShortBuffer) {
				r.logf("e2e rerr %d %d -> short %d", side, s.StreamIdentifier(), len(buf))
				if api && ar.chance(50) {
					buf = make([]byte, len(buf)+1+ar.n(4000)) // may still be too small: tried again
				} else {
					buf = make([]byte, len(buf)*2+1)
				}
				continue
			}
			// the stream's own sentinel: after a local Abort() the close error is the TRANSPORT's deadline error (Abort
			// forces the read loop out with SetReadDeadline(now)), which also is an os.ErrDeadlineExceeded
			if api && errors.Is(err, ErrReadDeadlineExceeded) {
				ndl++
				if ndl > 5000 {
					// an application that keeps polling with deadlines on a stream nobody will ever write to again
					s.lock.RLock()
					re, rc := s.readErr, s.readTimeoutCancel != nil
					s.lock.RUnlock()
					_, reg := r.assocStreams(side)[s.StreamIdentifier()]
					r.logf("e2e readerspin %d %d -> readErr=%v cancel=%v registered=%v", side, s.StreamIdentifier(), re, rc, reg)
					return
				}
				r.logf("e2e rerr %d %d -> deadline", side, s.StreamIdentifier())
				// the application does something else for a while before it comes back to read again
				time.Sleep(time.Duration(ar.pick(0, 1000, 50000, 400000, 2000000)) * time.Microsecond)
				_ = s.SetReadDeadline(time.Time{})
				continue
			}
			r.logf("e2e rerr %d %d -> %s", side, s.StreamIdentifier(), vErrClass(err))
			return
		}
		r.logf("e2e r %d %d %d %d %d", side, s.StreamIdentifier(), uint32(ppi), n, vHash(buf[:n]))
		if api && ar.chance(30) {
			buf = make([]byte, 1+ar.n(256)) // shrink again
		}
	}
}

// vCCIdleReader: a read deadline is armed while NO read is blocked; the association goes down; the deadline expires only
// after that; then the application sets a new deadline (or none) and reads: it must get the data that had arrived and then,
// promptly, the TERMINAL error of the stream (close error / EOF / the peer's abort cause) - an expiry that comes late must
// not replace it.
func (r *vRun) vCCIdleReader(side int, s *Stream, bufSize int) {
	defer r.idleWG.Done()
	sid := s.StreamIdentifier()
	dl := time.Now().Add(time.Hour)
	_ = s.SetReadDeadline(dl)
	r.logf("e2e idlearm %d %d", side, sid)
	<-r.idleGo
	if d := time.Until(dl); d > 0 {
		time.Sleep(d + time.Second) // the helper goroutine of the deadline has fired by now
	}
	ir := &vrand{s: uint64(r.sc.seed)*271 + uint64(r.sc.idx)*29 + uint64(side)}
	buf := make([]byte, bufSize)
	t0 := time.Now()
	for k := 0; ; k++ {
		if ir.chance(50) {
			_ = s.SetReadDeadline(time.Time{})
		} else {
			_ = s.SetReadDeadline(time.Now().Add(5 * time.Second))
		}
		n, ppi, err := s.ReadSCTP(buf)
		switch {
		case err == nil:
			r.logf("e2e r %d %d %d %d %d", side, sid, uint32(ppi), n, vHash(buf[:n]))
		case errors.Is(err, io.ErrShortBuffer):
			buf = make([]byte, len(buf)*2+1)
		case errors.Is(err, ErrReadDeadlineExceeded) && k < 3:
			// the old deadline's expiry may still be pending as the stream's (transient) error once; after that a
			// deadline error means the terminal error is gone
			r.logf("e2e rerr %d %d -> deadline", side, sid)
		default:
			cls := vErrClass(err)
			if errors.Is(err, ErrReadDeadlineExceeded) {
				// the stream's own sentinel, still there after three fresh deadlines: the terminal error is gone. (After a
				// local Abort() the terminal error itself is the TRANSPORT's deadline error, class "deadline": that is fine.)
				cls = "read-deadline-exceeded"
			}
			r.logf("e2e idleread %d %d -> %s %d", side, sid, cls, time.Since(t0).Milliseconds())
			r.logf("e2e rerr %d %d -> %s", side, sid, vErrClass(err))
			return
		}
	}
}

// acceptor accepts streams on `side` and starts a reader for each.
func (r *vRun) acceptor(side int, wg *sync.WaitGroup, bufSize int) {
	defer wg.Done()
	a := r.as[side]
	if r.sc.lazyAccept {
		time.Sleep(20 * time.Second)
	}
	for {
		s, err := a.AcceptStream()
		if err != nil {
			r.logf("e2e accepterr %d -> %s", side, vErrClass(err))
			return
		}
		r.logf("e2e accept %d %d", side, s.StreamIdentifier())
		if r.sc.readerPauseMs > 0 {
			time.Sleep(time.Duration(r.sc.readerPauseMs) * time.Millisecond)
		}
		r.mu.Lock()
		idle := r.idleSide[side]
		r.idleSide[side] = false
		r.mu.Unlock()
		if idle {
			r.idleWG.Add(1)
			go r.vCCIdleReader(side, s, bufSize)
			continue
		}
		nr := 1
		if r.readers > 1 {
			nr = r.readers
		}
		for k := 0; k < nr; k++ {
			wg.Add(1)
			go r.reader(side, s, wg, bufSize)
		}
	}
}

func (r *vRun) logEnd() {
	if os.Getenv("VERIF_DEBUG") == "2" {
		buf := make([]byte, 1<<20)
		n := runtime.Stack(buf, true)
		fmt.Fprintf(os.Stderr, "---- goroutines at logEnd ----\n%s\n", buf[:n])
	}
	for side := 0; side < 2; side++ {
		a := r.as[side]
		if a == nil {
			continue
		}
		a.lock.RLock()
		st := a.getState()
		pend, infl := a.pendingQueue.size(), a.inflightQueue.size()
		a.lock.RUnlock()
		r.logf("e2e end %d -> state=%d buffered=%d pending=%d inflight=%d cwnd=%d rwnd=%d t=%d", side, st, a.BufferedAmount(), pend, infl, a.CWND(), a.RWND(), time.Since(r.link.start).Milliseconds())
	}
}

// transfer-style body shared by several modes: open streams, write the workload, wait for drain.
func (r *vRun) runTransfer() {
	sc := r.sc
	if !r.connect(400 * time.Second) {
		return
	}
	r.logMeta(0)
	r.logMeta(1)
	var rwg sync.WaitGroup
	for side := 0; side < 2; side++ {
		rwg.Add(1)
		go r.acceptor(side, &rwg, 70000)
	}
	streams := make([]*Stream, len(sc.streams))
	for i, ss := range sc.streams {
		s, err := r.as[ss.dir].OpenStream(ss.id, PayloadTypeWebRTCBinary)
		if err != nil {
			r.logf("e2e open %d %d -> %s", ss.dir, ss.id, vErrClass(err))
			continue
		}
		s.SetReliabilityParams(ss.unordered, ss.relType, ss.relVal)
		streams[i] = s
		r.logf("e2e open %d %d %d %d %d -> nil", ss.dir, ss.id, map[bool]int{false: 0, true: 1}[ss.unordered], ss.relType, ss.relVal)
	}
	// one writer goroutine per stream, messages in scenario order
	var wwg sync.WaitGroup
	for i := range sc.streams {
		if streams[i] == nil {
			continue
		}
		i := i
		wwg.Add(1)
		go func() {
			defer wwg.Done()
			seq := 0
			for mi, m := range sc.msgs {
				if m.stream != i {
					continue
				}
				if m.gapUs > 0 {
					time.Sleep(time.Duration(m.gapUs) * time.Microsecond)
				}
				if sc.mode == "api" {
					r.apiBadCalls(i, streams[i], mi)
					if os.Getenv("VERIF_DEBUG") != "" {
						a := r.as[sc.streams[i].dir]
						a.lock.RLock()
						r.logf("e2e dbg %d wp=%v pen=%d inf=%d cwnd=%d rwnd=%d", mi, a.writePending, a.pendingQueue.size(), a.inflightQueue.size(), a.CWND(), a.RWND())
						a.lock.RUnlock()
					}
				}
				p := vPayload(uint64(sc.seed)<<32|uint64(sc.idx)<<16|uint64(mi), m.size)
				if sc.mode == "api" && sc.blockWrite && mi%3 == 0 {
					_ = streams[i].SetWriteDeadline(time.Now().Add(time.Duration(1+mi%5) * time.Millisecond))
				}
				n, err := streams[i].WriteSCTP(p, m.ppi)
				after := 0
				if sc.blockWrite && err == nil {
					// blocking mode: on return everything written earlier has left the pending queue
					r.as[sc.streams[i].dir].lock.RLock()
					after = r.as[sc.streams[i].dir].pendingQueue.getNumBytes()
					r.as[sc.streams[i].dir].lock.RUnlock()
				}
				r.logf("e2e w %d %d %d %d %d %d -> %d %s %d", sc.streams[i].dir, sc.streams[i].id, seq, uint32(m.ppi), m.size, vHash(p), n, vErrClass(err), after)
				_ = streams[i].SetWriteDeadline(time.Time{})
				seq++
			}
		}()
	}
	wwg.Wait()
	if sc.mode == "shutdown" {
		r.runShutdown(streams)
		for side := 0; side < 2; side++ {
			_ = r.as[side].Close()
			r.link.ends[side].fail()
		}
		rwg.Wait()
		return
	}
	r.waitDrain()
	for i, s := range streams {
		if s != nil {
			r.logf("e2e sbuf %d %d -> %d", sc.streams[i].dir, sc.streams[i].id, s.BufferedAmount())
		}
	}
	r.logEnd()
	for side := 0; side < 2; side++ {
		_ = r.as[side].Close()
		r.link.ends[side].fail()
	}
	rwg.Wait()
}

// apiBadCalls issues calls that must be rejected or must have no effect (C18) before message mi.
func (r *vRun) apiBadCalls(i int, s *Stream, mi int) {
	sc := r.sc
	br := &vrand{s: uint64(sc.seed)*131 + uint64(sc.idx)*7 + uint64(mi)*3 + uint64(i)}
	dir, id := sc.streams[i].dir, sc.streams[i].id
	logw := func(kind string, p []byte, n int, err error) {
		r.logf("e2e wbad %s %d %d %d %d -> %d %s", kind, dir, id, len(p), vHash(p), n, vErrClass(err))
	}
	if br.chance(25) {
		p := vPayload(uint64(mi)+77, int(r.as[dir].MaxMessageSize())+1+br.n(3))
		n, err := s.WriteSCTP(p, PayloadTypeWebRTCBinary)
		logw("oversize", p, n, err)
	}
	if br.chance(25) {
		n, err := s.WriteSCTP([]byte{}, PayloadTypeWebRTCBinary)
		logw("empty", nil, n, err)
	}
	if br.chance(15) {
		// a stream of its own that is closed at once: writes on it must fail and never be delivered
		cs, err := r.as[dir].OpenStream(uint16(1000+mi*8+i), PayloadTypeWebRTCBinary)
		if err == nil {
			_ = cs.Close()
			p := vPayload(uint64(mi)+99, 40)
			n, err := cs.WriteSCTP(p, PayloadTypeWebRTCBinary)
			logw("closedstream", p, n, err)
		}
	}
}

// waitDrain waits for the link to heal and for everything to be acknowledged (bounded virtual time).
func (r *vRun) waitDrain() {
	sc := r.sc
	limit := time.Duration(sc.healMs)*time.Millisecond + 600*time.Second
	for time.Since(r.link.start) < limit {
		time.Sleep(500 * time.Millisecond)
		if time.Since(r.link.start) < time.Duration(sc.healMs)*time.Millisecond {
			continue
		}
		if r.as[0].BufferedAmount() == 0 && r.as[1].BufferedAmount() == 0 {
			break
		}
	}
	// let delayed acks / last reads settle
	time.Sleep(2 * time.Second)
	r.settle()
}

// graceful shutdown while data may still be queued / in flight, one-sided or crossed.
func (r *vRun) runShutdown(streams []*Stream) {
	sc := r.sc
	sr := &vrand{s: uint64(sc.seed)*77 + uint64(sc.idx)*13 + 1}
	first := sr.n(2)
	crossed := sr.chance(30)
	r.logf("e2e shutdowncall %d %d", first, map[bool]int{false: 0, true: 1}[crossed])
	var swg sync.WaitGroup
	call := func(side int) {
		defer swg.Done()
		ctx, cancel := context.WithTimeout(context.Background(), time.Duration(sc.healMs)*time.Millisecond+900*time.Second)
		defer cancel()
		err := r.as[side].Shutdown(ctx)
		r.logf("e2e shutdown %d -> %s %d", side, vErrClass(err), time.Since(r.link.start).Milliseconds())
	}
	swg.Add(1)
	go call(first)
	if crossed {
		swg.Add(1)
		go call(1 - first)
	}
	synctest.Wait()
	// writes and OpenStream after shutdown began must be rejected and must not be delivered
	for i, s := range streams {
		if s == nil || (sc.streams[i].dir != first && !crossed) {
			continue
		}
		p := vPayload(uint64(sc.seed)<<20|uint64(i)|1<<40, 33)
		n, err := s.WriteSCTP(p, PayloadTypeWebRTCBinary)
		r.logf("e2e wlate %d %d %d %d -> %d %s", sc.streams[i].dir, sc.streams[i].id, 33, vHash(p), n, vErrClass(err))
	}
	_, err := r.as[first].OpenStream(999, PayloadTypeWebRTCBinary)
	r.logf("e2e openlate %d -> %s", first, vErrClass(err))
	swg.Wait()
	time.Sleep(3 * time.Second)
	synctest.Wait()
	r.logEnd()
}

// vWatchdog runs OUTSIDE the bubble on the real clock: goroutines waiting for a sync.Mutex are not "durably blocked" for
// synctest, so a deadlock that involves a mutex neither panics nor lets virtual time advance — the scenario just hangs.
func vWatchdog(sc *vScenario, l *vlog, limit time.Duration) (stop func()) {
	done := make(chan struct{})
	go func() {
		select {
		case <-done:
		case <-time.After(limit):
			buf := make([]byte, 1<<20)
			n := runtime.Stack(buf, true)
			var waiting []string
			for _, g := range strings.Split(string(buf[:n]), "\n\n") {
				if strings.Contains(g, "pion/sctp.(") && (strings.Contains(g, "sync.Mutex.Lock") || strings.Contains(g, "sync.RWMutex") || strings.Contains(g, "[select") || strings.Contains(g, "[chan ")) {
					lines := strings.Split(g, "\n")
					if len(lines) > 12 {
						lines = lines[:12]
					}
					waiting = append(waiting, strings.Join(lines, "\n"))
				}
			}
			fmt.Fprintf(os.Stderr, "panic: deadlock: scenario `e2e new %s %d %d` did not finish within %s of real time; goroutines of the package still waiting:\n%s\n",
				sc.mode, sc.seed, sc.idx, limit, strings.Join(waiting, "\n\n"))
			if os.Getenv("VERIF_DEBUG") != "" {
				fmt.Fprintf(os.Stderr, "---- all goroutines ----\n%s\n", buf[:n])
			}
			os.Exit(2)
		}
	}()
	return func() { close(done) }
}

func vRunScenario(t *testing.T, l *vlog, sc *vScenario) {
	old := globalMathRandomGenerator
	defer func() { globalMathRandomGenerator = old }()
	defer vWatchdog(sc, l, time.Duration(vEnvInt("VERIF_WATCHDOG_S", 60))*time.Second)()
	synctest.Test(t, func(t *testing.T) {
		run := &vRun{t: t, l: l, sc: sc, readers: sc.readers, heldCh: make(chan struct{}), idleGo: make(chan struct{})}
		// Uint32 call order in the constructors: myVerificationTag then TSN for each association;
		// both associations draw from the same source, so give every early draw a chosen value.
		globalMathRandomGenerator = &vRandGen{r: &vrand{s: uint64(sc.seed) + 99}, tsns: nil}
		run.link = newVLink(nil)
		run.link.fate = run.fate()
		if sc.mode == "handshake" {
			run.link.fate = run.hsFate()
		}
		run.link.log = run.wireLog()
		run.link.logRx = func(to, from, idx int, now time.Duration) {
			run.logf("e2e rx %d %d %d", to, idx, now.Microseconds())
		}
		run.logf("e2e new %s %d %d %s", sc.mode, sc.seed, sc.idx, sc.header())
		run.mu.Lock()
		l.w.Flush() // if this scenario deadlocks the bubble the process dies: its header must be on disk
		run.mu.Unlock()
		defer run.teardown()
		switch sc.mode {
		case "handshake":
			run.runHandshake()
		case "reset":
			run.runReset()
		case "teardown":
			run.runTeardown()
		case "storm":
			run.runStorm()
		default:
			run.runTransfer()
		}
	})
}

func vE2EMain(t *testing.T, mode string) {
	if os.Getenv("VERIF_GOMAXPROCS") == "" {
		defer runtime.GOMAXPROCS(runtime.GOMAXPROCS(1))
	}
	l := vOpenLog(t)
	defer l.close()
	if ops := vReadOps(t); ops != nil {
		for _, op := range ops {
			if len(op) >= 5 && op[0] == "e2e" && op[1] == "new" && op[2] == mode {
				seed, idx := int(vAtoU32(t, op[3])), int(vAtoU32(t, op[4]))
				vRunScenario(t, l, vGenScenario(mode, seed, idx))
			}
		}
		return
	}
	seed := vEnvInt("VERIF_SEED", 1)
	n := vEnvInt("VERIF_N", 20)
	for i := 0; i < n; i++ {
		sc := vGenScenario(mode, seed, i)
		vRunScenario(t, l, sc)
		l.stat("e2e." + mode)
		if sc.dropPct > 0 {
			l.stat("e2e.faulty")
		}
		if sc.tsn[0] > 0xffff0000 || sc.tsn[1] > 0xffff0000 {
			l.stat("e2e.nearwrap")
		}
		if sc.il[0] && sc.il[1] {
			l.stat("e2e.interleaved")
		}
	}
}

func TestVerifE2ETransfer(t *testing.T) { vE2EMain(t, "transfer") }
func TestVerifE2EPR(t *testing.T)       { vE2EMain(t, "pr") }
func TestVerifE2EShutdown(t *testing.T) { vE2EMain(t, "shutdown") }
func TestVerifE2EAPI(t *testing.T)      { vE2EMain(t, "api") }
