//go:build verif

package sctp

import (
	"fmt"
	"math"
	"testing"
)

// Translator validation: every function the translator turns into a Lean def is evaluated
// by the real Go code on boundary + random inputs; the driver evaluates the generated def.
func TestVerifGenFuncs(t *testing.T) {
	l := vOpenLog(t)
	defer l.close()
	r := &vrand{s: uint64(vEnvInt("VERIF_SEED", 1))*0x51ed27 + 3}
	n := vEnvInt("VERIF_N", 2000)
	l.line("gen new", "")

	b32 := []uint32{0, 1, 2, 1<<31 - 1, 1 << 31, 1<<31 + 1, math.MaxUint32 - 1, math.MaxUint32}
	b16 := []uint16{0, 1, 2, 1<<15 - 1, 1 << 15, 1<<15 + 1, math.MaxUint16 - 1, math.MaxUint16}
	sna32 := func(a, b uint32) {
		l.line(fmt.Sprintf("gen sna32 %d %d", a, b), vb(sna32LT(a, b))+vb(sna32LTE(a, b))+vb(sna32GT(a, b))+vb(sna32GTE(a, b))+vb(sna32EQ(a, b)))
	}
	sna16 := func(a, b uint16) {
		l.line(fmt.Sprintf("gen sna16 %d %d", a, b), vb(sna16LT(a, b))+vb(sna16LTE(a, b))+vb(sna16GT(a, b))+vb(sna16GTE(a, b))+vb(sna16EQ(a, b)))
	}
	for _, a := range b32 {
		for _, b := range b32 {
			sna32(a, b)
			sna32(a+r.u32(), b)
		}
	}
	for _, a := range b16 {
		for _, b := range b16 {
			sna16(a, b)
		}
	}
	if vEnvInt("VERIF_SNA16_ALL", 0) == 1 { // thorough: all 2^32 pairs are checked in Go against the distance characterisation the theorems prove
		bad := 0
		for a := 0; a < 1<<16; a++ {
			for b := 0; b < 1<<16; b++ {
				d := uint16(b - a)
				lt := d > 0 && d < 1<<15
				gt := uint16(a-b) > 0 && uint16(a-b) <= 1<<15
				if sna16LT(uint16(a), uint16(b)) != lt || sna16GT(uint16(a), uint16(b)) != gt ||
					sna16LTE(uint16(a), uint16(b)) != (lt || a == b) || sna16GTE(uint16(a), uint16(b)) != (gt || a == b) {
					bad++
					if bad < 5 {
						sna16(uint16(a), uint16(b))
					}
				}
			}
		}
		l.line("gen sna16all", fmt.Sprintf("%d", bad))
		l.stat("gen.sna16.allpairs")
	}
	for i := 0; i < n; i++ {
		a := r.u32()
		var b uint32
		switch r.n(4) {
		case 0:
			b = r.u32()
		case 1:
			b = a + uint32(r.n(10)) - 5
		case 2:
			b = a + 1<<31 + uint32(r.n(7)) - 3
		default:
			b = a + uint32(r.n(1<<20))
		}
		sna32(a, b)
		a16 := uint16(r.u32())
		b16v := a16 + uint16(r.pick(0, 1, 2, 1<<15-1, 1<<15, 1<<15+1, r.n(65536)))
		sna16(a16, b16v)
		l.line(fmt.Sprintf("gen getPadding %d", i), fmt.Sprintf("%d", getPadding(i)))
		mtu := uint32(r.pick(0, 1, 12, 27, 28, 29, 31, 32, 33, 36, 100, 1200, 1228, 1500, 9000, r.n(70000)))
		l.line(fmt.Sprintf("gen maxPayloadSizeForMTU %d 0", mtu), fmt.Sprintf("%d", maxPayloadSizeForMTU(mtu, false)))
		l.line(fmt.Sprintf("gen maxPayloadSizeForMTU %d 1", mtu), fmt.Sprintf("%d", maxPayloadSizeForMTU(mtu, true)))
		buf := uint32(r.pick(0, 1, 1000, 250000, 1<<20, 5000000, 1<<30, int(r.u32())))
		l.line(fmt.Sprintf("gen getMaxTSNOffset %d", buf), fmt.Sprintf("%d", getMaxTSNOffset(buf)))
		off := uint32(r.pick(0, 1, 63, 64, 65, 128, 129, 2000, 8448, 40000, r.n(1<<20)))
		l.line(fmt.Sprintf("gen tsnBitmaskWords %d", off), fmt.Sprintf("%d", tsnBitmaskWords(off)))
		st := uint32(r.n(10))
		l.line(fmt.Sprintf("gen states %d", st), vb(isDataReceiveState(st))+vb(isShutdownHandleState(st))+vb(entersShutdownReceived(st)))
		x, y := r.u32(), r.u32()
		l.line(fmt.Sprintf("gen minmax %d %d", x, y), fmt.Sprintf("%d %d %d", min16(uint16(x), uint16(y)), max32(x, y), min32(x, y)))
		val := r.u64()
		switch r.n(4) {
		case 0:
			val = 0
		case 1:
			val = ^uint64(0)
		case 2:
			val &= r.u64() & r.u64()
		}
		start := r.n(64)
		nz, ok1 := getFirstNonZeroBit(val, start, 64)
		z, ok2 := getFirstZeroBit(val, start, 64)
		l.line(fmt.Sprintf("gen firstbits %d %d", val, start), fmt.Sprintf("%d %s %d %s", nz, vb(ok1), z, vb(ok2)))
		rto := float64(r.pick(1000, 1500, 3000, 60000, 1, r.n(100000)))
		nr := uint(r.n(40))
		rmax := float64(r.pick(60000, 1000, 120000, r.n(200000)+1))
		l.line(fmt.Sprintf("gen nextTimeout %d %d %d", uint64(rto), nr, uint64(rmax)), fmt.Sprintf("%d", math.Float64bits(calculateNextTimeout(rto, nr, rmax))))
	}
	l.stat("gen.funcs")
}
