//go:build verif

package sctp

import (
	"errors"
	"fmt"
	"strconv"
	"strings"
	"testing"
)

// ---- pendingQueue + the three policies + scheduler factories ---------------------------------
//
// op lines (comp token `pend`):
//   pend new <tok>*                  tok: rr | wfq | w:<sid>:<weight> | fnil | fnilsched | nilopt   (options, in order)
//                                         z:<sid> (white-box: zero weight entry put into the settings map)
//                                         defaults (Config.applyDefaults() after the options, as build*Config does)
//                                    -> ok | <error enum>           (result of WithInterleavingOptions)
//   pend push <id> <si> <U> <B> <E> <len>   -> <nBytes> <nChunks>
//   pend peek                               -> <id>|nil|panic
//   pend pop                                -> <id>|nil <ok|error enum|panic> <nBytes> <nChunks>   (peek, then pop the peeked chunk)
//   pend rawpop <id> <si> <U> <B> <E> <len> -> <ok|error enum|panic> <nBytes> <nChunks>            (misuse)
//   pend popnil                             -> <ok|error enum|panic> <nBytes> <nChunks>            (misuse)
//   pend setil <0|1>                        -> ok | <error enum>
//   pend size / pend nbytes                 -> <n>
//   pend strict                             (no effect on the implementation; see Spec/SchedSpec.lean)
// After a `panic` result the sequence is over (the next line must be `pend new`).

type vPend struct {
	q      *pendingQueue
	l      *vlog
	chunks map[int]*chunkPayloadData
	ids    map[*chunkPayloadData]int
	dead   bool
}

func vPendErr(err error) string {
	switch {
	case err == nil:
		return "ok"
	case errors.Is(err, ErrUnexpectedChunkPoppedUnordered):
		return "eUnord"
	case errors.Is(err, ErrUnexpectedChunkPoppedOrdered):
		return "eOrd"
	case errors.Is(err, ErrUnexpectedChunkPoppedStream):
		return "eStream"
	case errors.Is(err, ErrUnexpectedQState):
		return "eQState"
	case errors.Is(err, ErrPendingQueueModeChangeNonEmpty):
		return "eNonEmpty"
	case errors.Is(err, errNilStreamScheduler):
		return "eNilSched"
	case errors.Is(err, errInvalidStreamSchedulerWeight):
		return "eWeight"
	default:
		return "eOther:" + strings.ReplaceAll(err.Error(), " ", "_")
	}
}

func (h *vPend) chunk(t *testing.T, op []string) *chunkPayloadData {
	t.Helper()
	n := func(i int) int {
		v, err := strconv.Atoi(op[i])
		if err != nil {
			t.Fatalf("pend: bad number %q in %v", op[i], op)
		}
		return v
	}
	id := n(2)
	if c, ok := h.chunks[id]; ok {
		return c
	}
	c := &chunkPayloadData{
		streamIdentifier:  uint16(n(3)),
		unordered:         op[4] == "1",
		beginningFragment: op[5] == "1",
		endingFragment:    op[6] == "1",
	}
	if ln := n(7); ln > 0 {
		c.userData = make([]byte, ln)
	}
	h.chunks[id] = c
	h.ids[c] = id
	return c
}

func (h *vPend) idOf(c *chunkPayloadData) string {
	if c == nil {
		return "nil"
	}
	if id, ok := h.ids[c]; ok {
		return strconv.Itoa(id)
	}
	return "unknown"
}

func (h *vPend) counters() string { return fmt.Sprintf("%d %d", h.q.getNumBytes(), h.q.size()) }

// guard runs f and reports whether it panicked.
func vGuard(f func()) (panicked bool) {
	defer func() {
		if r := recover(); r != nil {
			panicked = true
		}
	}()
	f()
	return false
}

func (h *vPend) exec(t *testing.T, op []string) {
	line := strings.Join(op, " ")
	if op[1] == "strict" { // directive for the predicate only (statement's WFQ bound, no stale-selection allowance)
		h.l.line(line, "")
		return
	}
	if op[1] != "new" && h.dead {
		return // the sequence ended with a panic; nothing more is run on that queue
	}
	if op[1] != "new" && h.q == nil {
		t.Fatalf("pend: op %v before new", op)
	}
	switch op[1] {
	case "new":
		h.chunks = map[int]*chunkPayloadData{}
		h.ids = map[*chunkPayloadData]int{}
		h.dead = false
		var opts []AssociationInterleavingOption
		var zero []uint16
		defaults := false
		for _, tok := range op[2:] {
			switch {
			case tok == "defaults":
				defaults = true
			case tok == "rr":
				opts = append(opts, WithInterleavingRoundRobinScheduler())
			case tok == "wfq":
				opts = append(opts, WithInterleavingWeightedFairQueueingScheduler())
			case tok == "fnil":
				opts = append(opts, WithInterleavingStreamSchedulerFactory(nil))
			case tok == "fnilsched":
				opts = append(opts, WithInterleavingStreamSchedulerFactory(func() InterleavingStreamScheduler { return nil }))
			case tok == "nilopt":
				opts = append(opts, nil)
			case strings.HasPrefix(tok, "w:"):
				p := strings.Split(tok, ":")
				sid, _ := strconv.Atoi(p[1])
				w, _ := strconv.Atoi(p[2])
				opts = append(opts, WithInterleavingWeightedFairQueueingWeight(uint16(sid), uint16(w)))
			case strings.HasPrefix(tok, "z:"):
				sid, _ := strconv.Atoi(tok[2:])
				zero = append(zero, uint16(sid))
			default:
				t.Fatalf("pend new: bad token %q", tok)
			}
		}
		cfg := &Config{}
		var err error
		if len(opts) > 0 {
			err = WithInterleavingOptions(opts...).applyClient(cfg)
		}
		if len(zero) > 0 { // white-box: a zero weight in the settings map (the public option rejects it)
			if cfg.interleaving == nil {
				cfg.interleaving = &interleavingSettings{}
			}
			if cfg.interleaving.wfqWeights == nil {
				cfg.interleaving.wfqWeights = map[uint16]uint16{}
			}
			for _, s := range zero {
				cfg.interleaving.wfqWeights[s] = 0
			}
			setWeightedFairQueueingStreamScheduler(cfg.interleaving)
		}
		if defaults { // what buildClientConfig / buildServerConfig do after the options
			cfg.applyDefaults()
		}
		// as createAssociation does
		interleaving := cfg.interleaving
		if interleaving == nil {
			interleaving = &interleavingSettings{}
			setWeightedFairQueueingStreamScheduler(interleaving)
		}
		h.q = newPendingQueue(interleaving.newStreamScheduler)
		h.l.line(line, vPendErr(err))
	case "push":
		c := h.chunk(t, op)
		h.q.push(c)
		h.l.line(line, h.counters())
	case "peek":
		var c *chunkPayloadData
		if vGuard(func() { c = h.q.peek() }) {
			h.dead = true
			h.l.line(line, "panic")
			return
		}
		h.l.line(line, h.idOf(c))
	case "pop":
		var c *chunkPayloadData
		if vGuard(func() { c = h.q.peek() }) {
			h.dead = true
			h.l.line(line, "nil panic "+h.counters())
			return
		}
		if c == nil {
			h.l.line(line, "nil ok "+h.counters())
			return
		}
		var err error
		if vGuard(func() { err = h.q.pop(c) }) {
			h.dead = true
			h.l.line(line, h.idOf(c)+" panic "+h.counters())
			return
		}
		h.l.line(line, h.idOf(c)+" "+vPendErr(err)+" "+h.counters())
	case "rawpop":
		c := h.chunk(t, op)
		var err error
		if vGuard(func() { err = h.q.pop(c) }) {
			h.dead = true
			h.l.line(line, "panic "+h.counters())
			return
		}
		h.l.line(line, vPendErr(err)+" "+h.counters())
	case "popnil":
		var err error
		if vGuard(func() { err = h.q.pop(nil) }) {
			h.dead = true
			h.l.line(line, "panic "+h.counters())
			return
		}
		h.l.line(line, vPendErr(err)+" "+h.counters())
	case "setil":
		h.l.line(line, vPendErr(h.q.setInterleaving(op[2] == "1")))
	case "size":
		h.l.line(line, strconv.Itoa(h.q.size()))
	case "nbytes":
		h.l.line(line, strconv.Itoa(h.q.getNumBytes()))
	default:
		t.Fatalf("pend: unknown op %v", op)
	}
}

func (h *vPend) do(t *testing.T, f string, a ...any) { h.exec(t, strings.Fields(fmt.Sprintf(f, a...))) }

type vPendGen struct {
	h       *vPend
	r       *vrand
	t       *testing.T
	nextID  int
	sids    []int
	lmax    int
	misuse  bool
	illform bool
	all     [][6]int // every chunk ever pushed in this sequence: id si U B E len
}

func (g *vPendGen) pushChunk(si int, u, b, e bool, ln int) {
	id := g.nextID
	g.nextID++
	bi := func(x bool) int {
		if x {
			return 1
		}
		return 0
	}
	g.all = append(g.all, [6]int{id, si, bi(u), bi(b), bi(e), ln})
	g.h.do(g.t, "pend push %d %d %d %d %d %d", id, si, bi(u), bi(b), bi(e), ln)
	g.h.l.stat("pend.push")
}

// one user message: its fragments are pushed consecutively (what sendPayloadData does under a.lock)
func (g *vPendGen) pushMessage(si int) {
	r := g.r
	u := r.chance(20)
	if r.chance(4) { // stream reset marker: B=E=1, no user data
		g.pushChunk(si, false, true, true, 0)
		g.h.l.stat("pend.msg.resetmarker")
		return
	}
	var nfrag int
	switch x := r.n(100); {
	case x < 50:
		nfrag = 1
	case x < 85:
		nfrag = 2 + r.n(4)
	default:
		nfrag = 6 + r.n(35)
	}
	switch {
	case nfrag == 1:
		g.h.l.stat("pend.msg.frags=1")
	case nfrag <= 5:
		g.h.l.stat("pend.msg.frags=2-5")
	default:
		g.h.l.stat("pend.msg.frags=6-40")
	}
	for i := 0; i < nfrag; i++ {
		ln := g.lmax
		if i == nfrag-1 {
			ln = 1 + r.n(g.lmax)
		}
		b, e := i == 0, i == nfrag-1
		if g.illform && r.chance(10) { // malformed flags (only in sequences marked ill-formed)
			b, e = r.chance(50), r.chance(50)
			g.h.l.stat("pend.msg.badflags")
		}
		g.pushChunk(si, u, b, e, ln)
	}
}

func (g *vPendGen) pickStream() int { return g.sids[g.r.n(len(g.sids))] }

func (g *vPendGen) pop() {
	before := g.h.q.size()
	g.h.do(g.t, "pend pop")
	if g.h.q.size() < before {
		g.h.l.stat("pend.pop.served")
	} else if before == 0 {
		g.h.l.stat("pend.pop.empty")
	} else {
		g.h.l.stat("pend.pop.notserved")
	}
}

func (g *vPendGen) misuseOp() {
	r := g.r
	switch x := r.n(100); {
	case x < 45 && len(g.all) > 0: // pop some chunk that was pushed earlier, without peeking
		c := g.all[r.n(len(g.all))]
		g.h.do(g.t, "pend rawpop %d %d %d %d %d %d", c[0], c[1], c[2], c[3], c[4], c[5])
		g.h.l.stat("pend.misuse.rawpop")
	case x < 60: // pop a chunk that was never pushed
		id := g.nextID
		g.nextID++
		g.h.do(g.t, "pend rawpop %d %d %d 1 1 %d", id, g.pickStream(), r.n(2), 1+r.n(g.lmax))
		g.h.l.stat("pend.misuse.rawpop.unknown")
	case x < 70:
		g.h.do(g.t, "pend popnil")
		g.h.l.stat("pend.misuse.popnil")
	default:
		g.h.do(g.t, "pend setil %d", r.n(2))
		g.h.l.stat("pend.setil.midway")
	}
}

func vPendGenerate(t *testing.T, h *vPend, r *vrand, nseq, nops int) {
	pow2 := []int{1, 1, 2, 4, 8, 16, 64, 256, 1024, 4096, 32768}
	for s := 0; s < nseq; s++ {
		g := &vPendGen{h: h, r: r, t: t}
		g.misuse = r.chance(15)
		g.illform = r.chance(10)
		nstreams := 1 + r.n(8)
		seen := map[int]bool{}
		for len(g.sids) < nstreams {
			var sid int
			switch r.n(6) {
			case 0:
				sid = r.pick(0, 65535, 65534, 1)
			case 1:
				sid = r.n(65536)
			default:
				sid = r.n(12)
			}
			if !seen[sid] {
				seen[sid] = true
				g.sids = append(g.sids, sid)
			}
		}
		g.lmax = r.pick(1, 7, 16, 100, 1024, 1200, 1200, 65535)
		h.l.stat(fmt.Sprintf("pend.streams=%d", nstreams))

		// --- configuration
		mode := r.pick(0, 0, 0, 1, 1, 1, 2, 2, 2, 2) // 0 msg, 1 rr, 2 wfq
		toks := []string{}
		switch mode {
		case 0:
			h.l.stat("pend.mode.msg")
			switch r.n(4) {
			case 0:
				toks = append(toks, "rr")
			case 1:
				toks = append(toks, "wfq")
			}
		case 1:
			h.l.stat("pend.mode.rr")
			if r.chance(20) {
				toks = append(toks, "wfq", fmt.Sprintf("w:%d:%d", g.pickStream(), 1+r.n(9)))
			}
			toks = append(toks, "rr")
		case 2:
			h.l.stat("pend.mode.wfq")
			if r.chance(30) {
				toks = append(toks, "rr")
			}
			if r.chance(40) {
				toks = append(toks, "wfq")
			}
			allPow2 := true
			arbitrary := r.chance(35)
			nw := 0
			for _, sid := range g.sids {
				if r.chance(75) {
					w := pow2[r.n(len(pow2))]
					if arbitrary && r.chance(60) {
						w = 1 + r.n(65535)
						if r.chance(30) {
							w = r.pick(3, 5, 7, 10, 100, 65535)
						}
					}
					if w&(w-1) != 0 {
						allPow2 = false
					}
					toks = append(toks, fmt.Sprintf("w:%d:%d", sid, w))
					nw++
				}
			}
			if nw == 0 && len(toks) > 0 && toks[len(toks)-1] == "rr" {
				toks = append(toks, "wfq")
			}
			if r.chance(8) {
				toks = append(toks, fmt.Sprintf("z:%d", g.pickStream()))
				h.l.stat("pend.cfg.zeroweight")
			}
			if allPow2 {
				h.l.stat("pend.wfq.weights.pow2")
			} else {
				h.l.stat("pend.wfq.weights.arbitrary")
			}
		}
		if r.chance(5) {
			toks = append(toks, "nilopt")
		}
		if r.chance(4) { // configuration error: the whole option list is rejected
			toks = append(toks, []string{"fnil", fmt.Sprintf("w:%d:0", g.pickStream())}[r.n(2)])
			h.l.stat("pend.cfg.error")
		} else if r.chance(3) {
			toks = append(toks, "fnilsched")
			h.l.stat("pend.cfg.nilsched")
		}
		if !r.chance(8) {
			toks = append(toks, "defaults")
		} else {
			h.l.stat("pend.cfg.nodefaults")
		}
		h.do(t, "pend new %s", strings.Join(toks, " "))
		if r.chance(10) { // still non-interleaved here: a redundant call
			h.do(t, "pend setil 0")
		}
		if mode != 0 {
			h.do(t, "pend setil 1")
			if r.chance(5) {
				h.do(t, "pend setil 1")
			}
		}

		// --- body: phases
		for budget := nops; budget > 0 && !h.dead; {
			phase := r.n(100)
			switch {
			case phase < 40: // mixed: pushes of whole messages interleaved with peeks and pops
				h.l.stat("pend.phase.mixed")
				n := 5 + r.n(30)
				for i := 0; i < n && !h.dead; i++ {
					switch x := r.n(100); {
					case x < 40:
						g.pushMessage(g.pickStream())
					case x < 55:
						h.do(t, "pend peek") // cwnd-blocked gather: peek, no pop; pushes may follow
						h.l.stat("pend.peek")
					case x < 92:
						g.pop()
					case x < 96:
						h.do(t, "pend size")
						h.do(t, "pend nbytes")
					default:
						if g.misuse {
							g.misuseOp()
						} else {
							g.pop()
						}
					}
					budget--
				}
			case phase < 80: // backlog: several streams loaded, then a long run of pops
				h.l.stat("pend.phase.backlog")
				k := 1 + r.n(len(g.sids))
				load := g.sids
				if k < len(g.sids) {
					load = g.sids[:k]
				}
				if r.chance(30) {
					h.do(t, "pend peek") // a selection cached before the burst
					h.l.stat("pend.peek.beforeburst")
				}
				for _, sid := range load {
					m := 2 + r.n(10)
					for i := 0; i < m; i++ {
						g.pushMessage(sid)
					}
				}
				np := 10 + r.n(80)
				for i := 0; i < np && !h.dead; i++ {
					g.pop()
					if r.chance(6) { // a late writer joins / continues
						g.pushMessage(g.pickStream())
					}
					if r.chance(4) {
						h.do(t, "pend peek")
						if r.chance(50) {
							g.pushMessage(g.pickStream())
							h.l.stat("pend.push.under.cached.peek")
						}
					}
					budget--
				}
			case phase < 92: // drain
				h.l.stat("pend.phase.drain")
				for i := 0; h.q.size() > 0 && i < 3000 && !h.dead; i++ {
					before := h.q.size()
					g.pop()
					if h.q.size() == before { // stuck (ill-formed message at the head): give up
						break
					}
				}
				if r.chance(30) && !h.dead {
					b := r.n(2)
					h.do(t, "pend setil %d", b)
					h.l.stat("pend.setil.afterdrain")
				}
				budget -= 5
			default:
				if g.misuse && !h.dead {
					g.misuseOp()
				}
				budget--
			}
		}
		if !h.dead {
			h.do(t, "pend size")
			h.do(t, "pend nbytes")
		}
	}
}

func TestVerifPendQ(t *testing.T) {
	l := vOpenLog(t)
	defer l.close()
	h := &vPend{l: l}
	if ops := vReadOps(t); ops != nil {
		for _, op := range ops {
			if op[0] == "pend" {
				if h.dead && op[1] != "new" {
					continue
				}
				h.exec(t, op)
			}
		}
		return
	}
	r := &vrand{s: uint64(vEnvInt("VERIF_SEED", 1))*0x1000193 + 17}
	vPendGenerate(t, h, r, vEnvInt("VERIF_N", 150), vEnvInt("VERIF_OPS", 150))
}
