//go:build verif

package sctp

import (
	"encoding/binary"
	"encoding/hex"
	"errors"
	"fmt"
	"hash/crc32"
	"strconv"
	"strings"
	"testing"
	"time"
)

// ---- wire codec: packet.marshal / packet.unmarshal through the chunk interface ----------------
//
// ops (comp token `codec`), see lean/SctpVerif/Driver/Codec.lean for the struct grammar:
//   codec new
//   codec enc <doChecksum> P …      -> ok <hex> | err <class> | PANIC …
//   codec dec <doChecksum> <hex>    -> ok P … | err <class> | PANIC … | TIMEOUT
//   codec part <doChecksum> <hex>   -> same as dec (one chunk of the last `dec` bundle, alone)
//   codec endparts                  -> <number of parts> | untiled
//   codec reenc <doChecksum> P …    -> same as enc (P = what the last dec returned)
//   codec redec <doChecksum> <hex>  -> same as dec
//   codec out <sendZero> P …        -> Association.marshalPacket
//   codec in <recvZero> <hex>       -> Association.unmarshalPacket
//   codec crc <hex>                 -> hash/crc32 Castagnoli checksum (decimal)

var vCodecSentinels = []struct {
	e error
	n string
}{
	{ErrPacketRawTooSmall, "ErrPacketRawTooSmall"},
	{ErrParseSCTPChunkNotEnoughData, "ErrParseSCTPChunkNotEnoughData"},
	{ErrUnmarshalUnknownChunkType, "ErrUnmarshalUnknownChunkType"},
	{ErrChecksumMismatch, "ErrChecksumMismatch"},
	{ErrChunkHeaderTooSmall, "ErrChunkHeaderTooSmall"},
	{ErrChunkHeaderNotEnoughSpace, "ErrChunkHeaderNotEnoughSpace"},
	{ErrChunkHeaderPaddingNonZero, "ErrChunkHeaderPaddingNonZero"},
	{ErrChunkValueNotLongEnough, "ErrChunkValueNotLongEnough"},
	{ErrChunkTypeInitFlagZero, "ErrChunkTypeInitFlagZero"},
	{ErrChunkTypeInitUnmarshalFailed, "ErrChunkTypeInitUnmarshalFailed"},
	{ErrChunkNotLongEnoughForParams, "ErrChunkNotLongEnoughForParams"},
	{ErrChunkTypeInitAckFlagZero, "ErrChunkTypeInitAckFlagZero"},
	{ErrInitAckUnmarshalFailed, "ErrInitAckUnmarshalFailed"},
	{ErrInitChunkParseParamTypeFailed, "ErrInitChunkParseParamTypeFailed"},
	{ErrSackSizeNotLargeEnoughInfo, "ErrSackSizeNotLargeEnoughInfo"},
	{ErrSackSizeNotMatchPredicted, "ErrSackSizeNotMatchPredicted"},
	{ErrHeartbeatNotLongEnoughInfo, "ErrHeartbeatNotLongEnoughInfo"},
	{ErrParseParamTypeFailed, "ErrParseParamTypeFailed"},
	{ErrHeartbeatParam, "ErrHeartbeatParam"},
	{ErrHeartbeatChunkUnmarshal, "ErrHeartbeatChunkUnmarshal"},
	{ErrHeartbeatExtraNonZero, "ErrHeartbeatExtraNonZero"},
	{ErrHeartbeatMarshalNoInfo, "ErrHeartbeatMarshalNoInfo"},
	{ErrHeartbeatAckParams, "ErrHeartbeatAckParams"},
	{ErrHeartbeatAckNotHeartbeatInfo, "ErrHeartbeatAckNotHeartbeatInfo"},
	{ErrHeartbeatAckMarshalParam, "ErrHeartbeatAckMarshalParam"},
	{ErrBuildAbortChunkFailed, "ErrBuildAbortChunkFailed"},
	{ErrBuildErrorChunkFailed, "ErrBuildErrorChunkFailed"},
	{ErrInvalidSCTPChunk, "ErrInvalidSCTPChunk"},
	{ErrInvalidChunkSize, "ErrInvalidChunkSize"},
	{ErrChunkParseParamTypeFailed, "ErrChunkParseParamTypeFailed"},
	{ErrParamTypeUnhandled, "ErrParamTypeUnhandled"},
	{ErrParamHeaderTooShort, "ErrParamHeaderTooShort"},
	{ErrParamHeaderSelfReportedLengthShorter, "ErrParamHeaderSelfReportedLengthShorter"},
	{ErrParamHeaderSelfReportedLengthLonger, "ErrParamHeaderSelfReportedLengthLonger"},
	{ErrSSNResetRequestParamTooShort, "ErrSSNResetRequestParamTooShort"},
	{ErrReconfigRespParamTooShort, "ErrReconfigRespParamTooShort"},
	{ErrZeroChecksumParamTooShort, "ErrZeroChecksumParamTooShort"},
	{ErrInvalidChunkLength, "ErrInvalidChunkLength"},
	{ErrInvalidAlgorithmType, "ErrInvalidAlgorithmType"},
	{ErrMarshalStreamFailed, "ErrMarshalStreamFailed"}, // before the i-forward-tsn errors it is joined with
	{ErrChunkTooShort, "ErrChunkTooShort"},
	{errIForwardTSNChunkTooShort, "errIForwardTSNChunkTooShort"},
	{errIForwardTSNTooManyStreams, "errIForwardTSNTooManyStreams"},
	{ErrChunkPayloadSmall, "ErrChunkPayloadSmall"},
}

func vCodecErrClass(err error) string {
	for _, s := range vCodecSentinels {
		if errors.Is(err, s.e) {
			return s.n
		}
	}
	return "other:" + strings.ReplaceAll(err.Error(), " ", "_")
}

func vHex(b []byte) string {
	if len(b) == 0 {
		return "-"
	}
	return hex.EncodeToString(b)
}

// ---- dump ------------------------------------------------------------------------------------

type vToks struct{ t []string }

func (w *vToks) s(x ...string) { w.t = append(w.t, x...) }
func (w *vToks) u(x ...uint64) {
	for _, v := range x {
		w.t = append(w.t, strconv.FormatUint(v, 10))
	}
}

func vDumpParam(w *vToks, p param) {
	switch v := p.(type) {
	case *paramHeartbeatInfo:
		w.s("hbinfo", vHex(v.heartbeatInformation))
	case *paramStateCookie:
		w.s("cookie", vHex(v.cookie))
	case *paramOutgoingResetRequest:
		w.s("outreset")
		w.u(uint64(v.reconfigRequestSequenceNumber), uint64(v.reconfigResponseSequenceNumber), uint64(v.senderLastTSN), uint64(len(v.streamIdentifiers)))
		for _, s := range v.streamIdentifiers {
			w.u(uint64(s))
		}
	case *paramReconfigResponse:
		w.s("reconfresp")
		w.u(uint64(v.reconfigResponseSequenceNumber), uint64(v.result))
	case *paramECNCapable:
		w.s("ecn")
	case *paramZeroChecksumAcceptable:
		w.s("zerock")
		w.u(uint64(v.edmid))
	case *paramRandom:
		w.s("random", vHex(v.randomData))
	case *paramChunkList:
		b := make([]byte, len(v.chunkTypes))
		for i, c := range v.chunkTypes {
			b[i] = byte(c)
		}
		w.s("chunklist", vHex(b))
	case *paramRequestedHMACAlgorithm:
		w.s("hmac")
		w.u(uint64(len(v.availableAlgorithms)))
		for _, a := range v.availableAlgorithms {
			w.u(uint64(a))
		}
	case *paramSupportedExtensions:
		b := make([]byte, len(v.ChunkTypes))
		for i, c := range v.ChunkTypes {
			b[i] = byte(c)
		}
		w.s("supext", vHex(b))
	case *paramForwardTSNSupported:
		w.s("fwdtsn")
	default:
		w.s(fmt.Sprintf("UNKNOWN-PARAM-%T", p))
	}
}

func vDumpCause(w *vToks, c errorCause) {
	switch v := c.(type) {
	case *errorCauseHeader:
		w.s("hdr")
		w.u(uint64(v.code))
		w.s(vHex(v.raw))
	case *errorCauseInvalidMandatoryParameter:
		w.s("invparam")
		w.u(uint64(v.code))
		w.s(vHex(v.raw))
	case *errorCauseUnrecognizedChunkType:
		w.s("unrecchunk")
		w.u(uint64(v.code))
		w.s(vHex(v.unrecognizedChunk))
	case *errorCauseProtocolViolation:
		w.s("pviol")
		w.u(uint64(v.code))
		w.s(vHex(v.additionalInformation))
	case *errorCauseUserInitiatedAbort:
		w.s("uabort")
		w.u(uint64(v.code))
		w.s(vHex(v.upperLayerAbortReason))
	default:
		w.s(fmt.Sprintf("UNKNOWN-CAUSE-%T", c))
	}
}

func vDumpInit(w *vToks, flags byte, c *chunkInitCommon) {
	w.u(uint64(flags), uint64(c.initiateTag), uint64(c.advertisedReceiverWindowCredit), uint64(c.numOutboundStreams),
		uint64(c.numInboundStreams), uint64(c.initialTSN), uint64(len(c.params)))
	for _, p := range c.params {
		vDumpParam(w, p)
	}
	w.u(uint64(len(c.unrecognizedParams)))
	for _, u := range c.unrecognizedParams {
		w.u(uint64(u.typ))
		w.s(vHex(u.raw))
	}
}

func vDumpChunk(w *vToks, c chunk) {
	switch v := c.(type) {
	case *chunkPayloadData:
		w.s("DATA", vb(v.iData), vb(v.unordered)+vb(v.beginningFragment)+vb(v.endingFragment)+vb(v.immediateSack))
		w.u(uint64(v.tsn), uint64(v.streamIdentifier), uint64(v.streamSequenceNumber), uint64(v.messageIdentifier),
			uint64(v.fragmentSequenceNumber), uint64(v.payloadType))
		w.s(vHex(v.userData))
	case *chunkInit:
		w.s("INIT")
		vDumpInit(w, v.flags, &v.chunkInitCommon)
	case *chunkInitAck:
		w.s("INITACK")
		vDumpInit(w, v.flags, &v.chunkInitCommon)
	case *chunkSelectiveAck:
		w.s("SACK")
		w.u(uint64(v.flags), uint64(v.cumulativeTSNAck), uint64(v.advertisedReceiverWindowCredit), uint64(len(v.gapAckBlocks)))
		for _, g := range v.gapAckBlocks {
			w.u(uint64(g.start), uint64(g.end))
		}
		w.u(uint64(len(v.duplicateTSN)))
		for _, d := range v.duplicateTSN {
			w.u(uint64(d))
		}
	case *chunkHeartbeat:
		w.s("HB")
		w.u(uint64(len(v.params)))
		if len(v.params) == 0 {
			w.u(uint64(v.typ), uint64(v.flags))
			w.s(vHex(v.raw))
		}
		for _, p := range v.params {
			vDumpParam(w, p)
		}
	case *chunkHeartbeatAck:
		w.s("HBACK")
		w.u(uint64(v.flags), uint64(len(v.params)))
		for _, p := range v.params {
			vDumpParam(w, p)
		}
	case *chunkAbort:
		w.s("ABORT")
		w.u(uint64(len(v.errorCauses)))
		for _, e := range v.errorCauses {
			vDumpCause(w, e)
		}
	case *chunkError:
		w.s("ERROR")
		w.u(uint64(len(v.errorCauses)))
		for _, e := range v.errorCauses {
			vDumpCause(w, e)
		}
	case *chunkShutdown:
		w.s("SHUTDOWN")
		w.u(uint64(v.flags), uint64(v.cumulativeTSNAck))
	case *chunkShutdownAck:
		w.s("SHUTDOWNACK")
		w.u(uint64(v.flags))
		w.s(vHex(v.raw))
	case *chunkShutdownComplete:
		w.s("SHUTDOWNCOMPLETE")
		w.u(uint64(v.flags))
		w.s(vHex(v.raw))
	case *chunkCookieEcho:
		w.s("COOKIEECHO")
		w.u(uint64(v.flags))
		w.s(vHex(v.cookie))
	case *chunkCookieAck:
		w.s("COOKIEACK")
		w.u(uint64(v.flags))
		w.s(vHex(v.raw))
	case *chunkReconfig:
		w.s("RECONFIG")
		n := 1
		if v.paramB != nil {
			n = 2
		}
		w.u(uint64(v.flags), uint64(n))
		vDumpParam(w, v.paramA)
		if v.paramB != nil {
			vDumpParam(w, v.paramB)
		}
	case *chunkForwardTSN:
		w.s("FWDTSN")
		w.u(uint64(v.flags), uint64(v.newCumulativeTSN), uint64(len(v.streams)))
		for _, s := range v.streams {
			w.u(uint64(s.identifier), uint64(s.sequence))
		}
	case *chunkIForwardTSN:
		w.s("IFWDTSN")
		w.u(uint64(v.flags), uint64(v.newCumulativeTSN), uint64(len(v.streams)))
		for _, s := range v.streams {
			w.u(uint64(s.identifier))
			w.s(vb(s.unordered))
			w.u(uint64(s.messageIdentifier))
		}
	default:
		w.s(fmt.Sprintf("UNKNOWN-CHUNK-%T", c))
	}
}

func vDumpPacket(p *packet) string {
	w := &vToks{}
	w.s("P")
	w.u(uint64(p.sourcePort), uint64(p.destinationPort), uint64(p.verificationTag), uint64(len(p.chunks)))
	for _, c := range p.chunks {
		vDumpChunk(w, c)
	}
	return strings.Join(w.t, " ")
}

// ---- parse -----------------------------------------------------------------------------------

type vRd struct {
	t []string
	i int
}

func (r *vRd) tok() string {
	if r.i >= len(r.t) {
		panic("struct: out of tokens")
	}
	r.i++
	return r.t[r.i-1]
}
func (r *vRd) u(bits int) uint64 {
	v, err := strconv.ParseUint(r.tok(), 10, bits)
	if err != nil {
		panic("struct: bad number: " + err.Error())
	}
	return v
}
func (r *vRd) n() int { return int(r.u(31)) }
func (r *vRd) b() bool { return r.tok() == "1" }
func (r *vRd) hex() []byte {
	s := r.tok()
	if s == "-" {
		return []byte{}
	}
	b, err := hex.DecodeString(s)
	if err != nil {
		panic("struct: bad hex")
	}
	return b
}

func vParseParam(r *vRd) param {
	switch k := r.tok(); k {
	case "hbinfo":
		return &paramHeartbeatInfo{heartbeatInformation: r.hex()}
	case "cookie":
		return &paramStateCookie{cookie: r.hex()}
	case "outreset":
		p := &paramOutgoingResetRequest{reconfigRequestSequenceNumber: uint32(r.u(32)), reconfigResponseSequenceNumber: uint32(r.u(32)), senderLastTSN: uint32(r.u(32))}
		n := r.n()
		p.streamIdentifiers = make([]uint16, n)
		for i := range p.streamIdentifiers {
			p.streamIdentifiers[i] = uint16(r.u(16))
		}
		return p
	case "reconfresp":
		return &paramReconfigResponse{reconfigResponseSequenceNumber: uint32(r.u(32)), result: reconfigResult(r.u(32))}
	case "ecn":
		return &paramECNCapable{}
	case "zerock":
		return &paramZeroChecksumAcceptable{edmid: uint32(r.u(32))}
	case "random":
		return &paramRandom{randomData: r.hex()}
	case "chunklist":
		p := &paramChunkList{}
		for _, b := range r.hex() {
			p.chunkTypes = append(p.chunkTypes, chunkType(b))
		}
		return p
	case "hmac":
		p := &paramRequestedHMACAlgorithm{}
		n := r.n()
		for i := 0; i < n; i++ {
			p.availableAlgorithms = append(p.availableAlgorithms, hmacAlgorithm(r.u(16)))
		}
		return p
	case "supext":
		p := &paramSupportedExtensions{}
		for _, b := range r.hex() {
			p.ChunkTypes = append(p.ChunkTypes, chunkType(b))
		}
		return p
	case "fwdtsn":
		return &paramForwardTSNSupported{}
	default:
		panic("struct: unknown param " + k)
	}
}

func vParseCause(r *vRd) errorCause {
	k := r.tok()
	code := errorCauseCode(r.u(16))
	d := r.hex()
	switch k {
	case "hdr":
		return &errorCauseHeader{code: code, raw: d}
	case "invparam":
		return &errorCauseInvalidMandatoryParameter{errorCauseHeader{code: code, raw: d}}
	case "unrecchunk":
		return &errorCauseUnrecognizedChunkType{errorCauseHeader: errorCauseHeader{code: code}, unrecognizedChunk: d}
	case "pviol":
		return &errorCauseProtocolViolation{errorCauseHeader: errorCauseHeader{code: code}, additionalInformation: d}
	case "uabort":
		return &errorCauseUserInitiatedAbort{errorCauseHeader: errorCauseHeader{code: code}, upperLayerAbortReason: d}
	default:
		panic("struct: unknown cause " + k)
	}
}

func vParseInit(r *vRd) (byte, chunkInitCommon) {
	flags := byte(r.u(8))
	c := chunkInitCommon{initiateTag: uint32(r.u(32)), advertisedReceiverWindowCredit: uint32(r.u(32)),
		numOutboundStreams: uint16(r.u(16)), numInboundStreams: uint16(r.u(16)), initialTSN: uint32(r.u(32))}
	np := r.n()
	for i := 0; i < np; i++ {
		c.params = append(c.params, vParseParam(r))
	}
	nu := r.n()
	for i := 0; i < nu; i++ {
		typ := paramType(r.u(16))
		raw := r.hex()
		c.unrecognizedParams = append(c.unrecognizedParams, paramHeader{typ: typ, raw: raw, len: 4 + len(raw),
			unrecognizedAction: paramHeaderUnrecognizedAction(byte(typ>>8) & paramHeaderUnrecognizedActionMask)})
	}
	return flags, c
}

func vParseChunk(r *vRd) chunk {
	switch k := r.tok(); k {
	case "DATA":
		c := &chunkPayloadData{iData: r.b()}
		f := r.tok()
		c.unordered, c.beginningFragment, c.endingFragment, c.immediateSack = f[0] == '1', f[1] == '1', f[2] == '1', f[3] == '1'
		c.tsn, c.streamIdentifier, c.streamSequenceNumber = uint32(r.u(32)), uint16(r.u(16)), uint16(r.u(16))
		c.messageIdentifier, c.fragmentSequenceNumber, c.payloadType = uint32(r.u(32)), uint32(r.u(32)), PayloadProtocolIdentifier(r.u(32))
		c.userData = r.hex()
		return c
	case "INIT":
		c := &chunkInit{}
		c.flags, c.chunkInitCommon = vParseInit(r)
		return c
	case "INITACK":
		c := &chunkInitAck{}
		c.flags, c.chunkInitCommon = vParseInit(r)
		return c
	case "SACK":
		c := &chunkSelectiveAck{}
		c.flags, c.cumulativeTSNAck, c.advertisedReceiverWindowCredit = byte(r.u(8)), uint32(r.u(32)), uint32(r.u(32))
		ng := r.n()
		for i := 0; i < ng; i++ {
			c.gapAckBlocks = append(c.gapAckBlocks, gapAckBlock{start: uint16(r.u(16)), end: uint16(r.u(16))})
		}
		nd := r.n()
		for i := 0; i < nd; i++ {
			c.duplicateTSN = append(c.duplicateTSN, uint32(r.u(32)))
		}
		return c
	case "HB":
		c := &chunkHeartbeat{}
		n := r.n()
		if n == 0 {
			c.typ, c.flags, c.raw = chunkType(r.u(8)), byte(r.u(8)), r.hex()
		}
		for i := 0; i < n; i++ {
			c.params = append(c.params, vParseParam(r))
		}
		return c
	case "HBACK":
		c := &chunkHeartbeatAck{}
		c.flags = byte(r.u(8))
		n := r.n()
		for i := 0; i < n; i++ {
			c.params = append(c.params, vParseParam(r))
		}
		return c
	case "ABORT":
		c := &chunkAbort{}
		n := r.n()
		for i := 0; i < n; i++ {
			c.errorCauses = append(c.errorCauses, vParseCause(r))
		}
		return c
	case "ERROR":
		c := &chunkError{}
		n := r.n()
		for i := 0; i < n; i++ {
			c.errorCauses = append(c.errorCauses, vParseCause(r))
		}
		return c
	case "SHUTDOWN":
		c := &chunkShutdown{}
		c.flags, c.cumulativeTSNAck = byte(r.u(8)), uint32(r.u(32))
		return c
	case "SHUTDOWNACK":
		c := &chunkShutdownAck{}
		c.flags, c.raw = byte(r.u(8)), r.hex()
		return c
	case "SHUTDOWNCOMPLETE":
		c := &chunkShutdownComplete{}
		c.flags, c.raw = byte(r.u(8)), r.hex()
		return c
	case "COOKIEECHO":
		c := &chunkCookieEcho{}
		c.flags, c.cookie = byte(r.u(8)), r.hex()
		return c
	case "COOKIEACK":
		c := &chunkCookieAck{}
		c.flags, c.raw = byte(r.u(8)), r.hex()
		return c
	case "RECONFIG":
		c := &chunkReconfig{}
		c.flags = byte(r.u(8))
		n := r.n()
		c.paramA = vParseParam(r)
		if n == 2 {
			c.paramB = vParseParam(r)
		}
		return c
	case "FWDTSN":
		c := &chunkForwardTSN{}
		c.flags, c.newCumulativeTSN = byte(r.u(8)), uint32(r.u(32))
		n := r.n()
		for i := 0; i < n; i++ {
			c.streams = append(c.streams, chunkForwardTSNStream{identifier: uint16(r.u(16)), sequence: uint16(r.u(16))})
		}
		return c
	case "IFWDTSN":
		c := &chunkIForwardTSN{}
		c.flags, c.newCumulativeTSN = byte(r.u(8)), uint32(r.u(32))
		n := r.n()
		for i := 0; i < n; i++ {
			c.streams = append(c.streams, chunkIForwardTSNStream{identifier: uint16(r.u(16)), unordered: r.b(), messageIdentifier: uint32(r.u(32))})
		}
		return c
	default:
		panic("struct: unknown chunk " + k)
	}
}

func vParsePacket(toks []string) *packet {
	r := &vRd{t: toks}
	if r.tok() != "P" {
		panic("struct: no P")
	}
	p := &packet{sourcePort: uint16(r.u(16)), destinationPort: uint16(r.u(16)), verificationTag: uint32(r.u(32))}
	n := r.n()
	for i := 0; i < n; i++ {
		p.chunks = append(p.chunks, vParseChunk(r))
	}
	if r.i != len(r.t) {
		panic("struct: trailing tokens")
	}
	return p
}

// ---- guarded execution ------------------------------------------------------------------------

var vLastPanic string

// vCdcGuard runs f on its own goroutine under recover() and a time box.
func vCdcGuard(f func() string) string {
	ch := make(chan string, 1)
	go func() {
		defer func() {
			if r := recover(); r != nil {
				vLastPanic = fmt.Sprint(r)
				ch <- "PANIC"
			}
		}()
		ch <- f()
	}()
	select {
	case s := <-ch:
		return s
	case <-time.After(10 * time.Second):
		return "TIMEOUT"
	}
}

type vCodec struct {
	l        *vlog
	t        *testing.T
	lastOK   *packet // the packet object the last dec/redec returned (nil if rejected)
	lastHex  string  // result hex of the last enc/reenc ("" if it failed)
	lastDump string
	lastRaw  []byte // bytes of the last `dec`
}

func (h *vCodec) marshalRes(f func() ([]byte, error)) string {
	return vCdcGuard(func() string {
		b, err := f()
		if err != nil {
			return "err " + vCodecErrClass(err)
		}
		return "ok " + vHex(b)
	})
}

func (h *vCodec) unmarshalRes(keep bool, f func() (*packet, error)) string {
	if keep {
		h.lastOK = nil
	}
	var got *packet
	res := vCdcGuard(func() string {
		p, err := f()
		if err != nil {
			return "err " + vCodecErrClass(err)
		}
		got = p
		return "ok " + vDumpPacket(p)
	})
	if strings.HasPrefix(res, "ok ") {
		dump := res[3:]
		if keep {
			h.lastOK = got
			h.lastDump = dump
		}
		// self-check of the canonical dump: re-marshalling the decoded OBJECT and marshalling a fresh
		// struct parsed from its dump must give the same bytes (the dump shows all that marshal reads)
		b1, e1 := got.marshal(true)
		b2, e2 := vParsePacket(strings.Fields(dump)).marshal(true)
		if (e1 == nil) != (e2 == nil) || string(b1) != string(b2) {
			h.t.Errorf("VERIF-FAIL codec: dump incomplete for %s", dump)
		}
	}
	if res == "PANIC" {
		h.l.line("#panic "+vLastPanic, "")
	}
	cls := res
	if i := strings.IndexByte(res, ' '); i > 0 && !strings.HasPrefix(res, "err ") {
		cls = res[:i]
	}
	h.l.stat("codec.dec." + strings.ReplaceAll(cls, " ", "."))
	return res
}

func (h *vCodec) exec(op []string) {
	line := strings.Join(op, " ")
	switch op[1] {
	case "new":
		h.l.line(line, "")
	case "enc", "reenc":
		p := vParsePacket(op[3:])
		res := h.marshalRes(func() ([]byte, error) { return p.marshal(op[2] == "1") })
		h.lastHex = ""
		if strings.HasPrefix(res, "ok ") {
			h.lastHex = res[3:]
		} else {
			h.l.stat("codec.enc." + strings.ReplaceAll(res, " ", "."))
			if res == "PANIC" {
				h.l.line("#panic "+vLastPanic, "")
			}
		}
		h.l.line(line, res)
	case "dec", "redec", "part":
		raw, err := hex.DecodeString(strings.TrimPrefix(op[3], "-"))
		if err != nil {
			h.t.Fatalf("codec: bad hex in %v", op[:3])
		}
		if op[1] == "dec" {
			h.lastRaw = raw
		}
		h.l.line(line, h.unmarshalRes(op[1] != "part", func() (*packet, error) {
			p := &packet{}
			return p, p.unmarshal(op[2] == "1", raw)
		}))
	case "endparts":
		if parts, _, ok := vSplitChunks(h.lastRaw); ok {
			h.l.line(line, strconv.Itoa(len(parts)))
		} else {
			h.l.line(line, "untiled")
		}
	case "out":
		p := vParsePacket(op[3:])
		a := &Association{sendZeroChecksum: op[2] == "1"}
		h.l.line(line, h.marshalRes(func() ([]byte, error) { return a.marshalPacket(p) }))
	case "in":
		raw, err := hex.DecodeString(strings.TrimPrefix(op[3], "-"))
		if err != nil {
			h.t.Fatalf("codec: bad hex in %v", op[:3])
		}
		a := &Association{recvZeroChecksum: op[2] == "1"}
		h.l.line(line, h.unmarshalRes(false, func() (*packet, error) { return a.unmarshalPacket(raw) }))
	case "crc":
		raw, _ := hex.DecodeString(strings.TrimPrefix(op[2], "-"))
		h.l.line(line, strconv.FormatUint(uint64(crc32.Checksum(raw, crc32.MakeTable(crc32.Castagnoli))), 10))
	default:
		h.t.Fatalf("codec: unknown op %v", op[:2])
	}
}

func (h *vCodec) do(f string, a ...any) { h.exec(strings.Fields(fmt.Sprintf(f, a...))) }

// vSplitChunks tiles raw[12:] by the chunk length fields (the harness's own framing walk, no code
// under test): chunk bytes, and whether every padding is complete and zero.
func vSplitChunks(raw []byte) (parts [][]byte, clean bool, ok bool) {
	if len(raw) < 12 {
		return nil, false, false
	}
	clean = true
	off := 12
	for off < len(raw) {
		if off+4 > len(raw) {
			return nil, false, false
		}
		l := int(binary.BigEndian.Uint16(raw[off+2:]))
		if l < 4 || off+l > len(raw) {
			return nil, false, false
		}
		parts = append(parts, raw[off:off+l])
		pad := (4 - l%4) % 4
		end := off + l + pad
		if end > len(raw) { // final padding missing or partial
			clean = false
			end = len(raw)
		}
		for _, b := range raw[off+l : end] {
			if b != 0 {
				clean = false
			}
		}
		off = end
	}
	return parts, clean, true
}

func vFixCRC(raw []byte) {
	if len(raw) >= 12 {
		binary.LittleEndian.PutUint32(raw[8:], 0)
		binary.LittleEndian.PutUint32(raw[8:], crc32.Checksum(raw, crc32.MakeTable(crc32.Castagnoli)))
	}
}

// ---- generator --------------------------------------------------------------------------------

type vCG struct {
	r *vrand
	l *vlog
}

func (g *vCG) bytes(n int) []byte {
	b := make([]byte, n)
	for i := range b {
		b[i] = byte(g.r.u64())
	}
	return b
}

// boundary-biased length of a variable field
func (g *vCG) blen() int {
	switch x := g.r.n(100); {
	case x < 12:
		return 0
	case x < 50:
		return g.r.pick(1, 2, 3, 4, 5, 6, 7, 8, 9, 11, 12, 13, 15, 16, 17)
	case x < 85:
		return g.r.n(64)
	case x < 97:
		return g.r.n(1300)
	default:
		return g.r.n(5000)
	}
}
func (g *vCG) u32() uint32 {
	switch g.r.n(8) {
	case 0:
		return 0
	case 1:
		return 1
	case 2:
		return 1<<31 - 1 + uint32(g.r.n(3))
	case 3:
		return ^uint32(0) - uint32(g.r.n(3))
	default:
		return g.r.u32()
	}
}
func (g *vCG) u16() uint16 {
	switch g.r.n(8) {
	case 0:
		return 0
	case 1:
		return 1
	case 2:
		return 1<<15 - 1 + uint16(g.r.n(3))
	case 3:
		return ^uint16(0) - uint16(g.r.n(3))
	default:
		return uint16(g.r.u32())
	}
}
func (g *vCG) flags(p int) byte {
	if g.r.chance(p) {
		return byte(g.r.u64())
	}
	return 0
}

var vParamKinds = []string{"hbinfo", "cookie", "outreset", "reconfresp", "ecn", "zerock", "random", "chunklist", "hmac", "supext", "fwdtsn"}

func (g *vCG) param(kind int) param {
	g.l.stat("codec.param." + vParamKinds[kind])
	switch kind {
	case 0:
		return &paramHeartbeatInfo{heartbeatInformation: g.bytes(g.blen())}
	case 1:
		return &paramStateCookie{cookie: g.bytes(g.blen())}
	case 2:
		p := &paramOutgoingResetRequest{reconfigRequestSequenceNumber: g.u32(), reconfigResponseSequenceNumber: g.u32(), senderLastTSN: g.u32()}
		for i, n := 0, g.r.pick(0, 0, 1, 2, 3, g.r.n(40)); i < n; i++ {
			p.streamIdentifiers = append(p.streamIdentifiers, g.u16())
		}
		return p
	case 3:
		return &paramReconfigResponse{reconfigResponseSequenceNumber: g.u32(), result: reconfigResult(g.r.pick(0, 1, 2, 3, 4, 5, 6, 7, int(g.r.u32()>>1)))}
	case 4:
		return &paramECNCapable{}
	case 5:
		return &paramZeroChecksumAcceptable{edmid: uint32(g.r.pick(1, 1, 0, 2, int(g.r.u32()>>1)))}
	case 6:
		return &paramRandom{randomData: g.bytes(g.blen())}
	case 7:
		p := &paramChunkList{}
		for _, b := range g.bytes(g.r.n(9)) {
			p.chunkTypes = append(p.chunkTypes, chunkType(b))
		}
		return p
	case 8:
		p := &paramRequestedHMACAlgorithm{}
		for i, n := 0, g.r.n(4); i < n; i++ {
			a := hmacAlgorithm(g.r.pick(1, 3))
			if g.r.chance(4) {
				a = hmacAlgorithm(g.r.pick(0, 2, 4, 65535))
			}
			p.availableAlgorithms = append(p.availableAlgorithms, a)
		}
		return p
	case 9:
		p := &paramSupportedExtensions{}
		for _, b := range g.bytes(g.r.n(7)) {
			p.ChunkTypes = append(p.ChunkTypes, chunkType(b))
		}
		return p
	default:
		return &paramForwardTSNSupported{}
	}
}

var vCauseKinds = []string{"hdr", "invparam", "unrecchunk", "pviol", "uabort"}

func (g *vCG) cause() errorCause {
	kind := g.r.n(5)
	g.l.stat("codec.cause." + vCauseKinds[kind])
	d := g.bytes(g.blen())
	odd := g.r.chance(5) // kind / code mismatch
	switch kind {
	case 0:
		code := errorCauseCode(g.r.pick(1, 2, 3, 4, 5, 8, 9, 10, 11, 14, 0, 65535, int(g.u16())))
		return &errorCauseHeader{code: code, raw: d}
	case 1:
		code := invalidMandatoryParameter
		if odd {
			code = errorCauseCode(g.u16())
		}
		return &errorCauseInvalidMandatoryParameter{errorCauseHeader{code: code, raw: d}}
	case 2:
		code := unrecognizedChunkType
		if odd {
			code = errorCauseCode(g.u16())
		}
		return &errorCauseUnrecognizedChunkType{errorCauseHeader: errorCauseHeader{code: code}, unrecognizedChunk: d}
	case 3:
		code := protocolViolation
		if odd {
			code = errorCauseCode(g.u16())
		}
		return &errorCauseProtocolViolation{errorCauseHeader: errorCauseHeader{code: code}, additionalInformation: d}
	default:
		code := userInitiatedAbort
		if odd {
			code = errorCauseCode(g.u16())
		}
		return &errorCauseUserInitiatedAbort{errorCauseHeader: errorCauseHeader{code: code}, upperLayerAbortReason: d}
	}
}

func (g *vCG) initCommon() chunkInitCommon {
	c := chunkInitCommon{initiateTag: g.u32(), advertisedReceiverWindowCredit: g.u32(), numOutboundStreams: g.u16(), numInboundStreams: g.u16(), initialTSN: g.u32()}
	switch g.r.n(4) {
	case 0: // what pion emits
		c.params = append(c.params, g.param(1))
		if g.r.chance(50) {
			c.params = append(c.params, g.param(5))
		}
		c.params = append(c.params, g.param(9))
	case 1:
	default:
		for i, n := 0, g.r.n(6); i < n; i++ {
			c.params = append(c.params, g.param(g.r.n(11)))
		}
	}
	return c
}

var vChunkKinds = []string{"DATA", "IDATA", "INIT", "INITACK", "SACK", "HB", "HBACK", "ABORT", "SHUTDOWN", "SHUTDOWNACK", "ERROR",
	"COOKIEECHO", "COOKIEACK", "SHUTDOWNCOMPLETE", "RECONFIG", "FWDTSN", "IFWDTSN"}

func (g *vCG) chunk(kind int) chunk {
	g.l.stat("codec.chunk." + vChunkKinds[kind])
	wf := !g.r.chance(12) // mostly well formed
	switch kind {
	case 0:
		c := &chunkPayloadData{unordered: g.r.chance(30), beginningFragment: g.r.chance(60), endingFragment: g.r.chance(60), immediateSack: g.r.chance(20),
			tsn: g.u32(), streamIdentifier: g.u16(), streamSequenceNumber: g.u16(), payloadType: PayloadProtocolIdentifier(g.r.pick(0, 50, 51, 53, 56, 57, int(g.u32()>>1))), userData: g.bytes(g.blen())}
		if !wf {
			c.messageIdentifier, c.fragmentSequenceNumber = g.u32(), g.u32()
		}
		return c
	case 1:
		c := &chunkPayloadData{iData: true, unordered: g.r.chance(30), beginningFragment: g.r.chance(60), endingFragment: g.r.chance(60), immediateSack: g.r.chance(20),
			tsn: g.u32(), streamIdentifier: g.u16(), messageIdentifier: g.u32(), userData: g.bytes(g.blen())}
		c.streamSequenceNumber = uint16(c.messageIdentifier)
		if c.beginningFragment {
			c.payloadType = PayloadProtocolIdentifier(g.u32())
		} else {
			c.fragmentSequenceNumber = g.u32()
		}
		if !wf {
			c.streamSequenceNumber, c.fragmentSequenceNumber, c.payloadType = g.u16(), g.u32(), PayloadProtocolIdentifier(g.u32())
		}
		return c
	case 2:
		c := &chunkInit{chunkInitCommon: g.initCommon()}
		c.flags = g.flags(3)
		return c
	case 3:
		c := &chunkInitAck{chunkInitCommon: g.initCommon()}
		c.flags = g.flags(3)
		return c
	case 4:
		c := &chunkSelectiveAck{cumulativeTSNAck: g.u32(), advertisedReceiverWindowCredit: g.u32()}
		c.flags = g.flags(10)
		for i, n := 0, g.r.pick(0, 0, 1, 2, 3, g.r.n(30)); i < n; i++ {
			c.gapAckBlocks = append(c.gapAckBlocks, gapAckBlock{start: g.u16(), end: g.u16()})
		}
		for i, n := 0, g.r.pick(0, 0, 0, 1, 2, g.r.n(30)); i < n; i++ {
			c.duplicateTSN = append(c.duplicateTSN, g.u32())
		}
		return c
	case 5:
		c := &chunkHeartbeat{}
		switch x := g.r.n(100); {
		case x < 80:
			c.params = []param{g.param(0)}
		case x < 88: // no params: the stored header is re-emitted
			c.typ, c.flags = ctHeartbeat, g.flags(30)
			if g.r.chance(30) {
				c.typ, c.raw = chunkType(g.r.pick(4, 0, 5, 255)), g.bytes(g.r.n(6))
			}
		case x < 94:
			c.params = []param{g.param(g.r.n(11))}
		default:
			c.params = []param{g.param(0), g.param(g.r.n(11))}
		}
		return c
	case 6:
		c := &chunkHeartbeatAck{}
		c.flags = g.flags(10)
		switch x := g.r.n(100); {
		case x < 85:
			c.params = []param{g.param(0)}
		case x < 90:
		case x < 95:
			c.params = []param{g.param(g.r.n(11))}
		default:
			c.params = []param{g.param(0), g.param(g.r.n(11))}
		}
		return c
	case 7:
		c := &chunkAbort{}
		for i, n := 0, g.r.pick(0, 1, 1, 1, 2, 3); i < n; i++ {
			c.errorCauses = append(c.errorCauses, g.cause())
		}
		return c
	case 8:
		c := &chunkShutdown{cumulativeTSNAck: g.u32()}
		c.flags = g.flags(10)
		return c
	case 9:
		c := &chunkShutdownAck{}
		c.flags = g.flags(10)
		if !wf {
			c.raw = g.bytes(g.r.n(9))
		}
		return c
	case 10:
		c := &chunkError{}
		for i, n := 0, g.r.pick(0, 1, 1, 1, 2, 3); i < n; i++ {
			c.errorCauses = append(c.errorCauses, g.cause())
		}
		return c
	case 11:
		c := &chunkCookieEcho{cookie: g.bytes(g.blen())}
		c.flags = g.flags(10)
		return c
	case 12:
		c := &chunkCookieAck{}
		c.flags = g.flags(10)
		if !wf {
			c.raw = g.bytes(g.r.n(9))
		}
		return c
	case 13:
		c := &chunkShutdownComplete{}
		c.flags = g.flags(30)
		if !wf {
			c.raw = g.bytes(g.r.n(9))
		}
		return c
	case 14:
		c := &chunkReconfig{}
		c.flags = g.flags(10)
		if wf {
			c.paramA = g.param(g.r.pick(2, 3))
			if g.r.chance(40) {
				c.paramB = g.param(g.r.pick(2, 3))
			}
		} else {
			c.paramA = g.param(g.r.n(11))
			if g.r.chance(60) {
				c.paramB = g.param(g.r.n(11))
			}
		}
		return c
	case 15:
		c := &chunkForwardTSN{newCumulativeTSN: g.u32()}
		c.flags = g.flags(10)
		for i, n := 0, g.r.pick(0, 1, 2, 3, g.r.n(40)); i < n; i++ {
			c.streams = append(c.streams, chunkForwardTSNStream{identifier: g.u16(), sequence: g.u16()})
		}
		return c
	default:
		c := &chunkIForwardTSN{newCumulativeTSN: g.u32()}
		c.flags = g.flags(10)
		for i, n := 0, g.r.pick(0, 1, 2, 3, g.r.n(20)); i < n; i++ {
			s := chunkIForwardTSNStream{identifier: g.u16(), unordered: g.r.chance(40), messageIdentifier: g.u32()}
			if len(c.streams) > 0 && g.r.chance(12) { // duplicate key: the codec normalises
				s.identifier, s.unordered = c.streams[g.r.n(len(c.streams))].identifier, c.streams[0].unordered
			}
			c.streams = append(c.streams, s)
		}
		if wf {
			c.streams = normalizeIForwardTSNStreams(c.streams)
		}
		return c
	}
}

// first: -1 any, else the kind of the first chunk
func (g *vCG) packet(first int, maxChunks int) *packet {
	p := &packet{sourcePort: g.u16(), destinationPort: g.u16(), verificationTag: g.u32()}
	n := 1 + g.r.n(maxChunks)
	if g.r.chance(2) {
		n = 0
	}
	for i := 0; i < n; i++ {
		k := g.r.n(17)
		if i == 0 && first >= 0 {
			k = first
		}
		p.chunks = append(p.chunks, g.chunk(k))
	}
	g.l.stat(fmt.Sprintf("codec.bundle.%d", n))
	return p
}

// rawParam: a parameter assembled from bytes: known or unknown type, length field right or slightly off
func (g *vCG) rawParam() []byte {
	typ := uint16(g.r.pick(1, 7, 13, 16, 32768, 32769, 32770, 32771, 32772, 32776, 49152, 5, 9, 32773, 49158, int(g.u16())))
	var v []byte
	switch g.r.n(5) {
	case 0:
	case 1:
		v = g.bytes(g.r.pick(1, 2, 3, 4, 5, 7, 8, 11, 12, 13, 14, 16))
	case 2: // small numbers: plausible fields
		v = make([]byte, 4*g.r.n(5))
		for i := 3; i < len(v); i += 4 {
			v[i] = byte(g.r.n(4))
		}
	default:
		v = g.bytes(g.r.n(24))
	}
	l := 4 + len(v)
	if g.r.chance(12) {
		l = g.r.pick(0, 3, 4, l-1, l+1, l+4, 65535)
	}
	out := []byte{byte(typ >> 8), byte(typ), byte(l >> 8), byte(l)}
	out = append(out, v...)
	if g.r.chance(85) {
		out = append(out, make([]byte, (4-len(out)%4)%4)...)
	}
	return out
}

// rawChunk: header + value + zero padding, the value chosen per type from shapes the decoder distinguishes
func (g *vCG) rawChunk() []byte {
	types := []byte{0, 1, 2, 3, 4, 5, 6, 7, 8, 9, 10, 11, 14, 64, 130, 192, 194}
	t := types[g.r.n(len(types))]
	g.l.stat(fmt.Sprintf("codec.rawchunk.%d", t))
	var v []byte
	switch x := g.r.n(100); {
	case x < 15: // empty value
	case x < 30: // random short value
		v = g.bytes(g.r.pick(1, 2, 3, 4, 5, 7, 8, 11, 12, 13, 15, 16, 17, 20))
	case x < 45: // the value of a well-formed chunk of SOME type (often another one)
		k := g.r.n(17)
		var b []byte
		vCdcGuard(func() string { b, _ = g.chunk(k).marshal(); return "" })
		if len(b) >= 4 {
			v = b[4:]
		}
	default: // shaped for the type
		switch t {
		case 1, 2:
			v = g.bytes(16)
			for i, n := 0, g.r.n(4); i < n; i++ {
				v = append(v, g.rawParam()...)
			}
			if g.r.chance(20) {
				v = append(v, g.bytes(g.r.n(5))...)
			}
		case 4, 5:
			hb := g.bytes(g.r.n(20))
			l := 4 + len(hb)
			v = append([]byte{0, 1, byte(l >> 8), byte(l)}, hb...)
			v = append(v, make([]byte, g.r.pick(0, 0, 1, 2, 3, 4, 8))...)
			if g.r.chance(10) {
				v[len(v)-1] = 1
			}
		case 130:
			v = g.rawParam()
			if g.r.chance(50) {
				v = append(v, g.rawParam()...)
			}
			if g.r.chance(15) {
				v = append(v, g.bytes(g.r.n(4))...)
			}
		case 6, 9:
			for i, n := 0, g.r.n(4); i < n; i++ {
				d := g.bytes(g.r.n(12))
				l := 4 + len(d)
				if g.r.chance(10) {
					l = g.r.pick(0, 3, l+1, l-1, 65535)
				}
				code := g.r.pick(6, 7, 12, 13, 1, 2, 9, int(g.u16()))
				v = append(v, byte(code>>8), byte(code), byte(l>>8), byte(l))
				v = append(v, d...)
			}
		case 3:
			ng, nd := g.r.n(4), g.r.n(4)
			v = g.bytes(8)
			v = append(v, 0, byte(ng), 0, byte(nd))
			v = append(v, g.bytes(4*(ng+nd)+g.r.pick(0, 0, 0, 0, 4, 1, -4+8))...)
		case 192:
			v = g.bytes(4 + 4*g.r.n(5) + g.r.pick(0, 0, 0, 1, 2, 3))
		case 194:
			v = g.bytes(4 + 8*g.r.n(5) + g.r.pick(0, 0, 0, 1, 4, 7))
		case 0:
			v = g.bytes(g.r.pick(11, 12, 12, 13, 16, 30))
		case 64:
			v = g.bytes(g.r.pick(15, 16, 16, 17, 20, 30))
		case 7:
			v = g.bytes(g.r.pick(4, 4, 4, 3, 5, 8))
		default:
			v = g.bytes(g.r.n(9))
		}
	}
	flags := byte(0)
	if g.r.chance(30) {
		flags = byte(g.r.u64())
	}
	l := 4 + len(v)
	out := []byte{t, flags, byte(l >> 8), byte(l)}
	out = append(out, v...)
	pad := make([]byte, (4-len(out)%4)%4)
	if len(pad) > 0 && g.r.chance(4) {
		pad[g.r.n(len(pad))] = byte(1 + g.r.n(255))
	}
	return append(out, pad...)
}

var vMutKinds = []string{"bitflip", "truncate", "extend", "chunklen", "innerlen", "retype", "padbyte", "byteset"}

func (g *vCG) mutate(raw []byte) []byte {
	out := append([]byte(nil), raw...)
	for i, n := 0, 1+g.r.n(2); i < n; i++ {
		k := g.r.n(len(vMutKinds))
		g.l.stat("codec.mut." + vMutKinds[k])
		switch k {
		case 0:
			if len(out) > 0 {
				for j, m := 0, 1+g.r.n(3); j < m; j++ {
					out[g.r.n(len(out))] ^= 1 << uint(g.r.n(8))
				}
			}
		case 1:
			if len(out) > 0 {
				cut := g.r.pick(1, 2, 3, 4, 5, 8, g.r.n(len(out)))
				if cut > len(out) {
					cut = len(out)
				}
				out = out[:len(out)-cut]
			}
		case 2:
			ext := g.bytes(g.r.pick(1, 2, 3, 4, 5, 8, 12))
			if g.r.chance(40) {
				for j := range ext {
					ext[j] = 0
				}
			}
			out = append(out, ext...)
		case 3: // edit a chunk length field
			offs := []int{}
			for off := 12; off+4 <= len(out); {
				offs = append(offs, off)
				l := int(binary.BigEndian.Uint16(out[off+2:]))
				if l < 4 {
					break
				}
				off += l + (4-l%4)%4
			}
			if len(offs) > 0 {
				off := offs[g.r.n(len(offs))]
				l := int(binary.BigEndian.Uint16(out[off+2:]))
				nl := g.r.pick(0, 1, 3, 4, 5, 8, l-4, l-1, l+1, l+3, l+4, len(out)-off, len(out)-off+1, 65535, g.r.n(65536))
				binary.BigEndian.PutUint16(out[off+2:], uint16(nl))
			}
		case 4: // edit a 16-bit field at a 4-aligned offset + 2 inside the chunk area (param / cause lengths, counts)
			if len(out) >= 20 {
				off := 16 + 4*g.r.n((len(out)-16)/4)
				if off+4 <= len(out) {
					l := int(binary.BigEndian.Uint16(out[off+2:]))
					nl := g.r.pick(0, 1, 3, 4, 5, 8, l-1, l+1, l+4, len(out)-off, 65535, g.r.n(65536))
					binary.BigEndian.PutUint16(out[off+2:], uint16(nl))
				}
			}
		case 5: // reinterpret a chunk as another type
			if len(out) > 12 {
				out[12] = byte(g.r.pick(0, 1, 2, 3, 4, 5, 6, 7, 8, 9, 10, 11, 14, 64, 130, 192, 194, 13, 63, 255))
			}
		case 6:
			if len(out) > 12 {
				out[len(out)-1-g.r.n(3)%len(out)] = byte(1 + g.r.n(255))
			}
		default:
			if len(out) > 0 {
				out[g.r.n(len(out))] = byte(g.r.pick(0, 1, 4, 255, g.r.n(256)))
			}
		}
	}
	return out
}

// parts of the last dec'ed bundle, each alone under the same common header, with correct CRC
func (h *vCodec) emitParts(flag string) {
	parts, _, ok := vSplitChunks(h.lastRaw)
	if !ok || len(parts) == 0 {
		return
	}
	for _, c := range parts {
		one := append([]byte(nil), h.lastRaw[:12]...)
		one = append(one, c...)
		one = append(one, make([]byte, (4-len(c)%4)%4)...)
		vFixCRC(one)
		h.do("codec part %s %s", flag, vHex(one))
	}
	h.do("codec endparts")
	h.l.stat("codec.locality.checked")
}

// after a successful dec: re-encode what the implementation returned and decode that again
func (h *vCodec) emitStability() {
	if h.lastOK == nil {
		return
	}
	h.do("codec reenc 1 %s", h.lastDump)
	if h.lastHex != "" {
		h.do("codec redec 1 %s", h.lastHex)
	}
	h.l.stat("codec.stability.checked")
}

func vCodecGenerate(h *vCodec, g *vCG, nseq int) {
	r := g.r
	encode := func(p *packet) []byte {
		var b []byte
		vCdcGuard(func() string { b, _ = p.marshal(true); return "" })
		return b
	}
	for s := 0; s < nseq; s++ {
		h.do("codec new")
		switch x := r.n(100); {
		case x < 50: // structured, mostly well formed
			h.l.stat("codec.seq.structured")
			p := g.packet(-1, 6)
			if r.chance(1) { // a value at the 16-bit length boundary
				big := r.pick(65515, 65519, 65520, 65523, 65524, 65527, 65528, 65531, 65532, 65535, 65536)
				switch r.n(3) {
				case 0:
					p.chunks = append(p.chunks, &chunkCookieEcho{cookie: g.bytes(big)})
				case 1:
					p.chunks = append(p.chunks, &chunkPayloadData{userData: g.bytes(big - 12), beginningFragment: true, endingFragment: true})
				default:
					p.chunks = append(p.chunks, &chunkAbort{errorCauses: []errorCause{&errorCauseUserInitiatedAbort{errorCauseHeader: errorCauseHeader{code: userInitiatedAbort}, upperLayerAbortReason: g.bytes(big)}}})
				}
				h.l.stat("codec.boundary.64k")
			}
			dump := vDumpPacket(p)
			h.do("codec enc 1 %s", dump)
			if h.lastHex != "" {
				hx := h.lastHex
				h.do("codec dec 1 %s", hx)
				h.emitParts("1")
				h.emitStability()
				if r.chance(30) {
					h.do("codec dec 0 %s", hx)
				}
			}
			if r.chance(30) {
				h.do("codec out %d %s", r.n(2), dump)
			}
		case x < 62: // chunks assembled at the byte level: every known type × odd but framed values
			h.l.stat("codec.seq.rawchunks")
			raw := g.bytes(12)
			for i, n := 0, 1+r.n(4); i < n; i++ {
				raw = append(raw, g.rawChunk()...)
			}
			vFixCRC(raw)
			h.do("codec dec 1 %s", vHex(raw))
			h.emitParts("1")
			h.emitStability()
		case x < 80: // mutated valid packet
			h.l.stat("codec.seq.mutated")
			raw := encode(g.packet(-1, 4))
			if raw == nil {
				continue
			}
			raw = g.mutate(raw)
			flag := "1"
			if r.chance(85) {
				vFixCRC(raw)
			} else if r.chance(50) && len(raw) >= 12 {
				binary.LittleEndian.PutUint32(raw[8:], 0)
				flag = "0"
			}
			h.do("codec dec %s %s", flag, vHex(raw))
			h.emitParts(flag)
			h.emitStability()
		case x < 88: // raw random bytes
			h.l.stat("codec.seq.random")
			raw := g.bytes(r.pick(0, 1, 11, 12, 13, 15, 16, 17, 20, 24, 28, 32, r.n(80)))
			if r.chance(60) && len(raw) > 12 {
				raw[12] = byte(r.pick(0, 1, 2, 3, 4, 5, 6, 7, 8, 9, 10, 11, 14, 64, 130, 192, 194))
				if len(raw) >= 16 && r.chance(70) {
					binary.BigEndian.PutUint16(raw[14:], uint16(r.pick(len(raw)-12, len(raw)-13, len(raw)-15, 4, 0, r.n(70))))
				}
			}
			if r.chance(70) {
				vFixCRC(raw)
			}
			f := r.n(2)
			h.do("codec dec %d %s", f, vHex(raw))
			h.emitParts(strconv.Itoa(f))
			h.emitStability()
			h.do("codec in %d %s", r.n(2), vHex(raw))
		default: // checksum matrix
			h.l.stat("codec.seq.checksum")
			first := r.pick(2, 11, -1, -1, 3, 0, 4)
			p := g.packet(first, 3)
			dump := vDumpPacket(p)
			h.do("codec enc 1 %s", dump)
			h.do("codec enc 0 %s", dump)
			h.do("codec out 0 %s", dump)
			h.do("codec out 1 %s", dump)
			raw := encode(p)
			if raw == nil {
				continue
			}
			variants := map[string][]byte{}
			variants["correct"] = append([]byte(nil), raw...)
			z := append([]byte(nil), raw...)
			binary.LittleEndian.PutUint32(z[8:], 0)
			variants["zero"] = z
			w := append([]byte(nil), raw...)
			w[8+r.n(4)] ^= 1 << uint(r.n(8))
			variants["wrongfield"] = w
			if len(raw) > 12 {
				b := append([]byte(nil), raw...)
				b[12+r.n(len(b)-12)] ^= 1 << uint(r.n(8))
				variants["bodyflip"] = b
				bz := append([]byte(nil), b...)
				binary.LittleEndian.PutUint32(bz[8:], 0)
				variants["bodyflipzero"] = bz
			}
			hb := append([]byte(nil), raw...)
			hb[r.n(8)] ^= 1 << uint(r.n(8))
			variants["hdrflip"] = hb
			for _, name := range []string{"correct", "zero", "wrongfield", "bodyflip", "bodyflipzero", "hdrflip"} {
				v, ok := variants[name]
				if !ok {
					continue
				}
				h.l.stat("codec.cksum." + name)
				for _, f := range []int{0, 1} {
					h.do("codec dec %d %s", f, vHex(v))
					h.do("codec in %d %s", f, vHex(v))
				}
			}
			h.do("codec crc %s", vHex(g.bytes(r.n(200))))
		}
	}
}

func TestVerifCodec(t *testing.T) {
	l := vOpenLog(t)
	defer l.close()
	h := &vCodec{l: l, t: t}
	if ops := vReadOps(t); ops != nil {
		for _, op := range ops {
			if op[0] == "codec" {
				h.exec(op)
			}
		}
		return
	}
	r := &vrand{s: uint64(vEnvInt("VERIF_SEED", 1))*0x2545f491 + 11}
	vCodecGenerate(h, &vCG{r: r, l: l}, vEnvInt("VERIF_N", 1500))
}
