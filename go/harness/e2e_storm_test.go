//go:build verif

package sctp

// ---- storm mode (C20): concurrent API calls from many goroutines on both associations while traffic and timers
// run. One writer goroutine per stream (so that the accepted-write history of a stream is well defined), and around it:
// goroutines that change deadlines and reliability parameters, query and set buffered-amount thresholds, register a
// low-threshold callback that RE-ENTERS the API, read counters, re-open existing streams, close streams at random —
// then Shutdown / Close / Abort from one or several goroutines at a random instant (or a normal drain).
// Completion = no deadlock: the synctest bubble must finish and nothing of the package may be left. The delivery
// predicates of Spec/E2ESpec stay on (messages tagged C20 in this mode).
//
// The same program runs natively (no bubble, real time, link without faults) under the race detector in the thorough
// tier: TestVerifRaceStorm / TestVerifRaceTeardown. A clean race-detector run is supporting evidence, nothing more.

import (
	"context"
	"fmt"
	"os"
	"sync"
	"sync/atomic"
	"testing"
	"time"
)

type vCCStream struct {
	spec vStreamSpec
	msgs []vMsg
	s    *Stream
}

type vCCCounters struct {
	api, cb, tweak atomic.Int64
}

func (r *vRun) vCCWorkload(xr *vrand) []*vCCStream {
	sc := r.sc
	var out []*vCCStream
	extra := 3 + xr.n(5)
	// the messages in progress (one per stream when interleaving) must fit the receive buffer together, otherwise the
	// receiver can fill up with incomplete messages: outside what the delivery properties quantify over
	maxMsg := 65536
	if sc.rcvBuf != 0 && int(sc.rcvBuf)/(2*(len(sc.streams)+extra)) < maxMsg {
		maxMsg = int(sc.rcvBuf) / (2 * (len(sc.streams) + extra))
	}
	if r.native && maxMsg > 20000 {
		maxMsg = 20000
	}
	for i, ss := range sc.streams {
		ss.relType, ss.relVal = 0, 0 // reliable: the delivery predicates stay sharp
		st := &vCCStream{spec: ss}
		for _, m := range sc.msgs {
			if m.stream == i {
				if m.size > maxMsg {
					m.size = maxMsg
				}
				st.msgs = append(st.msgs, m)
			}
		}
		out = append(out, st)
	}
	for k := 0; k < extra; k++ {
		st := &vCCStream{spec: vStreamSpec{id: uint16(101 + 2*k + xr.n(2)), unordered: xr.chance(30), dir: xr.n(2)}}
		nm := 1 + xr.n(6)
		for j := 0; j < nm; j++ {
			m := vMsg{size: 1 + xr.n(xr.pick(16, 1200, 1200, 9000)), ppi: PayloadTypeWebRTCBinary}
			if m.size > maxMsg {
				m.size = maxMsg
			}
			if xr.chance(30) {
				m.gapUs = xr.n(200000)
			}
			st.msgs = append(st.msgs, m)
		}
		out = append(out, st)
	}
	return out
}

// the low-threshold callback: runs on the association's read loop, must find no internal lock held — it calls back
// into the API (every call below takes a.lock or s.lock)
func (r *vRun) vCCCallback(a *Association, s *Stream, cnt *vCCCounters) func() {
	return func() {
		cnt.cb.Add(1)
		_ = s.BufferedAmount()
		_ = a.BufferedAmount()
		_ = s.State()
		_ = s.BufferedAmountLowThreshold()
		s.SetBufferedAmountLowThreshold(uint64(cnt.cb.Load() % 5000))
		_, _ = a.Metadata()
	}
}

func (r *vRun) vCCTweaker(a *Association, st *vCCStream, seed uint64, stop <-chan struct{}, cnt *vCCCounters, wg *sync.WaitGroup) {
	defer wg.Done()
	tr := &vrand{s: seed}
	s := st.s
	for k := 0; k < 40+tr.n(80); k++ {
		select {
		case <-stop:
			return
		default:
		}
		switch tr.n(12) {
		case 0:
			_ = s.SetReadDeadline(time.Now().Add(time.Duration(tr.pick(1, 1000, 50000)) * time.Microsecond))
		case 1:
			_ = s.SetReadDeadline(time.Time{})
		case 2:
			_ = s.SetWriteDeadline(time.Now().Add(time.Duration(tr.pick(1000, 50000, 2000000)) * time.Microsecond))
		case 3:
			_ = s.SetWriteDeadline(time.Time{})
		case 4:
			s.SetReliabilityParams(st.spec.unordered, ReliabilityTypeReliable, 0) // same values: only the locking is exercised
		case 5:
			_ = s.BufferedAmount()
			_ = a.BufferedAmount()
		case 6:
			s.SetBufferedAmountLowThreshold(uint64(tr.n(20000)))
		case 7:
			s.OnBufferedAmountLow(r.vCCCallback(a, s, cnt))
		case 8:
			_ = s.State()
			_ = s.StreamIdentifier()
			_ = s.BufferedAmountLowThreshold()
		case 9:
			_ = a.MTU()
			_ = a.CWND()
			_ = a.RWND()
			_ = a.SRTT()
			_ = a.BytesSent()
			_ = a.BytesReceived()
			_ = a.MaxMessageSize()
		case 10:
			if o, err := a.OpenStream(st.spec.id, PayloadTypeWebRTCBinary); err == nil && o != s && s.State() == StreamStateOpen && !r.native {
				// the stream is still registered: OpenStream must hand back the same object
				r.logf("e2e stormopen %d %d -> other-object", st.spec.dir, st.spec.id)
			}
		case 11:
			a.ActiveHeartbeat()
		}
		cnt.tweak.Add(1)
		time.Sleep(time.Duration(tr.pick(0, 100, 1000, 20000, 100000)) * time.Microsecond)
	}
}

func (r *vRun) runStorm() {
	sc := r.sc
	xr := &vrand{s: uint64(sc.seed)*48271 + uint64(sc.idx)*16807 + 7}
	final := []string{"none", "none", "shutdown", "close", "abort", "close", "abort"}[xr.n(7)]
	fside := xr.n(2)
	ncall := 1 + xr.n(3)
	finalAfterUs := xr.pick(0, 2000, 50000, 400000, 1500000, 3000000)
	if final != "none" {
		r.logf("e2e inject %s %d %d", final, fside, finalAfterUs)
	}
	if !r.connect(400 * time.Second) {
		return
	}
	r.logMeta(0)
	r.logMeta(1)
	cnt := &vCCCounters{}
	var rwg sync.WaitGroup
	for side := 0; side < 2; side++ {
		rwg.Add(1)
		go r.acceptor(side, &rwg, 70000)
	}
	work := r.vCCWorkload(xr)
	stop := make(chan struct{})
	var wg sync.WaitGroup  // writers, tweakers, the final callers
	var wwg sync.WaitGroup // writers only
	for i, st := range work {
		a := r.as[st.spec.dir]
		s, err := a.OpenStream(st.spec.id, PayloadTypeWebRTCBinary)
		if err != nil {
			r.logf("e2e open %d %d -> %s", st.spec.dir, st.spec.id, vErrClass(err))
			continue
		}
		s.SetReliabilityParams(st.spec.unordered, ReliabilityTypeReliable, 0)
		s.SetBufferedAmountLowThreshold(uint64(xr.n(4000)))
		s.OnBufferedAmountLow(r.vCCCallback(a, s, cnt))
		st.s = s
		r.logf("e2e open %d %d %d 0 0 -> nil", st.spec.dir, st.spec.id, map[bool]int{false: 0, true: 1}[st.spec.unordered])
		i, st := i, st
		closeEarly := xr.chance(25)
		closeAfter := xr.chance(40)
		closeAtUs := xr.n(500000)
		wg.Add(1)
		wwg.Add(1)
		go func() { // the one writer of this stream
			defer wg.Done()
			defer wwg.Done()
			for mi, m := range st.msgs {
				if m.gapUs > 0 {
					time.Sleep(time.Duration(m.gapUs) * time.Microsecond)
				}
				p := vPayload(uint64(sc.seed)<<32|uint64(sc.idx)<<16|uint64(i)<<8|uint64(mi)|1<<60, m.size)
				n, err := s.WriteSCTP(p, m.ppi)
				cnt.api.Add(1)
				r.logf("e2e w %d %d %d %d %d %d -> %d %s", st.spec.dir, st.spec.id, mi, uint32(m.ppi), m.size, vHash(p), n, vErrClass(err))
				if err != nil {
					return
				}
			}
			if closeAfter && !closeEarly {
				err := s.Close()
				r.logf("e2e close %d %d -> %s", st.spec.dir, st.spec.id, vErrClass(err))
			}
		}()
		if closeEarly {
			wg.Add(1)
			go func() { // Stream.Close from another goroutine while the writer may still be writing
				defer wg.Done()
				select {
				case <-stop:
					return
				case <-time.After(time.Duration(closeAtUs) * time.Microsecond):
				}
				err := s.Close()
				r.logf("e2e close %d %d -> %s", st.spec.dir, st.spec.id, vErrClass(err))
			}()
		}
		for k := 0; k < 1+xr.n(2); k++ {
			wg.Add(1)
			go r.vCCTweaker(a, st, uint64(sc.seed)*977+uint64(sc.idx)*131+uint64(i)*17+uint64(k), stop, cnt, &wg)
		}
	}
	finished := make(chan struct{})
	go func() { wg.Wait(); close(finished) }()

	t0 := time.Now()
	switch final {
	case "none":
		wwg.Wait()
		r.waitDrain()
		for _, st := range work {
			if st.s != nil {
				r.logf("e2e sbuf %d %d -> %d", st.spec.dir, st.spec.id, st.s.BufferedAmount())
			}
		}
		r.logEnd()
		close(stop)
	default:
		select {
		case <-time.After(time.Duration(finalAfterUs) * time.Microsecond):
		case <-finished:
		}
		a := r.as[fside]
		var cwg sync.WaitGroup
		for k := 0; k < ncall; k++ {
			k := k
			cwg.Add(1)
			go func() {
				defer cwg.Done()
				switch {
				case final == "shutdown":
					ctx, cancel := context.WithTimeout(context.Background(), time.Duration(sc.healMs)*time.Millisecond+900*time.Second)
					if r.native {
						cancel()
						ctx, cancel = context.WithTimeout(context.Background(), 10*time.Second)
					}
					err := a.Shutdown(ctx)
					cancel()
					if k == 0 {
						r.logf("e2e shutdown %d -> %s %d", fside, vErrClass(err), time.Since(r.link.start).Milliseconds())
					}
				case final == "close" || k == 2:
					err := a.Close()
					r.logf("e2e closecall %d -> %s", fside, vErrClass(err))
				default:
					a.Abort("verif-abort-reason")
				}
			}()
		}
		cwg.Wait()
		if final == "abort" {
			r.logf("e2e abortcall %d -> done", fside)
		}
		r.logf("e2e injected %s %d %d", final, fside, time.Since(r.link.start).Milliseconds())
		close(stop)
		t0 = time.Now()
	}
	limit := 120 * time.Second
	if r.native {
		limit = 20 * time.Second
	}
	select {
	case <-finished:
		r.logf("e2e unblocked -> true %d", time.Since(t0).Milliseconds())
	case <-time.After(limit):
		r.logf("e2e unblocked -> false %d", time.Since(t0).Milliseconds())
	}
	r.logf("e2e stormstat -> api=%d tweak=%d cb=%d streams=%d", cnt.api.Load(), cnt.tweak.Load(), cnt.cb.Load(), len(work))
	for sd := 0; sd < 2; sd++ {
		if a := r.assoc(sd); a != nil {
			e1 := a.Close()
			e2 := a.Close()
			r.logf("e2e reclose %d -> %s %s", sd, vErrClass(e1), vErrClass(e2))
		}
		r.link.ends[sd].fail()
	}
	<-finished
	rwg.Wait()
}

func TestVerifE2EStorm(t *testing.T) { vE2EMain(t, "storm") }

// ---- the same programs outside the bubble, for the race detector (thorough tier) -------------------------------

func vRunScenarioNative(t *testing.T, l *vlog, sc *vScenario) {
	old := globalMathRandomGenerator
	defer func() { globalMathRandomGenerator = old }()
	defer vWatchdog(sc, l, 90*time.Second)()
	// real time: no loss (every retransmission would cost real seconds), modest sizes
	sc.dropPct, sc.dupPct, sc.maxDelayMs, sc.healMs, sc.blackoutToMs, sc.readerPauseMs = 0, 0, 0, 0, 0, 0
	sc.lazyAccept = false
	if len(sc.msgs) > 12 {
		sc.msgs = sc.msgs[:12]
	}
	for i := range sc.msgs {
		if sc.msgs[i].size > 20000 {
			sc.msgs[i].size = 20000
		}
		if sc.msgs[i].gapUs > 20000 {
			sc.msgs[i].gapUs = 20000
		}
	}
	run := &vRun{t: t, l: l, sc: sc, readers: sc.readers, heldCh: make(chan struct{}), idleGo: make(chan struct{}), native: true}
	globalMathRandomGenerator = &vRandGen{r: &vrand{s: uint64(sc.seed) + 99}, tsns: nil}
	run.link = newVLink(nil)
	run.link.native = true
	run.link.fate = run.fate()
	run.link.log = run.wireLog()
	run.link.logRx = func(to, from, idx int, now time.Duration) {
		run.logf("e2e rx %d %d %d", to, idx, now.Microseconds())
	}
	run.logf("e2e new %s-native %d %d %s", sc.mode, sc.seed, sc.idx, sc.header())
	defer run.teardown()
	switch sc.mode {
	case "teardown":
		run.runTeardown()
	case "storm":
		run.runStorm()
	}
}

func vCCRaceMain(t *testing.T, mode string) {
	l := vOpenLog(t)
	defer l.close()
	seed := vEnvInt("VERIF_SEED", 1)
	n := vEnvInt("VERIF_N", 20)
	deadline := time.Now().Add(time.Duration(vEnvInt("VERIF_RACE_BUDGET_S", 120)) * time.Second)
	done := 0
	for i := 0; i < n && time.Now().Before(deadline); i++ {
		vRunScenarioNative(t, l, vGenScenario(mode, seed, i))
		done++
	}
	l.stats["race."+mode] = done
	fmt.Fprintf(os.Stderr, "verif: %d native %s scenarios\n", done, mode)
}

func TestVerifRaceStorm(t *testing.T)    { vCCRaceMain(t, "storm") }
func TestVerifRaceTeardown(t *testing.T) { vCCRaceMain(t, "teardown") }
