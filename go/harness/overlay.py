#!/usr/bin/env python3
"""Write the go -overlay file that injects /verif/go/harness/*_test.go into package sctp."""
import json, os, sys
src = os.path.dirname(os.path.abspath(__file__))
repo = sys.argv[1] if len(sys.argv) > 1 else '/repo'
out = sys.argv[2]
rep = {}
for f in sorted(os.listdir(src)):
    if f.endswith('_test.go'):
        rep[os.path.join(repo, 'zz_verif_' + f)] = os.path.join(src, f)
json.dump({'Replace': rep}, open(out, 'w'), indent=1)
