//go:build verif

package sctp

import (
	"fmt"
	"strings"
	"testing"
)

// ---- receivePayloadQueue ------------------------------------------------------------

type vRQ struct {
	q *receivePayloadQueue
	l *vlog
}

func (h *vRQ) exec(t *testing.T, op []string) {
	line := strings.Join(op, " ")
	arg := func(i int) uint32 { return vAtoU32(t, op[i]) }
	switch op[1] {
	case "new":
		h.q = newReceivePayloadQueue(arg(2))
		h.l.line(line, fmt.Sprintf("%d %d", h.q.maxTSNOffset, len(h.q.tsnBitmask)))
	case "init":
		h.q.init(arg(2))
		h.l.line(line, "")
	case "has":
		h.l.line(line, vb(h.q.hasChunk(arg(2))))
	case "can":
		h.l.line(line, vb(h.q.canPush(arg(2))))
	case "push":
		h.l.line(line, vb(h.q.push(arg(2))))
	case "pop":
		r := h.q.pop(op[2] == "1")
		h.l.line(line, fmt.Sprintf("%s %d", vb(r), h.q.getcumulativeTSN()))
	case "adv":
		h.q.advanceCumulativeTSN(arg(2))
		h.l.line(line, fmt.Sprintf("%d", h.q.getcumulativeTSN()))
	case "gaps":
		var sb strings.Builder
		for i, g := range h.q.getGapAckBlocks() {
			if i > 0 {
				sb.WriteByte(',')
			}
			fmt.Fprintf(&sb, "%d-%d", g.start, g.end)
		}
		if sb.Len() == 0 {
			sb.WriteString("none")
		}
		h.l.line(line, fmt.Sprintf("%d %s", h.q.getcumulativeTSN(), sb.String()))
	case "dups":
		var sb strings.Builder
		for i, d := range h.q.popDuplicates() {
			if i > 0 {
				sb.WriteByte(',')
			}
			fmt.Fprintf(&sb, "%d", d)
		}
		if sb.Len() == 0 {
			sb.WriteString("none")
		}
		h.l.line(line, sb.String())
	case "last":
		tsn, ok := h.q.getLastTSNReceived()
		if !ok {
			h.l.line(line, "none")
		} else {
			h.l.line(line, fmt.Sprintf("%d", tsn))
		}
	case "st":
		h.l.line(line, fmt.Sprintf("%d %d", h.q.getcumulativeTSN(), h.q.size()))
	default:
		t.Fatalf("rq: unknown op %v", op)
	}
}

func (h *vRQ) do(t *testing.T, f string, a ...any) { h.exec(t, strings.Fields(fmt.Sprintf(f, a...))) }

func vRQGenerate(t *testing.T, h *vRQ, r *vrand, nseq, nops int) {
	for s := 0; s < nseq; s++ {
		maxOff := uint32(r.pick(1, 64, 65, 128, 200, 640, 2000, 8448, 8448, 40000))
		h.do(t, "rq new %d", maxOff)
		m := h.q.maxTSNOffset
		var cum uint32
		switch r.n(4) {
		case 0:
			cum = r.u32()
		case 1:
			cum = uint32(0) - uint32(r.n(int(2*m)+2)) // just below the wrap
			h.l.stat("rq.init.nearwrap")
		case 2:
			cum = uint32(0) - uint32(r.n(int(m)/2+2))
			h.l.stat("rq.init.nearwrap")
		default:
			cum = uint32(r.n(1000))
		}
		h.do(t, "rq init %d", cum)
		for i := 0; i < nops; i++ {
			c := h.q.getcumulativeTSN()
			tailOff := uint32(0)
			if lt, ok := h.q.getLastTSNReceived(); ok {
				tailOff = lt - c
			}
			pickTSN := func() uint32 {
				switch x := r.n(100); {
				case x < 45:
					return c + 1 + uint32(r.n(12))
				case x < 65:
					return c + 1 + uint32(r.n(int(tailOff)+3))
				case x < 80:
					return c + uint32(r.n(int(m)+3))
				case x < 86:
					return c + m - 2 + uint32(r.n(5))
				case x < 92:
					return c - uint32(r.n(10))
				case x < 96:
					return c + (1 << 31) - 2 + uint32(r.n(5))
				default:
					return r.u32()
				}
			}
			switch x := r.n(100); {
			case x < 50: // data arrival as handleData does it
				tsn := pickTSN()
				can := h.q.canPush(tsn)
				h.do(t, "rq can %d", tsn)
				if can || r.chance(30) {
					h.do(t, "rq push %d", tsn)
					if can {
						h.l.stat("rq.push.accept")
					} else {
						h.l.stat("rq.push.reject")
					}
				}
				for h.q.hasChunk(h.q.getcumulativeTSN() + 1) { // handlePeerLastTSN… loop
					h.do(t, "rq pop 0")
					h.l.stat("rq.pop")
				}
				if r.chance(20) {
					h.do(t, "rq pop 0")
				}
			case x < 60:
				var nc uint32
				switch y := r.n(10); {
				case y < 5:
					nc = c + uint32(r.n(int(tailOff)+2))
				case y < 7:
					nc = c + tailOff + uint32(r.n(70))
				case y < 8:
					nc = c - uint32(r.n(5))
				case y < 9:
					nc = c + uint32(r.n(int(m)+100))
				default:
					nc = r.u32()
				}
				h.do(t, "rq adv %d", nc)
				h.l.stat("rq.adv")
				for h.q.hasChunk(h.q.getcumulativeTSN() + 1) {
					h.do(t, "rq pop 0")
				}
			case x < 63:
				h.do(t, "rq pop 1")
				h.l.stat("rq.popforce")
			case x < 80:
				h.do(t, "rq gaps")
				if h.q.size() > 0 {
					h.l.stat("rq.gaps.nonempty")
				}
			case x < 85:
				h.do(t, "rq dups")
			case x < 90:
				h.do(t, "rq last")
			case x < 95:
				h.do(t, "rq has %d", pickTSN())
			default:
				h.do(t, "rq st")
			}
			if h.q.getcumulativeTSN() < c {
				h.l.stat("rq.wrapped")
			}
		}
		h.do(t, "rq st")
		h.do(t, "rq gaps")
	}
}

func TestVerifRQ(t *testing.T) {
	l := vOpenLog(t)
	defer l.close()
	h := &vRQ{l: l}
	if ops := vReadOps(t); ops != nil {
		for _, op := range ops {
			if op[0] == "rq" {
				h.exec(t, op)
			}
		}
		return
	}
	r := &vrand{s: uint64(vEnvInt("VERIF_SEED", 1))*0x1000193 + 7}
	vRQGenerate(t, h, r, vEnvInt("VERIF_N", 200), vEnvInt("VERIF_OPS", 200))
}
