//go:build verif

package sctp

import (
	"errors"
	"fmt"
	"io"
	"strconv"
	"strings"
	"testing"
)

// ---- reassemblyQueue ---------------------------------------------------------------
//
// Line protocol (comp token `reasm`):
//   reasm new <si> <maxEntries> <honest|hostile>                          -> <state>
//   reasm msg <id> <o|u> <ssn|mid> <ppi> <len> <hash>                       (ground truth, no result)
//   reasm push <d|i> <tsn> <si> <ssn> <mid> <fsn> <UBE> <ppi> <len> <seed> [m<id>] -> <complete> <none|datalimit|midlimit|panic> <state>
//   reasm read <buflen>     -> <n> <ppi> <ok|again|short> <hash|-> <state>
//   reasm readable          -> <0|1> <state>
//   reasm fwdO <ssn> | fwdU <tsn> | fwdOM <mid> | fwdUM <mid> -> <readable> <state>
//   reasm nbytes            -> <state>
//   reasm abandon <id>                                                      (ground truth: the sender gave message <id> up)
//   reasm drained           -> <state>   (honest mode: every fragment of every non-abandoned message was pushed and the
//                                         application has read until `again`)
//   reasm macro_inorder <n>  (replay only; not logged itself) n one-byte ordered DATA messages pushed in order, then drained
//   reasm macro_lastfirst <n> (replay only) n such messages in flight, the last one arrives first, then the rest in order with reads
// <state> = <getNumBytes> <white-box byte sum> <ordered entries> <unordered entries> <len orderedMIDMap>
//           <unordered MID entries> <maps in sync 0|1>
// Payload bytes are a function of (seed, index): vRsmPayload. The hash is FNV-1a/64 in hex.

func vRsmPayload(seed uint32, n int) []byte {
	b := make([]byte, n)
	for i := range b {
		b[i] = byte(((seed + uint32(i)) * 2654435761) >> 24)
	}
	return b
}

func vRsmHash(b []byte) string {
	h := uint64(0xcbf29ce484222325)
	for _, x := range b {
		h ^= uint64(x)
		h *= 0x100000001b3
	}
	return strconv.FormatUint(h, 16)
}

type vReasm struct {
	q *reassemblyQueue
	l *vlog
	// results of the last op, for the generator's feedback
	lastErr  string
	lastN    int
	lastRErr string
}

// state walks the REAL structures: the truth the counter is compared with.
func (h *vReasm) state() string {
	q := h.q
	sum, oe, ue := 0, 0, len(q.unorderedChunks)
	seen := map[*chunkSetMID]bool{}
	for _, s := range q.ordered {
		oe += len(s.chunks)
		for _, c := range s.chunks {
			sum += len(c.userData)
		}
	}
	for _, s := range q.unordered {
		ue += len(s.chunks)
		for _, c := range s.chunks {
			sum += len(c.userData)
		}
	}
	for _, c := range q.unorderedChunks {
		sum += len(c.userData)
	}
	sync := true
	walkMID := func(s *chunkSetMID) {
		if s == nil || seen[s] {
			return
		}
		seen[s] = true
		for _, c := range s.chunks {
			sum += len(c.userData)
		}
	}
	for _, s := range q.orderedMID {
		if q.orderedMIDMap[s.mid] != s {
			sync = false
		}
		walkMID(s)
	}
	for k, s := range q.orderedMIDMap {
		if s == nil || s.mid != k || !seen[s] {
			sync = false
		}
		walkMID(s)
	}
	if len(q.orderedMIDMap) != len(q.orderedMID) {
		sync = false
	}
	for _, s := range q.unorderedMID {
		walkMID(s)
	}
	for k, s := range q.unorderedMIDMap {
		if s == nil || s.mid != k {
			sync = false
		}
		walkMID(s)
	}
	return fmt.Sprintf("%d %d %d %d %d %d %s", q.getNumBytes(), sum, oe, ue, len(q.orderedMIDMap),
		len(q.unorderedMIDMap)+len(q.unorderedMID), vb(sync))
}

func vAtoi(t *testing.T, s string) int {
	v, err := strconv.ParseInt(s, 10, 64)
	if err != nil {
		t.Fatalf("bad int %q", s)
	}
	return int(v)
}

func (h *vReasm) exec(t *testing.T, op []string) {
	line := strings.Join(op, " ")
	u32 := func(i int) uint32 { return vAtoU32(t, op[i]) }
	switch op[1] {
	case "new":
		h.q = newReassemblyQueue(uint16(u32(2)), u32(3))
		h.l.line(line, h.state())
	case "msg", "abandon":
		h.l.line(line, "")
	case "drained":
		h.l.line(line, h.state())
	case "macro_inorder":
		s := &vSender{si: h.q.si, mp: 1, nextTSN: 4294960000}
		for i := 0; i < vAtoi(t, op[2]); i++ {
			m := s.newMsg(1, false, uint32(i)*7919)
			h.do(t, "reasm msg %d o %d %d %d %s", m.id, m.key, m.ppi, m.length, vRsmHash(vRsmPayload(m.seed, m.length)))
			h.pushFrag(t, s, m, m.frags[0])
		}
		for {
			h.do(t, "reasm read 70000")
			if h.lastRErr != "ok" {
				break
			}
		}
		h.do(t, "reasm drained")
	case "macro_lastfirst":
		// n one-byte ordered DATA messages are in flight; the network delivers the LAST one first, then the others in order,
		// the application reading as they come
		s := &vSender{si: h.q.si, mp: 1, nextTSN: 4294960000}
		n := vAtoi(t, op[2])
		for i := 0; i < n; i++ {
			m := s.newMsg(1, false, uint32(i)*7919)
			h.do(t, "reasm msg %d o %d %d %d %s", m.id, m.key, m.ppi, m.length, vRsmHash(vRsmPayload(m.seed, m.length)))
		}
		h.pushFrag(t, s, s.msgs[n-1], s.msgs[n-1].frags[0])
		for i := 0; i < n-1; i++ {
			h.pushFrag(t, s, s.msgs[i], s.msgs[i].frags[0])
			h.do(t, "reasm read 70000")
		}
		h.do(t, "reasm read 70000")
		h.do(t, "reasm drained")
	case "push":
		if len(op) < 12 || len(op[8]) != 3 {
			t.Fatalf("reasm: bad push %v", op)
		}
		c := &chunkPayloadData{
			tsn:                    u32(3),
			streamIdentifier:       uint16(u32(4)),
			streamSequenceNumber:   uint16(u32(5)),
			messageIdentifier:      u32(6),
			fragmentSequenceNumber: u32(7),
			unordered:              op[8][0] == '1',
			beginningFragment:      op[8][1] == '1',
			endingFragment:         op[8][2] == '1',
			payloadType:            PayloadProtocolIdentifier(u32(9)),
			userData:               vRsmPayload(u32(11), vAtoi(t, op[10])),
			iData:                  op[2] == "i",
		}
		var complete bool
		var err error
		res := ""
		func() {
			defer func() {
				if p := recover(); p != nil {
					res = "0 panic"
				}
			}()
			complete, err = h.q.pushWithError(c)
		}()
		if res == "" {
			e := "none"
			switch {
			case err == nil:
			case errors.Is(err, errReassemblyQueueLimitExceeded):
				e = "datalimit"
			case errors.Is(err, errReassemblyQueueMIDLimitExceeded):
				e = "midlimit"
			default:
				e = "other"
			}
			res = vb(complete) + " " + e
			h.lastErr = e
		} else {
			h.lastErr = "panic"
		}
		h.l.line(line, res+" "+h.state())
	case "read":
		n := vAtoi(t, op[2])
		buf := make([]byte, n)
		got, ppi, err := h.q.read(buf)
		e, hash := "ok", "-"
		switch {
		case err == nil:
			if got <= len(buf) {
				hash = vRsmHash(buf[:got])
			} else {
				hash = "overrun"
			}
		case errors.Is(err, errTryAgain):
			e = "again"
		case errors.Is(err, io.ErrShortBuffer):
			e = "short"
		default:
			e = "other"
		}
		h.lastN, h.lastRErr = got, e
		h.l.line(line, fmt.Sprintf("%d %d %s %s %s", got, uint32(ppi), e, hash, h.state()))
	case "readable":
		h.l.line(line, vb(h.q.isReadable())+" "+h.state())
	case "fwdO":
		h.q.forwardTSNForOrdered(uint16(u32(2)))
		h.l.line(line, vb(h.q.isReadable())+" "+h.state())
	case "fwdU":
		h.q.forwardTSNForUnordered(u32(2))
		h.l.line(line, vb(h.q.isReadable())+" "+h.state())
	case "fwdOM":
		h.q.forwardTSNForOrderedMID(u32(2))
		h.l.line(line, vb(h.q.isReadable())+" "+h.state())
	case "fwdUM":
		h.q.forwardTSNForUnorderedMID(u32(2))
		h.l.line(line, vb(h.q.isReadable())+" "+h.state())
	case "nbytes":
		h.l.line(line, h.state())
	default:
		t.Fatalf("reasm: unknown op %v", op)
	}
}

func (h *vReasm) do(t *testing.T, f string, a ...any) { h.exec(t, strings.Fields(fmt.Sprintf(f, a...))) }

// ---- honest sender / network ----------------------------------------------------------

type vFrag struct {
	tsn       uint32
	off, n    int
	b, e      bool
	fsn       uint32
	delivered bool
}

type vRsmMsg struct {
	id        int
	unordered bool
	key       uint32 // SSN (DATA ordered; unordered DATA carries the current SSN too) or MID
	ppi       uint32
	length    int
	seed      uint32
	frags     []*vFrag
	nDeliv    int
	abandoned bool
	gone      bool // covered by a forward: nothing of it may arrive any more
}

type vSender struct {
	idata             bool
	si                uint16
	mp                int // maxPayloadSize
	nextTSN           uint32
	nextSSN           uint16
	nextOMID, nextUMID uint32
	msgs              []*vRsmMsg
}

// packetize + TSN assignment as Stream.packetize / movePendingDataChunkToInflightQueue do for one stream.
func (s *vSender) newMsg(length int, unordered bool, seed uint32) *vRsmMsg {
	m := &vRsmMsg{id: len(s.msgs), unordered: unordered, length: length, seed: seed}
	m.ppi = uint32(m.id+1) * 2654435761 // unique and non-zero per message
	if s.idata {
		if unordered {
			m.key = s.nextUMID
			s.nextUMID++
		} else {
			m.key = s.nextOMID
			s.nextOMID++
		}
	} else {
		m.key = uint32(s.nextSSN)
		if !unordered {
			s.nextSSN++
		}
	}
	fsn := uint32(0)
	for off := 0; off < length; {
		n := min(s.mp, length-off)
		m.frags = append(m.frags, &vFrag{tsn: s.nextTSN, off: off, n: n, b: off == 0, e: off+n == length, fsn: fsn})
		s.nextTSN++
		fsn++
		off += n
	}
	s.msgs = append(s.msgs, m)
	return m
}

func (h *vReasm) pushFrag(t *testing.T, s *vSender, m *vRsmMsg, f *vFrag) {
	kind, ssn, mid, fsn, ppi := "d", m.key, uint32(0), uint32(0), m.ppi
	if s.idata {
		kind, ssn, mid, fsn = "i", uint32(uint16(m.key)), m.key, f.fsn
		if !f.b {
			ppi = 0 // the wire carries the FSN in that field; unmarshal leaves payloadType = 0
		}
	}
	h.do(t, "reasm push %s %d %d %d %d %d %s%s%s %d %d %d m%d", kind, f.tsn, s.si, ssn, mid, fsn,
		vb(m.unordered), vb(f.b), vb(f.e), ppi, f.n, m.seed+uint32(f.off), m.id)
	f.delivered = true
	m.nDeliv++
}

func vReasmHonest(t *testing.T, h *vReasm, r *vrand, nops int) {
	l := h.l
	l.stat("reasm.mode.honest")
	s := &vSender{idata: r.chance(50), si: uint16(r.n(4)), mp: r.pick(1, 2, 3, 7, 16, 64, 1200)}
	maxEntries := uint32(0)
	switch x := r.n(10); {
	case x < 2:
		maxEntries = 100000
	case x < 3:
		maxEntries = uint32(r.pick(4, 8, 16))
		l.stat("reasm.honest.smalllimit")
	}
	h.do(t, "reasm new %d %d honest", s.si, maxEntries)
	if s.idata {
		l.stat("reasm.kind.idata")
	} else {
		l.stat("reasm.kind.data")
	}
	// initial TSN anywhere, often next to the 2^32 wrap
	switch r.n(3) {
	case 0:
		s.nextTSN = r.u32()
	case 1:
		s.nextTSN = uint32(0) - uint32(r.n(300))
		l.stat("reasm.tsn.nearwrap")
	default:
		s.nextTSN = uint32(r.n(1000))
	}
	// pre-roll: an honest sender that abandoned everything so far has forwarded the receiver's cursor;
	// this is how SSN/MID near the 16/32-bit wrap are reached without 2^16 messages
	if r.chance(45) {
		if s.idata {
			target := uint32(0) - uint32(r.n(40)) - 1
			if r.chance(30) {
				target = r.u32()
			}
			for cur := uint32(0); cur != target; {
				step := min(target-cur, uint32(1<<31-5))
				h.do(t, "reasm fwdOM %d", cur+step-1)
				cur += step
			}
			s.nextOMID = target
			l.stat("reasm.mid.nearwrap")
		} else {
			target := uint16(0) - uint16(r.n(40)) - 1
			if r.chance(30) {
				target = uint16(r.u32())
			}
			for cur := uint16(0); cur != target; {
				step := min(target-cur, uint16(1<<15-5))
				h.do(t, "reasm fwdO %d", cur+step-1)
				cur += step
			}
			s.nextSSN = target
			l.stat("reasm.ssn.nearwrap")
		}
	}
	if s.idata && r.chance(50) {
		s.nextUMID = uint32(0) - uint32(r.n(20))
	}
	pr := r.chance(40) // partial reliability: the sender may abandon messages and forward
	if pr {
		l.stat("reasm.honest.pr")
	}
	mixUnordered := r.pick(0, 0, 30, 100)
	capOutstanding := r.pick(8, 24, 48, 48, 120)
	outstanding := func() (n int) {
		for _, m := range s.msgs {
			if !m.gone {
				n += len(m.frags) - m.nDeliv
			}
		}
		return
	}
	undelivered := func() (out [][2]int) {
		for i, m := range s.msgs {
			if m.gone {
				continue
			}
			for j, f := range m.frags {
				if !f.delivered {
					out = append(out, [2]int{i, j})
				}
			}
		}
		return
	}
	limitHit := false
	deliver := func(i, j int) {
		h.pushFrag(t, s, s.msgs[i], s.msgs[i].frags[j])
		if h.lastErr == "datalimit" || h.lastErr == "midlimit" {
			limitHit = true // the association aborts here
			l.stat("reasm.honest.limithit")
		}
	}
	read := func() {
		buflen := 70000
		if r.chance(20) {
			buflen = r.pick(0, 1, 2, 5, s.mp, s.mp+1, 2*s.mp)
		}
		h.do(t, "reasm read %d", buflen)
		l.stat("reasm.read." + h.lastRErr)
		if h.lastRErr == "short" && r.chance(70) {
			h.do(t, "reasm read %d", h.lastN)
			l.stat("reasm.read." + h.lastRErr)
		}
	}
	for i := 0; i < nops && !limitHit; i++ {
		switch x := r.n(100); {
		case x < 22:
			if outstanding() >= capOutstanding {
				continue
			}
			var length int
			switch y := r.n(10); {
			case y < 2:
				length = 1
			case y < 4:
				length = r.pick(s.mp-1, s.mp, s.mp+1, 2*s.mp, 2*s.mp+1, 3*s.mp-1)
			default:
				length = 1 + r.n(5*s.mp)
			}
			if length < 1 {
				length = 1
			}
			m := s.newMsg(length, r.chance(mixUnordered), r.u32())
			ou := "o"
			if m.unordered {
				ou = "u"
				l.stat("reasm.msg.unordered")
			} else {
				l.stat("reasm.msg.ordered")
			}
			switch n := len(m.frags); {
			case n == 1:
				l.stat("reasm.msg.frags.1")
			case n <= 3:
				l.stat("reasm.msg.frags.2-3")
			default:
				l.stat("reasm.msg.frags.4+")
			}
			h.do(t, "reasm msg %d %s %d %d %d %s", m.id, ou, m.key, m.ppi, m.length, vRsmHash(vRsmPayload(m.seed, m.length)))
		case x < 70:
			u := undelivered()
			if len(u) == 0 {
				continue
			}
			k := 0
			if r.chance(50) {
				k = r.n(len(u))
				l.stat("reasm.deliver.reordered")
			} else {
				l.stat("reasm.deliver.inorder")
			}
			deliver(u[k][0], u[k][1])
		case x < 74:
			// a duplicate TSN: the association's receive bitmap filters it before the stream sees it
			l.stat("reasm.dup.filtered")
		case x < 88:
			read()
		case x < 93:
			h.do(t, "reasm readable")
		case x < 96:
			h.do(t, "reasm nbytes")
		default:
			if !pr || len(s.msgs) == 0 {
				continue
			}
			// the sender abandons some incomplete messages up to message `upto` and forwards over them;
			// everything else up to there has been acknowledged, i.e. delivered
			upto := r.n(len(s.msgs))
			var lastO, lastU *vRsmMsg
			for i := 0; i <= upto && !limitHit; i++ {
				m := s.msgs[i]
				if m.gone || m.nDeliv == len(m.frags) {
					m.gone = true
					continue
				}
				if r.chance(60) {
					m.abandoned = true
					h.do(t, "reasm abandon %d", m.id)
					if m.unordered {
						lastU = m
					} else {
						lastO = m
					}
					l.stat("reasm.abandon")
				} else {
					for j, f := range m.frags {
						if !f.delivered && !limitHit {
							deliver(i, j)
						}
					}
				}
				m.gone = true
			}
			if limitHit {
				break
			}
			lastTSN := s.msgs[upto].frags[len(s.msgs[upto].frags)-1].tsn
			if s.idata {
				if lastO != nil {
					h.do(t, "reasm fwdOM %d", lastO.key)
					l.stat("reasm.fwd.orderedMID")
				}
				if lastU != nil {
					h.do(t, "reasm fwdUM %d", lastU.key)
					l.stat("reasm.fwd.unorderedMID")
				}
			} else {
				if lastO != nil {
					h.do(t, "reasm fwdO %d", lastO.key)
					l.stat("reasm.fwd.ordered")
				}
				h.do(t, "reasm fwdU %d", lastTSN)
				l.stat("reasm.fwd.unordered")
			}
		}
	}
	// drain: the network heals, the application reads everything
	if !limitHit {
		for _, ij := range undelivered() {
			if limitHit {
				break
			}
			deliver(ij[0], ij[1])
		}
	}
	for k := 0; k < len(s.msgs)+2; k++ {
		h.do(t, "reasm read 70000")
		if h.lastRErr != "ok" {
			break
		}
	}
	if !limitHit {
		h.do(t, "reasm drained")
	}
	h.do(t, "reasm nbytes")
}

// ---- hostile peer ---------------------------------------------------------------------

// Go's sort.Slice is deterministic for any comparator only up to 12 elements (insertion sort); the
// hostile generator uses keys that are not totally ordered, so it keeps every sorted slice below that.
func (h *vReasm) sortSafe() bool {
	q := h.q
	if len(q.ordered) >= 12 || len(q.unorderedChunks) >= 12 {
		return false
	}
	for _, s := range q.ordered {
		if len(s.chunks) >= 12 {
			return false
		}
	}
	for _, s := range q.orderedMID {
		if len(s.chunks) >= 12 {
			return false
		}
	}
	for _, s := range q.unorderedMIDMap {
		if len(s.chunks) >= 12 {
			return false
		}
	}
	return true
}

func vReasmHostile(t *testing.T, h *vReasm, r *vrand, nops int) {
	l := h.l
	l.stat("reasm.mode.hostile")
	si := uint16(r.n(3))
	maxEntries := uint32(r.pick(0, 0, 1, 2, 3, 5, 8, 12, 100))
	h.do(t, "reasm new %d %d hostile", si, maxEntries)
	pIData := r.pick(0, 0, 100, 100, 30)
	tsnBase := r.u32()
	if r.chance(50) {
		tsnBase = uint32(0) - uint32(r.n(20))
		l.stat("reasm.tsn.nearwrap")
	}
	if r.chance(40) { // move the cursors next to the wrap first
		h.do(t, "reasm fwdO %d", 32000)
		h.do(t, "reasm fwdO %d", 64000)
		h.do(t, "reasm fwdO %d", 65535-r.n(8))
		h.do(t, "reasm fwdOM %d", uint32(1<<31-2))
		h.do(t, "reasm fwdOM %d", uint32(0)-uint32(r.n(8))-1)
		l.stat("reasm.ssn.nearwrap")
		l.stat("reasm.mid.nearwrap")
	}
	pick32 := func(cur uint32) uint32 {
		switch x := r.n(100); {
		case x < 60:
			return cur + uint32(r.n(6))
		case x < 70:
			return cur - uint32(1+r.n(3))
		case x < 78:
			return uint32(0) - uint32(r.n(4)) + uint32(r.n(4))
		case x < 88:
			return cur + 1<<31 - 1 + uint32(r.n(3))
		default:
			return r.u32()
		}
	}
	for i := 0; i < nops; i++ {
		q := h.q
		switch x := r.n(100); {
		case x < 60:
			if !h.sortSafe() {
				// make room instead
				switch r.n(4) {
				case 0:
					h.do(t, "reasm fwdO %d", q.nextSSN+uint16(r.n(8)))
				case 1:
					h.do(t, "reasm fwdU %d", tsnBase+uint32(r.n(40)))
				case 2:
					h.do(t, "reasm fwdOM %d", q.nextMID+uint32(r.n(8)))
				default:
					h.do(t, "reasm fwdUM %d", r.u32())
				}
				l.stat("reasm.hostile.makeroom")
				continue
			}
			kind := "d"
			if r.chance(pIData) {
				kind = "i"
			}
			tsn := tsnBase + uint32(r.n(30))
			if y := r.n(100); y < 5 {
				tsn = tsnBase + 1<<31 + uint32(r.n(3))
			} else if y < 10 {
				tsn = r.u32()
			}
			ssn := uint16(pick32(uint32(q.nextSSN)))
			if r.chance(10) {
				ssn = q.nextSSN + 1<<15 - 1 + uint16(r.n(3))
			}
			mid := pick32(q.nextMID)
			fsn := uint32(r.n(5))
			if y := r.n(100); y < 6 {
				fsn = uint32(0) - uint32(r.n(3)) - 1
			} else if y < 10 {
				fsn = 1<<31 - 1 + uint32(r.n(3))
			}
			csi := si
			if r.chance(3) {
				csi = si + 1
				l.stat("reasm.hostile.wrongsi")
			}
			length := r.n(12)
			if r.chance(5) {
				length = 0
				l.stat("reasm.hostile.zerolen")
			}
			ppi := uint32(r.pick(0, 50, 51, 53, 7777))
			h.do(t, "reasm push %s %d %d %d %d %d %s%s%s %d %d %d", kind, tsn, csi, ssn, mid, fsn,
				vb(r.chance(35)), vb(r.chance(45)), vb(r.chance(45)), ppi, length, r.u32())
			l.stat("reasm.hostile.push." + h.lastErr)
		case x < 78:
			h.do(t, "reasm read %d", r.pick(0, 1, 5, 20, 70000, 70000, 70000))
			l.stat("reasm.read." + h.lastRErr)
		case x < 83:
			h.do(t, "reasm readable")
		case x < 87:
			h.do(t, "reasm fwdO %d", uint16(pick32(uint32(q.nextSSN))))
			l.stat("reasm.fwd.ordered")
		case x < 91:
			h.do(t, "reasm fwdU %d", tsnBase+uint32(r.n(32))-1)
			l.stat("reasm.fwd.unordered")
		case x < 95:
			h.do(t, "reasm fwdOM %d", pick32(q.nextMID))
			l.stat("reasm.fwd.orderedMID")
		case x < 98:
			h.do(t, "reasm fwdUM %d", pick32(q.nextMID))
			l.stat("reasm.fwd.unorderedMID")
		default:
			h.do(t, "reasm nbytes")
		}
	}
	h.do(t, "reasm nbytes")
}

func TestVerifReasm(t *testing.T) {
	l := vOpenLog(t)
	defer l.close()
	h := &vReasm{l: l}
	if ops := vReadOps(t); ops != nil {
		for _, op := range ops {
			if op[0] == "reasm" {
				if h.q == nil && op[1] != "new" {
					h.do(t, "reasm new 0 0 hostile")
				}
				h.exec(t, op)
			}
		}
		return
	}
	r := &vrand{s: uint64(vEnvInt("VERIF_SEED", 1))*0x2545f491 + 11}
	nseq, nops := vEnvInt("VERIF_N", 200), vEnvInt("VERIF_OPS", 200)
	for s := 0; s < nseq; s++ {
		if r.chance(55) {
			vReasmHonest(t, h, r, nops)
		} else {
			vReasmHostile(t, h, r, nops)
		}
	}
}
