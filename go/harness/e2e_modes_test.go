//go:build verif

package sctp

import (
	"context"
	"fmt"
	"sync"
	"testing"
	"testing/synctest"
	"time"
)

// ---- handshake mode (C04): faults on the first packets, all option combinations, three role
// assignments, stale handshake packets after establishment, silent peer, waiting server ---------

type vHsFault struct{ pos, kind int } // kind: 0 drop, 1 dup, 2 delay 1.5 s, 3 delay 20 ms (reorder)

func vGenHandshake(sc *vScenario) {
	r := &vrand{s: uint64(sc.seed)*2654435761 + uint64(sc.idx)*40503 + 3}
	combo := sc.idx % 16
	sc.il = [2]bool{combo&1 != 0, combo&2 != 0}
	sc.zc = [2]bool{combo&4 != 0, combo&8 != 0}
	sc.hsRole = (sc.idx / 16) % 3
	sc.bothClients = sc.hsRole == 1
	sc.mtu = 1200
	sc.rcvBuf = 0
	sc.blockWrite = false
	sc.dropPct, sc.dupPct, sc.maxDelayMs, sc.healMs, sc.blackoutToMs, sc.readerPauseMs = 0, 0, 0, 0, 0, 0
	sc.streams = []vStreamSpec{{id: 1, dir: 0}, {id: 2, dir: 1}}
	sc.msgs = []vMsg{{stream: 0, size: 100, ppi: PayloadTypeWebRTCBinary}, {stream: 1, size: 3000, ppi: PayloadTypeWebRTCBinary},
		{stream: 0, size: 1, ppi: PayloadTypeWebRTCString}, {stream: 1, size: 7, ppi: PayloadTypeWebRTCBinary}}
	nf := r.pick(0, 1, 1, 2, 2, 3)
	for i := 0; i < nf; i++ {
		sc.hsFaults = append(sc.hsFaults, vHsFault{pos: r.n(8), kind: r.pick(0, 0, 1, 2, 3)})
	}
	switch x := r.n(20); {
	case x == 0:
		sc.hsSilent = 1 // the peer never answers: connect must fail in bounded time
	case x == 1:
		sc.hsSilent = 2 // a server waits and its transport is closed
	}
}

func (r *vRun) hsFate() func(int, int, []byte, time.Duration) vFate {
	g := 0
	return func(from, idx int, pkt []byte, now time.Duration) vFate {
		pos := g
		g++
		if r.sc.hsSilent == 1 {
			return vFate{drop: true}
		}
		f := vFate{delays: []time.Duration{0}}
		for _, hf := range r.sc.hsFaults {
			if hf.pos != pos {
				continue
			}
			switch hf.kind {
			case 0:
				return vFate{drop: true}
			case 1:
				f.delays = append(f.delays, 0)
			case 2:
				f.delays[0] = 1500 * time.Millisecond
			case 3:
				f.delays[0] = 20 * time.Millisecond
			}
		}
		return f
	}
}

func (r *vRun) runHandshake() {
	sc := r.sc
	switch sc.hsSilent {
	case 1:
		t0 := time.Now()
		done := make(chan error, 1)
		go func() {
			a, err := Client(r.config(0))
			r.as[0] = a
			done <- err
		}()
		select {
		case err := <-done:
			r.logf("e2e connectsilent 0 -> %s %d", vErrClass(err), time.Since(t0).Milliseconds())
		case <-time.After(400 * time.Second):
			r.logf("e2e connectsilent 0 -> timeout %d", time.Since(t0).Milliseconds())
			r.link.ends[0].fail()
			<-done
		}
		return
	case 2:
		done := make(chan error, 1)
		go func() {
			a, err := Server(r.config(1))
			r.as[1] = a
			done <- err
		}()
		time.Sleep(50 * time.Second)
		tc := time.Now()
		r.link.ends[1].fail()
		select {
		case err := <-done:
			r.logf("e2e serverwait 1 -> %s %d", vErrClass(err), time.Since(tc).Milliseconds())
		case <-time.After(100 * time.Second):
			r.logf("e2e serverwait 1 -> timeout %d", time.Since(tc).Milliseconds())
			<-done
		}
		return
	}
	var ok bool
	if sc.hsRole == 2 {
		ok = r.connectSNAP()
	} else {
		ok = r.connect(400 * time.Second)
	}
	if !ok {
		return
	}
	r.logMeta(0)
	r.logMeta(1)
	// stale / duplicated handshake packets arrive later on both sides
	r.mu.Lock()
	stale := append([]vStale(nil), r.stale...)
	r.mu.Unlock()
	for _, st := range stale {
		r.link.ends[st.to].deliver(st.pkt, 1-st.to, 1<<20)
		r.logf("e2e stale %d %s", st.to, st.kind)
	}
	time.Sleep(3 * time.Second)
	synctest.Wait()
	r.logMeta(0)
	r.logMeta(1)
	// the association must still work
	var rwg sync.WaitGroup
	for side := 0; side < 2; side++ {
		rwg.Add(1)
		go r.acceptor(side, &rwg, 70000)
	}
	for i, ss := range sc.streams {
		s, err := r.as[ss.dir].OpenStream(ss.id, PayloadTypeWebRTCBinary)
		if err != nil {
			r.logf("e2e open %d %d -> %s", ss.dir, ss.id, vErrClass(err))
			continue
		}
		r.logf("e2e open %d %d 0 0 0 -> nil", ss.dir, ss.id)
		seq := 0
		for mi, m := range sc.msgs {
			if m.stream != i {
				continue
			}
			p := vPayload(uint64(sc.seed)<<32|uint64(sc.idx)<<16|uint64(mi), m.size)
			n, err := s.WriteSCTP(p, m.ppi)
			r.logf("e2e w %d %d %d %d %d %d -> %d %s", ss.dir, ss.id, seq, uint32(m.ppi), m.size, vHash(p), n, vErrClass(err))
			seq++
		}
	}
	time.Sleep(10 * time.Second)
	synctest.Wait()
	r.logEnd()
	for side := 0; side < 2; side++ {
		_ = r.as[side].Close()
		r.link.ends[side].fail()
	}
	rwg.Wait()
}

// both sides built from exchanged out-of-band tokens (SNAP)
func (r *vRun) connectSNAP() bool {
	gen := globalMathRandomGenerator.(*vRandGen)
	var tok [2][]byte
	for side := 0; side < 2; side++ {
		gen.mu.Lock()
		gen.tsns = append(gen.tsns[:gen.next], r.sc.tsn[side], gen.r.u32()|1)
		gen.mu.Unlock()
		t, err := GenerateOutOfBandToken(r.config(side))
		if err != nil {
			r.logf("e2e connect %d -> %s 0", side, vErrClass(err))
			return false
		}
		tok[side] = t
	}
	ok := true
	for side := 0; side < 2; side++ {
		cfg := r.config(side)
		if (r.sc.idx/48)%2 == 1 {
			// the association is created with an interleaving option that contradicts its own token:
			// the peer only ever sees the token, so the token decides on both sides
			cfg.enableInterleaving = !cfg.enableInterleaving
		}
		a, err := ClientWithOptions(cfg, WithSNAP(tok[side], tok[1-side]))
		r.as[side] = a
		r.logf("e2e connect %d -> %s %d", side, vErrClass(err), time.Since(r.link.start).Milliseconds())
		if err != nil {
			ok = false
		}
	}
	return ok
}

func TestVerifE2EHandshake(t *testing.T) { vE2EMain(t, "handshake") }

var _ = fmt.Sprintf

// ---- reset mode (C14): close by the writer, EOF after all data at the reader, the reader closes
// its side too, then the identifier is re-opened; several cycles, several streams at once --------

func (r *vRun) resetReader(side int, s *Stream, inc int, wg *sync.WaitGroup) {
	defer wg.Done()
	sid := int(s.StreamIdentifier()) + 1000*inc
	buf := make([]byte, 70000)
	for {
		n, ppi, err := s.ReadSCTP(buf)
		if err != nil {
			r.logf("e2e rerr %d %d -> %s", side, sid, vErrClass(err))
			break
		}
		r.logf("e2e r %d %d %d %d %d", side, sid, uint32(ppi), n, vHash(buf[:n]))
	}
	// like pion/datachannel: when the incoming stream was reset, reset the outgoing one too
	err := s.Close()
	r.logf("e2e closepeer %d %d -> %s", side, sid, vErrClass(err))
}

func (r *vRun) resetAcceptor(side int, wg *sync.WaitGroup) {
	defer wg.Done()
	counts := map[uint16]int{}
	for {
		s, err := r.as[side].AcceptStream()
		if err != nil {
			r.logf("e2e accepterr %d -> %s", side, vErrClass(err))
			return
		}
		inc := counts[s.StreamIdentifier()]
		counts[s.StreamIdentifier()]++
		r.logf("e2e accept %d %d", side, int(s.StreamIdentifier())+1000*inc)
		wg.Add(1)
		go r.resetReader(side, s, inc, wg)
	}
}

func (r *vRun) streamsGone() bool {
	for side := 0; side < 2; side++ {
		a := r.as[side]
		a.lock.RLock()
		n := 0
		for _, ss := range r.sc.streams {
			if _, ok := a.streams[ss.id]; ok {
				n++
			}
		}
		a.lock.RUnlock()
		if n > 0 {
			return false
		}
	}
	return true
}

func (r *vRun) runReset() {
	sc := r.sc
	if !r.connect(400 * time.Second) {
		return
	}
	r.logMeta(0)
	r.logMeta(1)
	var rwg sync.WaitGroup
	for side := 0; side < 2; side++ {
		rwg.Add(1)
		go r.resetAcceptor(side, &rwg)
	}
	cycles := 1 + (sc.idx+sc.seed)%3
	for c := 0; c < cycles; c++ {
		var wwg sync.WaitGroup
		for i, ss := range sc.streams {
			s, err := r.as[ss.dir].OpenStream(ss.id, PayloadTypeWebRTCBinary)
			sid := int(ss.id) + 1000*c
			if err != nil {
				r.logf("e2e open %d %d -> %s", ss.dir, sid, vErrClass(err))
				continue
			}
			s.SetReliabilityParams(ss.unordered, ss.relType, ss.relVal)
			r.logf("e2e open %d %d %d %d %d -> nil", ss.dir, sid, map[bool]int{false: 0, true: 1}[ss.unordered], ss.relType, ss.relVal)
			i, ss := i, ss
			wwg.Add(1)
			go func() {
				defer wwg.Done()
				// every incarnation carries at least one message: the peer only learns about a stream from its data
				seq := 1
				p0 := vPayload(uint64(sc.seed)<<32|uint64(sc.idx)<<16|uint64(c)<<8|uint64(i)|1<<50, 9+i)
				n0, err0 := s.WriteSCTP(p0, PayloadTypeWebRTCBinary)
				r.logf("e2e w %d %d %d %d %d %d -> %d %s", ss.dir, sid, 0, uint32(PayloadTypeWebRTCBinary), len(p0), vHash(p0), n0, vErrClass(err0))
				for mi, m := range sc.msgs {
					if m.stream != i || mi%cycles != c {
						continue
					}
					if m.gapUs > 0 {
						time.Sleep(time.Duration(m.gapUs) * time.Microsecond)
					}
					p := vPayload(uint64(sc.seed)<<32|uint64(sc.idx)<<16|uint64(mi), m.size)
					n, err := s.WriteSCTP(p, m.ppi)
					r.logf("e2e w %d %d %d %d %d %d -> %d %s", ss.dir, sid, seq, uint32(m.ppi), m.size, vHash(p), n, vErrClass(err))
					seq++
				}
				err := s.Close()
				r.logf("e2e close %d %d -> %s", ss.dir, sid, vErrClass(err))
			}()
		}
		wwg.Wait()
		limit := time.Duration(sc.healMs)*time.Millisecond + 900*time.Second
		done := false
		for time.Since(r.link.start) < limit {
			time.Sleep(500 * time.Millisecond)
			if r.streamsGone() {
				done = true
				break
			}
		}
		r.logf("e2e resetdone %d -> %v %d", c, done, time.Since(r.link.start).Milliseconds())
		if !done {
			break
		}
	}
	r.waitDrain()
	r.logEnd()
	for side := 0; side < 2; side++ {
		_ = r.as[side].Close()
		r.link.ends[side].fail()
	}
	rwg.Wait()
}

func TestVerifE2EReset(t *testing.T) { vE2EMain(t, "reset") }

// ---- teardown mode (C09): Close / Abort / transport failure injected right after the k-th wire
// event of a run that goes through handshake, transfer, stream reset and shutdown, with callers
// parked in Connect, Accept, Read, (blocking) Write, Shutdown ----------------------------------

func (r *vRun) runTeardown() {
	sc := r.sc
	tr := &vrand{s: uint64(sc.seed)*911 + uint64(sc.idx)*31 + 17}
	kind := []string{"close", "abort", "readfail", "writefail"}[tr.n(4)]
	side := tr.n(2)
	// a run has roughly 4 (handshake) + 2..200 wire events; bias to the early ones
	at := 1 + tr.pick(tr.n(4), tr.n(12), tr.n(40), tr.n(150))
	// extensions draw from their own stream, so that the scenarios above stay what they were
	xr := &vrand{s: uint64(sc.seed)*6151 + uint64(sc.idx)*769 + 5}
	var cancel0 context.CancelFunc
	if xr.chance(25) {
		// the client connects with a context that is cancelled: right after the k-th wire event, or (2 of 3) at the very
		// moment the COOKIE-ACK is handed to it, so that the cancel can fall while the COOKIE-ACK is being processed
		kind, side = "ctxcancel", 0
		r.ctx0, cancel0 = context.WithCancel(context.Background())
		defer cancel0()
		if xr.chance(66) {
			r.holdCA = true
		} else {
			at = 1 + xr.n(5)
		}
	}
	ncall := 1 + xr.n(4) // Close / Abort are called from this many goroutines at once
	if xr.chance(35) && !r.native {
		r.idleSide = [2]bool{xr.chance(70), xr.chance(70)} // the first stream accepted on that side gets the idle deadline reader
	}
	r.mu.Lock()
	r.trigAt, r.trigCh = at, make(chan struct{})
	trig := r.trigCh
	r.mu.Unlock()
	if r.holdCA {
		trig = r.heldCh
	}
	r.logf("e2e inject %s %d %d", kind, side, at)

	var all sync.WaitGroup // every API caller of this run
	finished := make(chan struct{})
	connected := make(chan bool, 1)
	all.Add(1)
	go func() { // the workload: connect, transfer, close streams, graceful shutdown
		defer all.Done()
		ok := r.connect(400 * time.Second)
		connected <- ok
		if !ok {
			return
		}
		for sd := 0; sd < 2; sd++ {
			sd := sd
			all.Add(1)
			go func() { defer all.Done(); var wg sync.WaitGroup; wg.Add(1); r.acceptor(sd, &wg, 70000); wg.Wait() }()
		}
		var wwg sync.WaitGroup
		for i, ss := range sc.streams {
			s, err := r.as[ss.dir].OpenStream(ss.id, PayloadTypeWebRTCBinary)
			if err != nil {
				r.logf("e2e open %d %d -> %s", ss.dir, ss.id, vErrClass(err))
				continue
			}
			r.logf("e2e open %d %d 0 0 0 -> nil", ss.dir, ss.id)
			if sc.idx%7 == 3 && !r.native {
				// a read deadline far in the future on a stream nobody reads: its helper goroutine and timer must not
				// outlive the association
				_ = s.SetReadDeadline(time.Now().Add(time.Hour))
				r.logf("e2e longdeadline %d %d", ss.dir, ss.id)
			}
			i, ss := i, ss
			wwg.Add(1)
			go func() {
				defer wwg.Done()
				seq := 0
				for mi, m := range sc.msgs {
					if m.stream != i {
						continue
					}
					p := vPayload(uint64(sc.seed)<<32|uint64(sc.idx)<<16|uint64(mi), m.size)
					n, err := s.WriteSCTP(p, m.ppi)
					r.logf("e2e w %d %d %d %d %d %d -> %d %s", ss.dir, ss.id, seq, uint32(m.ppi), m.size, vHash(p), n, vErrClass(err))
					seq++
					if err != nil {
						return
					}
				}
				if (sc.idx+i)%2 == 0 {
					err := s.Close()
					r.logf("e2e close %d %d -> %s", ss.dir, ss.id, vErrClass(err))
				}
			}()
		}
		wwg.Wait()
		time.Sleep(time.Duration(tr.n(3000)) * time.Millisecond)
		ctx, cancel := context.WithTimeout(context.Background(), 300*time.Second)
		defer cancel()
		err := r.as[0].Shutdown(ctx)
		r.logf("e2e shutdown 0 -> %s %d", vErrClass(err), time.Since(r.link.start).Milliseconds())
		if err != nil {
			// the shutdown did not go through (e.g. the peer's application does not read): the application gives up and
			// closes both ends, otherwise the calls parked in AcceptStream / Read would (rightly) wait for ever
			for sd := 0; sd < 2; sd++ {
				if a := r.assoc(sd); a != nil {
					_ = a.Close()
				}
			}
			r.logf("e2e giveup")
		}
	}()
	go func() { all.Wait(); close(finished) }()

	injected := false
	select {
	case <-trig:
		injected = true
	case <-finished: // the run ended before the k-th event
	case <-time.After(1800 * time.Second):
		// neither: the injection point was never reached (e.g. a context cancellation planned for an event the handshake
		// did not have) and the workload cannot finish by itself (e.g. the stream's only reader is the idle deadline reader
		// and the receive buffer is full: the sender probes a zero window for ever). Tear down now, with a plain Close.
		injected, kind = true, "close"
		r.logf("e2e injectlate close %d", side)
	}
	t0 := time.Now()
	if injected {
		a := r.assoc(side)
		switch kind {
		case "close":
			if a != nil {
				var cwg sync.WaitGroup
				for k := 0; k < ncall; k++ {
					cwg.Add(1)
					go func() {
						defer cwg.Done()
						err := a.Close()
						r.logf("e2e closecall %d -> %s", side, vErrClass(err))
					}()
				}
				cwg.Wait()
			} else {
				r.link.ends[side].fail() // still inside the constructor: all we can do is fail the transport
			}
		case "abort":
			if a != nil {
				var cwg sync.WaitGroup
				for k := 0; k < ncall; k++ {
					k := k
					cwg.Add(1)
					go func() {
						defer cwg.Done()
						if k == 2 { // a Close racing with the Aborts
							err := a.Close()
							r.logf("e2e closecall %d -> %s", side, vErrClass(err))
							return
						}
						a.Abort("verif-abort-reason")
					}()
				}
				cwg.Wait()
				r.logf("e2e abortcall %d -> done", side)
			} else {
				r.link.ends[side].fail()
			}
		case "ctxcancel":
			r.link.mu.Lock()
			held, hidx := r.heldCA, r.heldIdx
			r.link.mu.Unlock()
			switch {
			case held == nil:
				cancel0()
			case xr.chance(50):
				// both become runnable at the same instant; which of the two the scheduler runs first decides whether the
				// handler finds the constructor still listening
				cancel0()
				r.link.ends[0].deliver(held, 1, hidx)
			default:
				r.link.ends[0].deliver(held, 1, hidx)
				cancel0()
			}
		case "readfail":
			r.link.ends[side].fail()
		case "writefail":
			r.link.ends[side].failWrite.Store(true)
			if a == nil {
				// still inside the constructor and possibly never writing: a write failure alone would go unnoticed
				r.link.ends[side].fail()
			}
			// a write failure is only noticed on the next write; make sure there is one
			if a != nil {
				a.lock.Lock()
				a.awakeWriteLoop()
				a.lock.Unlock()
				a.ActiveHeartbeat()
			}
		}
		r.logf("e2e injected %s %d %d", kind, side, time.Since(r.link.start).Milliseconds())
	}
	if kind == "ctxcancel" {
		// the cancelled constructor returns without an association; the peer learns it from its transport
		select {
		case <-finished:
		case <-time.After(5 * time.Second):
			r.link.ends[1].fail()
		}
	}
	select {
	case <-finished:
		r.logf("e2e unblocked -> true %d", time.Since(t0).Milliseconds())
	case <-time.After(120 * time.Second):
		r.logf("e2e unblocked -> false %d", time.Since(t0).Milliseconds())
	}
	select {
	case <-connected:
	default:
	}
	// repeated Close calls are harmless
	for sd := 0; sd < 2; sd++ {
		if a := r.assoc(sd); a != nil {
			e1 := a.Close()
			e2 := a.Close()
			r.logf("e2e reclose %d -> %s %s", sd, vErrClass(e1), vErrClass(e2))
		}
		r.link.ends[sd].fail()
	}
	<-finished
	// both associations are closed for good. The idle deadline readers come back now: they let their old deadline run out,
	// set a new one (or none) and read
	close(r.idleGo)
	idleDone := make(chan struct{})
	go func() { r.idleWG.Wait(); close(idleDone) }()
	tI := time.Now()
	select {
	case <-idleDone:
	case <-time.After(2*time.Hour + 120*time.Second):
		r.logf("e2e idleunblocked -> false %d", time.Since(tI).Milliseconds())
		r.mu.Lock()
		r.l.w.Flush()
		r.mu.Unlock()
		<-idleDone // never comes: the bubble reports the blocked reader
	}
}

func TestVerifE2ETeardown(t *testing.T) { vE2EMain(t, "teardown") }
