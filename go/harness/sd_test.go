//go:build verif

package sctp

// X-assoc for graceful shutdown (C08): two REAL, established associations driven single-threaded
// under testing/synctest. The read loop of each association is the real one (blocked in Read of an
// in-memory conn that only ever reports closure); packets are collected with gatherOutbound and handed
// over with handleInbound exactly as the read loop would. `sd gather X` stands in for ONE iteration of
// writeLoop (gatherOutbound, send, close() when it says so); after every op the harness lets a loop
// that saw closeWriteLoopCh closed take its exit path (writeLoop: setState(closed), closeAllTimers).
// `sd deliver X i` hands the i-th packet ever sent by X to the other side (never choosing it = loss,
// twice = duplication, any order = reordering / stale replay). Timers never fire by themselves (virtual
// time stands still): `sd t2`, `sd t3`, `sd ackt` are the expiries.
//
// Line: `sd <op> <args> -> <result> | <state of A> | <state of B>`.

import (
	"context"
	"encoding/binary"
	"errors"
	"fmt"
	"io"
	"net"
	"os"
	"strings"
	"sync"
	"testing"
	"testing/synctest"
	"time"

	"github.com/pion/logging"
)

// vSdConn: a transport on which nothing ever arrives; Read blocks until the conn is closed
// (by the association itself or by the harness = transport failure).
type vSdConn struct {
	closed chan struct{}
	once   sync.Once
	dl     chan struct{} // closed by SetReadDeadline(<= now): Abort() relies on it to unblock the read loop
	dlOnce sync.Once
}

func (c *vSdConn) LocalAddr() net.Addr           { return nil }
func (c *vSdConn) RemoteAddr() net.Addr          { return nil }
func (c *vSdConn) SetDeadline(t time.Time) error { return nil }
func (c *vSdConn) SetReadDeadline(t time.Time) error {
	if !t.IsZero() && !t.After(time.Now()) {
		c.dlOnce.Do(func() { close(c.dl) })
	}
	return nil
}
func (c *vSdConn) SetWriteDeadline(t time.Time) error { return nil }

func (c *vSdConn) Read(b []byte) (int, error) {
	select {
	case <-c.closed:
		return 0, io.EOF
	case <-c.dl:
		return 0, os.ErrDeadlineExceeded
	}
}
func (c *vSdConn) Write(b []byte) (int, error) { return len(b), nil }
func (c *vSdConn) Close() error                { c.once.Do(func() { close(c.closed) }); return nil }

type vSdEp struct {
	a        *Association
	conn     *vSdConn
	streams  []*Stream
	base     uint32 // initial TSN of this side
	hist     [][]byte
	wlExited bool // the stand-in for writeLoop has returned
	attempts int
	sr       string        // "-" no call passed the gate, "w" waiting, "ok" returned nil, "err" returned an error later
	waitCh   chan error    // result of the Shutdown call that is waiting
	reads    int           // messages read so far (all streams)
	readLog  map[int][]int // per stream: ids read
}

type vSd struct {
	t    *testing.T
	l    *vlog
	ep   [2]*vSdEp
	ns   int
	stop chan struct{}
	// generator feedback
	gatePassed bool
}

func vSdChanClosed(ch chan struct{}) bool {
	select {
	case <-ch:
		return true
	default:
		return false
	}
}

// one chunk, TSNs and acknowledgement points relative to the sender's initial TSN (as counts)
func (h *vSd) chunkSummary(from int, c chunk) string {
	me, peer := h.ep[from], h.ep[1-from]
	switch x := c.(type) {
	case *chunkPayloadData:
		id := -1
		if len(x.userData) >= 4 {
			id = int(binary.BigEndian.Uint32(x.userData))
		}
		seq := uint32(x.streamSequenceNumber)
		if x.isIData() {
			seq = x.messageIdentifier
		}
		return fmt.Sprintf("D%d.%d.%d.%d", x.tsn-me.base, id, x.streamIdentifier, seq)
	case *chunkSelectiveAck:
		cum := x.cumulativeTSNAck - peer.base + 1
		s := fmt.Sprintf("S%d", cum)
		for i, g := range x.gapAckBlocks {
			sep := "+"
			if i == 0 {
				sep = ":"
			}
			s += fmt.Sprintf("%s%d-%d", sep, cum-1+uint32(g.start), cum-1+uint32(g.end))
		}
		return s
	case *chunkShutdown:
		return fmt.Sprintf("SD%d", x.cumulativeTSNAck-peer.base+1)
	case *chunkShutdownAck:
		return "SA"
	case *chunkShutdownComplete:
		return "SC"
	case *chunkAbort:
		return "AB"
	default:
		return "X:" + strings.ReplaceAll(vChunkSummary(c), " ", "_")
	}
}

func (h *vSd) packetSummary(from int, raw []byte) string {
	p := &packet{}
	if err := p.unmarshal(false, raw); err != nil {
		return "unparsable"
	}
	var parts []string
	for _, c := range p.chunks {
		parts = append(parts, h.chunkSummary(from, c))
	}
	return strings.Join(parts, ",")
}

func (h *vSd) dump(x int) string {
	e := h.ep[x]
	a := e.a
	peer := h.ep[1-x]
	a.lock.RLock()
	defer a.lock.RUnlock()
	b := func(v bool) int {
		if v {
			return 1
		}
		return 0
	}
	a.t2Shutdown.mutex.Lock()
	t2 := int(a.t2Shutdown.state)
	a.t2Shutdown.mutex.Unlock()
	cumP := a.payloadQueue.getcumulativeTSN()
	var rq []string
	for _, g := range a.payloadQueue.getGapAckBlocks() {
		for k := uint32(g.start); k <= uint32(g.end); k++ {
			rq = append(rq, fmt.Sprintf("%d", cumP+k-peer.base))
		}
	}
	rqs := "-"
	if len(rq) > 0 {
		rqs = strings.Join(rq, ",")
	}
	wl, rl := vSdChanClosed(a.closeWriteLoopCh), vSdChanClosed(a.readLoopCloseCh)
	dead := "0"
	switch {
	case wl && rl && e.wlExited:
		dead = "1"
	case wl || rl || e.wlExited:
		dead = "?" // a loop is gone and the other is not: never expected after settling
	}
	rx, re := e.reads, 0
	for _, s := range e.streams {
		s.lock.RLock()
		rx += len(s.reassemblyQueue.ordered) + len(s.reassemblyQueue.orderedMID)
		if s.readErr != nil {
			re++
		}
		s.lock.RUnlock()
	}
	return fmt.Sprintf("st=%d ws=%d wa=%d wc=%d scp=%d scr=%d ab=%d t2=%d ack=%d pn=%d if=%d cum=%d pl=%d rq=%s dead=%s sr=%s rx=%d re=%d",
		a.getState(), b(a.willSendShutdown), b(a.willSendShutdownAck), b(a.willSendShutdownComplete), b(a.shutdownCompletePending), b(a.shutdownCompleteReceived), b(a.willSendAbort),
		t2, a.ackState, a.pendingQueue.size(), a.inflightQueue.size(), a.cumulativeTSNAckPoint-e.base+1, cumP-peer.base+1, rqs,
		dead, e.sr, rx, re)
}

// let every goroutine run until it blocks; then the loops that saw closeWriteLoopCh closed take their exit path
func (h *vSd) settle() {
	synctest.Wait()
	for _, e := range h.ep {
		if e == nil {
			continue
		}
		if !e.wlExited && vSdChanClosed(e.a.closeWriteLoopCh) {
			// writeLoop: `case <-a.closeWriteLoopCh:` — with an ABORT pending it makes one more pass (the packet is
			// written to a conn that is closed or failed: it never reaches the wire) — `break loop`, then the two
			// statements after the loop
			e.a.lock.RLock()
			abortPending := e.a.willSendAbort
			e.a.lock.RUnlock()
			if abortPending {
				if raws, ok := e.a.gatherOutbound(); !ok {
					for _, raw := range raws {
						if len(raw) > int(commonHeaderSize) && raw[commonHeaderSize] == byte(ctAbort) {
							e.a.abortSentOnce.Do(func() { close(e.a.abortSentCh) })
						}
					}
					_ = e.a.close()
				}
			}
			e.a.setState(closed)
			e.a.closeAllTimers()
			e.wlExited = true
		}
		if e.waitCh != nil {
			select {
			case err := <-e.waitCh:
				e.waitCh = nil
				if err == nil {
					e.sr = "ok"
				} else {
					e.sr = "err"
				}
			default:
			}
		}
	}
	synctest.Wait()
}

func (h *vSd) closeAll() {
	if h.stop != nil {
		close(h.stop)
		h.stop = nil
	}
	for i, e := range h.ep {
		if e == nil {
			continue
		}
		_ = e.conn.Close() // the read loop returns; it closes closeWriteLoopCh, which ends timerLoop and a waiting Shutdown
		a := e.a
		a.abortSentOnce.Do(func() { close(a.abortSentCh) }) // lets an Abort call that is still in its 200 ms wait return
		e.a.closeAllTimers()
		h.ep[i] = nil
	}
	synctest.Wait()
}

func (h *vSd) line(op string, res string) {
	h.settle()
	h.l.line(op, res+" | "+h.dump(0)+" | "+h.dump(1))
}

func (h *vSd) collect(x int) (string, int) {
	e := h.ep[x]
	raws, ok := e.a.gatherOutbound()
	var parts []string
	for _, r := range raws {
		e.hist = append(e.hist, append([]byte(nil), r...))
		parts = append(parts, h.packetSummary(x, r))
		if len(r) > int(commonHeaderSize) && r[commonHeaderSize] == byte(ctAbort) {
			e.a.abortSentOnce.Do(func() { close(e.a.abortSentCh) }) // as writeLoop does after the write
		}
	}
	if !ok {
		// writeLoop: `if !ok { a.close(); return }`
		_ = e.a.close()
		e.wlExited = true
		parts = append(parts, "!close")
	}
	if len(parts) == 0 {
		return "nothing", 0
	}
	return strings.Join(parts, ";"), len(raws)
}

func (h *vSd) handshake() {
	t := h.t
	a, b := h.ep[0].a, h.ep[1].a
	a.lock.Lock()
	init := &chunkInit{}
	init.initialTSN = a.myNextTSN
	init.numOutboundStreams = a.myMaxNumOutboundStreams
	init.numInboundStreams = a.myMaxNumInboundStreams
	init.initiateTag = a.myVerificationTag
	init.advertisedReceiverWindowCredit = a.maxReceiveBufferSize
	setSupportedExtensions(&init.chunkInitCommon, a.localInterleaving)
	a.storedInit = init
	_ = a.sendInit()
	a.setState(cookieWait)
	a.lock.Unlock()
	as := [2]*Association{a, b}
	for step, from := range []int{0, 1, 0, 1} {
		raws, _ := as[from].gatherOutbound()
		if len(raws) != 1 {
			t.Fatalf("sd: handshake step %d produced %d packets", step, len(raws))
		}
		if err := as[1-from].handleInbound(raws[0]); err != nil {
			t.Fatalf("sd: handshake step %d: %v", step, err)
		}
		synctest.Wait()
	}
	if a.getState() != established || b.getState() != established {
		t.Fatalf("sd: handshake did not establish (%d, %d)", a.getState(), b.getState())
	}
}

func (h *vSd) exec(op []string) {
	t := h.t
	line := strings.Join(op, " ")
	arg := func(i int) int { return int(vAtoU32(t, op[i])) }
	switch op[1] {
	case "new": // sd new <il> <nstreams> <tsnA> <tsnB>
		h.closeAll()
		h.stop = make(chan struct{})
		h.ns = arg(3)
		h.gatePassed = false
		for x := 0; x < 2; x++ {
			conn := &vSdConn{closed: make(chan struct{}), dl: make(chan struct{})}
			cfg := &Config{
				NetConn:       conn,
				LoggerFactory: &logging.DefaultLoggerFactory{DefaultLogLevel: logging.LogLevelDisabled, ScopeLevels: map[string]logging.LogLevel{}, Writer: io.Discard},
				Name:          fmt.Sprintf("%c", 'A'+x),
			}
			cfg.enableInterleaving = op[2] == "1"
			cfg.enableInterleavingSet = true
			base := vAtoU32(t, op[4+x])
			a := createAssociationFromConfigWithTsn(cfg, base)
			h.ep[x] = &vSdEp{a: a, conn: conn, base: base, sr: "-", readLog: map[int][]int{}}
			stop := h.stop
			go func() { // stands in for the Client()/Server() caller waiting for the handshake result
				select {
				case <-a.handshakeCompletedCh:
				case <-stop:
				}
			}()
			go a.readLoop()
		}
		h.handshake()
		for x := 0; x < 2; x++ {
			for s := 0; s < h.ns; s++ {
				st, err := h.ep[x].a.OpenStream(uint16(s), PayloadTypeWebRTCBinary)
				if err != nil {
					t.Fatalf("sd: OpenStream: %v", err)
				}
				h.ep[x].streams = append(h.ep[x].streams, st)
			}
		}
		h.line(line, "ok")
	case "write": // sd write x stream len
		e := h.ep[arg(2)]
		s, n := arg(3), arg(4)
		id := e.attempts
		e.attempts++
		payload := make([]byte, max(n, 4))
		binary.BigEndian.PutUint32(payload, uint32(id))
		_, err := e.streams[s].WriteSCTP(payload, PayloadTypeWebRTCBinary)
		res := fmt.Sprintf("ok %d", id)
		switch {
		case err == nil:
			h.l.stat("sd.write_ok")
		case errors.Is(err, ErrPayloadDataStateNotExist):
			res = fmt.Sprintf("rej %d state", id)
			h.l.stat("sd.write_rej_st" + fmt.Sprint(e.a.getState()))
		case errors.Is(err, ErrStreamClosed):
			res = fmt.Sprintf("rej %d stream", id)
		default:
			res = fmt.Sprintf("rej %d other", id)
		}
		h.line(line, res)
	case "open": // sd open x : OpenStream of a fresh identifier
		e := h.ep[arg(2)]
		_, err := e.a.OpenStream(uint16(100+e.attempts), PayloadTypeWebRTCBinary)
		res := "ok"
		if errors.Is(err, ErrAssociationClosed) {
			res = "rej"
		} else if err != nil {
			res = "rej-other"
		}
		if res == "ok" { // keep the table as it was: the model has a fixed number of streams
			e.a.lock.Lock()
			delete(e.a.streams, uint16(100+e.attempts))
			e.a.lock.Unlock()
		}
		h.line(line, res)
	case "shutdown": // the real Association.Shutdown in its own goroutine
		e := h.ep[arg(2)]
		ch := make(chan error, 1)
		a := e.a
		go func() { ch <- a.Shutdown(context.Background()) }()
		synctest.Wait()
		res := "called"
		select {
		case err := <-ch:
			if err == nil {
				res = "ok"
			} else if errors.Is(err, ErrShutdownNonEstablished) {
				res = "err"
			} else {
				res = "err-other"
			}
			h.l.stat("sd.shutdown_refused")
		default:
			if e.waitCh != nil {
				t.Fatalf("sd: two Shutdown calls waiting")
			}
			e.waitCh = ch
			e.sr = "w"
			h.gatePassed = true
			h.l.stat("sd.shutdown_called_pending" + fmt.Sprint(vSdB2i(a.getState() == shutdownPending)))
		}
		h.line(line, res)
	case "gather":
		x := arg(2)
		if h.ep[x].wlExited {
			h.line(line, "exited")
			return
		}
		out, _ := h.collect(x)
		h.line(line, out)
	case "deliver":
		x, i := arg(2), arg(3)
		if i >= len(h.ep[x].hist) {
			h.line(line, "nopacket")
			return
		}
		y := 1 - x
		sum := h.packetSummary(x, h.ep[x].hist[i])
		if vSdChanClosed(h.ep[y].a.readLoopCloseCh) {
			h.line(line, sum+" dropped") // nobody reads the transport any more
			return
		}
		if err := h.ep[y].a.handleInbound(append([]byte(nil), h.ep[x].hist[i]...)); err != nil {
			if !errors.Is(err, ErrChunk) {
				t.Fatalf("sd: handleInbound: %v", err)
			}
			// an ABORT: the read loop that called handleInbound would return with this error. handleAbort has closed the
			// conn already, so the real read loop of the harness returns too (it reports EOF instead of the ABORT error
			// to the streams: the only difference of this stand-in)
			_ = h.ep[y].conn.Close()
		}
		h.line(line, sum)
	case "t2":
		e := h.ep[arg(2)]
		if !e.a.t2Shutdown.isRunning() {
			h.line(line, "idle")
			return
		}
		e.a.onRetransmissionTimeout(timerT2Shutdown, 1)
		h.line(line, "fired")
	case "t3":
		e := h.ep[arg(2)]
		if !e.a.t3RTX.isRunning() {
			h.line(line, "idle")
			return
		}
		e.a.onRetransmissionTimeout(timerT3RTX, 1)
		h.line(line, "fired")
	case "ackt":
		e := h.ep[arg(2)]
		e.a.lock.RLock()
		delay := e.a.ackState == ackStateDelay
		e.a.lock.RUnlock()
		if !delay || vSdChanClosed(e.a.closeWriteLoopCh) {
			h.line(line, "idle")
			return
		}
		e.a.ackTimer.stop() // it has fired
		e.a.onAckTimeout()
		h.line(line, "fired")
	case "read": // drain what is readable on one stream, then see whether closure is reported
		e := h.ep[arg(2)]
		sid := arg(3)
		s := e.streams[sid]
		var ids []string
		buf := make([]byte, 2048)
		for {
			s.lock.RLock()
			rd := s.reassemblyQueue.isReadable()
			s.lock.RUnlock()
			if !rd {
				break
			}
			n, _, err := s.ReadSCTP(buf)
			if err != nil || n < 4 {
				t.Fatalf("sd: read: n=%d err=%v", n, err)
			}
			id := int(binary.BigEndian.Uint32(buf))
			ids = append(ids, fmt.Sprint(id))
			e.reads++
			e.readLog[sid] = append(e.readLog[sid], id)
		}
		s.lock.RLock()
		hasErr := s.readErr != nil
		s.lock.RUnlock()
		cl := "-"
		if hasErr {
			_, _, err := s.ReadSCTP(buf)
			switch {
			case err == nil:
				t.Fatalf("sd: read after drain returned data")
			case errors.Is(err, io.EOF), errors.Is(err, os.ErrDeadlineExceeded):
				cl = "eof" // the read loop ended: conn closed, or (Abort) its read deadline set to now — whichever it saw first
			default:
				cl = "err"
			}
		}
		r := "-"
		if len(ids) > 0 {
			r = strings.Join(ids, ",")
		}
		h.line(line, "r="+r+" "+cl)
	case "close": // the real Association.Close (close() and the wait for the read loop)
		e := h.ep[arg(2)]
		res := "ok"
		if vSdChanClosed(e.a.readLoopCloseCh) {
			res = "already"
		}
		done := make(chan struct{})
		a := e.a
		go func() { _ = a.Close(); close(done) }()
		synctest.Wait()
		select {
		case <-done:
		default:
			t.Fatalf("sd: Close did not return")
		}
		h.l.stat("sd.close_api")
		h.line(line, res)
	case "abort": // the real Association.Abort in its own goroutine: it leaves the ABORT to the write loop and waits
		e := h.ep[arg(2)]
		a := e.a
		go func() { a.Abort("verif") }()
		synctest.Wait()
		h.l.stat("sd.abort_api")
		h.line(line, "called")
	case "closeconn": // the transport under X fails / is closed by the other layer
		e := h.ep[arg(2)]
		res := "ok"
		if vSdChanClosed(e.conn.closed) {
			res = "already"
		}
		_ = e.conn.Close()
		h.line(line, res)
	case "forge": // a packet x never sent, handed to the other side (NOT kept in x's history): error paths a genuine peer never reaches
		// sd forge x SD <cum> | sd forge x S <cum> <a-b+c-d|-> | sd forge x D <tsn> <id> <sid> <ssn>   (counts / TSNs relative as in the summaries)
		x := arg(2)
		y := 1 - x
		me, peer := h.ep[x], h.ep[y]
		var c chunk
		switch op[3] {
		case "SD":
			c = &chunkShutdown{cumulativeTSNAck: peer.base + vAtoU32(t, op[4]) - 1}
		case "S":
			cum := vAtoU32(t, op[4])
			sack := &chunkSelectiveAck{cumulativeTSNAck: peer.base + cum - 1, advertisedReceiverWindowCredit: 1 << 20}
			if op[5] != "-" {
				for _, g := range strings.Split(op[5], "+") {
					ab := strings.Split(g, "-")
					sack.gapAckBlocks = append(sack.gapAckBlocks, gapAckBlock{start: uint16(vAtoU32(t, ab[0]) - (cum - 1)), end: uint16(vAtoU32(t, ab[1]) - (cum - 1))})
				}
			}
			c = sack
		case "D":
			payload := make([]byte, 8)
			binary.BigEndian.PutUint32(payload, vAtoU32(t, op[5]))
			d := &chunkPayloadData{tsn: me.base + vAtoU32(t, op[4]), streamIdentifier: uint16(arg(6)), streamSequenceNumber: uint16(arg(7)),
				beginningFragment: true, endingFragment: true, payloadType: PayloadTypeWebRTCBinary, userData: payload}
			if me.a.useInterleaving {
				d.iData = true
				d.messageIdentifier = vAtoU32(t, op[7])
			}
			c = d
		default:
			t.Fatalf("sd: forge %v", op)
		}
		me.a.lock.RLock()
		raw, err := me.a.marshalPacket(me.a.createPacket([]chunk{c}))
		me.a.lock.RUnlock()
		if err != nil {
			t.Fatalf("sd: forge marshal: %v", err)
		}
		sum := h.packetSummary(x, raw)
		if vSdChanClosed(peer.a.readLoopCloseCh) {
			h.line(line, sum+" dropped")
			return
		}
		if err := peer.a.handleInbound(raw); err != nil {
			t.Fatalf("sd: handleInbound(forged): %v", err)
		}
		h.line(line, sum)
	case "fin": // end of a sequence; `fin 1` = the tail of the schedule was fault-free
		h.line(line, "done")
	default:
		t.Fatalf("sd: unknown op %v", op)
	}
}

func vSdB2i(b bool) int {
	if b {
		return 1
	}
	return 0
}

func (h *vSd) do(f string, a ...any) { h.exec(strings.Fields(fmt.Sprintf(f, a...))) }

func (h *vSd) newest(x int) int { return len(h.ep[x].hist) - 1 }

// deliver every packet of x with index >= from, in order, once
func (h *vSd) flushTo(x int, from *int) {
	for ; *from < len(h.ep[x].hist); *from++ {
		h.do("sd deliver %d %d", x, *from)
	}
}

// ---- scripted corner cases ---------------------------------------------------------------

func (h *vSd) scripted(kind int, r *vrand) {
	switch kind {
	case 0: // crossed shutdown: both SHUTDOWNs in flight at once
		h.do("sd write 0 0 10")
		h.do("sd gather 0")
		h.do("sd deliver 0 0")
		h.do("sd ackt 1")
		h.do("sd gather 1")
		h.do("sd deliver 1 0")
		h.do("sd shutdown 0")
		h.do("sd shutdown 1")
		h.do("sd gather 0") // SHUTDOWN
		h.do("sd gather 1") // SHUTDOWN
		h.do("sd deliver 0 1")
		h.do("sd deliver 1 1")
		h.do("sd gather 0") // SHUTDOWN-ACK
		h.do("sd gather 1") // SHUTDOWN-ACK
		h.do("sd deliver 0 2")
		h.do("sd deliver 1 2")
		h.do("sd gather 0") // SHUTDOWN-COMPLETE, closes
		h.do("sd gather 1")
		h.l.stat("sd.scripted_crossed")
	case 1: // SHUTDOWN-ACK lost: T2 retransmits SHUTDOWN, the peer (SHUTDOWN-ACK-SENT) answers again
		h.do("sd shutdown 0")
		h.do("sd gather 0")
		h.do("sd deliver 0 0")
		h.do("sd gather 1") // SHUTDOWN-ACK #0: lost
		h.do("sd t2 0")
		h.do("sd gather 0") // SHUTDOWN again
		h.do("sd deliver 0 1")
		h.do("sd gather 1") // SHUTDOWN-ACK #1
		h.do("sd deliver 1 1")
		h.do("sd gather 0") // SHUTDOWN-COMPLETE
		h.do("sd deliver 0 2")
		h.l.stat("sd.scripted_ack_lost")
	case 2: // SHUTDOWN-COMPLETE lost: the peer stays in SHUTDOWN-ACK-SENT until its transport closes
		h.do("sd write 0 0 20")
		h.do("sd shutdown 0")
		h.do("sd gather 0")
		h.do("sd deliver 0 0")
		h.do("sd ackt 1")
		h.do("sd gather 1")
		h.do("sd deliver 1 0")
		h.do("sd gather 0") // SHUTDOWN
		h.do("sd deliver 0 1")
		h.do("sd gather 1") // SHUTDOWN-ACK
		h.do("sd deliver 1 1")
		h.do("sd gather 0") // SHUTDOWN-COMPLETE (lost), A closes
		h.do("sd t2 1")
		h.do("sd gather 1") // SHUTDOWN-ACK again, nobody listens
		h.do("sd deliver 1 2")
		h.do("sd read 1 0")
		h.do("sd closeconn 1")
		h.l.stat("sd.scripted_complete_lost")
	case 3: // DATA arriving in SHUTDOWN-SENT: SACK + SHUTDOWN at once
		h.do("sd write 1 0 30")
		h.do("sd write 1 0 31")
		h.do("sd gather 1") // B's DATA, still on its way
		h.do("sd shutdown 0")
		h.do("sd gather 0") // SHUTDOWN (cum 0)
		h.do("sd deliver 1 0")
		h.do("sd gather 0") // SACK + SHUTDOWN (cum 2)
		if r.chance(50) {
			h.do("sd deliver 0 0") // the old SHUTDOWN first: B keeps its data in flight
		}
		h.do("sd deliver 0 2")
		h.do("sd gather 1")
		h.do("sd deliver 1 1")
		h.do("sd gather 0")
		h.do("sd deliver 0 %d", h.newest(0))
		h.l.stat("sd.scripted_data_in_shutdown_sent")
	case 4: // SHUTDOWN whose cumulative ack drains the peer's in-flight queue (its SACK was lost)
		h.do("sd write 1 0 40")
		h.do("sd write 1 %d 41", h.ns-1)
		h.do("sd gather 1")
		h.do("sd deliver 1 0")
		h.do("sd ackt 0")
		h.do("sd gather 0") // SACK: lost
		h.do("sd shutdown 0")
		h.do("sd gather 0") // SHUTDOWN cum=2
		h.do("sd deliver 0 1")
		h.do("sd gather 1") // SHUTDOWN-ACK directly
		h.do("sd deliver 1 1")
		h.do("sd gather 0")
		h.do("sd deliver 0 2")
		h.l.stat("sd.scripted_shutdown_cum_drains")
	case 5: // shutdown with data still queued and in flight; a stale SACK and a duplicate SHUTDOWN on the way
		h.do("sd write 0 0 500")
		h.do("sd write 0 0 900")
		h.do("sd gather 0") // two packets (MTU)
		h.do("sd write 0 %d 700", h.ns-1)
		h.do("sd shutdown 0")  // SHUTDOWN-PENDING
		h.do("sd write 0 0 5") // rejected
		h.do("sd open 0")      // rejected
		h.do("sd deliver 0 0")
		h.do("sd ackt 1")
		h.do("sd gather 1") // SACK 1
		h.do("sd gather 0") // the third message, under SHUTDOWN-PENDING
		h.do("sd deliver 0 1")
		h.do("sd ackt 1")
		h.do("sd gather 1") // SACK 2
		h.do("sd deliver 1 1")
		h.do("sd deliver 1 0") // stale SACK
		h.do("sd deliver 0 2")
		h.do("sd ackt 1")
		h.do("sd gather 1") // SACK 3
		h.do("sd deliver 1 %d", h.newest(1))
		h.do("sd gather 0") // SHUTDOWN
		h.do("sd deliver 0 %d", h.newest(0))
		h.do("sd deliver 0 %d", h.newest(0)) // duplicate SHUTDOWN
		h.do("sd gather 1")                  // SHUTDOWN-ACK
		h.do("sd deliver 1 %d", h.newest(1))
		h.do("sd gather 0") // SHUTDOWN-COMPLETE
		h.do("sd deliver 0 %d", h.newest(0))
		h.l.stat("sd.scripted_pending_data")
	case 6: // D22: Shutdown is waiting with data still queued, the local transport fails: it must NOT return nil
		h.do("sd write 0 0 10")
		h.do("sd shutdown 0")
		h.do("sd closeconn 0")
		h.do("sd read 1 0")
		h.l.stat("sd.scripted_transport_failure_during_shutdown")
	case 7: // Close() resp. Abort() while Shutdown waits (same channel): error, unless SHUTDOWN-ACK had already arrived
		h.do("sd write 0 0 10")
		h.do("sd gather 0")
		h.do("sd shutdown 0")
		if r.chance(50) {
			h.do("sd close 0")
		} else {
			h.do("sd abort 0")
			h.do("sd gather 0") // ABORT goes out, the write loop closes the association
			h.do("sd deliver 0 %d", h.newest(0))
		}
		h.l.stat("sd.scripted_close_or_abort_during_shutdown")
	case 8: // SHUTDOWN-ACK received, then the transport fails before SHUTDOWN-COMPLETE is sent: nil is right, all was delivered
		h.do("sd write 0 0 10")
		h.do("sd gather 0")
		h.do("sd deliver 0 0")
		h.do("sd ackt 1")
		h.do("sd gather 1")
		h.do("sd deliver 1 0")
		h.do("sd shutdown 0")
		h.do("sd gather 0")
		h.do("sd deliver 0 1")
		h.do("sd gather 1")
		h.do("sd deliver 1 1") // SHUTDOWN-ACK: shutdownCompletePending
		switch r.n(3) {
		case 0:
			h.do("sd closeconn 0")
		case 1:
			h.do("sd close 0")
		default:
			h.do("sd abort 0")
			h.do("sd gather 0")
		}
		h.do("sd read 1 0")
		h.l.stat("sd.scripted_failure_after_shutdown_ack")
	}
}

// ---- generator ---------------------------------------------------------------------------

func vSdGenerate(h *vSd, r *vrand, nseq int) {
	bases := []uint32{1000, 2000, 4294967294, 4294967290, 2147483646, 77}
	if vEnvInt("VERIF_SD_SCRIPTED", 0) == 1 { // the scripted corner cases alone (this is how corpus/C08/sd_*.ops were written)
		for kind := 0; kind < 9; kind++ {
			h.do("sd new %d 2 %d %d", kind&1, bases[kind%6], bases[5-kind%6])
			h.scripted(kind, r)
			for x := 0; x < 2; x++ {
				for sid := 0; sid < 2; sid++ {
					h.do("sd read %d %d", x, sid)
				}
			}
			h.do("sd fin %d", vSdB2i(kind < 6)) // the last three leave the peer alone on purpose
		}
		return
	}
	for s := 0; s < nseq; s++ {
		ns := 1 + r.n(3)
		h.do("sd new %d %d %d %d", s&1, ns, bases[r.n(len(bases))], bases[r.n(len(bases))])
		if s%4 == 3 {
			h.scripted((s/4)%9, r)
		}
		// chaos phase: mostly progressing, with loss / duplication / reordering / stale replays
		nops := 4 + r.n(50)
		wantShutdownAt := nops/3 + r.n(nops)
		forgeMode := s%12 == 5 || s%12 == 10 // a lying network: forged acknowledgements and out-of-window DATA (error paths); no delivery claim is checked
		if forgeMode {
			h.l.stat("sd.forge_sequences")
		}
		for i := 0; i < nops; i++ {
			x := r.n(2)
			n := len(h.ep[x].hist)
			if i == wantShutdownAt {
				h.do("sd shutdown %d", x)
				if r.chance(35) {
					for j := r.n(3); j > 0; j-- { // a few steps in between: the two SHUTDOWNs may or may not cross
						h.do("sd gather %d", r.n(2))
					}
					h.do("sd shutdown %d", 1-x)
					h.l.stat("sd.gen_crossed")
				}
				continue
			}
			if forgeMode && r.chance(15) {
				e := h.ep[x]
				e.a.lock.RLock()
				sent := e.a.myNextTSN - e.base
				cum := e.a.cumulativeTSNAckPoint - e.base + 1
				pl := e.a.payloadQueue.getcumulativeTSN() - h.ep[1-x].base + 1
				e.a.lock.RUnlock()
				switch r.n(6) {
				case 0: // SHUTDOWN acknowledging more than was ever sent
					h.do("sd forge %d SD %d", 1-x, sent+1+uint32(r.n(3)))
				case 1: // SHUTDOWN with any plausible or stale point
					h.do("sd forge %d SD %d", 1-x, uint32(r.n(int(sent)+1)))
				case 2: // SACK beyond what was sent
					h.do("sd forge %d S %d -", 1-x, sent+1+uint32(r.n(3)))
				case 3: // SACK with gap blocks that are not in flight / reversed / touching the cumulative point
					c := cum + uint32(r.n(2))
					a := c - 1 + uint32(r.n(4))
					b := a + uint32(r.n(3))
					if r.chance(20) && a > 0 {
						a, b = b+1, a
					}
					h.do("sd forge %d S %d %d-%d", 1-x, c, a, b)
				case 4: // DATA just inside / just outside the receive window
					off := h.ep[x].a.payloadQueue.maxTSNOffset
					h.do("sd forge %d D %d 9999 0 %d", 1-x, pl+off-1+uint32(r.n(2)), 20000+r.n(1000))
				default:
					h.do("sd forge %d D %d 9999 0 %d", 1-x, pl+uint32(h.ep[x].a.payloadQueue.maxTSNOffset)+uint32(r.n(5)), 20000+r.n(1000))
				}
				h.l.stat("sd.gen_forged")
				continue
			}
			k := r.n(100)
			wr := 22
			if h.gatePassed {
				wr = 6
			}
			e := h.ep[x]
			e.a.lock.RLock()
			ackDelay := e.a.ackState == ackStateDelay
			e.a.lock.RUnlock()
			switch {
			case k < wr:
				ln := r.pick(4, 10, 60, 300, 900, 1100)
				h.do("sd write %d %d %d", x, r.n(ns), ln)
			case k < 42:
				h.do("sd gather %d", x)
			case k < 68 && n > 0:
				idx := n - 1 - r.n(min(n, 3))
				h.do("sd deliver %d %d", x, idx)
			case k < 76 && n > 0:
				h.do("sd deliver %d %d", x, r.n(n)) // any old packet
				h.l.stat("sd.gen_stale_or_dup")
			case k < 84 && (ackDelay || r.chance(10)):
				h.do("sd ackt %d", x)
			case k < 88 && (e.a.t3RTX.isRunning() || r.chance(10)):
				h.do("sd t3 %d", x)
			case k < 93 && (e.a.t2Shutdown.isRunning() || r.chance(10)):
				h.do("sd t2 %d", x)
			case k < 97:
				h.do("sd read %d %d", x, r.n(ns))
			case k < 98:
				h.do("sd open %d", x)
			case k < 99:
				h.do("sd shutdown %d", x)
			default:
				if r.chance(45) {
					switch r.n(3) {
					case 0:
						h.do("sd closeconn %d", x)
						h.l.stat("sd.gen_closeconn")
					case 1:
						h.do("sd close %d", x)
					default:
						h.do("sd abort %d", x)
					}
				} else {
					h.do("sd gather %d", x)
				}
			}
		}
		// fault-free tail (most sequences): every packet produced from now on is delivered once, in order
		tail := r.chance(85) && !forgeMode
		if tail {
			if !h.gatePassed {
				x := r.n(2)
				h.do("sd shutdown %d", x)
				if r.chance(30) {
					h.do("sd shutdown %d", 1-x)
				}
			}
			from := [2]int{len(h.ep[0].hist), len(h.ep[1].hist)}
			// in the tail the write loop runs as the real one does: only when it has been woken up (awakeWriteLoopCh),
			// so a state change that forgets to wake it shows up as a sequence that does not reach CLOSED
			woken := func(x int) bool {
				select {
				case <-h.ep[x].a.awakeWriteLoopCh:
					return true
				default:
					return false
				}
			}
			for round := 0; round < 80; round++ {
				moved := false
				for x := 0; x < 2; x++ {
					if !h.ep[x].wlExited && woken(x) {
						h.do("sd gather %d", x)
						moved = true
					}
					if from[x] < len(h.ep[x].hist) {
						moved = true
					}
					h.flushTo(x, &from[x])
					if h.ep[1-x].a.ackState == ackStateDelay && !h.ep[1-x].wlExited {
						h.do("sd ackt %d", 1-x)
						moved = true
					}
				}
				if h.ep[0].wlExited && h.ep[1].wlExited {
					break
				}
				if !moved {
					// nothing moved: a retransmission timer is what is left
					fired := false
					for x := 0; x < 2; x++ {
						if h.ep[x].a.t3RTX.isRunning() {
							h.do("sd t3 %d", x)
							fired = true
						} else if h.ep[x].a.t2Shutdown.isRunning() {
							h.do("sd t2 %d", x)
							fired = true
						}
					}
					if !fired {
						break
					}
				}
			}
			// the side that is left alone closes when its transport closes
			for x := 0; x < 2; x++ {
				if h.ep[1-x].wlExited && !h.ep[x].wlExited {
					h.do("sd closeconn %d", x)
					h.l.stat("sd.tail_closed_by_transport")
				}
			}
		}
		for x := 0; x < 2; x++ {
			for sid := 0; sid < ns; sid++ {
				h.do("sd read %d %d", x, sid)
			}
		}
		// stale replays after the end
		for x := 0; x < 2; x++ {
			for i := range h.ep[x].hist {
				if r.chance(25) {
					h.do("sd deliver %d %d", x, i)
				}
			}
		}
		h.do("sd fin %d", vSdB2i(tail))
		h.l.stat("sd.sequences")
		if tail {
			h.l.stat("sd.with_fault_free_tail")
		}
		if h.ep[0].a.getState() == closed && h.ep[1].a.getState() == closed {
			h.l.stat("sd.both_closed")
		}
		for x := 0; x < 2; x++ {
			if h.ep[x].sr == "ok" {
				h.l.stat("sd.shutret_ok")
			}
		}
	}
}

func TestVerifShutdown(t *testing.T) {
	l := vOpenLog(t)
	defer l.close()
	old := globalMathRandomGenerator
	defer func() { globalMathRandomGenerator = old }()
	globalMathRandomGenerator = &vRandGen{r: &vrand{s: 11}}
	synctest.Test(t, func(t *testing.T) {
		h := &vSd{t: t, l: l}
		defer h.closeAll()
		if ops := vReadOps(t); ops != nil {
			for _, op := range ops {
				if op[0] == "sd" {
					if h.ep[0] == nil && op[1] != "new" {
						continue
					}
					h.exec(op)
				}
			}
			return
		}
		r := &vrand{s: uint64(vEnvInt("VERIF_SEED", 1))*0x2545F491 + 17}
		vSdGenerate(h, r, vEnvInt("VERIF_N", 200))
	})
}
