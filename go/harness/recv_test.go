//go:build verif

package sctp

// X-assoc, RECEIVE half (comp token `ar`): ONE real Association driven single-threaded (no read/write
// loops) under testing/synctest. Every inbound chunk goes through the REAL inbound path: the packet is
// built with the real marshal and handed to a.handleInbound(raw). After every op an `ar st` line logs
// the white-box observables of the receive half; every packet `gather` would send is logged.
//
// Line protocol:
//   ar new <rcvbuf> <il> <peerInitialTSN> <maxReassemblyEntries> <ackMode> <pr> <pair> -> <maxTSNOffset> <rcvbuf in use>
//   ar data <tsn> <si> <ssn|mid> <fsn> <flags UBES-> <ppi> <len> <seed> [I|D]      -> ok acc=<0|1> stored=<0|1> | err | PANIC
//   ar pkt <chunk> | <chunk> …   chunk = data … / fwd … / ifwd … / hb … / reset …  -> ok acc=<..> stored=<..>
//   ar fwd <newCum> <si/ssn,…|none>          ar ifwd <newCum> <si/o|u/mid,…|none>  -> ok | PANIC
//   ar reset <rsn> <senderLastTSN> <si,…|none>   (RE-CONFIG, outgoing SSN reset request)
//   ar read <si>:<inc> <buflen>   -> <n> <ppi> <ok|short|block|EOF|nostream|other> <hash|->   (block = ReadSCTP would wait)
//   ar accept -> <si>:<inc> | none          ar open <si> -> <si>:<inc>
//   ar gather -> <ok> <packet> <packet> … | <ok> nothing      packet = chunk summaries joined by &
//   ar tick <ms> -> fired=<ack timeouts>    ar hb <hex|-> -> ok    ar hback <ageMs|x<hex>> -> srtt=<ms>
//   ar raw <hex> -> rejected | parsed:<chunk summaries joined by &> [err] | PANIC
//   ar setstate <n>
//   ar msg <id> <si> <inc> <o|u> <key> <ppi> <len> <hash> / ar abandon <id> / ar drained   (generator ground truth, no result)
//   ar st -> cum= size= gaps= dups= ack= timer= rwnd= held= ctr= ns= accq= abort= state= now=
// <si>:<inc> names a Stream OBJECT: the inc-th object the association created for stream id si.
// held= lists every Stream object that still holds user bytes, found by WALKING its real reassembly
// structures: si:inc:bytes:registered — objects already deleted from a.streams included.

import (
	"encoding/binary"
	"encoding/hex"
	"fmt"
	"io"
	"net"
	"os"
	"runtime/debug"
	"sort"
	"strings"
	"testing"
	"testing/synctest"
	"time"

	"github.com/pion/logging"
)

// vARConn: the transport of the direct-drive association; nothing is ever read from or written to it (no loops run),
// but an inbound ABORT makes the association close it
type vARConn struct{ closed bool }

func (c *vARConn) Read(b []byte) (int, error)         { return 0, io.EOF }
func (c *vARConn) Write(b []byte) (int, error)        { return len(b), nil }
func (c *vARConn) Close() error                       { c.closed = true; return nil }
func (c *vARConn) LocalAddr() net.Addr                { return nil }
func (c *vARConn) RemoteAddr() net.Addr               { return nil }
func (c *vARConn) SetDeadline(t time.Time) error      { return nil }
func (c *vARConn) SetReadDeadline(t time.Time) error  { return nil }
func (c *vARConn) SetWriteDeadline(t time.Time) error { return nil }

type vARObj struct {
	s   *Stream
	si  uint16
	inc int
}

type vAR struct {
	t     *testing.T
	l     *vlog
	a     *Association
	objs  []*vARObj
	known map[*Stream]*vARObj
	nInc  map[uint16]int
	t0    time.Time
	ackTO uint64
	// last logged observables (feedback for the generator)
	lastGather []string
}

func (h *vAR) closeAssoc() {
	if h.a == nil {
		return
	}
	h.a.closeWriteLoopOnce.Do(func() { close(h.a.closeWriteLoopCh) })
	h.a.closeAllTimers()
	h.a = nil
}

func (h *vAR) note(s *Stream) *vARObj {
	if o, ok := h.known[s]; ok {
		return o
	}
	o := &vARObj{s: s, si: s.streamIdentifier, inc: h.nInc[s.streamIdentifier]}
	h.nInc[s.streamIdentifier]++
	h.known[s] = o
	h.objs = append(h.objs, o)
	return o
}

// discover finds Stream objects the association created since the last op: the accept channel is
// rotated once (single-threaded: order preserved), then the stream table (locally opened streams).
func (h *vAR) discover() {
	a := h.a
	n := len(a.acceptCh)
	for i := 0; i < n; i++ {
		s := <-a.acceptCh
		h.note(s)
		a.acceptCh <- s
	}
	ids := make([]int, 0, len(a.streams))
	for id := range a.streams {
		ids = append(ids, int(id))
	}
	sort.Ints(ids)
	for _, id := range ids {
		h.note(a.streams[uint16(id)])
	}
}

// vARWalkQ visits every chunk reachable from the real reassembly structures of one stream.
func vARWalkQ(q *reassemblyQueue, f func(c *chunkPayloadData)) {
	seen := map[*chunkSetMID]bool{}
	for _, s := range q.ordered {
		for _, c := range s.chunks {
			f(c)
		}
	}
	for _, s := range q.unordered {
		for _, c := range s.chunks {
			f(c)
		}
	}
	for _, c := range q.unorderedChunks {
		f(c)
	}
	walk := func(s *chunkSetMID) {
		if s == nil || seen[s] {
			return
		}
		seen[s] = true
		for _, c := range s.chunks {
			f(c)
		}
	}
	for _, s := range q.orderedMID {
		walk(s)
	}
	for _, s := range q.orderedMIDMap {
		walk(s)
	}
	for _, s := range q.unorderedMID {
		walk(s)
	}
	for _, s := range q.unorderedMIDMap {
		walk(s)
	}
}

func (h *vAR) heldBytes(o *vARObj) int {
	n := 0
	vARWalkQ(o.s.reassemblyQueue, func(c *chunkPayloadData) { n += len(c.userData) })
	return n
}

func (h *vAR) totalHeld() int {
	n := 0
	for _, o := range h.objs {
		n += h.heldBytes(o)
	}
	return n
}

// tsnsHeld: multiset of TSNs of the chunks held anywhere (all known stream objects)
func (h *vAR) tsnsHeld() map[uint32]int {
	m := map[uint32]int{}
	for _, o := range h.objs {
		vARWalkQ(o.s.reassemblyQueue, func(c *chunkPayloadData) { m[c.tsn]++ })
	}
	return m
}

func vARGaps(gs []gapAckBlock) string {
	if len(gs) == 0 {
		return "none"
	}
	var sb strings.Builder
	for i, g := range gs {
		if i > 0 {
			sb.WriteByte('+')
		}
		fmt.Fprintf(&sb, "%d-%d", g.start, g.end)
	}
	return sb.String()
}

func (h *vAR) state() string {
	a := h.a
	a.lock.Lock()
	defer a.lock.Unlock()
	q := a.payloadQueue
	ack := [...]string{"idle", "imm", "delay"}[a.ackState]
	var held []string
	ctr := "ok"
	for _, o := range h.objs {
		b := h.heldBytes(o)
		if o.s.reassemblyQueue.getNumBytes() != b {
			ctr = "BAD"
		}
		if b > 0 {
			reg := a.streams[o.si] == o.s
			held = append(held, fmt.Sprintf("%d:%d:%d:%s", o.si, o.inc, b, vb(reg)))
		}
	}
	hs := "-"
	if len(held) > 0 {
		hs = strings.Join(held, ",")
	}
	return fmt.Sprintf("cum=%d size=%d gaps=%s dups=%d ack=%s timer=%s rwnd=%d held=%s ctr=%s ns=%d accq=%d abort=%s state=%d now=%d",
		q.getcumulativeTSN(), q.size(), vARGaps(q.getGapAckBlocks()), len(q.dupTSN), ack, vb(a.ackTimer.isRunning()),
		a.getMyReceiverWindowCredit(), hs, ctr, len(a.streams), len(a.acceptCh), vb(a.willSendAbort), a.getState(),
		time.Since(h.t0).Milliseconds())
}

func (h *vAR) logState() { h.l.line("ar st", h.state()) }

// ---- building chunks from op tokens -----------------------------------------------------------

func (h *vAR) dataChunk(op []string) *chunkPayloadData {
	t := h.t
	u := func(i int) uint32 { return vAtoU32(t, op[i]) }
	fl := op[5]
	il := h.a.useInterleaving
	if len(op) > 9 {
		il = op[9] == "I"
	}
	c := &chunkPayloadData{
		tsn:               u(1),
		streamIdentifier:  uint16(u(2)),
		unordered:         strings.Contains(fl, "U"),
		beginningFragment: strings.Contains(fl, "B"),
		endingFragment:    strings.Contains(fl, "E"),
		immediateSack:     strings.Contains(fl, "S"),
		payloadType:       PayloadProtocolIdentifier(u(6)),
		userData:          vRsmPayload(u(8), int(u(7))),
		iData:             il,
	}
	if il {
		c.messageIdentifier = u(3)
		c.fragmentSequenceNumber = u(4)
	} else {
		c.streamSequenceNumber = uint16(u(3))
	}
	return c
}

func (h *vAR) fwdChunk(op []string) chunk {
	t := h.t
	c := &chunkForwardTSN{newCumulativeTSN: vAtoU32(t, op[1])}
	if op[2] != "none" {
		for _, e := range strings.Split(op[2], ",") {
			var si, ssn int
			if _, err := fmt.Sscanf(e, "%d/%d", &si, &ssn); err != nil {
				t.Fatalf("bad fwd entry %q", e)
			}
			c.streams = append(c.streams, chunkForwardTSNStream{identifier: uint16(si), sequence: uint16(ssn)})
		}
	}
	return c
}

func (h *vAR) ifwdChunk(op []string) chunk {
	t := h.t
	c := &chunkIForwardTSN{newCumulativeTSN: vAtoU32(t, op[1])}
	if op[2] != "none" {
		for _, e := range strings.Split(op[2], ",") {
			f := strings.Split(e, "/")
			if len(f) != 3 {
				t.Fatalf("bad ifwd entry %q", e)
			}
			c.streams = append(c.streams, chunkIForwardTSNStream{identifier: uint16(vAtoU32(t, f[0])), unordered: f[1] == "u",
				messageIdentifier: vAtoU32(t, f[2])})
		}
	}
	return c
}

func (h *vAR) resetChunk(op []string) chunk {
	t := h.t
	p := &paramOutgoingResetRequest{reconfigRequestSequenceNumber: vAtoU32(t, op[1]), senderLastTSN: vAtoU32(t, op[2])}
	if op[3] != "none" {
		for _, e := range strings.Split(op[3], ",") {
			p.streamIdentifiers = append(p.streamIdentifiers, uint16(vAtoU32(t, e)))
		}
	}
	return &chunkReconfig{paramA: p}
}

func vARUnhex(t *testing.T, s string) []byte {
	if s == "-" {
		return []byte{}
	}
	b, err := hex.DecodeString(s)
	if err != nil {
		t.Fatalf("bad hex %q", s)
	}
	return b
}

func (h *vAR) chunkOf(op []string) chunk {
	switch op[0] {
	case "data":
		return h.dataChunk(op)
	case "fwd":
		return h.fwdChunk(op)
	case "ifwd":
		return h.ifwdChunk(op)
	case "reset":
		return h.resetChunk(op)
	case "hb":
		return &chunkHeartbeat{params: []param{&paramHeartbeatInfo{heartbeatInformation: vARUnhex(h.t, op[1])}}}
	}
	h.t.Fatalf("ar: unknown chunk spec %v", op)
	return nil
}

func (h *vAR) packetOf(cs ...chunk) []byte {
	p := &packet{sourcePort: 5000, destinationPort: 5000, verificationTag: h.a.myVerificationTag, chunks: cs}
	raw, err := p.marshal(true)
	if err != nil {
		h.t.Fatalf("ar: cannot marshal %v: %v", cs, err)
	}
	return raw
}

// inbound runs the real inbound path on one packet; a panic is reported, never propagated.
func (h *vAR) inbound(raw []byte) (res string) {
	defer func() {
		if r := recover(); r != nil {
			res = "PANIC"
			if os.Getenv("VERIF_TRACE") != "" {
				fmt.Fprintf(os.Stderr, "panic: %v\n%s\n", r, debug.Stack())
			}
			// the association lock may be left held by the panicking handler: make it usable for the state walk
			h.a.lock.TryLock()
			h.a.lock.Unlock()
		}
	}()
	if err := h.a.handleInbound(raw); err != nil {
		return "err"
	}
	return "ok"
}

// ---- outbound summary -------------------------------------------------------------------------

func vARCauses(cs []errorCause) string {
	if len(cs) == 0 {
		return "none"
	}
	var out []string
	for _, c := range cs {
		out = append(out, fmt.Sprintf("%d", c.errorCauseCode()))
	}
	return strings.Join(out, "+")
}

func vARChunkSummary(c chunk) string {
	switch x := c.(type) {
	case *chunkSelectiveAck:
		return fmt.Sprintf("SACK:%d:%d:%s:%s", x.cumulativeTSNAck, x.advertisedReceiverWindowCredit, vARGaps(x.gapAckBlocks), vJoinU32(x.duplicateTSN))
	case *chunkAbort:
		return "ABORT:" + vARCauses(x.errorCauses)
	case *chunkError:
		return "ERROR:" + vARCauses(x.errorCauses)
	case *chunkHeartbeatAck:
		info := "none"
		if len(x.params) > 0 {
			if p, ok := x.params[0].(*paramHeartbeatInfo); ok {
				info = hex.EncodeToString(p.heartbeatInformation)
				if info == "" {
					info = "-"
				}
			}
		}
		return "HBACK:" + info
	case *chunkHeartbeat:
		info := "none"
		if len(x.params) > 0 {
			if p, ok := x.params[0].(*paramHeartbeatInfo); ok {
				info = hex.EncodeToString(p.heartbeatInformation)
				if info == "" {
					info = "-"
				}
			}
		}
		return "HB:" + info
	}
	return vChunkSummary(c)
}

func vARPacketSummary(raw []byte) string {
	p := &packet{}
	if err := p.unmarshal(false, raw); err != nil {
		return "UNPARSABLE"
	}
	var parts []string
	for _, c := range p.chunks {
		parts = append(parts, vARChunkSummary(c))
	}
	if len(parts) == 0 {
		return "EMPTY"
	}
	return strings.Join(parts, "&")
}

// ---- ops --------------------------------------------------------------------------------------

func vARSplit(op []string) [][]string {
	var out [][]string
	var cur []string
	for _, t := range op {
		if t == "|" {
			out = append(out, cur)
			cur = nil
		} else {
			cur = append(cur, t)
		}
	}
	return append(out, cur)
}

func (h *vAR) obj(name string) *vARObj {
	var si, inc int
	if _, err := fmt.Sscanf(name, "%d:%d", &si, &inc); err != nil {
		h.t.Fatalf("bad stream object name %q", name)
	}
	for _, o := range h.objs {
		if int(o.si) == si && o.inc == inc {
			return o
		}
	}
	return nil
}

func vARBits(bs []bool) string {
	if len(bs) == 0 {
		return "-"
	}
	var out []string
	for _, b := range bs {
		out = append(out, vb(b))
	}
	return strings.Join(out, ",")
}

// feed hands one packet made of `specs` to the association and reports, per DATA chunk, whether its TSN was
// accepted by the receive queue (white-box: canPush before, not after) and whether the chunk is now held in a
// reassembly structure and was not before.
func (h *vAR) feed(specs [][]string) string {
	a := h.a
	var cs []chunk
	var datas []*chunkPayloadData
	for _, sp := range specs {
		c := h.chunkOf(sp)
		cs = append(cs, c)
		if d, ok := c.(*chunkPayloadData); ok {
			datas = append(datas, d)
		}
	}
	raw := h.packetOf(cs...)
	before := h.tsnsHeld()
	canBefore := make([]bool, len(datas))
	a.lock.Lock()
	for i, d := range datas {
		canBefore[i] = a.payloadQueue.canPush(d.tsn)
	}
	a.lock.Unlock()
	res := h.inbound(raw)
	synctest.Wait()
	h.discover()
	if res == "PANIC" {
		return res
	}
	after := h.tsnsHeld()
	acc := make([]bool, len(datas))
	sto := make([]bool, len(datas))
	a.lock.Lock()
	used := map[uint32]bool{}
	for i, d := range datas {
		first := !used[d.tsn]
		acc[i] = first && canBefore[i] && !a.payloadQueue.canPush(d.tsn)
		sto[i] = first && after[d.tsn] > before[d.tsn]
		if acc[i] || sto[i] {
			used[d.tsn] = true
		}
	}
	a.lock.Unlock()
	if len(datas) == 0 {
		return res
	}
	return fmt.Sprintf("%s acc=%s stored=%s", res, vARBits(acc), vARBits(sto))
}

func (h *vAR) exec(op []string) {
	t := h.t
	line := strings.Join(op, " ")
	u := func(i int) uint32 { return vAtoU32(t, op[i]) }
	switch op[1] {
	case "new":
		h.closeAssoc()
		cfg := &Config{
			NetConn:                   &vARConn{},
			LoggerFactory:             &logging.DefaultLoggerFactory{DefaultLogLevel: logging.LogLevelDisabled, ScopeLevels: map[string]logging.LogLevel{}, Writer: io.Discard},
			MaxReceiveBufferSize:      u(2),
			maxReassemblyQueueEntries: u(5),
		}
		a := createAssociationFromConfigWithTsn(cfg, 1000)
		a.lock.Lock()
		a.useInterleaving = op[3] == "1"
		pr := op[7] == "1"
		a.useForwardTSN = pr && !a.useInterleaving
		a.useIForwardTSN = pr && a.useInterleaving
		a.peerVerificationTag = 1
		a.sourcePort, a.destinationPort = 5000, 5000
		a.payloadQueue.init(u(4) - 1)
		a.ackMode = int(u(6))
		a.setState(established)
		a.lock.Unlock()
		h.a = a
		h.objs, h.known, h.nInc = nil, map[*Stream]*vARObj{}, map[uint16]int{}
		h.t0 = time.Now()
		h.ackTO = 0
		h.l.line(line, fmt.Sprintf("%d %d", a.payloadQueue.maxTSNOffset, a.maxReceiveBufferSize))
	case "msg", "abandon", "drained":
		h.l.line(line, "")
		return
	case "data", "fwd", "ifwd", "reset", "hb":
		h.l.line(line, h.feed([][]string{op[1:]}))
	case "pkt":
		h.l.line(line, h.feed(vARSplit(op[2:])))
	case "hback":
		var info []byte
		if strings.HasPrefix(op[2], "x") {
			info = vARUnhex(t, op[2][1:])
		} else {
			age := vAtoi(t, op[2])
			info = make([]byte, 8)
			binary.BigEndian.PutUint64(info, uint64(time.Now().Add(-time.Duration(age)*time.Millisecond).UnixNano()))
		}
		res := h.inbound(h.packetOf(&chunkHeartbeatAck{params: []param{&paramHeartbeatInfo{heartbeatInformation: info}}}))
		if res == "ok" {
			res = fmt.Sprintf("srtt=%g", h.a.SRTT())
		}
		h.l.line(line, res)
	case "raw":
		raw := vARUnhex(t, op[2])
		p := &packet{}
		cls := "rejected"
		if err := p.unmarshal(!h.a.recvZeroChecksum, raw); err == nil && checkPacket(p) == nil {
			var parts []string
			for _, c := range p.chunks {
				parts = append(parts, vARChunkSummary(c))
			}
			cls = "parsed:" + strings.Join(parts, "&")
			if len(parts) == 0 {
				cls = "parsed:EMPTY"
			}
		}
		res := h.inbound(raw)
		synctest.Wait()
		h.discover()
		switch {
		case res == "PANIC":
			cls = "PANIC"
		case res == "err":
			cls += " err"
		}
		h.l.line(line, cls)
	case "read":
		o := h.obj(op[2])
		if o == nil {
			h.l.line(line, "0 0 nostream -")
			break
		}
		s := o.s
		s.lock.Lock()
		readable, rerr := s.reassemblyQueue.isReadable(), s.readErr
		s.lock.Unlock()
		if !readable && rerr == nil {
			h.l.line(line, "0 0 block -") // ReadSCTP would wait on the read notifier
			break
		}
		buf := make([]byte, int(u(3)))
		n, ppi, err := s.ReadSCTP(buf)
		hs := "-"
		if err == nil {
			hs = vRsmHash(buf[:n])
		}
		cls := vErrClass(err)
		if err == nil {
			cls = "ok"
		}
		if strings.HasPrefix(cls, "other:") {
			cls = "other"
		}
		h.l.line(line, fmt.Sprintf("%d %d %s %s", n, ppi, cls, hs))
	case "accept":
		select {
		case s := <-h.a.acceptCh:
			o := h.note(s)
			h.l.line(line, fmt.Sprintf("%d:%d", o.si, o.inc))
		default:
			h.l.line(line, "none")
		}
	case "open":
		s, err := h.a.OpenStream(uint16(u(2)), PayloadTypeWebRTCBinary)
		if err != nil || s == nil {
			h.l.line(line, "err")
			break
		}
		o := h.note(s)
		h.l.line(line, fmt.Sprintf("%d:%d", o.si, o.inc))
	case "gather":
		raws, ok := h.a.gatherOutbound()
		var parts []string
		for _, raw := range raws {
			parts = append(parts, vARPacketSummary(raw))
		}
		h.lastGather = parts
		if len(parts) == 0 {
			parts = []string{"nothing"}
		}
		h.l.line(line, fmt.Sprintf("%v %s", ok, strings.Join(parts, " ")))
	case "tick":
		time.Sleep(time.Duration(u(2)) * time.Millisecond)
		synctest.Wait()
		n := h.a.stats.getNumAckTimeouts()
		h.l.line(line, fmt.Sprintf("fired=%d", n-h.ackTO))
		h.ackTO = n
	case "setstate":
		h.a.lock.Lock()
		h.a.setState(u(2))
		h.a.lock.Unlock()
		h.l.line(line, "ok")
	default:
		t.Fatalf("ar: unknown op %v", op)
	}
	synctest.Wait()
	h.discover()
	h.logState()
}

func (h *vAR) do(f string, a ...any) { h.exec(strings.Fields(fmt.Sprintf(f, a...))) }

// ---- generator: the peer (sender) and the local application ---------------------------------------

type vARMsg struct {
	id        int
	si        uint16
	inc       int
	unordered bool
	key       uint32
	ppi       uint32
	frags     []*vARFrag
	abandoned bool
	pr        bool
}

type vARFrag struct {
	tsn    uint32
	m      *vARMsg
	idx    int
	ln     int
	seed   uint32
	acked  bool
	inNet  bool
	wasOut bool
}

type vARStream struct {
	si        uint16
	inc       int
	unordered bool
	pr        bool
	ssn       uint16
	midO      uint32
	midU      uint32
	msgs      []*vARMsg
	resetSent bool   // an outgoing reset request is in flight: no writes until the peer reports it performed
	resetRSN  uint32
	resetLast uint32
}

type vARPeer struct {
	h       *vAR
	r       *vrand
	il      bool
	base    uint32
	all     []*vARFrag // index = tsn - base
	net     []*vARFrag
	cumAck  uint32
	arwnd   uint32
	streams map[uint16]*vARStream
	nmsg    int
	frag    int
	rsn     uint32
	lastFwd uint32
}

func (p *vARPeer) nextTSN() uint32 { return p.base + uint32(len(p.all)) }

func (p *vARPeer) fragSpec(f *vARFrag) string {
	m := f.m
	fl := ""
	if m.unordered {
		fl += "U"
	}
	if f.idx == 0 {
		fl += "B"
	}
	if f.idx == len(m.frags)-1 {
		fl += "E"
	}
	if fl == "" {
		fl = "-"
	}
	fsn := 0
	if p.il {
		fsn = f.idx
	}
	return fmt.Sprintf("data %d %d %d %d %s %d %d %d", f.tsn, m.si, m.key, fsn, fl, m.ppi, f.ln, f.seed)
}

// write: a new message on stream si, cut like packetize, consecutive TSNs; each fragment enters the network or is lost
func (p *vARPeer) write(st *vARStream, size int, lossPct int) *vARMsg {
	// the Stream object that will receive it: the registered one, else the next one the association creates for this id
	inc := p.h.nInc[st.si]
	if s, ok := p.h.a.streams[st.si]; ok {
		inc = p.h.note(s).inc
	}
	m := &vARMsg{id: p.nmsg, si: st.si, inc: inc, unordered: st.unordered, ppi: uint32(1000 + p.nmsg), pr: st.pr}
	p.nmsg++
	switch {
	case p.il && st.unordered:
		m.key = st.midU
		st.midU++
	case p.il:
		m.key = st.midO
		st.midO++
	case st.unordered:
		m.key = uint32(st.ssn)
	default:
		m.key = uint32(st.ssn)
		st.ssn++
	}
	var whole []byte
	for off := 0; off < size; off += p.frag {
		ln := p.frag
		if size-off < ln {
			ln = size - off
		}
		f := &vARFrag{tsn: p.nextTSN(), m: m, idx: len(m.frags), ln: ln, seed: p.r.u32() % 100000}
		m.frags = append(m.frags, f)
		p.all = append(p.all, f)
		whole = append(whole, vRsmPayload(f.seed, ln)...)
	}
	ou := "o"
	if m.unordered {
		ou = "u"
	}
	p.h.do("ar msg %d %d %d %s %d %d %d %s", m.id, m.si, m.inc, ou, m.key, m.ppi, size, vRsmHash(whole))
	for _, f := range m.frags {
		if !p.r.chance(lossPct) {
			f.inNet, f.wasOut = true, true
			p.net = append(p.net, f)
		}
	}
	st.msgs = append(st.msgs, m)
	return m
}

func (p *vARPeer) fragAt(tsn uint32) *vARFrag {
	i := tsn - p.base
	if i < uint32(len(p.all)) {
		return p.all[i]
	}
	return nil
}

// onSack: the sender's view after a SACK reached it
func (p *vARPeer) onSack(s string) {
	f := strings.Split(s, ":")
	if len(f) < 5 || f[0] != "SACK" {
		return
	}
	cum := vAtoU32(p.h.t, f[1])
	if sna32GT(cum, p.cumAck) {
		for t := p.cumAck + 1; sna32LTE(t, cum); t++ {
			if fr := p.fragAt(t); fr != nil {
				fr.acked = true
			}
		}
		p.cumAck = cum
	}
	p.arwnd = vAtoU32(p.h.t, f[2])
	if f[3] != "none" {
		for _, g := range strings.Split(f[3], "+") {
			var a, b int
			if _, err := fmt.Sscanf(g, "%d-%d", &a, &b); err == nil {
				for d := a; d <= b; d++ {
					if fr := p.fragAt(cum + uint32(d)); fr != nil {
						fr.acked = true
					}
				}
			}
		}
	}
}

// forward: RFC 3758 C2-C4 on the sender's view: advance over abandoned chunks and describe the skipped messages
func (p *vARPeer) forward() (string, bool) {
	adv := p.cumAck
	if sna32GT(p.lastFwd, adv) {
		adv = p.lastFwd
	}
	for {
		f := p.fragAt(adv + 1)
		if f == nil || !(f.m.abandoned) {
			break
		}
		adv++
	}
	if adv == p.cumAck {
		return "", false
	}
	type k struct {
		si uint16
		u  bool
	}
	best := map[k]uint32{}
	var order []k
	for t := p.cumAck + 1; sna32LTE(t, adv); t++ {
		f := p.fragAt(t)
		if f == nil {
			continue
		}
		m := f.m
		if !p.il && m.unordered {
			continue
		}
		kk := k{m.si, m.unordered}
		old, ok := best[kk]
		if !ok {
			order = append(order, kk)
		}
		if !ok || (p.il && sna32LT(old, m.key)) || (!p.il && sna16LT(uint16(old), uint16(m.key))) {
			best[kk] = m.key
		}
	}
	var ents []string
	for _, kk := range order {
		if p.il {
			u := "o"
			if kk.u {
				u = "u"
			}
			ents = append(ents, fmt.Sprintf("%d/%s/%d", kk.si, u, best[kk]))
		} else {
			ents = append(ents, fmt.Sprintf("%d/%d", kk.si, best[kk]))
		}
	}
	es := "none"
	if len(ents) > 0 {
		es = strings.Join(ents, ",")
	}
	p.lastFwd = adv
	if p.il {
		return fmt.Sprintf("ifwd %d %s", adv, es), true
	}
	return fmt.Sprintf("fwd %d %s", adv, es), true
}

func (p *vARPeer) takeNet(i int, keep bool) *vARFrag {
	f := p.net[i]
	if !keep {
		p.net = append(p.net[:i], p.net[i+1:]...)
		f.inNet = false
	}
	return f
}

func (p *vARPeer) gather() {
	p.h.do("ar gather")
	for _, pk := range p.h.lastGather {
		for _, c := range strings.Split(pk, "&") {
			if strings.HasPrefix(c, "SACK:") && p.r.chance(85) {
				p.onSack(c)
			}
			var rsn, res uint32
			if n, _ := fmt.Sscanf(c, "RECONFIG:resp/%d/%d", &rsn, &res); n == 2 && res == uint32(reconfigResultSuccessPerformed) {
				for si := 1; si <= len(p.streams); si++ {
					st := p.streams[uint16(si)]
					if st.resetSent && st.resetRSN == rsn {
						// the stream may be used again: a new incarnation with sequence numbers from zero
						st.resetSent = false
						st.inc++
						st.ssn, st.midO, st.midU = 0, 0, 0
						st.msgs = nil
					}
				}
			}
		}
	}
	// a reset request still unanswered is retransmitted now and then
	for si := 1; si <= len(p.streams); si++ {
		if st := p.streams[uint16(si)]; st.resetSent && p.r.chance(25) {
			p.h.do("ar reset %d %d %d", st.resetRSN, st.resetLast, st.si)
			p.h.l.stat("ar.h.reset.rtx")
		}
	}
}

func vARSackOf(parts []string) string {
	for _, pk := range parts {
		for _, c := range strings.Split(pk, "&") {
			if strings.HasPrefix(c, "SACK:") {
				return c
			}
		}
	}
	return ""
}

func (h *vAR) readAll(l *vlog, buflen int) {
	for k := 0; k < 100000; k++ {
		progress := false
		for _, o := range append([]*vARObj(nil), h.objs...) {
			o.s.lock.Lock()
			readable := o.s.reassemblyQueue.isReadable()
			o.s.lock.Unlock()
			if readable {
				h.do("ar read %d:%d %d", o.si, o.inc, buflen)
				progress = true
			}
		}
		if !progress {
			return
		}
	}
}

func vARHonest(h *vAR, r *vrand, nops int, tsn uint32, il bool, pair int) {
	l := h.l
	rcv := r.pick(1500, 4096, 20000, 65536, 1<<20)
	maxEnt := r.pick(0, 0, 0, 64)
	ackMode := r.pick(0, 0, 0, 0, 1, 2)
	h.do("ar new %d %s %d %d %d 1 %d", rcv, vb(il), tsn, maxEnt, ackMode, pair)
	p := &vARPeer{h: h, r: r, il: il, base: tsn, cumAck: tsn - 1, lastFwd: tsn - 1, arwnd: uint32(rcv), streams: map[uint16]*vARStream{},
		frag: r.pick(1, 7, 100, 400, 1200), rsn: r.u32()}
	ns := 1 + r.n(4)
	for i := 0; i < ns; i++ {
		p.streams[uint16(i+1)] = &vARStream{si: uint16(i + 1), unordered: r.chance(30), pr: r.chance(50)}
	}
	loss := r.pick(0, 5, 20, 40)
	respectWindow := r.chance(70)
	reader := r.pick(0, 1, 1, 2) // 0 never reads, 1 reads sometimes, 2 reads eagerly
	dupPct := r.pick(0, 5, 25)
	outstanding := func() int {
		n := 0
		for t := p.cumAck + 1; sna32LT(t, p.nextTSN()); t++ {
			if f := p.fragAt(t); f != nil && !f.acked && f.wasOut && !f.m.abandoned {
				n += f.ln
			}
		}
		return n
	}
	for i := 0; i < nops; i++ {
		x := r.n(100)
		switch {
		case x < 18: // the peer's application writes
			st := p.streams[uint16(1+r.n(ns))]
			if st.resetSent {
				break
			}
			if respectWindow && outstanding() >= int(p.arwnd) {
				l.stat("ar.h.write.windowclosed")
				break
			}
			var size int
			switch y := r.n(10); {
			case y < 5:
				size = 1 + r.n(p.frag)
			case y < 8:
				size = 1 + r.n(4*p.frag)
			default:
				size = 1 + r.n(12*p.frag)
			}
			if size > rcv*3/4 {
				size = rcv * 3 / 4 // a message that does not fit the receive buffer can never be completed
			}
			if len(st.msgs) > 200 {
				break
			}
			p.write(st, size, loss)
			l.stat("ar.h.write")
		case x < 50: // the network delivers one packet (any order, sometimes twice)
			if len(p.net) == 0 {
				break
			}
			depth := r.pick(1, 1, 3, 8, len(p.net))
			if depth > len(p.net) {
				depth = len(p.net)
			}
			j := r.n(depth)
			dup := r.chance(dupPct)
			if dup {
				l.stat("ar.h.dup")
			}
			if j > 0 {
				l.stat("ar.h.reorder")
			}
			if r.chance(12) && len(p.net) >= 2 && !dup {
				// two or three chunks bundled in one packet
				k := 2 + r.n(2)
				var specs []string
				for c := 0; c < k && len(p.net) > 0; c++ {
					jj := 0
					if c == 0 {
						jj = j
					}
					specs = append(specs, p.fragSpec(p.takeNet(jj, false)))
				}
				h.do("ar pkt %s", strings.Join(specs, " | "))
				l.stat("ar.h.bundle")
			} else {
				h.do("ar %s", p.fragSpec(p.takeNet(j, dup)))
			}
			l.stat("ar.h.deliver")
		case x < 57: // retransmission of what the sender believes is outstanding
			n := 0
			for t := p.cumAck + 1; sna32LT(t, p.nextTSN()) && n < 4; t++ {
				f := p.fragAt(t)
				if f != nil && !f.acked && !f.inNet && !f.m.abandoned {
					f.inNet, f.wasOut = true, true
					p.net = append(p.net, f)
					n++
				}
			}
			if n > 0 {
				l.stat("ar.h.rtx")
			}
		case x < 69:
			p.gather()
			l.stat("ar.h.gather")
		case x < 81: // the local application reads
			if reader == 0 || len(h.objs) == 0 {
				break
			}
			o := h.objs[r.n(len(h.objs))]
			buflen := r.pick(65536, 65536, 65536, 10, 1+r.n(3000))
			h.do("ar read %d:%d %d", o.si, o.inc, buflen)
			l.stat("ar.h.read")
			if reader == 2 {
				h.readAll(l, 65536)
			}
		case x < 84:
			h.do("ar accept")
		case x < 90:
			h.do("ar tick %d", r.pick(1, 10, 50, 100, 150, 199, 200, 250))
			l.stat("ar.h.tick")
		case x < 95: // the sender gives a message up and tells the receiver to skip it
			var cands []*vARMsg
			for _, st := range p.streams {
				if !st.pr {
					continue
				}
				for _, m := range st.msgs {
					if m.abandoned {
						continue
					}
					done := true
					for _, f := range m.frags {
						if !f.acked {
							done = false
						}
					}
					if !done {
						cands = append(cands, m)
					}
				}
			}
			if len(cands) > 0 {
				sort.Slice(cands, func(a, b int) bool { return cands[a].id < cands[b].id })
				m := cands[r.n(len(cands))]
				m.abandoned = true
				h.do("ar abandon %d", m.id)
				// chunks of an abandoned message are no longer (re)transmitted
				var keep []*vARFrag
				for _, f := range p.net {
					if f.m == m && r.chance(70) {
						f.inNet = false
						continue
					}
					keep = append(keep, f)
				}
				p.net = keep
				l.stat("ar.h.abandon")
			}
			if spec, ok := p.forward(); ok && r.chance(80) {
				h.do("ar %s", spec)
				l.stat("ar.h.fwd")
			}
		case x < 97:
			h.do("ar hb %s", r.pickS("-", "00", "0102030405060708", "ffeeddccbbaa99887766554433221100aa"))
			l.stat("ar.h.hb")
		case x < 98:
			h.do("ar hback %d", r.pick(0, 1, 30, 500))
		default: // the peer closes a stream whose data is all acknowledged: outgoing SSN reset request
			var cands []*vARStream
			for si := 1; si <= ns; si++ {
				st := p.streams[uint16(si)]
				ok := len(st.msgs) > 0 && !st.resetSent
				for _, m := range st.msgs {
					for _, f := range m.frags {
						if !f.acked && !m.abandoned {
							ok = false
						}
					}
				}
				if ok {
					cands = append(cands, st)
				}
			}
			if len(cands) == 0 {
				break
			}
			st := cands[r.n(len(cands))]
			// an application that closes after reading everything; rarely the data is still unread (D13)
			unread := 0
			for _, o := range h.objs {
				if o.si == st.si {
					unread += h.heldBytes(o)
				}
			}
			if unread > 0 && !r.chance(10) {
				break
			}
			if unread > 0 {
				l.stat("ar.h.reset.unread")
			}
			st.resetSent, st.resetRSN, st.resetLast = true, p.rsn, p.nextTSN()-1
			h.do("ar reset %d %d %d", st.resetRSN, st.resetLast, st.si)
			p.rsn++
			l.stat("ar.h.reset")
		}
	}
	// drain: everything outstanding is retransmitted in order, abandoned messages are skipped, everything is read
	pending := true
	for round := 0; round < 50; round++ {
		p.net = nil
		if spec, ok := p.forward(); ok {
			h.do("ar %s", spec)
		}
		sent := 0
		for t := p.cumAck + 1; sna32LT(t, p.nextTSN()) && sent < 200; t++ {
			f := p.fragAt(t)
			if f != nil && !f.acked && !f.m.abandoned {
				h.do("ar %s", p.fragSpec(f))
				sent++
				if sent%8 == 0 {
					h.readAll(l, 65536)
				}
			}
		}
		h.readAll(l, 65536)
		h.do("ar tick 200")
		h.do("ar gather")
		if s := vARSackOf(h.lastGather); s != "" {
			p.onSack(s)
		}
		pending = false
		for t := p.cumAck + 1; sna32LT(t, p.nextTSN()); t++ {
			if f := p.fragAt(t); f != nil && !f.acked {
				pending = true
			}
		}
		if !pending {
			break
		}
	}
	h.readAll(l, 65536)
	if pending {
		l.stat("ar.h.notdrained")
	} else {
		h.do("ar drained")
	}
	h.do("ar gather")
}

// vARHostile: a sender that ignores every rule.
func vARHostile(h *vAR, r *vrand, nops int, tsn uint32, il bool, pair int) {
	l := h.l
	rcv := r.pick(1500, 1500, 4096, 20000)
	maxEnt := r.pick(0, 0, 8)
	pr := r.pick(1, 1, 1, 0)
	h.do("ar new %d %s %d %d %d %d %d", rcv, vb(il), tsn, maxEnt, r.pick(0, 0, 1, 2), pr, pair)
	maxOff := h.a.payloadQueue.maxTSNOffset
	kind := "D"
	wrong := "I"
	if il {
		kind, wrong = "I", "D"
	}
	reads := r.chance(50)
	aborted := false
	for i := 0; i < nops && !aborted; i++ {
		q := h.a.payloadQueue
		cum := q.getcumulativeTSN()
		tail := q.tailTSN
		var t uint32
		switch y := r.n(20); {
		case y < 6:
			t = cum + 1 + uint32(r.n(3))
		case y < 10:
			t = cum + 1 + uint32(r.n(40))
		case y < 12:
			t = tail + 1 + uint32(r.n(5)) // above everything received
		case y < 14:
			t = cum - uint32(r.n(5)) // at or below the cumulative point
		case y < 16:
			t = cum + maxOff + uint32(r.n(3)) - 1 // the edge of the tracking window
		case y < 17:
			t = cum + maxOff + 1 + uint32(r.n(100000))
		case y < 18:
			t = cum + 1<<31 + uint32(r.n(3)) - 1
		default:
			t = tail - uint32(r.n(10)) // around the highest TSN received (often a duplicate)
		}
		x := r.n(100)
		if st := h.a.getState(); st != established && st != shutdownSent && r.chance(25) {
			h.do("ar setstate 3") // do not stay for long in a state that ignores DATA
		}
		rawPhase := i >= nops*85/100 // packets the model cannot follow come last, so that the model is compared for most of the run
		if rawPhase && r.chance(30) {
			x = 99
		} else if x >= 96 && !rawPhase {
			x = r.n(55)
		}
		if x >= 55 && x < 60 && !r.chance(12) {
			x = r.n(55) // chunks that provoke an ABORT end the sequence: keep them rare
		}
		si := r.pick(1, 1, 2, 3, 1+r.n(40))
		fl := r.pickS("BE", "BE", "BE", "B", "E", "-", "UBE", "UB", "U", "UE", "BES")
		ln := r.pick(1, 10, 100, 500, 1200)
		switch {
		case x < 55:
			h.do("ar data %d %d %d %d %s %d %d %d %s", t, si, r.n(30), r.n(6), fl, 50+r.n(5), ln, r.n(1000), kind)
			l.stat("ar.x.data")
			if h.a.getMyReceiverWindowCredit() == 0 {
				l.stat("ar.x.zerowindow.steps")
			}
		case x < 58:
			h.do("ar data %d %d %d 0 BE 51 0 0 %s", t, si, r.n(30), kind) // no user data
			l.stat("ar.x.zerolen")
		case x < 60:
			h.do("ar data %d %d %d 0 BE 51 %d 1 %s", t, si, r.n(30), ln, wrong)
			l.stat("ar.x.wrongkind")
		case x < 66: // FORWARD-TSN: behind, at, just ahead, beyond the tail, far away; unknown streams
			var c uint32
			switch r.n(6) {
			case 0:
				c = cum - uint32(r.n(4))
				l.stat("ar.x.fwd.stale")
			case 1:
				c = cum + 1 + uint32(r.n(5))
			case 2:
				c = tail + uint32(r.n(3))
			case 3:
				c = cum + maxOff + uint32(r.n(50))
			case 4:
				c = cum + 1<<31 - 1 - uint32(r.n(2))
			default:
				c = cum + 1<<31 + uint32(r.n(2))
			}
			n := r.n(4)
			var ents []string
			for k := 0; k < n; k++ {
				if il {
					ents = append(ents, fmt.Sprintf("%d/%s/%d", r.pick(1, 2, 3, 1+r.n(60)), r.pickS("o", "u"), r.n(30)))
				} else {
					ents = append(ents, fmt.Sprintf("%d/%d", r.pick(1, 2, 3, 1+r.n(60)), r.n(30)))
				}
			}
			es := "none"
			if n > 0 {
				es = strings.Join(ents, ",")
			}
			w := il
			if r.chance(10) {
				w = !w // the FORWARD-TSN kind that was not negotiated
				l.stat("ar.x.fwd.wrongkind")
			}
			if w != il {
				// entries in the other kind's syntax
				es = "none"
			}
			if w {
				h.do("ar ifwd %d %s", c, es)
			} else {
				h.do("ar fwd %d %s", c, es)
			}
			l.stat("ar.x.fwd")
		case x < 74:
			h.do("ar gather")
			l.stat("ar.x.gather")
			for _, pk := range h.lastGather {
				if strings.HasPrefix(pk, "ABORT") {
					aborted = true // the write loop would close the association after sending this
					l.stat("ar.x.aborted")
				}
			}
		case x < 80:
			if reads && len(h.objs) > 0 {
				o := h.objs[r.n(len(h.objs))]
				h.do("ar read %d:%d %d", o.si, o.inc, r.pick(65536, 65536, 5))
			}
		case x < 82:
			h.do("ar accept")
		case x < 86:
			h.do("ar tick %d", r.pick(1, 50, 100, 199, 200, 300))
		case x < 88:
			h.do("ar hb %s", r.pickS("-", "00", "0102030405060708"))
		case x < 90:
			h.do("ar hback %s", r.pickS("5", "0", "-5", "x", "x00", "xffffffffffffffff", "x0000000000000000", "x010203"))
		case x < 92:
			h.do("ar reset %d %d %s", r.n(5), cum+uint32(r.n(6))-2, r.pickS("none", "1", "1,2", "77"))
			l.stat("ar.x.reset")
		case x < 94:
			h.do("ar setstate %d", r.pick(3, 3, 5, 7, 7, 6, 4, 1, 0))
			l.stat("ar.x.setstate")
		case x < 96:
			h.do("ar open %d", r.pick(1, 2, 50))
		default:
			// raw bytes: a valid packet mutated (CRC repaired most of the time), or noise
			var raw []byte
			switch r.n(4) {
			case 0:
				raw = make([]byte, r.n(40))
				for k := range raw {
					raw[k] = byte(r.u64())
				}
			default:
				c := &chunkPayloadData{tsn: t, streamIdentifier: uint16(si), beginningFragment: true, endingFragment: true,
					userData: vRsmPayload(7, 1+r.n(20)), iData: il, payloadType: 51}
				raw = h.packetOf(c)
				switch r.n(5) {
				case 0: // chunk length field too short / too long
					binary.BigEndian.PutUint16(raw[14:], uint16(r.pick(0, 3, 4, 15, 16, 17, 2000)))
				case 1:
					raw = raw[:12+r.n(len(raw)-12)]
				case 2:
					raw[12] = byte(r.pick(0, 64, 192, 255, 130, 6, 9)) // another chunk type over the same bytes
				case 3:
					raw[r.n(len(raw))] ^= byte(1 << r.n(8))
				default:
					raw[0], raw[1] = 0, 0 // source port zero
				}
				if r.chance(85) && len(raw) >= 12 {
					vFixCRC(raw)
				}
			}
			if len(raw) == 0 {
				raw = []byte{0}
			}
			h.do("ar raw %s", hex.EncodeToString(raw))
			l.stat("ar.x.raw")
		}
	}
	if !aborted && r.chance(80) {
		// the sequence ends with a chunk that must be answered with an ABORT
		if st := h.a.getState(); !isDataReceiveState(st) {
			h.do("ar setstate 3")
		}
		cum := h.a.payloadQueue.getcumulativeTSN()
		if r.chance(35) {
			h.do("ar data %d 1 0 0 BE 51 0 0 %s", cum+1, kind)
			l.stat("ar.x.zerolen")
		} else {
			h.do("ar data %d 1 0 0 BE 51 10 1 %s", cum+1, wrong)
			l.stat("ar.x.wrongkind")
		}
	}
	h.do("ar gather")
}

func vARGenerate(h *vAR, r *vrand, nseq, nops int) {
	var saved vrand
	for s := 0; s < 2*nseq; s++ {
		// every sequence is run twice with the same random choices: peer initial TSN in the middle of the number
		// space (pair 0) and just below 2^32 (pair 1); the driver compares the two logs after normalising TSNs
		pair := s % 2
		if pair == 0 {
			saved = *r
		} else {
			*r = saved
		}
		il := r.chance(40)
		tsn := uint32(0) - uint32(r.n(120)) - 1
		if pair == 0 {
			tsn += 1 << 31
		}
		if r.chance(60) {
			h.l.stat("ar.seq.honest")
			vARHonest(h, r, nops, tsn, il, pair)
		} else {
			h.l.stat("ar.seq.hostile")
			vARHostile(h, r, nops, tsn, il, pair)
		}
	}
}

func TestVerifAssocReceiver(t *testing.T) {
	l := vOpenLog(t)
	defer l.close()
	old := globalMathRandomGenerator
	defer func() { globalMathRandomGenerator = old }()
	globalMathRandomGenerator = &vRandGen{r: &vrand{s: 5}}
	synctest.Test(t, func(t *testing.T) {
		h := &vAR{t: t, l: l}
		defer h.closeAssoc()
		if ops := vReadOps(t); ops != nil {
			for _, op := range ops {
				if op[0] == "ar" && op[1] != "st" && (h.a != nil || op[1] == "new") {
					h.exec(op)
				}
			}
			return
		}
		r := &vrand{s: uint64(vEnvInt("VERIF_SEED", 1))*0x9E3779B1 + 29}
		vARGenerate(h, r, vEnvInt("VERIF_N", 40), vEnvInt("VERIF_OPS", 150))
	})
}
